#!/bin/bash
# usage: run.sh <property-id|all> <quick|thorough> [--only RULE]
# Analyses /repo's current working tree (never a snapshot), writes evidence/<id>.json.
cd "$(dirname "$0")"
. ./env.sh
PROP="$1"; TIER="${2:-quick}"; shift; shift
REPO="${VERIF_REPO:-/repo}"
if [ ! -x bin/grolcheck ] || [ -n "$(find checker -name '*.go' -newer bin/grolcheck 2>/dev/null | head -1)" ]; then
  ./setup.sh >/dev/null || { echo "UNDECIDED property=$PROP checker build failed"; exit 2; }
fi
ONLY=""
if [ "$1" = "--only" ]; then ONLY="$2"; fi
exec bin/grolcheck -prop "$PROP" -tier "$TIER" -repo "$REPO" -verif "$(pwd)" -only "$ONLY"
