#!/bin/bash
# usage: run.sh <property-id|all> <quick|thorough> [--only RULE]
# Analyses /repo's current working tree (never a snapshot), writes evidence/<id>.json.
# VERIF_REPO / VERIF_OUT redirect the analysed tree / the output directory (used only by the
# mutation self-test and by tools/mutant.sh on scratch copies).
cd "$(dirname "$0")"
HERE="$(pwd)"
. ./env.sh
PROP="$1"; TIER="${2:-quick}"; shift; shift
REPO="${VERIF_REPO:-/repo}"
OUT="${VERIF_OUT:-$HERE}"
if [ ! -x bin/grolcheck ] || [ -n "$(find checker -name '*.go' -newer bin/grolcheck 2>/dev/null | head -1)" ]; then
  ./setup.sh >/dev/null || { echo "UNDECIDED property=$PROP checker build failed"; exit 2; }
fi
ONLY=""
if [ "$1" = "--only" ]; then ONLY="$2"; fi
exec bin/grolcheck -prop "$PROP" -tier "$TIER" -repo "$REPO" -verif "$OUT" -known "$HERE/known_findings.json" -only "$ONLY"
