#!/bin/bash
# Builds the checker from files on disk only (offline).
set -e
cd "$(dirname "$0")"
. ./env.sh
mkdir -p bin evidence replay
cd checker
go build -o ../bin/grolcheck .
echo "built /verif/bin/grolcheck with $(go version)"
