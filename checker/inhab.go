package main

// inhab: interface-inhabitant inventory. For the module's core interfaces (object.Object,
// ast.Node, object.Map, object.Array) compare the concrete forms producers box into the
// interface (T vs *T) with the forms consumers match in type assertions / type switches.
// A producer boxing *T while every consumer matches T (or the reverse) is a belief
// contradiction: the value falls through every arm ("not supported", panics, nil derefs).

import (
	"go/types"
	"sort"

	"golang.org/x/tools/go/ssa"
)

type inhabSite struct {
	Fn   *ssa.Function
	At   ssa.Instruction
	Form string // "T" or "*T"
}

type Inhab struct {
	Produced map[string]map[string][]inhabSite // base type name -> form -> sites
	Consumed map[string]map[string]int         // base type name -> form -> count
	NilAs    map[string][]inhabSite            // interface name -> sites returning an untyped nil as that interface from a converter
}

func baseAndForm(t types.Type) (string, string, bool) {
	form := "T"
	if p, ok := t.(*types.Pointer); ok {
		t = p.Elem()
		form = "*T"
	}
	n, ok := t.(*types.Named)
	if !ok || !isModulePkg(n.Obj().Pkg()) {
		return "", "", false
	}
	if _, isIface := n.Underlying().(*types.Interface); isIface {
		return "", "", false
	}
	return shortPkg(n.Obj().Pkg()) + "." + n.Obj().Name(), form, true
}

func (c *Ctx) Inhabitants() *Inhab {
	ih := &Inhab{Produced: map[string]map[string][]inhabSite{}, Consumed: map[string]map[string]int{}}
	objT := c.TypeNamed("object", "Object").Underlying().(*types.Interface)
	nodeT := c.TypeNamed("ast", "Node").Underlying().(*types.Interface)
	relevant := func(t types.Type) bool {
		// concrete type (or pointer to it) that implements Object or Node in at least one form
		base := t
		if p, ok := t.(*types.Pointer); ok {
			base = p.Elem()
		}
		return types.Implements(t, objT) || types.Implements(t, nodeT) || types.Implements(types.NewPointer(base), objT) || types.Implements(types.NewPointer(base), nodeT)
	}
	for _, fn := range c.ModuleSSAFuncs() {
		eachInstr(fn, func(in ssa.Instruction) {
			switch x := in.(type) {
			case *ssa.MakeInterface:
				base, form, ok := baseAndForm(x.X.Type())
				if !ok || !relevant(x.X.Type()) {
					return
				}
				// boxing into `any` for logging/formatting is not production of a language value
				if it, isI := x.Type().Underlying().(*types.Interface); isI && it.NumMethods() == 0 {
					return
				}
				if ih.Produced[base] == nil {
					ih.Produced[base] = map[string][]inhabSite{}
				}
				ih.Produced[base][form] = append(ih.Produced[base][form], inhabSite{fn, in, form})
			case *ssa.TypeAssert:
				base, form, ok := baseAndForm(x.AssertedType)
				if !ok {
					return
				}
				if ih.Consumed[base] == nil {
					ih.Consumed[base] = map[string]int{}
				}
				ih.Consumed[base][form]++
			}
		})
	}
	return ih
}

type inhabContradiction struct {
	Base string
	Site inhabSite
	Why  string
}

func (ih *Inhab) Contradictions() []inhabContradiction {
	var res []inhabContradiction
	var bases []string
	for b := range ih.Produced {
		bases = append(bases, b)
	}
	sort.Strings(bases)
	for _, b := range bases {
		cons := ih.Consumed[b]
		if len(cons) == 0 {
			continue // never matched by type: only used through interface methods
		}
		for form, sites := range ih.Produced[b] {
			if cons[form] > 0 {
				continue
			}
			other := "T"
			if form == "T" {
				other = "*T"
			}
			for _, s := range sites {
				res = append(res, inhabContradiction{Base: b, Site: s,
					Why: "boxes " + formName(b, form) + " into an interface, but every type assertion / switch arm in the module matches " + formName(b, other) + ": the value falls through all of them"})
			}
		}
	}
	return res
}

func formName(base, form string) string {
	if form == "*T" {
		return "*" + base
	}
	return base
}
