package main

import (
	"fmt"
	"go/token"
	"go/types"
	"regexp"
	"sort"
	"strings"

	"golang.org/x/tools/go/ssa"
)

var plainGrName = regexp.MustCompile(`^[A-Za-z0-9_]*\.gr$`)

// fsPathCalls lists calls in fn to path-taking file-system / process primitives.
func fsPathCalls(fn *ssa.Function) []*ssa.Call {
	var res []*ssa.Call
	eachInstr(fn, func(in ssa.Instruction) {
		call, ok := in.(*ssa.Call)
		if !ok {
			return
		}
		obj := calleeObj(call)
		if isOSFunc(obj, osMutators) || isOSFunc(obj, osReaders) || (obj != nil && obj.Pkg() != nil && obj.Pkg().Path() == "os" && (obj.Name() == "Chdir")) {
			res = append(res, call)
		}
	})
	return res
}

// callbackReach: module functions reachable from an extension callback through static calls
// and interface invokes, not re-entering the interpreter's evaluation entry points.
func (c *Ctx) callbackReach(cb *ssa.Function) map[*ssa.Function]bool {
	evalString := c.SSAFn(c.Fn("eval", "EvalString"))
	stateEval := c.SSAFn(c.Fn("eval", "State.Eval"))
	return c.CG().Reach([]*ssa.Function{cb}, staticOrInvoke, func(f *ssa.Function) bool {
		return !isModuleSSA(f) || f == evalString || f == stateEval
	})
}

func runC17(c *Ctx, r *Report) {
	r.Rule("C17.R1", "every file-system/process primitive reachable from an extension callback registered outside a c.UnrestrictedIOs guard has a path operand that is the constant \"grol.png\" or the first result of sanitizeFileName on its err==nil edge")
	r.Rule("C17.R2", "sanitizeFileName: each non-error return yields a constant plain .gr name, or lies on the unrestrictedIOs true edge, or returns validated+GrolFileExtension where 'validated' passed a full-range byte loop whose failing exit only reaches error returns and whose predicate accepts a subset of [A-Za-z0-9_] (evaluated on all 256 bytes); in emptyOnly mode a non-empty argument never reaches a success return")
	r.Rule("C17.R3", "registrations whose callback reaches a process primitive are guarded by c.UnrestrictedIOs; those reaching a file write with a sanitised name by c.HasSave; those reaching a file read with a sanitised name by c.HasLoad")
	r.Rule("C17.R4", "the restriction flags are written only in initInternal, each from the matching Config field; Init(nil) uses a zero Config; main maps -restrict-io/-empty-only/-no-load-save to the Config with the right polarity")
	r.Rule("C17.R5", "no file-system/process primitive is called from the interpreter core packages (eval, object, ast, parser, lexer, token, trie)")

	sanit := c.Fn("extensions", "sanitizeFileName")
	sanitFn := c.SSAFn(sanit)
	regs := c.ExtReg()
	if len(regs) == 0 {
		r.Undecided("no extension registrations found")
	}
	nReg := 0
	for _, reg := range regs {
		name := reg.Key()
		if len(reg.Unknown) > 0 {
			r.Undecided("registration at %s not resolved: %v", c.Pos(reg.Site.Pos()), reg.Unknown)
			continue
		}
		nReg++
		unrestricted := hasGuard(reg, "UnrestrictedIOs")
		reach := c.callbackReach(reg.Callback)
		var procCalls, writeCalls, readCalls int
		viol := false
		for _, f := range sortedFuncs(reach) {
			for _, call := range fsPathCalls(f) {
				obj := calleeObj(call)
				desc := fmt.Sprintf("extension %s: %s in %s", name, obj.FullName(), ssaFuncName(f))
				if obj.Pkg().Path() == "os/exec" || obj.Name() == "StartProcess" {
					procCalls++
				}
				if unrestricted {
					continue
				}
				args := call.Common().Args
				if len(args) == 0 {
					continue
				}
				ok, why := c.confinedPath(args[0], call, sanit)
				if ok && why == "sanitized" {
					if isOSFunc(obj, osMutators) {
						writeCalls++
					} else {
						readCalls++
					}
				}
				if !r.Check(ok, "C17.R1", ssaFuncName(f), desc, c.Pos(call.Pos()), "path operand of a file-system primitive reachable with restricted IO is neither the constant grol.png nor a sanitised name: "+why) {
					viol = true
				}
			}
		}
		if !unrestricted && !viol {
			r.Ok("C17.R1", ssaFuncName(reg.Callback), fmt.Sprintf("extension %s: reach of %d functions confined", name, len(reach)), c.Pos(reg.Site.Pos()))
		}
		// R3
		if procCalls > 0 {
			r.Check(unrestricted, "C17.R3", ssaFuncName(reg.In), "registration of "+name+" (process execution)", c.Pos(reg.Site.Pos()), "process-execution extension registered outside the c.UnrestrictedIOs guard")
		}
		if writeCalls > 0 {
			r.Check(hasGuard(reg, "HasSave") || unrestricted, "C17.R3", ssaFuncName(reg.In), "registration of "+name+" (file write)", c.Pos(reg.Site.Pos()), "file-writing extension registered outside the c.HasSave guard")
		}
		if readCalls > 0 {
			r.Check(hasGuard(reg, "HasLoad") || unrestricted, "C17.R3", ssaFuncName(reg.In), "registration of "+name+" (file read)", c.Pos(reg.Site.Pos()), "file-reading extension registered outside the c.HasLoad guard")
		}
	}
	r.Note("registrations resolved: %d sites", nReg)
	r.Floor("C17.R1", 45)
	r.Floor("C17.R3", 2)

	c.checkSanitizer(r, sanitFn)
	c.checkIOFlags(r)

	// R5 core packages
	for _, fn := range c.ModuleSSAFuncs() {
		top := fn
		for top.Parent() != nil {
			top = top.Parent()
		}
		var pk string
		if top.Pkg != nil {
			pk = shortPkg(top.Pkg.Pkg)
		}
		switch pk {
		case "eval", "object", "ast", "parser", "lexer", "token", "trie":
		default:
			continue
		}
		calls := fsPathCalls(fn)
		for _, call := range calls {
			r.Fail("C17.R5", ssaFuncName(fn), "call "+calleeObj(call).FullName(), c.Pos(call.Pos()), "file-system primitive inside the interpreter core: reachable from program text without the sanitiser")
		}
		if len(calls) == 0 {
			r.Ok("C17.R5", ssaFuncName(fn), "no file-system primitive", c.Pos(fn.Pos()))
		}
	}
	r.Floor("C17.R5", 200)
}

// confinedPath decides whether a path operand is acceptable with restricted IO.
func (c *Ctx) confinedPath(v ssa.Value, at *ssa.Call, sanit *types.Func) (bool, string) {
	if s, ok := constString(v); ok {
		if s == "grol.png" {
			return true, "const"
		}
		return false, fmt.Sprintf("constant %q", s)
	}
	if ex, ok := v.(*ssa.Extract); ok && ex.Index == 0 {
		if call, ok := ex.Tuple.(*ssa.Call); ok && isCallTo(call, sanit) {
			if guardedByNil(errResult(call), at.Block()) {
				return true, "sanitized"
			}
			return false, "sanitizeFileName result used without its err==nil guard"
		}
	}
	return false, "value " + v.String() + " (" + v.Name() + ")"
}

type sanState struct {
	emptyOnly int // 0 unknown, 1 true, 2 false
	fileEmpty int
}

func (c *Ctx) checkSanitizer(r *Report, fn *ssa.Function) {
	fname := ssaFuncName(fn)
	unrestrictedVar := c.Var("extensions", "unrestrictedIOs")
	emptyOnlyVar := c.Var("extensions", "emptyOnly")
	ext := constantString(c.Const("extensions", "GrolFileExtension"))
	r.Check(ext == ".gr", "C17.R2", fname, "GrolFileExtension", c.Pos(fn.Pos()), "file extension constant is not \".gr\": "+ext)

	isLoadOf := func(v ssa.Value, g *types.Var) bool {
		u, ok := v.(*ssa.UnOp)
		if !ok || u.Op != token.MUL {
			return false
		}
		gl, ok := u.X.(*ssa.Global)
		return ok && gl.Object() == g
	}
	// the file argument: args[0].(object.String).Value
	var fileVal ssa.Value
	eachInstr(fn, func(in ssa.Instruction) {
		if f, ok := in.(*ssa.Field); ok {
			if ta, ok := f.X.(*ssa.TypeAssert); ok {
				if ld, ok := ta.X.(*ssa.UnOp); ok {
					if ia, ok := ld.X.(*ssa.IndexAddr); ok {
						if _, ok := ia.X.(*ssa.Parameter); ok && fileVal == nil {
							fileVal = f
						}
					}
				}
			}
		}
	})
	if fileVal == nil {
		r.Undecided("sanitizeFileName: cannot identify the file-name argument value")
		return
	}
	// success returns
	nSucc := 0
	for _, b := range fn.Blocks {
		ret, ok := b.Instrs[len(b.Instrs)-1].(*ssa.Return)
		if !ok || len(ret.Results) != 2 {
			continue
		}
		if !isNilConst(ret.Results[1]) {
			continue // error return
		}
		nSucc++
		v := ret.Results[0]
		pos := c.Pos(instrPos(ret))
		if s, ok := constString(v); ok {
			r.Check(plainGrName.MatchString(s), "C17.R2", fname, fmt.Sprintf("success return of constant %q", s), pos, "constant file name is not a plain .gr name")
			continue
		}
		// on the unrestricted edge?
		onUnrestricted := false
		for _, ib := range fn.Blocks {
			if ifi, ok := ib.Instrs[len(ib.Instrs)-1].(*ssa.If); ok && isLoadOf(ifi.Cond, unrestrictedVar) && onEdge(ib, 0, b) {
				onUnrestricted = true
			}
		}
		if onUnrestricted {
			r.Ok("C17.R2", fname, "success return on the unrestrictedIOs true edge", pos)
		} else {
			ok, why := c.validatedConcat(fn, v, ext, b)
			if !ok && strings.HasPrefix(why, "cannot constant-fold") {
				// the validating predicate is written in a form the folder does not evaluate: no verdict
				r.Undecided("C17.R2: %s (the accepted byte set of the validating predicate could not be computed)", why)
			} else {
				r.Check(ok, "C17.R2", fname, "success return of validated name + extension", pos, why)
			}
		}
		kind := "validated"
		if onUnrestricted {
			kind = "unrestricted"
		}
		// emptyOnly clause: path search
		if bad := sanEmptyOnlyPath(fn, b, fileVal, func(v ssa.Value) bool { return isLoadOf(v, emptyOnlyVar) }); bad != "" {
			r.Fail("C17.R2", fname, "emptyOnly mode rejects non-empty names before the "+kind+" success return", pos, "a success return is reachable with emptyOnly set and a non-empty file name: "+bad)
		} else {
			r.Ok("C17.R2", fname, "emptyOnly mode rejects non-empty names before the "+kind+" success return", pos)
		}
	}
	if nSucc < 2 {
		r.Undecided("sanitizeFileName: found %d success returns, expected at least 2", nSucc)
	}
	r.Floor("C17.R2", 6)
}

// sanEmptyOnlyPath searches for a path entry -> target with emptyOnly==true and file != "".
func sanEmptyOnlyPath(fn *ssa.Function, target *ssa.BasicBlock, file ssa.Value, isEmptyOnlyLoad func(ssa.Value) bool) string {
	type key struct {
		b *ssa.BasicBlock
		s sanState
	}
	seen := map[key]bool{}
	sawEmptyOnlyTest := false
	var found string
	var walk func(b *ssa.BasicBlock, s sanState, trail []int)
	walk = func(b *ssa.BasicBlock, s sanState, trail []int) {
		if found != "" || seen[key{b, s}] {
			return
		}
		seen[key{b, s}] = true
		trail = append(trail, b.Index)
		if b == target {
			if s.emptyOnly != 2 && s.fileEmpty != 1 {
				found = fmt.Sprintf("blocks %v (emptyOnly=%s, name empty=%s)", trail, tri(s.emptyOnly), tri(s.fileEmpty))
			}
			return
		}
		last := b.Instrs[len(b.Instrs)-1]
		ifi, ok := last.(*ssa.If)
		if !ok {
			for _, su := range b.Succs {
				walk(su, s, trail)
			}
			return
		}
		st, sf := s, s
		switch {
		case isEmptyOnlyLoad(ifi.Cond):
			sawEmptyOnlyTest = true
			st.emptyOnly, sf.emptyOnly = 1, 2
		default:
			if bin, ok := ifi.Cond.(*ssa.BinOp); ok {
				isFileCmp := false
				if (bin.X == file && isEmptyString(bin.Y)) || (bin.Y == file && isEmptyString(bin.X)) {
					isFileCmp = true
				}
				if call, ok := bin.X.(*ssa.Call); ok {
					if bi, ok := call.Common().Value.(*ssa.Builtin); ok && bi.Name() == "len" && call.Common().Args[0] == file {
						if z, ok := constInt(bin.Y); ok && z == 0 {
							isFileCmp = true
						}
					}
				}
				if isFileCmp {
					switch bin.Op {
					case token.NEQ, token.GTR:
						st.fileEmpty, sf.fileEmpty = 2, 1
					case token.EQL:
						st.fileEmpty, sf.fileEmpty = 1, 2
					}
				}
			}
		}
		// contradictory refinements prune the path
		if !(s.emptyOnly != 0 && st.emptyOnly != s.emptyOnly) && !(s.fileEmpty != 0 && st.fileEmpty != s.fileEmpty) {
			walk(b.Succs[0], st, trail)
		}
		if !(s.emptyOnly != 0 && sf.emptyOnly != s.emptyOnly) && !(s.fileEmpty != 0 && sf.fileEmpty != s.fileEmpty) {
			walk(b.Succs[1], sf, trail)
		}
	}
	walk(fn.Blocks[0], sanState{}, nil)
	_ = sawEmptyOnlyTest
	return found
}

func tri(i int) string { return [...]string{"unknown", "true", "false"}[i] }

func isEmptyString(v ssa.Value) bool {
	s, ok := constString(v)
	return ok && s == ""
}

// validatedConcat: v == validated + ext, where validated went through a full byte loop.
func (c *Ctx) validatedConcat(fn *ssa.Function, v ssa.Value, ext string, retBlock *ssa.BasicBlock) (bool, string) {
	bin, ok := v.(*ssa.BinOp)
	if !ok || bin.Op != token.ADD {
		return false, "returned name is not <validated> + extension: " + v.String()
	}
	if s, ok := constString(bin.Y); !ok || s != ext {
		return false, "the appended suffix is not the .gr extension constant"
	}
	val := bin.X
	// find the predicate call on an element of []byte(val)
	for _, b := range fn.Blocks {
		for _, in := range b.Instrs {
			call, ok := in.(*ssa.Call)
			if !ok || len(call.Common().Args) != 1 {
				continue
			}
			pred := calleeObj(call)
			if pred == nil || !isModulePkg(pred.Pkg()) {
				continue
			}
			// the element: ([]byte(val))[i] (range over the converted slice) or val[i] (indexing the string)
			var seq, index ssa.Value
			switch a := call.Common().Args[0].(type) {
			case *ssa.UnOp:
				if ia, ok := a.X.(*ssa.IndexAddr); ok && a.Op == token.MUL {
					if conv, ok := ia.X.(*ssa.Convert); ok && conv.X == val {
						seq, index = conv, ia.Index
					}
				}
			case *ssa.Index:
				if _, isStr := a.X.Type().Underlying().(*types.Basic); isStr && a.X == val {
					seq, index = val, a.Index
				}
			case *ssa.Lookup:
				if _, isStr := a.X.Type().Underlying().(*types.Basic); isStr && a.X == val && !a.CommaOk {
					seq, index = val, a.Index
				}
			}
			if seq == nil {
				continue
			}
			// full range?
			hdr, ok := fullRangeIndex(index, seq)
			if !ok {
				return false, "the validating loop does not visit every byte of the name (index is not a full 0..len-1 range)"
			}
			// the If on the predicate
			var ifi *ssa.If
			for _, ref := range *call.Referrers() {
				if x, ok := ref.(*ssa.If); ok {
					ifi = x
				}
			}
			if ifi == nil || ifi.Cond != call {
				return false, "predicate result is not branched on directly"
			}
			// failing edge (false) must only reach error returns, without re-entering the loop header
			if bad := reachesSuccessReturn(ifi.Block().Succs[1], hdr); bad != nil {
				return false, fmt.Sprintf("a byte rejected by %s can still reach a success return (block %d)", pred.Name(), bad.Index)
			}
			// the success return must be dominated by the loop header and leave it through the loop's own exit
			if !hdr.Dominates(retBlock) {
				return false, "the success return is reachable without running the validating loop"
			}
			// accepted set
			set, ok := c.ByteSet(pred)
			if !ok {
				return false, "cannot constant-fold predicate " + pred.FullName()
			}
			var extra []string
			for b := 0; b < 256; b++ {
				ch := byte(b)
				allowed := ch == '_' || (ch >= '0' && ch <= '9') || (ch >= 'a' && ch <= 'z') || (ch >= 'A' && ch <= 'Z')
				if set[b] && !allowed {
					extra = append(extra, fmt.Sprintf("%q", rune(b)))
				}
			}
			if len(extra) > 0 {
				sort.Strings(extra)
				return false, fmt.Sprintf("predicate %s accepts bytes outside [A-Za-z0-9_]: %s", pred.Name(), strings.Join(extra, " "))
			}
			return true, ""
		}
	}
	return false, "no byte-validation loop over the returned name found"
}

// fullRangeIndex recognises the index of a loop visiting 0..len(s)-1 and returns the loop header.
func fullRangeIndex(idx ssa.Value, s ssa.Value) (*ssa.BasicBlock, bool) {
	isLenOf := func(v ssa.Value) bool {
		call, ok := v.(*ssa.Call)
		if !ok {
			return false
		}
		bi, ok := call.Common().Value.(*ssa.Builtin)
		return ok && bi.Name() == "len" && len(call.Common().Args) == 1 && call.Common().Args[0] == s
	}
	guarded := func(ix ssa.Value, hdr *ssa.BasicBlock) bool {
		ifi, ok := hdr.Instrs[len(hdr.Instrs)-1].(*ssa.If)
		if !ok {
			return false
		}
		cmp, ok := ifi.Cond.(*ssa.BinOp)
		return ok && cmp.Op == token.LSS && cmp.X == ix && isLenOf(cmp.Y)
	}
	// range form: idx = phi + 1, phi = [-1, idx]
	if add, ok := idx.(*ssa.BinOp); ok && add.Op == token.ADD {
		if one, ok := constInt(add.Y); ok && one == 1 {
			if phi, ok := add.X.(*ssa.Phi); ok && len(phi.Edges) == 2 {
				okInit, okStep := false, false
				for _, e := range phi.Edges {
					if k, ok := constInt(e); ok && k == -1 {
						okInit = true
					}
					if e == add {
						okStep = true
					}
				}
				if okInit && okStep && guarded(add, phi.Block()) {
					return phi.Block(), true
				}
			}
		}
	}
	// classic form: idx = phi [0, idx+1]
	if phi, ok := idx.(*ssa.Phi); ok && len(phi.Edges) == 2 {
		okInit, okStep := false, false
		for _, e := range phi.Edges {
			if k, ok := constInt(e); ok && k == 0 {
				okInit = true
			}
			if add, ok := e.(*ssa.BinOp); ok && add.Op == token.ADD && add.X == phi {
				if one, ok := constInt(add.Y); ok && one == 1 {
					okStep = true
				}
			}
		}
		if okInit && okStep && guarded(phi, phi.Block()) {
			return phi.Block(), true
		}
	}
	return nil, false
}

// reachesSuccessReturn: from block b, not passing through stop, is a return with nil error reachable?
func reachesSuccessReturn(b, stop *ssa.BasicBlock) *ssa.BasicBlock {
	seen := map[*ssa.BasicBlock]bool{}
	var walk func(x *ssa.BasicBlock) *ssa.BasicBlock
	walk = func(x *ssa.BasicBlock) *ssa.BasicBlock {
		if seen[x] {
			return nil
		}
		seen[x] = true
		if ret, ok := x.Instrs[len(x.Instrs)-1].(*ssa.Return); ok {
			if len(ret.Results) == 2 && isNilConst(ret.Results[1]) {
				return x
			}
			return nil
		}
		for _, s := range x.Succs {
			// re-entering the loop header continues the loop: that is a path to the success
			// return for a rejected byte
			if r := walk(s); r != nil {
				return r
			}
		}
		return nil
	}
	_ = stop
	return walk(b)
}

func (c *Ctx) checkIOFlags(r *Report) {
	flags := map[*types.Var]string{
		c.Var("extensions", "unrestrictedIOs"): "UnrestrictedIOs",
		c.Var("extensions", "emptyOnly"):       "LoadSaveEmptyOnly",
	}
	initInternal := c.SSAFn(c.Fn("extensions", "initInternal"))
	n := 0
	for _, fn := range c.ModuleSSAFuncs() {
		eachInstr(fn, func(in ssa.Instruction) {
			st, ok := in.(*ssa.Store)
			if !ok {
				return
			}
			gl, ok := st.Addr.(*ssa.Global)
			if !ok {
				return
			}
			gv, _ := gl.Object().(*types.Var)
			field, isFlag := flags[gv]
			if !isFlag {
				return
			}
			n++
			if fn.Synthetic != "" { // package initializer: must be the constant false
				k, ok := st.Val.(*ssa.Const)
				r.Check(ok && k.Value != nil && k.Value.ExactString() == "false", "C17.R4", ssaFuncName(fn), "initial value of "+gv.Name(), c.Pos(st.Pos()), "restriction flag does not start as false (restricted)")
				return
			}
			desc := "store to " + gv.Name()
			if fn != initInternal {
				r.Fail("C17.R4", ssaFuncName(fn), desc, c.Pos(st.Pos()), "restriction flag written outside initInternal")
				return
			}
			ok2 := false
			if ld, ok := st.Val.(*ssa.UnOp); ok {
				if fa, ok := ld.X.(*ssa.FieldAddr); ok {
					if _, isParam := fa.X.(*ssa.Parameter); isParam {
						s := fa.X.Type().(*types.Pointer).Elem().Underlying().(*types.Struct)
						ok2 = s.Field(fa.Field).Name() == field
					}
				}
			}
			r.Check(ok2, "C17.R4", ssaFuncName(fn), desc, c.Pos(st.Pos()), "flag is not assigned from Config."+field)
		})
	}
	if n < 2 {
		r.Undecided("found %d stores to the restriction flags, expected at least 2", n)
	}
	// Init(nil) -> zero config
	initFn := c.SSAFn(c.Fn("extensions", "Init"))
	okZero := false
	eachInstr(initFn, func(in ssa.Instruction) {
		al, ok := in.(*ssa.Alloc)
		if !ok {
			return
		}
		if n, ok := al.Type().(*types.Pointer).Elem().(*types.Named); ok && n.Obj().Name() == "Config" {
			okZero = true
			for _, ref := range *al.Referrers() {
				if _, isFA := ref.(*ssa.FieldAddr); isFA {
					okZero = false
				}
			}
		}
	})
	r.Check(okZero, "C17.R4", ssaFuncName(initFn), "Init(nil) uses a zero Config", c.Pos(initFn.Pos()), "the default configuration for Init(nil) is not the zero (restricted) Config")
	// main: flag polarity
	mainFn := c.SSAFn(c.Fn("main", "Main"))
	flagOf := func(v ssa.Value) (string, bool /*negated*/) {
		neg := false
		if u, ok := v.(*ssa.UnOp); ok && u.Op == token.NOT {
			neg = true
			v = u.X
		}
		ld, ok := v.(*ssa.UnOp)
		if !ok || ld.Op != token.MUL {
			return "", false
		}
		call, ok := ld.X.(*ssa.Call)
		if !ok {
			return "", false
		}
		obj := calleeObj(call)
		if obj == nil || obj.Pkg() == nil || obj.Pkg().Path() != "flag" || obj.Name() != "Bool" {
			return "", false
		}
		name, _ := constString(call.Common().Args[0])
		return name, neg
	}
	want := map[string]struct {
		flag string
		neg  bool
	}{
		"UnrestrictedIOs":   {"restrict-io", true},
		"LoadSaveEmptyOnly": {"empty-only", false},
		"HasLoad":           {"no-load-save", true},
		"HasSave":           {"no-load-save", true},
	}
	seenField := map[string]bool{}
	eachInstr(mainFn, func(in ssa.Instruction) {
		st, ok := in.(*ssa.Store)
		if !ok {
			return
		}
		fa, ok := st.Addr.(*ssa.FieldAddr)
		if !ok {
			return
		}
		n, ok := fa.X.Type().(*types.Pointer).Elem().(*types.Named)
		if !ok || n.Obj().Name() != "Config" || n.Obj().Pkg() == nil || shortPkg(n.Obj().Pkg()) != "extensions" {
			return
		}
		fname := n.Underlying().(*types.Struct).Field(fa.Field).Name()
		w, ok := want[fname]
		if !ok {
			return
		}
		seenField[fname] = true
		fl, neg := flagOf(st.Val)
		r.Check(fl == w.flag && neg == w.neg, "C17.R4", ssaFuncName(mainFn), "Config."+fname+" from command-line flag", c.Pos(st.Pos()),
			fmt.Sprintf("Config.%s is set from flag %q negated=%v, expected %q negated=%v", fname, fl, neg, w.flag, w.neg))
	})
	for f := range want {
		if !seenField[f] {
			r.Fail("C17.R4", ssaFuncName(mainFn), "Config."+f+" from command-line flag", c.Pos(mainFn.Pos()), "Config."+f+" is not set in main: the restricted default would not be selectable / would be ignored")
		}
	}
	r.Floor("C17.R4", 7)
}

func init() {
	register("C17", &propDef{
		explain: "Confinement proof by call-graph reachability and value flow: the extension registry is resolved from the registration code (extreg); for each callback registered outside the UnrestrictedIOs guard every reachable file-system/process primitive must take a constant grol.png or a name produced by sanitizeFileName on its success edge; sanitizeFileName itself is verified path by path (full byte loop, predicate evaluated on all 256 bytes, emptyOnly and unrestricted edges); flags are written only from the matching Config fields. Decides who may touch which path, for all programs and names. The byte-predicate folder evaluates lookup tables (keyed literals and the range-fill initialiser idiom); an unfoldable predicate is undecided.",
		assume:  []string{"calls through function values inside callbacks are not followed (none exist in the callbacks' reach today except the interpreter re-entry, which is cut)", "OS path semantics of a plain [A-Za-z0-9_]*.gr name: it denotes a file in the current directory", "time.LoadLocation reads only the tz database"},
		run:     runC17,
	})
}
