package main

import (
	"fmt"
	"go/token"
	"go/types"

	"golang.org/x/tools/go/ssa"
)

// File-system / process primitives that create, truncate, write, remove or rename a path,
// or start a process. Used by C17 and C18.
var osMutators = map[string]bool{
	"Create": true, "CreateTemp": true, "OpenFile": true, "WriteFile": true, "Remove": true, "RemoveAll": true,
	"Rename": true, "Truncate": true, "Mkdir": true, "MkdirAll": true, "MkdirTemp": true, "Symlink": true,
	"Link": true, "Chmod": true, "Chown": true, "Lchown": true, "Chtimes": true, "StartProcess": true, "CopyFS": true,
}

// osReaders open or read a path.
var osReaders = map[string]bool{"Open": true, "ReadFile": true, "ReadDir": true, "Stat": true, "Lstat": true, "Readlink": true, "DirFS": true}

func isOSFunc(obj *types.Func, set map[string]bool) bool {
	if obj == nil || obj.Pkg() == nil {
		return false
	}
	if sig, ok := obj.Type().(*types.Signature); ok && sig.Recv() != nil {
		return false
	}
	switch obj.Pkg().Path() {
	case "os":
		return set[obj.Name()]
	case "io/ioutil":
		return obj.Name() == "WriteFile" || obj.Name() == "TempFile" || obj.Name() == "TempDir" || obj.Name() == "ReadFile" && set["ReadFile"]
	case "os/exec":
		return set["StartProcess"] && (obj.Name() == "Command" || obj.Name() == "CommandContext" || obj.Name() == "LookPath")
	case "syscall":
		switch obj.Name() {
		case "Open", "Creat", "Unlink", "Rename", "Exec", "ForkExec", "Mkdir", "Rmdir", "Truncate", "Openat":
			return true
		}
	}
	return false
}

// errResult finds the Extract of the error-typed result of a multi-value call (or the call
// itself if it returns just error).
func errResult(call *ssa.Call) ssa.Value {
	sig := call.Common().Signature()
	res := sig.Results()
	for i := 0; i < res.Len(); i++ {
		if types.Identical(res.At(i).Type(), types.Universe.Lookup("error").Type()) {
			if res.Len() == 1 {
				return call
			}
			for _, ref := range *call.Referrers() {
				if ex, ok := ref.(*ssa.Extract); ok && ex.Index == i {
					return ex
				}
			}
		}
	}
	return nil
}

func extractOf(call *ssa.Call, idx int) ssa.Value {
	if call.Common().Signature().Results().Len() == 1 && idx == 0 {
		return call
	}
	for _, ref := range *call.Referrers() {
		if ex, ok := ref.(*ssa.Extract); ok && ex.Index == idx {
			return ex
		}
	}
	return nil
}

func isNilConst(v ssa.Value) bool {
	c, ok := v.(*ssa.Const)
	return ok && c.Value == nil
}

// guardedByNil: is block b only reachable when v == nil (v an error value)?
func guardedByNil(v ssa.Value, b *ssa.BasicBlock) bool {
	if v == nil || v.Referrers() == nil {
		return false
	}
	for _, ref := range *v.Referrers() {
		bin, ok := ref.(*ssa.BinOp)
		if !ok || (bin.Op != token.NEQ && bin.Op != token.EQL) {
			continue
		}
		if !(isNilConst(bin.X) || isNilConst(bin.Y)) {
			continue
		}
		for _, r2 := range *bin.Referrers() {
			ifi, ok := r2.(*ssa.If)
			if !ok {
				continue
			}
			edge := 1 // err != nil: nil on false edge
			if bin.Op == token.EQL {
				edge = 0
			}
			if onEdge(ifi.Block(), edge, b) {
				return true
			}
		}
	}
	return false
}

func runC18(c *Ctx, r *Report) {
	r.Rule("C18.R1", "in repl.AutoSave the state file is named only as the destination of os.Rename(tmp, AutoSaveFile); tmp is the name of the file returned by os.CreateTemp(\".\", ...) (same directory); the rename is dominated by the err==nil edges of CreateTemp and of the write (SaveGlobals); the writer handed to SaveGlobals is that file itself (unbuffered) or a bufio.Writer on it whose checked Flush dominates the rename")
	r.Rule("C18.R2", "no function reachable from AutoSave (static calls + interface invokes, module code) other than AutoSave's own CreateTemp/Rename calls a file-system mutator or starts a process")
	r.Rule("C18.R4", "the write error is not masked: in AutoSave, State.SaveGlobals and Environment.SaveGlobals a deferred closure stores into a captured error result only under `result == nil`")
	r.Rule("C18.R5", "no write error is dropped on the auto-save path: in AutoSave, the SaveGlobals functions and every module function they hand the writer to, every call that takes an io.Writer and returns an error has that error used")
	c.checkSaveErrorsUsed(r, "C18.R5")
	r.Rule("C18.R6", "the state file is read whole: the line scanner of repl.AutoLoad is given math.MaxInt as its line limit on every path (named functions are saved whatever their length)")
	c.checkAutoLoadReadsWholeLines(r, "C18.R6")
	r.Rule("C18.R3", "after the rename no further file mutation happens in AutoSave; no file-mutating call precedes CreateTemp")

	autoSave := c.Fn("repl", "AutoSave")
	fn := c.SSAFn(autoSave)
	fname := funcName(autoSave)
	// the temp + write + rename sequence may have been moved into a function of the package AutoSave calls: the
	// shape is then checked there (AutoSave itself must not touch the file system besides)
	{
		isOS := func(in ssa.Instruction, name string) bool {
			call, ok := in.(*ssa.Call)
			if !ok {
				return false
			}
			obj := calleeObj(call)
			return obj != nil && obj.Pkg() != nil && obj.Pkg().Path() == "os" && obj.Name() == name
		}
		count := func(f *ssa.Function, name string) int {
			n := 0
			eachInstr(f, func(in ssa.Instruction) {
				if isOS(in, name) {
					n++
				}
			})
			return n
		}
		if count(fn, "CreateTemp") == 0 {
			for _, h := range c.localHelpers(fn, 1) {
				if h != fn && count(h, "CreateTemp") == 1 && len(c.staticCallSites(h)) == 1 {
					outer := fn
					fn = h
					nMut := 0
					eachInstr(outer, func(in ssa.Instruction) {
						if call, ok := in.(*ssa.Call); ok && isOSFunc(calleeObj(call), osMutators) {
							nMut++
						}
					})
					r.Check(nMut == 0, "C18.R3", fname, "AutoSave touches the file system only through its save helper", c.Pos(outer.Pos()),
						"AutoSave mutates the file system outside the temp + write + rename sequence it delegates")
					break
				}
			}
		}
	}
	autoSaveFile := c.Const("repl", "AutoSaveFile")
	stateName := ""
	if autoSaveFile.Val() != nil {
		stateName = constantString(autoSaveFile)
	}
	saveGlobalsState := c.Fn("eval", "State.SaveGlobals")
	saveGlobalsEnv := c.Fn("object", "Environment.SaveGlobals")

	var createTemp, rename []*ssa.Call
	var saves []*ssa.Call
	var otherMut []*ssa.Call
	eachInstr(fn, func(in ssa.Instruction) {
		call, ok := in.(*ssa.Call)
		if !ok {
			return
		}
		obj := calleeObj(call)
		switch {
		case obj != nil && obj.Pkg() != nil && obj.Pkg().Path() == "os" && obj.Name() == "CreateTemp":
			createTemp = append(createTemp, call)
		case obj != nil && obj.Pkg() != nil && obj.Pkg().Path() == "os" && obj.Name() == "Rename":
			rename = append(rename, call)
		case isOSFunc(obj, osMutators):
			otherMut = append(otherMut, call)
		case obj != nil && (obj == saveGlobalsState || obj == saveGlobalsEnv):
			saves = append(saves, call)
		}
	})
	for _, m := range otherMut {
		r.Fail("C18.R1", fname, "call "+calleeObj(m).FullName(), c.Pos(m.Pos()), "file-system mutator other than CreateTemp/Rename inside AutoSave")
	}
	// any use of the state file name as an argument
	eachInstr(fn, func(in ssa.Instruction) {
		call, ok := in.(ssa.CallInstruction)
		if !ok {
			return
		}
		for i, a := range call.Common().Args {
			if s, ok := constString(a); ok && s == stateName {
				obj := calleeObj(call)
				isRenameDst := obj != nil && obj.Pkg() != nil && obj.Pkg().Path() == "os" && obj.Name() == "Rename" && i == 1
				isLog := obj != nil && obj.Pkg() != nil && obj.Pkg().Path() == "fortio.org/log"
				if isLog {
					continue
				}
				desc := fmt.Sprintf("state file name passed as arg %d of %s", i, nameOfCallee(call))
				r.Check(isRenameDst, "C18.R1", fname, desc, c.Pos(in.Pos()), "the state file is named by an operation other than the destination of os.Rename")
			}
		}
	})
	if len(createTemp) != 1 || len(rename) != 1 || len(saves) != 1 {
		r.Fail("C18.R1", fname, "temp+write+rename shape", c.Pos(fn.Pos()),
			fmt.Sprintf("expected exactly one os.CreateTemp, one SaveGlobals and one os.Rename in AutoSave, found %d/%d/%d", len(createTemp), len(saves), len(rename)))
		return
	}
	ct, rn, sv := createTemp[0], rename[0], saves[0]
	// temp dir is "." (same directory as the state file, which has no directory component)
	dir, isConst := constString(ct.Common().Args[0])
	r.Check(isConst && (dir == "." || dir == "./") && !containsSlash(stateName), "C18.R1", fname, "CreateTemp directory", c.Pos(ct.Pos()),
		fmt.Sprintf("temporary file must be created in the state file's directory (\".\"); got const=%v %q", isConst, dir))
	// rename source is tmpfile.Name()
	tmpFile := extractOf(ct, 0)
	src := rn.Common().Args[0]
	okSrc := false
	if sc, ok := src.(*ssa.Call); ok {
		if obj := calleeObj(sc); obj != nil && obj.Name() == "Name" && obj.Pkg() != nil && obj.Pkg().Path() == "os" && len(sc.Common().Args) > 0 && sc.Common().Args[0] == tmpFile {
			okSrc = true
		}
	}
	r.Check(okSrc, "C18.R1", fname, "Rename source", c.Pos(rn.Pos()), "os.Rename source is not the Name() of the file returned by CreateTemp")
	dst, isConst := constString(rn.Common().Args[1])
	r.Check(isConst && dst == stateName, "C18.R1", fname, "Rename destination", c.Pos(rn.Pos()), "os.Rename destination is not the constant state file name")
	// dominance
	r.Check(guardedByNil(errResult(ct), rn.Block()), "C18.R1", fname, "Rename guarded by CreateTemp err==nil", c.Pos(rn.Pos()), "rename reachable when CreateTemp failed")
	r.Check(instrDominates(sv, rn) && guardedByNil(errResult(sv), rn.Block()), "C18.R1", fname, "Rename guarded by SaveGlobals err==nil", c.Pos(rn.Pos()),
		"rename reachable although writing the temporary file failed or did not happen: a partial file would replace the state file")
	r.Check(instrDominates(ct, sv), "C18.R1", fname, "write after CreateTemp", c.Pos(sv.Pos()), "SaveGlobals not dominated by CreateTemp")
	// writer is the temp file itself
	var w ssa.Value
	args := sv.Common().Args
	if len(args) >= 2 {
		w = args[1]
	}
	if mi, ok := w.(*ssa.MakeInterface); ok {
		w = mi.X
	}
	switch {
	case w == tmpFile:
		r.Ok("C18.R1", fname, "writer is the temporary *os.File (unbuffered)", c.Pos(sv.Pos()))
	default:
		okBuf := false
		if wc, ok := w.(*ssa.Call); ok {
			if obj := calleeObj(wc); obj != nil && obj.Pkg() != nil && obj.Pkg().Path() == "bufio" && (obj.Name() == "NewWriter" || obj.Name() == "NewWriterSize") {
				under := wc.Common().Args[0]
				if mi, ok := under.(*ssa.MakeInterface); ok {
					under = mi.X
				}
				if under == tmpFile {
					// need a Flush on wc with err==nil guarding rename
					for _, ref := range *wc.Referrers() {
						if fc, ok := ref.(*ssa.Call); ok {
							if o := calleeObj(fc); o != nil && o.Name() == "Flush" && instrDominates(fc, rn) && guardedByNil(errResult(fc), rn.Block()) {
								okBuf = true
							}
						}
					}
				}
			}
		}
		r.Check(okBuf, "C18.R1", fname, "writer is a flushed bufio.Writer on the temporary file", c.Pos(sv.Pos()),
			"the writer given to SaveGlobals is neither the temporary file nor a bufio.Writer on it whose checked Flush dominates the rename: bytes may be missing from the file that replaces the state file")
	}
	// R3: nothing mutating after rename / before createtemp
	bad := mustPassBefore(rn, func(ssa.Instruction) bool { return false }, func(in ssa.Instruction) bool {
		call, ok := in.(ssa.CallInstruction)
		return ok && (isOSFunc(calleeObj(call), osMutators) || isFileWriteMethod(calleeObj(call)))
	})
	if bad != nil {
		r.Fail("C18.R3", fname, "file operation after rename", c.Pos(instrPos(bad.exit)), "a file mutation follows the rename", c.tracePath(bad)...)
	} else {
		r.Ok("C18.R3", fname, "no file mutation after rename", c.Pos(rn.Pos()))
	}
	// R2: reachability
	cg := c.CG()
	reach := cg.Reach([]*ssa.Function{fn}, staticOrInvoke, func(f *ssa.Function) bool { return !isModuleSSA(f) })
	n := 0
	for _, f := range sortedFuncs(reach) {
		if f == fn {
			continue
		}
		n++
		viol := false
		eachInstr(f, func(in ssa.Instruction) {
			call, ok := in.(ssa.CallInstruction)
			if !ok {
				return
			}
			obj := calleeObj(call)
			if isOSFunc(obj, osMutators) {
				viol = true
				r.Fail("C18.R2", ssaFuncName(f), "call "+obj.FullName(), c.Pos(in.Pos()), "file-system mutator reachable from AutoSave outside the temp+rename protocol")
			}
		})
		if !viol {
			r.Ok("C18.R2", ssaFuncName(f), "no file-system mutator", c.Pos(f.Pos()))
		}
	}
	// R4: the write error reaches AutoSave: along the chain AutoSave -> State.SaveGlobals -> Environment.SaveGlobals
	// no deferred function overwrites an error result unconditionally
	{
		errT := types.Universe.Lookup("error").Type()
		chain := []*ssa.Function{fn, c.SSAFn(saveGlobalsState), c.SSAFn(saveGlobalsEnv)}
		n4 := 0
		for _, f := range chain {
			// closures deferred by f that store into a variable of type error captured from f
			found := false
			eachInstr(f, func(in ssa.Instruction) {
				d, ok := in.(*ssa.Defer)
				if !ok {
					return
				}
				mc, ok := d.Call.Value.(*ssa.MakeClosure)
				if !ok {
					return
				}
				cf, ok := mc.Fn.(*ssa.Function)
				if !ok {
					return
				}
				for i, fv := range cf.FreeVars {
					pt, ok := fv.Type().(*types.Pointer)
					if !ok || !types.Identical(pt.Elem(), errT) {
						continue
					}
					_ = i
					for _, ref := range *fv.Referrers() {
						st, ok := ref.(*ssa.Store)
						if !ok || st.Addr != ssa.Value(fv) {
							continue
						}
						found = true
						n4++
						// the store must be under `*fv == nil`
						guarded := false
						for _, cc := range controlling(st.Block()) {
							bin, ok := cc.Cond.(*ssa.BinOp)
							if !ok {
								continue
							}
							ld, ok := bin.X.(*ssa.UnOp)
							if !ok || ld.X != ssa.Value(fv) || !isNilConst(bin.Y) {
								continue
							}
							if (bin.Op == token.EQL && cc.Edge == 0) || (bin.Op == token.NEQ && cc.Edge == 1) {
								guarded = true
							}
						}
						r.Check(guarded, "C18.R4", ssaFuncName(f), "a deferred function assigns the error result only when it is still nil", c.Pos(st.Pos()),
							"a deferred closure overwrites the function's error result unconditionally: a failed write (disk full, quota) is replaced by the outcome of the deferred call (a nil from Sync/Close), AutoSave sees success and renames the truncated temporary file over the previous state")
					}
				}
			})
			if !found {
				n4++
				r.Ok("C18.R4", ssaFuncName(f), "no deferred function touches the error result", c.Pos(f.Pos()))
			}
		}
		r.Floor("C18.R4", 3)
	}
	r.Floor("C18.R1", 8)
	r.Floor("C18.R2", 20)
	r.Note("functions reachable from AutoSave (module, static+invoke): %d", n)
}

func containsSlash(s string) bool {
	for i := 0; i < len(s); i++ {
		if s[i] == '/' || s[i] == '\\' {
			return true
		}
	}
	return false
}

func isFileWriteMethod(obj *types.Func) bool {
	if obj == nil || obj.Pkg() == nil || obj.Pkg().Path() != "os" {
		return false
	}
	sig, _ := obj.Type().(*types.Signature)
	if sig == nil || sig.Recv() == nil {
		return false
	}
	switch obj.Name() {
	case "Write", "WriteString", "WriteAt", "Truncate", "ReadFrom":
		return true
	}
	return false
}

func nameOfCallee(call ssa.CallInstruction) string {
	if obj := calleeObj(call); obj != nil {
		return obj.FullName()
	}
	return call.Common().Value.String()
}
