package main

import (
	"fmt"
	"go/ast"
	"go/token"
	"go/types"
	"sort"
	"strings"

	"golang.org/x/tools/go/ssa"
)

// referencePrecedence: the documented precedence classes, loosest first (a specification,
// compared as a weak order: renumbering the enum changes nothing, moving an operator does).
var referencePrecedence = [][]string{
	{"ASSIGN", "DEFINE"},
	{"OR"},
	{"AND", "COLON"},
	{"LAMBDA"},
	{"EQ", "NOTEQ"},
	{"LT", "GT", "LTEQ", "GTEQ"},
	{"PLUS", "MINUS", "BITOR", "BITXOR"},
	{"ASTERISK", "PERCENT", "BITAND", "LEFTSHIFT", "RIGHTSHIFT"},
	{"SLASH"},
	{"INCR", "DECR"},
	{"LPAREN"},
	{"LBRACKET"},
	{"DOT"},
}

// precedenceTable: token type -> priority value from the ast.Precedences literal.
func (c *Ctx) precedenceTable() map[int64]int64 {
	res := map[int64]int64{}
	p := c.P("ast")
	for _, f := range p.Syntax {
		ast.Inspect(f, func(n ast.Node) bool {
			vs, ok := n.(*ast.ValueSpec)
			if !ok {
				return true
			}
			for i, name := range vs.Names {
				if name.Name != "Precedences" || i >= len(vs.Values) {
					continue
				}
				cl, ok := vs.Values[i].(*ast.CompositeLit)
				if !ok {
					continue
				}
				for _, e := range cl.Elts {
					kv, ok := e.(*ast.KeyValueExpr)
					if !ok {
						continue
					}
					k, ok1 := constantInt64(p.TypesInfo.Types[kv.Key].Value)
					v, ok2 := constantInt64(p.TypesInfo.Types[kv.Value].Value)
					if ok1 && ok2 {
						res[k] = v
					}
				}
			}
			return true
		})
	}
	return res
}

// errorSpec: taint "object may be an ERROR result of an evaluation that nobody tested".
func (c *Ctx) errorSpec() TaintSpec {
	base := c.registerSpec()
	evalI := c.Fn("eval", "State.evalInternal")
	evalE := c.Fn("eval", "State.Eval")
	errTag := c.tagConst("ERROR")
	objT := c.TypeNamed("object", "Object")
	errT := c.TypeNamed("object", "Error")
	return TaintSpec{
		Name: "untested evaluation result",
		Source: func(v ssa.Value) bool {
			call, ok := v.(*ssa.Call)
			return ok && isCallTo(call, evalI, evalE)
		},
		Sanitizer:     func(f *types.Func) bool { return false },
		StorageStruct: base.StorageStruct,
		Carrier:       func(t types.Type) bool { return types.Identical(t, objT) },
		RawSink:       base.RawSink,
		// the callee is told by a boolean argument whether the value is an error (isError := v.Type() == ERROR
		// computed by the caller) and touches the value as an Object only where that is false
		CleanCall: func(call ssa.CallInstruction, callee *ssa.Function, i int) bool {
			args := call.Common().Args
			if len(args) != len(callee.Params) {
				return false
			}
			p := callee.Params[i]
			for j, bp := range callee.Params {
				if b, ok := bp.Type().Underlying().(*types.Basic); !ok || b.Kind() != types.Bool {
					continue
				}
				k, op, ok := c.tagTest(args[j], args[i])
				if !ok || k != errTag {
					continue
				}
				// edge on which the value is no error: the false one of `== ERROR`, the true one of `!= ERROR`
				cleanEdge := 1
				if op == token.NEQ {
					cleanEdge = 0
				}
				holds := func(conds []ctrlCond) bool {
					for _, cc := range conds {
						if cc.Cond == ssa.Value(bp) && cc.Edge == cleanEdge {
							return true
						}
					}
					return false
				}
				good := true
				for _, ref := range *p.Referrers() {
					switch x := ref.(type) {
					case *ssa.DebugRef:
					case *ssa.TypeAssert:
						if !types.Identical(x.AssertedType, errT) && !holds(controlling(x.Block())) {
							good = false
						}
					case *ssa.Phi:
						for e, ev := range x.Edges {
							if ev == ssa.Value(p) && !holds(edgeConds(x.Block().Preds[e], x.Block())) {
								good = false
							}
						}
					default:
						if !holds(controlling(ref.Block())) {
							good = false
						}
					}
				}
				if good {
					return true
				}
			}
			return false
		},
		CleanAt: func(v ssa.Value, use ssa.Instruction) bool {
			// clean(v, conds): v is known not to be an error under the facts `conds` (what controls the place it is
			// used at, or the edge it comes in by)
			var clean func(v ssa.Value, excluded func(x ssa.Value) bool, depth int) bool
			clean = func(v ssa.Value, excluded func(x ssa.Value) bool, depth int) bool {
				if depth > 4 {
					return false
				}
				if excluded(v) {
					return true
				}
				switch x := v.(type) {
				case *ssa.MakeInterface:
					return !types.Identical(x.X.Type(), errT)
				case *ssa.Phi:
					// a merge whose every incoming value is no error on its own edge (the error replaced by something
					// made from it on the other one: catch)
					for e, ev := range x.Edges {
						pred, succ := x.Block().Preds[e], x.Block()
						if !clean(ev, func(y ssa.Value) bool { return c.tagExcludedOnEdge(y, errTag, pred, succ) }, depth+1) {
							return false
						}
					}
					return len(x.Edges) > 0
				case *ssa.Call:
					// object.Value(x) / CopyRegister(x) keep the tag of x unless x is a register/reference
					if calleeObj(x) == nil || len(x.Common().Args) != 1 {
						return false
					}
					if n := calleeObj(x).Name(); n != "Value" && n != "CopyRegister" {
						return false
					}
					blk := x.Block()
					return clean(x.Common().Args[0], func(y ssa.Value) bool { return excluded(y) || c.tagExcludedAt(y, errTag, blk) }, depth+1)
				}
				return false
			}
			return clean(v, func(y ssa.Value) bool { return c.tagExcludedAt(y, errTag, use.Block()) }, 0)
		},
	}
}

var errorStoreExceptions = map[string]string{}

func runC01(c *Ctx, r *Report) {
	r.Rule("C01.R12", "forced-local binding is for `:=` and new frames: in package eval a binding call with the constant create == true is made only on an environment created in the same function (parameters, `..`, the function's own name), never on the running scope")
	c.checkForcedCreateOnFreshFrames(r, "C01.R12")
	r.Rule("C01.R13", "a builtin's parameter is evaluated once: no path of evalBuiltin evaluates an element of node.Parameters and then calls a function of the package that is handed the node and evaluates its parameters itself")
	c.checkBuiltinParameterEvaluatedOnce(r, "C01.R13")
	r.Rule("C01.R14", "reads happen left to right: the left operand's result passes object.Value before the right operand is evaluated; the function that evaluates an array literal's elements applies object.Value to each inside its loop")
	c.checkReadsLeftToRight(r, "C01.R14")
	r.Rule("C01.R1", "dispatch totality: every operator token the parser registers for infix expressions is compared against in the evaluator's operator dispatch, every prefix operator token in the prefix dispatch, and every node type the parser can build has an arm in evalInternal's type switch")
	r.Rule("C01.R2", "precedence conformance: the weak order on operator tokens given by ast.Precedences equals the documented one (13 classes), and the infix parser parses its right operand at the operator's own precedence (left associativity)")
	r.Rule("C01.R3", "short circuit: when the operator is && and the left operand is false (|| and true) the right operand is not evaluated: the true edge of those tests reaches only a return")
	r.Rule("C01.R5", "validation precedes normalisation: an ordering test between two program integers that rejects the operation (returns an error) is not applied to values that were both already clamped by min() to the same bound (clamping maps distinct invalid pairs to equal, valid ones)")
	r.Rule("C01.R6", "captured output is delivered: in a function that stores the address of a local buffer into State.Out, every path from that store to a return restores Out and then writes the buffer's bytes to the restored writer (or leaves through the buffer-is-empty edge)")
	r.Rule("C01.R7", "control objects are not values: no result of evalInternal (the only producer of break/continue/return objects) reaches an array element, an argument list, a map pair or a binding unless a Type()==RETURN test excluded it on that path or it went through State.Eval, which unwraps `return` and rejects the others (its comma-ok assertion to ReturnValue is checked)")
	r.Rule("C01.R8", "dereference before discrimination: a value that may be an object.Reference (interprocedural may-hold analysis from the places a Reference is boxed, plus elements of argument lists: by the extension registry for callbacks - positions declared ANY or beyond the declared types are not dereferenced by applyExtension - and by the list analysis elsewhere; object.Value, Reference.ObjValue, a Type()!=REFERENCE test or a failed assertion to Reference clean it, edge by edge through phis) is never compared by tag with a storable value type, asserted to the Go type of one, or compared with the TRUE/FALSE/NULL singletons")
	r.Rule("C01.R9", "loops honour break and continue: where State.evalInternal is called in a cycle of the evaluator on a node that does not change in that cycle (the body of a loop construct) and the result is tested for RETURN, its ReturnValue.ControlType is compared with BREAK and with CONTINUE; the BREAK arm cannot reach the body evaluation again, the CONTINUE arm can")
	r.Rule("C01.R10", "binding errors are not dropped: in package eval the Object returned by Environment.Set / CreateOrSet (an Error for a bound constant or a built-in name) is used, never discarded")
	r.Rule("C01.R11", "what a loop keeps is a value: in package eval, in every function that calls evalInternal inside a cycle, no Object-typed loop-carried value (header phi fed by a back edge) may be an object.Reference")
	r.Rule("C01.R4", "errors stop evaluation: no result of Eval/evalInternal is stored into an array element, a map pair or a binding unless a Type()==ERROR test has excluded the error on that path (interprocedural)")

	tr := c.TokRel()
	names := c.tokenTypeNames()
	tokT := c.TypeNamed("token", "Type")

	// ---- R1 ----
	// operator constants compared in the evaluator
	compared := map[int64][]string{}
	for _, fn := range c.ModuleSSAFuncs() {
		if fn.Pkg == nil || shortPkg(fn.Pkg.Pkg) != "eval" {
			continue
		}
		eachInstr(fn, func(in ssa.Instruction) {
			bin, ok := in.(*ssa.BinOp)
			if !ok || bin.Op != token.EQL {
				return
			}
			if !types.Identical(bin.X.Type(), tokT) {
				return
			}
			if k, ok := constInt(bin.Y); ok {
				// the comparison must guard something other than an error default: any use counts
				compared[k] = append(compared[k], ssaFuncName(fn))
			}
		})
	}
	infixToks := tr.Tokens["*ast.InfixExpression"]
	var ks []int64
	for k := range infixToks.s {
		ks = append(ks, k)
	}
	sort.Slice(ks, func(i, j int) bool { return names[ks[i]] < names[ks[j]] })
	for _, k := range ks {
		r.Check(len(compared[k]) > 0, "C01.R1", "eval", "infix operator "+names[k]+" has an evaluation case", "-",
			"the parser builds infix expressions for "+names[k]+" but no evaluator function compares an operator with it: the expression always ends in 'unknown operator'")
	}
	prefToks := tr.Tokens["*ast.PrefixExpression"]
	ks = ks[:0]
	for k := range prefToks.s {
		ks = append(ks, k)
	}
	sort.Slice(ks, func(i, j int) bool { return names[ks[i]] < names[ks[j]] })
	prefFn := c.SSAFn(c.Fn("eval", "State.evalPrefixExpression"))
	inPrefix := map[int64]bool{}
	for _, f := range []*ssa.Function{prefFn, c.SSAFn(c.Fn("eval", "State.evalInternal"))} {
		eachInstr(f, func(in ssa.Instruction) {
			if bin, ok := in.(*ssa.BinOp); ok && bin.Op == token.EQL && types.Identical(bin.X.Type(), tokT) {
				if k, ok := constInt(bin.Y); ok {
					inPrefix[k] = true
				}
			}
		})
	}
	for _, k := range ks {
		r.Check(inPrefix[k], "C01.R1", ssaFuncName(prefFn), "prefix operator "+names[k]+" has an evaluation case", c.Pos(prefFn.Pos()),
			"the parser builds prefix expressions for "+names[k]+" but the prefix dispatch has no case for it")
	}
	// node types
	evalInternal := c.SSAFn(c.Fn("eval", "State.evalInternal"))
	arms := map[string]bool{}
	eachInstr(evalInternal, func(in ssa.Instruction) {
		if ta, ok := in.(*ssa.TypeAssert); ok && ta.CommaOk && ta.X == ssa.Value(evalInternal.Params[1]) {
			arms[typeShort(ta.AssertedType)] = true
		}
	})
	var tns []string
	for tn := range tr.Tokens {
		tns = append(tns, tn)
	}
	tns = append(tns, "*ast.Statements")
	sort.Strings(tns)
	for _, tn := range tns {
		if tn == "*ast.MacroLiteral" && !arms[tn] {
			r.OkWhy("C01.R1", ssaFuncName(evalInternal), "node type "+tn+" has an evaluation arm", c.Pos(evalInternal.Pos()), "exception: macro literals are consumed by DefineMacros at top level; elsewhere they end in the language-level error 'unknown node type' (macros are outside the core language of this property)")
			continue
		}
		r.Check(arms[tn], "C01.R1", ssaFuncName(evalInternal), "node type "+tn+" has an evaluation arm", c.Pos(evalInternal.Pos()),
			"the parser can build "+tn+" but evalInternal has no case for it")
	}
	r.Floor("C01.R1", 45)

	// ---- R2 ----
	prec := c.precedenceTable()
	if len(prec) < 20 {
		r.Undecided("ast.Precedences: only %d entries extracted", len(prec))
	}
	tokByName := map[string]int64{}
	for k, n := range names {
		tokByName[n] = k
	}
	classOf := map[string]int{}
	for i, cl := range referencePrecedence {
		for _, n := range cl {
			classOf[n] = i
		}
	}
	// every reference token present, and order embedding
	var refToks []string
	for n := range classOf {
		refToks = append(refToks, n)
	}
	sort.Strings(refToks)
	for _, n := range refToks {
		_, ok := prec[tokByName[n]]
		r.Check(ok, "C01.R2", "ast.Precedences", "operator "+n+" has a precedence", "-", "the operator has no entry in ast.Precedences: the Pratt loop never takes it as an infix")
	}
	for k := range prec {
		if _, ok := classOf[names[k]]; !ok {
			r.Fail("C01.R2", "ast.Precedences", "token "+names[k]+" is a documented operator", "-", "ast.Precedences has an entry for a token that is not in the documented precedence classes")
		}
	}
	for i, a := range refToks {
		var bad []string
		for _, b := range refToks[i+1:] {
			pa, oka := prec[tokByName[a]]
			pb, okb := prec[tokByName[b]]
			if !oka || !okb {
				continue
			}
			ca, cb := classOf[a], classOf[b]
			if (ca < cb) != (pa < pb) || (ca == cb) != (pa == pb) {
				bad = append(bad, b)
			}
		}
		r.Check(len(bad) == 0, "C01.R2", "ast.Precedences", "relative precedence of "+a, "-",
			"the relative precedence of "+a+" and "+strings.Join(bad, ", ")+" differs from the documented operator precedence: expressions mixing them group differently")
	}
	{
		pif := c.SSAFn(c.Fn("parser", "Parser.parseInfixExpression"))
		pe := c.Fn("parser", "Parser.parseExpression")
		curPrec := c.Fn("parser", "Parser.curPrecedence")
		ok := false
		for _, call := range callsIn(pif, pe) {
			if pc, isCall := call.Common().Args[1].(*ssa.Call); isCall && isCallTo(pc, curPrec) {
				ok = true
			}
		}
		r.Check(ok, "C01.R2", ssaFuncName(pif), "right operand parsed at the operator's own precedence", c.Pos(pif.Pos()), "the right operand of a binary operator is not parsed with the unchanged curPrecedence(): associativity changes")
	}
	r.Floor("C01.R2", 50)

	// ---- R3 ----
	{
		fn := evalInternal
		evalE := c.Fn("eval", "State.Eval")
		andK, orK := c.tokenConst("AND"), c.tokenConst("OR")
		var falseG, trueG *ssa.Global
		if m, ok := c.SSAPkg("object").Members["FALSE"].(*ssa.Global); ok {
			falseG = m
		}
		if m, ok := c.SSAPkg("object").Members["TRUE"].(*ssa.Global); ok {
			trueG = m
		}
		// the Eval(node.Right) call of the general infix path: an Eval call whose arg is a load of InfixExpression.Right and which is not the assignment path
		infT := c.TypeNamed("ast", "InfixExpression")
		var rightEvals []*ssa.Call
		for _, ec := range callsIn(fn, evalE) {
			arg := ec.Common().Args[1]
			for i := 0; i < 3; i++ {
				switch a := arg.(type) {
				case *ssa.MakeInterface:
					arg = a.X
				case *ssa.ChangeInterface:
					arg = a.X
				}
			}
			if ld, ok := arg.(*ssa.UnOp); ok && isFieldAddrOf(ld.X, infT, "Right") {
				rightEvals = append(rightEvals, ec.(*ssa.Call))
			}
		}
		check := func(opK int64, g *ssa.Global, what string) {
			found := false
			for _, b := range fn.Blocks {
				ifi, ok := b.Instrs[len(b.Instrs)-1].(*ssa.If)
				if !ok {
					continue
				}
				// conjunction: tok == opK && left == G
				hasTok, hasVal := false, false
				for _, cc := range expandCond(ifi, ifi.Cond, 0, 0) {
					if bin, ok := cc.Cond.(*ssa.BinOp); ok && bin.Op == token.EQL && cc.Edge == 0 {
						if k, ok := constInt(bin.Y); ok && k == opK && types.Identical(bin.X.Type(), tokT) {
							hasTok = true
						}
						for _, side := range []ssa.Value{bin.X, bin.Y} {
							v := side
							if mi, ok := v.(*ssa.MakeInterface); ok {
								v = mi.X
							}
							if ld, ok := v.(*ssa.UnOp); ok && ld.X == ssa.Value(g) {
								hasVal = true
							}
						}
					}
				}
				if !hasVal {
					continue
				}
				if !hasTok {
					for _, cc := range controlling(b) {
						if bin, ok := cc.Cond.(*ssa.BinOp); ok && bin.Op == token.EQL && cc.Edge == 0 {
							if k, ok := constInt(bin.Y); ok && k == opK {
								hasTok = true
							}
						}
					}
				}
				if !hasTok {
					continue
				}
				found = true
				// the true successor must not reach a right-operand evaluation
				reachesRight := false
				seen := map[*ssa.BasicBlock]bool{}
				var walk func(x *ssa.BasicBlock)
				walk = func(x *ssa.BasicBlock) {
					if seen[x] {
						return
					}
					seen[x] = true
					for _, in := range x.Instrs {
						for _, re := range rightEvals {
							if in == ssa.Instruction(re) {
								reachesRight = true
							}
						}
					}
					for _, s := range x.Succs {
						walk(s)
					}
				}
				walk(b.Succs[0])
				r.Check(!reachesRight, "C01.R3", ssaFuncName(fn), what+" short-circuits", c.Pos(ifi.Pos()), "after "+what+" decided the result the right operand is still evaluated (its side effects happen, its errors surface)")
			}
			if !found {
				r.Fail("C01.R3", ssaFuncName(fn), what+" short-circuits", c.Pos(fn.Pos()), "no test of the form `operator == "+names[opK]+" && left == constant` found before the right operand is evaluated")
			}
		}
		// left operand is evaluated before the right one
		for _, re := range rightEvals {
			okOrder := false
			for _, ec := range callsIn(fn, evalE) {
				arg := ec.Common().Args[1]
				for i := 0; i < 3; i++ {
					switch a := arg.(type) {
					case *ssa.MakeInterface:
						arg = a.X
					case *ssa.ChangeInterface:
						arg = a.X
					}
				}
				if ld, ok := arg.(*ssa.UnOp); ok && isFieldAddrOf(ld.X, infT, "Left") && instrDominates(ec, re) {
					okOrder = true
				}
			}
			// the assignment form evaluates only the right side through Eval (the left is a target): skip it
			isAssign := false
			for _, ref := range *re.Referrers() {
				if call, ok := ref.(*ssa.Call); ok && isCallTo(call, c.Fn("eval", "State.evalAssignment")) {
					isAssign = true
				}
			}
			if isAssign {
				continue
			}
			r.Check(okOrder, "C01.R3", ssaFuncName(fn), "left operand is evaluated before the right operand", c.Pos(re.Pos()), "the right operand of a binary operator can be evaluated before (or without) the left one: side effects happen in the wrong order")
		}
		if falseG == nil || trueG == nil || len(rightEvals) == 0 {
			r.Undecided("C01.R3: FALSE/TRUE globals or the right-operand evaluation not found")
		} else {
			check(andK, falseG, "false && x")
			check(orK, trueG, "true || x")
		}
	}
	r.Floor("C01.R3", 2)

	// ---- R5 ----
	{
		it := NewTaint(c, c.intTaintSpec())
		n5 := 0
		for _, fn := range c.ModuleSSAFuncs() {
			if pk := pkgOfSSA(fn); pk == nil || shortPkg(pk) != "eval" {
				continue
			}
			for _, b := range fn.Blocks {
				ifi, ok := b.Instrs[len(b.Instrs)-1].(*ssa.If)
				if !ok {
					continue
				}
				bin, ok := ifi.Cond.(*ssa.BinOp)
				if !ok || (bin.Op != token.GTR && bin.Op != token.LSS && bin.Op != token.GEQ && bin.Op != token.LEQ) {
					continue
				}
				if !it.May(bin.X) || !it.May(bin.Y) {
					continue
				}
				// an edge that returns an error
				rejects := false
				for e := 0; e < 2; e++ {
					sb := b.Succs[e]
					if ret, ok := sb.Instrs[len(sb.Instrs)-1].(*ssa.Return); ok && len(ret.Results) == 1 && mayBeErrorValue(retVal(ret, 0)) {
						rejects = true
					}
				}
				if !rejects {
					continue
				}
				n5++
				bothClamped := false
				if xc, ok := bin.X.(*ssa.Call); ok {
					if yc, ok := bin.Y.(*ssa.Call); ok {
						xb, ok1 := xc.Common().Value.(*ssa.Builtin)
						yb, ok2 := yc.Common().Value.(*ssa.Builtin)
						if ok1 && ok2 && xb.Name() == "min" && yb.Name() == "min" && len(xc.Common().Args) == 2 && len(yc.Common().Args) == 2 &&
							(sameExpr(xc.Common().Args[1], yc.Common().Args[1]) || sameValue(xc.Common().Args[1], yc.Common().Args[1])) {
							bothClamped = true
						}
					}
				}
				r.Check(!bothClamped, "C01.R5", ssaFuncName(fn), "ordering test that rejects the operation uses unclamped operands", c.Pos(ifi.Pos()),
					"both operands of the validity test were already clamped to the same bound: a reversed range whose bounds both lie beyond the end compares as equal and is accepted (e.g. [1,2,3][5:3] yields [] instead of an error)")
			}
		}
		if n5 == 0 {
			r.Undecided("C01.R5: no rejecting ordering test on program integers found")
		}
	}

	// ---- R4 ----
	t := NewTaint(c, c.errorSpec())
	finds, checked := t.Findings()
	for _, f := range finds {
		if pk := pkgOfSSA(f.Fn); pk == nil || (shortPkg(pk) != "eval") {
			continue
		}
		if ssaFuncName(f.Fn) == "eval.AddEvalResult" {
			continue // init-time: EvalString already turned an ERROR result into a Go error that is tested
		}
		if why, ok := errorStoreExceptions[ssaFuncName(f.Fn)+" | "+f.Desc]; ok {
			r.OkWhy("C01.R4", ssaFuncName(f.Fn), f.Desc, c.Pos(instrPos(f.At)), "exception: "+why)
			continue
		}
		for _, s := range f.Sinks {
			r.Fail("C01.R4", ssaFuncName(f.Fn), f.Desc+" -> "+s, c.Pos(instrPos(f.At)),
				"the result of an evaluation is stored without a dominating Type()==ERROR test: a failing sub-expression is silently kept inside a container instead of stopping the program with an error")
		}
	}
	bad := map[string]bool{}
	for _, f := range finds {
		bad[ssaFuncName(f.Fn)] = true
	}
	per := map[string]int{}
	for _, fn := range t.funcs {
		if pk := pkgOfSSA(fn); pk == nil || shortPkg(pk) != "eval" {
			continue
		}
		eachInstr(fn, func(in ssa.Instruction) {
			if call, ok := in.(ssa.CallInstruction); ok {
				for _, callee := range t.callees(call) {
					for _, p := range callee.Params {
						if len(t.stores[p]) > 0 {
							per[ssaFuncName(fn)]++
						}
					}
				}
			}
		})
	}
	for fnn, n := range per {
		if !bad[fnn] {
			r.Ok("C01.R4", fnn, fmt.Sprintf("%d calls into storing functions pass only error-tested values", n), "-")
		}
	}
	r.Note("C01.R4: %d storage sinks / storing call sites examined", checked)
	r.Floor("C01.R4", 5)

	// ---- R6 ----
	c.checkCapturedOutput(r)

	// ---- R7 ---- control objects never become data
	c.checkControlObjects(r, "C01.R7")

	// ---- R8 ---- references are dereferenced before their type is tested
	c.checkDerefBeforeTest(r, "C01.R8")

	// ---- R10 ---- the error of a binding call is looked at
	c.checkBindingErrorsUsed(r, "C01.R10")

	// shared C05.R12: an INTEGER test recognises registers too (operators dispatch on it)
	r.Rule("C05.R12", "(shared) an ==/!= test of x.Type() against INTEGER on a value that may be a register is accompanied by a REGISTER test on the same value: otherwise an operator takes another arm for an integer held in a register")
	c.checkRegisterIsInteger(r, "C05.R12")

	c.checkLoopCarriedValues(r, "C01.R11")

	// ---- R9 ---- every loop form implements break and continue
	c.checkLoopControl(r, "C01.R9")

	// shared C12.R1/R2: <, <=, >, >= are thresholds on object.Cmp, which must be three-valued
	r.Rule("C12.R1", "(shared) the comparison operators threshold object.Cmp by predicates with the expected truth sets on {-1,0,1}")
	r.Rule("C12.R2", "(shared) object.Cmp returns only -1, 0 or 1 (the operators test == 1 / == -1)")
	{
		sub := NewReport("C12", r.Tier, c)
		sub.Sub = true
		runC12(c, sub)
		n := 0
		for _, o := range sub.Obls {
			if o.Rule != "C12.R1" && o.Rule != "C12.R2" {
				continue
			}
			n++
			switch o.status {
			case FAIL:
				r.Fail(o.Rule, o.Func, o.Desc, o.Pos, o.Reason)
			case ABSTAIN:
				r.Abstain(o.Rule, o.Func, o.Desc, o.Pos, o.Reason)
			default:
				r.Ok(o.Rule, o.Func, o.Desc, o.Pos)
			}
		}
		if n < 20 {
			r.Undecided("C01: only %d shared C12.R1/R2 obligations", n)
		}
	}
	// shared C11.R5: m + n keeps n's value on equal keys
	r.Rule("C06.R3", "(shared with C06) an operator builds a new value: the result of array / map + does not carry (or share the element storage of) an operand (append into the spare capacity of the left operand rewrites an earlier result: c=a+11; d=c+12; e=c+13 makes d[11] 13)")
	if !r.Sub {
		sub := NewReport("C06", r.Tier, c)
		sub.Sub = true
		runC06(c, sub)
		n := 0
		for _, o := range sub.Obls {
			if o.Rule != "C06.R3" {
				continue
			}
			n++
			if o.status == FAIL {
				r.Fail(o.Rule, o.Func, o.Desc, o.Pos, o.Reason)
			} else {
				r.Ok(o.Rule, o.Func, o.Desc, o.Pos)
			}
		}
		if n < 2 {
			r.Undecided("C01: only %d shared C06.R3 obligations", n)
		}
	}
	r.Rule("C11.R5", "(shared) map + map: the right operand's pairs are set over a copy of the left operand's")
	{
		sub := NewReport("C11", r.Tier, c)
		sub.Sub = true
		runC11(c, sub)
		n := 0
		for _, o := range sub.Obls {
			if o.Rule != "C11.R5" {
				continue
			}
			n++
			if o.status == FAIL {
				r.Fail(o.Rule, o.Func, o.Desc, o.Pos, o.Reason)
			} else {
				r.Ok(o.Rule, o.Func, o.Desc, o.Pos)
			}
		}
		if n < 4 {
			r.Undecided("C01: only %d shared C11.R5 obligations", n)
		}
	}
}

// checkCapturedOutput: a function that points State.Out at a local buffer owes the captured bytes to
// the writer it replaced, on every way out (rule C01.R6).
func (c *Ctx) checkCapturedOutput(r *Report) {
	fc := c.newFlushCtx()
	if fc == nil {
		r.Undecided("C01.R6: eval.State.Out not found")
		return
	}
	n := 0
	for _, fn := range c.ModuleSSAFuncs() {
		eachInstr(fn, func(in ssa.Instruction) {
			st, ok := in.(*ssa.Store)
			if !ok || !fc.isOutAddr(st.Addr) {
				return
			}
			mi, ok := st.Val.(*ssa.MakeInterface)
			if !ok {
				return
			}
			buf, ok := mi.X.(*ssa.Alloc)
			if !ok {
				return
			}
			// only a state handed in by the caller has a writer to give back (a state created here and
			// given a buffer as its writer, as in repl.EvalStringWithOption, replaces nothing)
			if _, isParam := st.Addr.(*ssa.FieldAddr).X.(*ssa.Parameter); !isParam {
				return
			}
			n++
			fname := ssaFuncName(fn)
			bad, why := fc.allPathsFlush(st.Block(), instrIndex(st)+1, buf, true, 0)
			desc := "output captured in a local buffer is written to the replaced writer on every return"
			if bad != nil {
				r.Fail("C01.R6", fname, desc, c.Pos(instrPos(bad.exit)), why, c.tracePath(bad)...)
			} else {
				r.Ok("C01.R6", fname, desc, c.Pos(st.Pos()))
			}
		})
	}
	if n == 0 {
		r.Undecided("C01.R6: no redirection of State.Out to a local buffer found (applyFunction is expected to)")
	}
	r.Floor("C01.R6", 1)
}

// flushCtx: helpers shared by C01.R6 and C04.R1 to recognise "the bytes of this buffer" and "written to
// State.Out", directly or through one level of helper functions.
type flushCtx struct {
	c      *Ctx
	stateT *types.Named
	outIdx int
}

func (c *Ctx) newFlushCtx() *flushCtx {
	stateT := c.TypeNamed("eval", "State")
	outIdx := fieldIndex(stateT, "Out")
	if outIdx < 0 {
		return nil
	}
	return &flushCtx{c, stateT, outIdx}
}

func (fc *flushCtx) isOutAddr(v ssa.Value) bool {
	fa, ok := v.(*ssa.FieldAddr)
	return ok && fa.Field == fc.outIdx && namedStruct(fa.X.Type()) != nil && namedStruct(fa.X.Type()).Obj() == fc.stateT.Obj()
}

func isBufMethod(v ssa.Value, buf ssa.Value, method string) bool {
	call, ok := v.(*ssa.Call)
	if !ok {
		return false
	}
	obj := calleeObj(call)
	return obj != nil && obj.Name() == method && len(call.Common().Args) > 0 && call.Common().Args[0] == buf
}

// fromBytes: v is buf.Bytes()/buf.String(), a phi of such (nil edges allowed), or the result of a helper
// that returns the bytes of the buffer it is given.
func (fc *flushCtx) fromBytes(v ssa.Value, buf ssa.Value, depth int, seen map[ssa.Value]bool) bool {
	if v == nil || seen[v] || depth > 3 {
		return false
	}
	seen[v] = true
	if isBufMethod(v, buf, "Bytes") || isBufMethod(v, buf, "String") {
		return true
	}
	switch x := v.(type) {
	case *ssa.Phi:
		any := false
		for _, e := range x.Edges {
			if k, ok := e.(*ssa.Const); ok && k.Value == nil {
				continue
			}
			if !fc.fromBytes(e, buf, depth, seen) {
				return false
			}
			any = true
		}
		return any
	case *ssa.Call:
		callee := x.Common().StaticCallee()
		if callee == nil || !isModuleSSA(callee) || callee.Blocks == nil {
			return false
		}
		for i, a := range x.Common().Args {
			if a != buf || i >= len(callee.Params) {
				continue
			}
			okAll, nRet := true, 0
			for _, b := range callee.Blocks {
				ret, ok := b.Instrs[len(b.Instrs)-1].(*ssa.Return)
				if !ok || len(ret.Results) == 0 {
					continue
				}
				rv := retVal(ret, 0)
				if k, ok := rv.(*ssa.Const); ok && k.Value == nil {
					continue
				}
				nRet++
				if !fc.fromBytes(rv, callee.Params[i], depth+1, map[ssa.Value]bool{}) {
					okAll = false
				}
			}
			return okAll && nRet > 0
		}
	}
	return false
}

// emptyEdge: which successor of b is taken when buf is empty (-1: b does not test that).
func emptyEdge(b *ssa.BasicBlock, buf ssa.Value) int {
	ifi, ok := b.Instrs[len(b.Instrs)-1].(*ssa.If)
	if !ok {
		return -1
	}
	bin, ok := ifi.Cond.(*ssa.BinOp)
	if !ok || !isBufMethod(bin.X, buf, "Len") {
		return -1
	}
	if k, ok := constInt(bin.Y); !ok || k != 0 {
		return -1
	}
	switch bin.Op {
	case token.GTR, token.NEQ:
		return 1
	case token.EQL, token.LEQ:
		return 0
	}
	return -1
}

// isFlush: x writes the bytes of buf to a writer read from State.Out, directly or by calling a helper
// that does so on every path (the helper receives the buffer).
func (fc *flushCtx) isFlush(x ssa.Instruction, buf ssa.Value, depth int) bool {
	call, ok := x.(*ssa.Call)
	if !ok {
		return false
	}
	if call.Common().IsInvoke() && call.Common().Method.Name() == "Write" {
		ld, ok := call.Common().Value.(*ssa.UnOp)
		if !ok || !fc.isOutAddr(ld.X) {
			return false
		}
		return len(call.Common().Args) == 1 && fc.fromBytes(call.Common().Args[0], buf, depth, map[ssa.Value]bool{})
	}
	callee := call.Common().StaticCallee()
	if callee == nil || !isModuleSSA(callee) || callee.Blocks == nil || depth > 1 {
		return false
	}
	for i, a := range call.Common().Args {
		if a == buf && i < len(callee.Params) {
			bad, _ := fc.allPathsFlush(callee.Blocks[0], 0, callee.Params[i], false, depth+1)
			return bad == nil
		}
	}
	// a helper that is handed the bytes of the buffer and writes them to State.Out on every path
	for i, a := range call.Common().Args {
		if i < len(callee.Params) && fc.fromBytes(a, buf, depth, map[ssa.Value]bool{}) && fc.c.writesParamToOut(callee, i) {
			return true
		}
	}
	return false
}

// writesParamToOut: every path from the entry of callee to a return passes a Write of parameter pi on a writer
// loaded from State.Out.
func (c *Ctx) writesParamToOut(callee *ssa.Function, pi int) bool {
	if callee == nil || callee.Blocks == nil || pi >= len(callee.Params) {
		return false
	}
	stateT := c.TypeNamed("eval", "State")
	p := callee.Params[pi]
	sat := func(in ssa.Instruction) bool {
		call, ok := in.(*ssa.Call)
		if !ok || !call.Common().IsInvoke() || call.Common().Method.Name() != "Write" || len(call.Common().Args) != 1 || call.Common().Args[0] != ssa.Value(p) {
			return false
		}
		ld, ok := call.Common().Value.(*ssa.UnOp)
		return ok && isFieldAddrOf(ld.X, stateT, "Out")
	}
	return mustPassFromEntry(callee, sat, isReturn) == nil
}

// allPathsFlush: from instruction index `from` of block b, every path to a return restores State.Out (when
// needRestore) and then flushes buf, or leaves through the buffer-is-empty edge.
func (fc *flushCtx) allPathsFlush(b0 *ssa.BasicBlock, from0 int, buf ssa.Value, needRestore bool, depth int) (*pathResult, string) {
	isRestore := func(x ssa.Instruction) bool {
		s2, ok := x.(*ssa.Store)
		if !ok || !fc.isOutAddr(s2.Addr) {
			return false
		}
		if m2, ok := s2.Val.(*ssa.MakeInterface); ok && m2.X == buf {
			return false
		}
		return true
	}
	type key struct {
		b                 *ssa.BasicBlock
		restored, flushed bool
	}
	seen := map[key]bool{}
	var bad *pathResult
	var why string
	var walk func(b *ssa.BasicBlock, from int, restored, flushed bool, trail []*ssa.BasicBlock)
	walk = func(b *ssa.BasicBlock, from int, restored, flushed bool, trail []*ssa.BasicBlock) {
		if bad != nil {
			return
		}
		if from == 0 {
			k := key{b, restored, flushed}
			if seen[k] {
				return
			}
			seen[k] = true
		}
		trail = append(trail, b)
		for i := from; i < len(b.Instrs); i++ {
			x := b.Instrs[i]
			if isRestore(x) {
				restored = true
			}
			if restored && fc.isFlush(x, buf, depth) {
				flushed = true
			}
			if _, isRet := x.(*ssa.Return); isRet {
				if !restored || !flushed {
					bad = &pathResult{exit: x, trace: append([]*ssa.BasicBlock{}, trail...)}
					if !restored {
						why = "State.Out still points at the local buffer at this return"
					} else {
						why = "the bytes captured in the local buffer are not written to the restored writer on this path: what the callee printed is lost"
					}
				}
				return
			}
			if _, isPanic := x.(*ssa.Panic); isPanic {
				return
			}
		}
		ee := emptyEdge(b, buf)
		for i, s := range b.Succs {
			walk(s, 0, restored, flushed || (i == ee && restored), trail)
		}
	}
	walk(b0, from0, !needRestore, false, nil)
	return bad, why
}

func init() {
	register("C01", &propDef{
		explain: "Necessary structural conditions of agreement with the reference semantics, decided on the tables and the evaluator's control flow: every operator and node the parser can produce has an evaluation case (operator sets derived from the parser registries via the token-state engine); the precedence table induces exactly the documented weak order and binary operators are left-associative; && and || cannot evaluate their right operand once the left decides; no evaluation result reaches container storage without an error test (interprocedural may-be-error analysis with dominating Type()==ERROR tests as path-dependent sanitisers). Values computed by programs (arithmetic, scoping, slicing, loop control) are not decided. Also: left-before-right evaluation order, and captured output (State.Out pointed at a local buffer) is written to the restored writer on every return. Shares C12.R1/R2: the comparison operators threshold a three-valued Cmp.",
		assume:  []string{"the 13 precedence classes embedded in the checker are the documented semantics", "MacroLiteral outside top level is outside the core language"},
		run:     runC01,
	})
}

// controlSpec: taint "object may be a control object (ReturnValue of break/continue/return) that nobody
// looked at". Only evalInternal hands them out; State.Eval unwraps or rejects them.
func (c *Ctx) controlSpec() TaintSpec {
	base := c.registerSpec()
	evalI := c.Fn("eval", "State.evalInternal")
	evalE := c.Fn("eval", "State.Eval")
	retTag := c.tagConst("RETURN")
	objT := c.TypeNamed("object", "Object")
	rvT := c.TypeNamed("object", "ReturnValue")
	var clean func(v ssa.Value, at *ssa.BasicBlock, depth int) bool
	clean = func(v ssa.Value, at *ssa.BasicBlock, depth int) bool {
		if depth > 6 {
			return false
		}
		if c.tagExcludedAt(v, retTag, at) {
			return true
		}
		switch x := v.(type) {
		case *ssa.Const:
			return true
		case *ssa.MakeInterface:
			return !types.Identical(x.X.Type(), rvT) // a value of another concrete type
		case *ssa.Phi:
			// a variable assigned on some paths only: every incoming value was tested where it was assigned
			for i, e := range x.Edges {
				pred := x.Block().Preds[i]
				if clean(e, pred, depth+1) {
					continue
				}
				// the test may be the very branch that leads here: `if e.Type() == RETURN {..} else -> phi`
				okEdge := false
				if ifi, ok := pred.Instrs[len(pred.Instrs)-1].(*ssa.If); ok && pred.Succs[0] != pred.Succs[1] {
					if bin, ok := ifi.Cond.(*ssa.BinOp); ok && (bin.Op == token.EQL || bin.Op == token.NEQ) {
						if k, isK := constInt(bin.Y); isK && k == retTag {
							if tc, ok := bin.X.(*ssa.Call); ok && tc.Common().IsInvoke() && tc.Common().Method.Name() == "Type" && tc.Common().Value == e {
								edge := 1
								if bin.Op == token.NEQ {
									edge = 0
								}
								if pred.Succs[edge] == x.Block() {
									okEdge = true
								}
							}
						}
					}
				}
				if !okEdge {
					return false
				}
			}
			return true
		case *ssa.Call:
			// object.Value(x) / CopyRegister(x) keep the tag of x unless x is a register/reference
			if obj := calleeObj(x); obj != nil && len(x.Common().Args) == 1 && (obj.Name() == "Value" || obj.Name() == "CopyRegister") {
				return clean(x.Common().Args[0], at, depth+1)
			}
		}
		return false
	}
	return TaintSpec{
		Name: "unexamined control object",
		Source: func(v ssa.Value) bool {
			call, ok := v.(*ssa.Call)
			return ok && isCallTo(call, evalI)
		},
		// State.Eval unwraps `return` and rejects break/continue (its comma-ok assertion to ReturnValue is
		// checked by rule C01.R7 itself)
		Sanitizer:     func(f *types.Func) bool { return f == evalE },
		StorageStruct: base.StorageStruct,
		Carrier:       func(t types.Type) bool { return types.Identical(t, objT) },
		RawSink:       base.RawSink,
		CleanAt:       func(v ssa.Value, use ssa.Instruction) bool { return clean(v, use.Block(), 0) },
	}
}

func init() {
	dumpers["controltaint"] = func(c *Ctx) {
		t := NewTaint(c, c.controlSpec())
		finds, checked := t.Findings()
		fmt.Println("checked", checked)
		for _, f := range finds {
			fmt.Printf("%s | %s | %s | sinks: %s\n", ssaFuncName(f.Fn), f.Desc, c.Pos(instrPos(f.At)), strings.Join(f.Sinks, "; "))
		}
	}
}

// checkControlObjects: rule C01.R7 (also shared into C07 and C12: a control object inside a container makes
// Cmp panic on tag RETURN).
func (c *Ctx) checkControlObjects(r *Report, rule string) {
	t := NewTaint(c, c.controlSpec())
	finds, checked := t.Findings()
	for _, f := range finds {
		r.Fail(rule, ssaFuncName(f.Fn), f.Desc, c.Pos(instrPos(f.At)),
			"a result of evalInternal that may be a control object (break/continue/return) is stored as a value without a Type()==RETURN test: [break] builds an array holding the control object; comparing it panics in Cmp (tag RETURN), and reading it back inside a loop silently breaks the loop; reached: "+strings.Join(f.Sinks, "; "))
	}
	if len(finds) == 0 {
		r.Ok(rule, "eval", fmt.Sprintf("no unexamined evalInternal result reaches storage (%d sinks and storing call sites examined)", checked), "-")
	}
	if checked < 100 {
		r.Undecided("%s: only %d sinks examined", rule, checked)
	}
	// the sanitiser: State.Eval asserts its result to ReturnValue and never returns the asserted value itself
	ev := c.SSAFn(c.Fn("eval", "State.Eval"))
	rvT := c.TypeNamed("object", "ReturnValue")
	var ta *ssa.TypeAssert
	eachInstr(ev, func(in ssa.Instruction) {
		if x, ok := in.(*ssa.TypeAssert); ok && x.CommaOk && types.Identical(x.AssertedType, rvT) {
			if call, ok := x.X.(*ssa.Call); ok && isCallTo(call, c.Fn("eval", "State.evalInternal")) {
				ta = x
			}
		}
	})
	okEval := ta != nil
	why := "State.Eval no longer asserts the result of evalInternal to ReturnValue"
	if ta != nil {
		// every return after the assertion is in a block the assertion dominates
		eachInstr(ev, func(in ssa.Instruction) {
			if ret, ok := in.(*ssa.Return); ok && reachesInstr(ta, ret) && !ta.Block().Dominates(ret.Block()) {
				okEval, why = false, "a return of State.Eval is reachable without the ReturnValue assertion"
			}
		})
		// on the ok edge, a control type other than RETURN is an error: an If on ControlType exists under the ok edge
		hasCtl := false
		ctlIdx := fieldIndex(rvT, "ControlType")
		eachInstr(ev, func(in ssa.Instruction) {
			switch f := in.(type) {
			case *ssa.Field:
				if n, ok := f.X.Type().(*types.Named); ok && n.Obj() == rvT.Obj() && f.Field == ctlIdx {
					hasCtl = true
				}
			case *ssa.FieldAddr:
				if n := namedStruct(f.X.Type()); n != nil && n.Obj() == rvT.Obj() && f.Field == ctlIdx {
					hasCtl = true
				}
			}
		})
		if !hasCtl {
			okEval, why = false, "State.Eval does not look at the ControlType of the asserted ReturnValue"
		}
	}
	r.Check(okEval, rule, ssaFuncName(ev), "State.Eval unwraps or rejects control objects", c.Pos(ev.Pos()), why)
	r.Floor(rule, 2)
}
