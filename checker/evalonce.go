package main

// evalonce: two rules on the order and number of evaluations.
//
//	C01.R13 a builtin's parameter is evaluated once: in evalBuiltin, no path evaluates a parameter of the node
//	        (evalInternal / Eval applied to an element of node.Parameters) and then calls a function of the
//	        package that is handed the same node and evaluates its parameters itself (print(i++) ran i++ twice).
//	C01.R14 reads happen left to right: in the infix arm of evalInternal the value of the left operand that
//	        reaches the operator is dereferenced (object.Value) before the right operand is evaluated, and the
//	        element list of an array literal is built by a function that dereferences each element inside its
//	        evaluation loop (a register or reference kept until the end reads what a later operand assigned).

import (
	"golang.org/x/tools/go/ssa"
)

// evaluatesParametersOf: fn evaluates (evalInternal / Eval) an element of the Parameters list of its
// *ast.Builtin parameter p.
func (c *Ctx) evaluatesParametersOf(fn *ssa.Function, p *ssa.Parameter) bool {
	evalI, evalE := c.Fn("eval", "State.evalInternal"), c.Fn("eval", "State.Eval")
	bT := c.TypeNamed("ast", "Builtin")
	pidx := fieldIndex(bT, "Parameters")
	found := false
	for _, ci := range callsIn(fn, evalI, evalE) {
		args := ci.Common().Args
		if len(args) < 2 {
			continue
		}
		if c.elementOfField(args[1], p, pidx, 0) {
			found = true
		}
	}
	return found
}

// elementOfField: v is (a conversion of) an element of field fidx of the struct base points to.
func (c *Ctx) elementOfField(v ssa.Value, base ssa.Value, fidx int, depth int) bool {
	if depth > 8 || v == nil {
		return false
	}
	switch x := v.(type) {
	case *ssa.ChangeInterface:
		return c.elementOfField(x.X, base, fidx, depth+1)
	case *ssa.MakeInterface:
		return c.elementOfField(x.X, base, fidx, depth+1)
	case *ssa.UnOp:
		if ia, ok := x.X.(*ssa.IndexAddr); ok {
			return c.elementOfField(ia.X, base, fidx, depth+1)
		}
		if fa, ok := x.X.(*ssa.FieldAddr); ok {
			return fa.Field == fidx && fa.X == base
		}
	case *ssa.Slice:
		return c.elementOfField(x.X, base, fidx, depth+1)
	case *ssa.Phi:
		for _, e := range x.Edges {
			if c.elementOfField(e, base, fidx, depth+1) {
				return true
			}
		}
	}
	return false
}

func (c *Ctx) checkBuiltinParameterEvaluatedOnce(r *Report, rule string) {
	fn := c.SSAFn(c.Fn("eval", "State.evalBuiltin"))
	evalI, evalE := c.Fn("eval", "State.evalInternal"), c.Fn("eval", "State.Eval")
	bT := c.TypeNamed("ast", "Builtin")
	pidx := fieldIndex(bT, "Parameters")
	var node *ssa.Parameter
	for _, p := range fn.Params {
		if n := namedStruct(p.Type()); n != nil && n.Obj() == bT.Obj() {
			node = p
		}
	}
	if node == nil || pidx < 0 {
		r.Undecided("%s: evalBuiltin(node *ast.Builtin) / Builtin.Parameters not found", rule)
		return
	}
	// the evaluations evalBuiltin does itself
	var own []ssa.CallInstruction
	for _, ci := range callsIn(fn, evalI, evalE) {
		if args := ci.Common().Args; len(args) >= 2 && c.elementOfField(args[1], node, pidx, 0) {
			own = append(own, ci)
		}
	}
	// the helpers that are handed the node and evaluate its parameters
	n := 0
	eachInstr(fn, func(in ssa.Instruction) {
		call, ok := in.(*ssa.Call)
		if !ok {
			return
		}
		h := call.Common().StaticCallee()
		if h == nil || h.Pkg != fn.Pkg || len(h.Blocks) == 0 {
			return
		}
		for i, a := range call.Common().Args {
			if a != ssa.Value(node) || i >= len(h.Params) || !c.evaluatesParametersOf(h, h.Params[i]) {
				continue
			}
			n++
			before := ""
			for _, o := range own {
				if reachesInstr(o.(ssa.Instruction), call) {
					before = c.Pos(o.Pos())
				}
			}
			r.Check(before == "", rule, ssaFuncName(fn), "parameters handed to "+h.Name()+" were not evaluated before", c.Pos(call.Pos()),
				"evalBuiltin evaluates a parameter of the node ("+before+") on a path that then calls "+h.Name()+", which evaluates the node's parameters itself: the first argument runs twice (i=0; print(i++) prints 1 and leaves i at 2)")
		}
	})
	if n == 0 {
		r.OkWhy(rule, ssaFuncName(fn), "no helper evaluates the node's parameters again", c.Pos(fn.Pos()), "every builtin's arguments are evaluated in evalBuiltin itself")
	}
}

func (c *Ctx) checkReadsLeftToRight(r *Report, rule string) {
	ev := c.SSAFn(c.Fn("eval", "State.evalInternal"))
	evalE, evalI := c.Fn("eval", "State.Eval"), c.Fn("eval", "State.evalInternal")
	valueFn := c.Fn("object", "Value")
	infixT := c.TypeNamed("ast", "InfixExpression")
	li, ri := fieldIndex(infixT, "Left"), fieldIndex(infixT, "Right")
	isFieldOfInfix := func(v ssa.Value, idx int) bool {
		for i := 0; i < 4; i++ {
			switch x := v.(type) {
			case *ssa.ChangeInterface:
				v = x.X
			case *ssa.MakeInterface:
				v = x.X
			case *ssa.UnOp:
				fa, ok := x.X.(*ssa.FieldAddr)
				if !ok {
					return false
				}
				n := namedStruct(fa.X.Type())
				return n != nil && n.Obj() == infixT.Obj() && fa.Field == idx
			default:
				return false
			}
		}
		return false
	}
	// (a) infix: every evaluation of node.Right that an evaluation of node.Left can precede is preceded, on all
	// paths from that evaluation, by object.Value applied to its result
	n := 0
	for _, lc := range callsIn(ev, evalE, evalI) {
		if args := lc.Common().Args; len(args) < 2 || !isFieldOfInfix(args[1], li) {
			continue
		}
		left := lc.(*ssa.Call)
		for _, rc := range callsIn(ev, evalE, evalI) {
			if args := rc.Common().Args; len(args) < 2 || !isFieldOfInfix(args[1], ri) || !reachesInstr(left, rc.(ssa.Instruction)) {
				continue
			}
			n++
			bad := mustPassBefore(left, func(in ssa.Instruction) bool {
				vc, ok := in.(*ssa.Call)
				return ok && isCallTo(vc, valueFn) && len(vc.Common().Args) == 1 && vc.Common().Args[0] == ssa.Value(left)
			}, func(in ssa.Instruction) bool { return in == rc.(ssa.Instruction) })
			if bad != nil {
				r.Fail(rule, ssaFuncName(ev), "the left operand is read before the right one is evaluated", c.Pos(rc.Pos()),
					"the right operand of an infix expression is evaluated while the left one is still a register or a reference (no object.Value on its result in between): an assignment in the right operand changes what the left one reads (func f(n){ n + (n = 10) }; f(1) is 20 with registers, 11 without)", c.tracePath(bad)...)
			} else {
				r.Ok(rule, ssaFuncName(ev), "the left operand is read before the right one is evaluated", c.Pos(rc.Pos()))
			}
		}
	}
	if n == 0 {
		r.Undecided("%s: no evaluation of node.Left followed by one of node.Right found in evalInternal", rule)
	}
	// (b) array literals: the list handed to NewArray comes from a function (or loop) in which object.Value is
	// applied to each evaluated element before the next one is evaluated
	arrT := c.TypeNamed("ast", "ArrayLiteral")
	ei := fieldIndex(arrT, "Elements")
	m := 0
	eachInstr(ev, func(in ssa.Instruction) {
		call, ok := in.(*ssa.Call)
		if !ok {
			return
		}
		h := call.Common().StaticCallee()
		if h == nil || h.Pkg != ev.Pkg || len(h.Blocks) == 0 {
			return
		}
		for i, a := range call.Common().Args {
			ld, ok := a.(*ssa.UnOp)
			if !ok {
				continue
			}
			fa, ok := ld.X.(*ssa.FieldAddr)
			if !ok || fa.Field != ei || namedStruct(fa.X.Type()) == nil || namedStruct(fa.X.Type()).Obj() != arrT.Obj() || i >= len(h.Params) {
				continue
			}
			m++
			// assumptions from the constant boolean arguments of this call
			assume := map[*ssa.Parameter]bool{}
			for j, b := range call.Common().Args {
				if k, ok := b.(*ssa.Const); ok && j < len(h.Params) {
					if bv, isB := constBool(k); isB {
						assume[h.Params[j]] = bv
					}
				}
			}
			ok2, why := c.valuesEachElementInLoop(h, assume)
			r.Check(ok2, rule, ssaFuncName(ev), "array elements are read as they are evaluated", c.Pos(call.Pos()), why+": a reference or register kept until the whole list is evaluated reads what a later element assigned (x = 1; func f(){ [x, (x = 5)] } gives [5,5])")
		}
	})
	if m == 0 {
		r.Undecided("%s: the element list of an array literal is not handed to a function of package eval", rule)
	}
}

func constBool(k *ssa.Const) (bool, bool) {
	if k.Value == nil || k.Value.String() != "true" && k.Value.String() != "false" {
		return false, false
	}
	return k.Value.String() == "true", true
}

// valuesEachElementInLoop: in h, every evaluation (evalInternal/Eval) inside a loop is followed, on every path
// that goes round the loop again (feasible under the assumed boolean parameters), by object.Value on its result.
func (c *Ctx) valuesEachElementInLoop(h *ssa.Function, assume map[*ssa.Parameter]bool) (bool, string) {
	evalE, evalI := c.Fn("eval", "State.Eval"), c.Fn("eval", "State.evalInternal")
	valueFn := c.Fn("object", "Value")
	feasible := func(pred, succ *ssa.BasicBlock) bool {
		for _, cc := range edgeConds(pred, succ) {
			if p, ok := cc.Cond.(*ssa.Parameter); ok {
				if want, assumed := assume[p]; assumed && (cc.Edge == 0) != want {
					return false
				}
			}
		}
		return true
	}
	n := 0
	for _, ec := range callsIn(h, evalE, evalI) {
		e := ec.(*ssa.Call)
		if !reachesInstr(e, e) {
			continue // not in a loop
		}
		n++
		// search: from e, can we get back to e without passing Value(e)?
		type st struct{ b *ssa.BasicBlock }
		seen := map[*ssa.BasicBlock]bool{}
		var walk func(b *ssa.BasicBlock, from int) bool
		walk = func(b *ssa.BasicBlock, from int) bool {
			for i := from; i < len(b.Instrs); i++ {
				in := b.Instrs[i]
				if in == ssa.Instruction(e) && !(b == e.Block() && from > 0 && i < from) {
					if i >= from && !(b == e.Block() && from == instrIndex(e)+1 && i == instrIndex(e)) {
						return true
					}
				}
				if vc, ok := in.(*ssa.Call); ok && isCallTo(vc, valueFn) && len(vc.Common().Args) == 1 && vc.Common().Args[0] == ssa.Value(e) {
					return false
				}
			}
			for _, s := range b.Succs {
				if !feasible(b, s) {
					continue
				}
				if s == e.Block() {
					// back at the evaluation's block: reaches e again unless Value(e)... (e dominates its own Value calls, so
					// a Value before e in this block cannot be of this iteration)
					return true
				}
				if seen[s] {
					continue
				}
				seen[s] = true
				if walk(s, 0) {
					return true
				}
			}
			return false
		}
		if walk(e.Block(), instrIndex(e)+1) {
			return false, "the function that evaluates the elements (" + ssaFuncName(h) + ") can go on to the next element without applying object.Value to the one it just evaluated"
		}
	}
	if n == 0 {
		return false, "no evaluation loop found in " + ssaFuncName(h)
	}
	return true, ""
}
