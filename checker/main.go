package main

// grolcheck: static verification of the properties in /verif/properties.jsonl against
// the current source of /repo. See /verif/DESIGN.md.

import (
	"flag"
	"fmt"
	"go/constant"
	"go/types"
	"os"
	"runtime/debug"
	"sort"
	"strconv"
	"strings"
	"time"
)

type propDef struct {
	explain string
	assume  []string
	run     func(c *Ctx, r *Report)
}

var props = map[string]*propDef{}

func register(id string, p *propDef) { props[id] = p }

func constantString(c *types.Const) string {
	if c.Val().Kind() == constant.String {
		return constant.StringVal(c.Val())
	}
	return c.Val().ExactString()
}

var onlyRule, knownPath string

func main() {
	prop := flag.String("prop", "", "property id (C01..C20) or 'all'")
	tier := flag.String("tier", "quick", "quick|thorough")
	repo := flag.String("repo", "/repo", "repository to analyse")
	verif := flag.String("verif", "/verif", "verification directory (evidence, known findings)")
	only := flag.String("only", "", "only report this rule id (replay)")
	known := flag.String("known", "", "known findings file (default <verif>/known_findings.json)")
	list := flag.Bool("list", false, "list properties")
	dump := flag.String("dump", "", "debug: dump an engine's view (extreg)")
	flag.Parse()
	if *dump != "" {
		c := Load(LoadConfig{Repo: *repo, MinPkgs: 10})
		dumpEngine(c, *dump)
		return
	}
	onlyRule = *only
	knownPath = *known
	if knownPath == "" {
		knownPath = *verif + "/known_findings.json"
	}
	if *list {
		var ids []string
		for id := range props {
			ids = append(ids, id)
		}
		sort.Strings(ids)
		fmt.Println(strings.Join(ids, " "))
		return
	}
	seed := 0
	if s := os.Getenv("VERIF_SEED"); s != "" {
		seed, _ = strconv.Atoi(s)
	}
	ids := []string{*prop}
	if *prop == "all" {
		ids = nil
		for id := range props {
			ids = append(ids, id)
		}
		sort.Strings(ids)
	}
	exit := 0
	var ctx *Ctx
	for _, id := range ids {
		p := props[id]
		if p == nil {
			fmt.Fprintf(os.Stderr, "unknown property %q\n", id)
			os.Exit(2)
		}
		code := runOne(id, p, *tier, *repo, *verif, seed, &ctx)
		if code > exit {
			if code == 1 || exit == 0 {
				exit = code
			}
		}
		if code == 1 {
			exit = 1
		}
	}
	os.Exit(exit)
}

func runOne(id string, p *propDef, tier, repo, verif string, seed int, shared **Ctx) (code int) {
	start := time.Now()
	var r *Report
	defer func() {
		if e := recover(); e != nil {
			if u, ok := e.(undecided); ok {
				fmt.Printf("UNDECIDED property=%s %s\n", id, u.msg)
			} else {
				fmt.Printf("UNDECIDED property=%s checker panic: %v\n%s\n", id, e, debug.Stack())
			}
			code = 2
		}
	}()
	if *shared == nil {
		*shared = Load(LoadConfig{Repo: repo, MinPkgs: 10})
		(*shared).Tier = tier
	}
	c := *shared
	r = NewReport(id, tier, c)
	p.run(c, r)
	if onlyRule != "" {
		var keep []*Obl
		for _, o := range r.Obls {
			if o.Rule == onlyRule {
				keep = append(keep, o)
			}
		}
		r.Obls = keep
		for k := range r.Floors {
			if k != onlyRule {
				delete(r.Floors, k)
			}
		}
	}
	var st map[string]any
	if tier == "thorough" && onlyRule == "" {
		st = runSelfTest(id, c, r, verif)
	}
	return r.Finish(finishOpts{verifDir: verif, seed: seed, start: start, explain: p.explain, assume: p.assume, selftest: st})
}

func init() {
	register("C18", &propDef{
		explain: "Path proof on the SSA of repl.AutoSave: the state file is touched only by os.Rename(tmp, AutoSaveFile), where tmp is a CreateTemp file in the same directory, and the rename is dominated by the success edges of creating and writing the temporary file; nothing else reachable from AutoSave mutates the file system. Decides the code shape that makes the save crash-atomic; assumes POSIX rename atomicity and process (not OS/power) crashes.",
		assume:  []string{"os.Rename within one directory is atomic (POSIX)", "crash = process death; no fsync-level durability is claimed", "os.File writes are unbuffered in user space"},
		run:     runC18,
	})
}

func constantInt64(v constant.Value) (int64, bool) {
	if v == nil || v.Kind() != constant.Int {
		return 0, false
	}
	return constant.Int64Val(v)
}
