package main

// optrule: rule C09.R9, the limits of the command line reach every state.
//
// -max-depth, -max-save-len and -no-register are carried by repl.Options; a state made by eval.NewState()
// starts with the defaults. Wherever packages main and repl call eval.NewState() in a function that has a
// repl.Options value at hand (parameter, local or captured variable), the new state's MaxDepth,
// MaxValueLen and NoReg are stored from the fields of the same name of an Options value (the MaxDepth
// store may be conditional: 0 keeps the default). A state built without them runs files without the
// depth limit the user asked for.

import (
	"go/types"

	"golang.org/x/tools/go/ssa"
)

func (c *Ctx) checkOptionsReachStates(r *Report, rule string) {
	stateT := c.TypeNamed("eval", "State")
	optT := c.TypeNamed("repl", "Options")
	newState := c.Fn("eval", "NewState")
	fields := []string{"MaxDepth", "MaxValueLen", "NoReg"}
	isOptions := func(t types.Type) bool {
		if p, ok := t.(*types.Pointer); ok {
			t = p.Elem()
		}
		n, ok := t.(*types.Named)
		return ok && n.Obj() == optT.Obj()
	}
	fromOptions := func(v ssa.Value, field string) bool {
		idx := fieldIndex(optT, field)
		switch x := v.(type) {
		case *ssa.Field:
			return x.Field == idx && isOptions(x.X.Type())
		case *ssa.UnOp:
			if fa, ok := x.X.(*ssa.FieldAddr); ok {
				return fa.Field == idx && isOptions(fa.X.Type())
			}
		}
		return false
	}
	n := 0
	for _, fn := range c.ModuleSSAFuncs() {
		top := fn
		for top.Parent() != nil {
			top = top.Parent()
		}
		if top.Pkg == nil {
			continue
		}
		if pk := top.Pkg.Pkg.Name(); pk != "main" && pk != "repl" {
			continue
		}
		calls := callsIn(fn, newState)
		if len(calls) == 0 {
			continue
		}
		// an Options value at hand?
		has := false
		for _, p := range fn.Params {
			if isOptions(p.Type()) {
				has = true
			}
		}
		for _, fv := range fn.FreeVars {
			if isOptions(fv.Type()) {
				has = true
			}
		}
		eachInstr(fn, func(in ssa.Instruction) {
			if v, ok := in.(ssa.Value); ok && isOptions(v.Type()) {
				has = true
			}
		})
		if !has {
			continue
		}
		for _, ci := range calls {
			call, ok := ci.(*ssa.Call)
			if !ok {
				continue
			}
			n++
			for _, f := range fields {
				idx := fieldIndex(stateT, f)
				set := false
				for _, ref := range *call.Referrers() {
					fa, ok := ref.(*ssa.FieldAddr)
					if !ok || fa.Field != idx {
						continue
					}
					for _, r2 := range *fa.Referrers() {
						if st, ok := r2.(*ssa.Store); ok && st.Addr == ssa.Value(fa) && fromOptions(st.Val, f) {
							set = true
						}
					}
				}
				desc := "the new state gets " + f + " from the options"
				r.Check(set, rule, ssaFuncName(fn), desc, c.Pos(call.Pos()),
					"a state is made with eval.NewState() next to a repl.Options value and its "+f+" is not set from it: the program runs with the default instead of what the command line asked for (grol -max-depth 100 file.gr ran 5000 levels deep)")
			}
		}
	}
	if n < 3 {
		r.Undecided("%s: only %d states made next to an Options value found (EvalStringWithOption, Interactive, main expected)", rule, n)
	}
	r.Floor(rule, 9)
}
