package main

// extreg: resolves the extension registry from the registration idiom
//   x := object.Extension{...}; x.Name = ...; x.Callback = ...; MustCreate(x)
// by a forward reaching-stores analysis on the SSA of each registering function.

import (
	"fmt"
	"go/constant"
	"go/types"
	"sort"
	"strings"

	"golang.org/x/tools/go/ssa"
)

type Registration struct {
	Names      []string
	MinArgs    int
	MaxArgs    int
	ArgTypes   []string // object.Type constant names
	DontCache  bool
	ClientData bool // non-nil client data
	Callback   *ssa.Function
	Short      bool // wrapped by object.ShortCallback
	Guards     []string
	Site       *ssa.Call
	In         *ssa.Function
	Unknown    []string // fields that could not be resolved
}

func (g *Registration) Key() string { return strings.Join(g.Names, ",") }

type fieldState map[int]map[ssa.Value]bool // field index -> possible stored values (absent = zero value)

func (s fieldState) clone() fieldState {
	n := fieldState{}
	for k, v := range s {
		m := map[ssa.Value]bool{}
		for x := range v {
			m[x] = true
		}
		n[k] = m
	}
	return n
}

var zeroMarker ssa.Value = &ssa.Const{}

// join unions other into s (absent field in one side = zero marker). Returns changed.
func (s fieldState) join(o fieldState, nfields int) bool {
	changed := false
	for f := 0; f < nfields; f++ {
		a, aok := s[f]
		b, bok := o[f]
		if !aok && !bok {
			continue
		}
		if !aok {
			a = map[ssa.Value]bool{zeroMarker: true}
			s[f] = a
			changed = true
		}
		if !bok {
			b = map[ssa.Value]bool{zeroMarker: true}
		}
		for v := range b {
			if !a[v] {
				a[v] = true
				changed = true
			}
		}
	}
	return changed
}

// reachingFieldStores computes, for a local struct Alloc, the field values visible at each load of it.
func reachingFieldStores(alloc *ssa.Alloc) (map[*ssa.UnOp]fieldState, bool) {
	st, ok := alloc.Type().(*types.Pointer).Elem().Underlying().(*types.Struct)
	if !ok {
		return nil, false
	}
	nf := st.NumFields()
	// classify referrers
	fieldAddrs := map[*ssa.FieldAddr]bool{}
	for _, ref := range *alloc.Referrers() {
		switch x := ref.(type) {
		case *ssa.FieldAddr:
			fieldAddrs[x] = true
			for _, r2 := range *x.Referrers() {
				switch y := r2.(type) {
				case *ssa.Store:
					if y.Addr != x {
						return nil, false // field address stored somewhere
					}
				case *ssa.UnOp:
				case *ssa.DebugRef:
				default:
					return nil, false
				}
			}
		case *ssa.UnOp: // load
		case *ssa.DebugRef:
		case *ssa.Store:
			if x.Addr != alloc {
				return nil, false // address escapes
			}
		default:
			return nil, false
		}
	}
	in := map[*ssa.BasicBlock]fieldState{}
	out := map[*ssa.BasicBlock]fieldState{}
	reached := map[*ssa.BasicBlock]bool{}
	snap := map[*ssa.UnOp]fieldState{}
	work := []*ssa.BasicBlock{alloc.Block()}
	in[alloc.Block()] = fieldState{}
	reached[alloc.Block()] = true
	unknown := false
	for len(work) > 0 {
		b := work[0]
		work = work[1:]
		cur := in[b].clone()
		for _, instr := range b.Instrs {
			switch x := instr.(type) {
			case *ssa.Alloc:
				if x == alloc {
					cur = fieldState{}
				}
			case *ssa.Store:
				if fa, ok := x.Addr.(*ssa.FieldAddr); ok && fieldAddrs[fa] {
					cur[fa.Field] = map[ssa.Value]bool{x.Val: true}
				} else if x.Addr == alloc {
					unknown = true
				}
			case *ssa.UnOp:
				if x.X == alloc {
					if old, ok := snap[x]; ok {
						old.join(cur, nf)
					} else {
						snap[x] = cur.clone()
					}
				}
			}
		}
		if o, ok := out[b]; ok {
			if !o.join(cur, nf) {
				continue
			}
		} else {
			out[b] = cur
		}
		for _, s := range b.Succs {
			if !reached[s] {
				reached[s] = true
				in[s] = out[b].clone()
				work = append(work, s)
			} else if in[s].join(out[b], nf) {
				work = append(work, s)
			}
		}
	}
	return snap, !unknown
}

// resolveConsts collects the constants a value may hold, looking through loads of struct
// fields whose struct comes from a ranged composite-literal array (table-driven loops).
func resolveConsts(v ssa.Value, depth int) ([]constant.Value, bool) {
	if depth > 6 {
		return nil, false
	}
	switch x := v.(type) {
	case *ssa.Const:
		return []constant.Value{x.Value}, true
	case *ssa.Convert:
		return resolveConsts(x.X, depth+1)
	case *ssa.ChangeType:
		return resolveConsts(x.X, depth+1)
	case *ssa.Phi:
		var all []constant.Value
		for _, e := range x.Edges {
			r, ok := resolveConsts(e, depth+1)
			if !ok {
				return nil, false
			}
			all = append(all, r...)
		}
		return all, true
	case *ssa.Field:
		return resolveFieldOf(x.X, x.Field, depth+1)
	case *ssa.UnOp:
		if fa, ok := x.X.(*ssa.FieldAddr); ok {
			return resolveFieldOfAddr(fa.X, fa.Field, depth+1)
		}
	}
	return nil, false
}

// resolveFieldOf: field f of struct value sv.
func resolveFieldOf(sv ssa.Value, f int, depth int) ([]constant.Value, bool) {
	if depth > 6 {
		return nil, false
	}
	switch x := sv.(type) {
	case *ssa.UnOp: // load of a struct from an address
		return resolveFieldOfAddr(x.X, f, depth+1)
	case *ssa.Phi:
		var all []constant.Value
		for _, e := range x.Edges {
			r, ok := resolveFieldOf(e, f, depth+1)
			if !ok {
				return nil, false
			}
			all = append(all, r...)
		}
		return all, true
	}
	return nil, false
}

// resolveFieldOfAddr: field f of the struct stored at address addr.
func resolveFieldOfAddr(addr ssa.Value, f int, depth int) ([]constant.Value, bool) {
	if depth > 6 {
		return nil, false
	}
	switch x := addr.(type) {
	case *ssa.Alloc:
		// whole-struct stores into the alloc, or field stores
		var all []constant.Value
		found := false
		for _, ref := range *x.Referrers() {
			switch y := ref.(type) {
			case *ssa.Store:
				if y.Addr == x {
					r, ok := resolveFieldOf(y.Val, f, depth+1)
					if !ok {
						return nil, false
					}
					all = append(all, r...)
					found = true
				}
			case *ssa.FieldAddr:
				if y.Field != f {
					continue
				}
				for _, r2 := range *y.Referrers() {
					if st, ok := r2.(*ssa.Store); ok && st.Addr == y {
						r, ok := resolveConsts(st.Val, depth+1)
						if !ok {
							return nil, false
						}
						all = append(all, r...)
						found = true
					}
				}
			}
		}
		return all, found
	case *ssa.IndexAddr:
		// element of a slice/array: find the backing array alloc and collect all stores to field f of any element
		base := x.X
		if sl, ok := base.(*ssa.Slice); ok {
			base = sl.X
		}
		arr, ok := base.(*ssa.Alloc)
		if !ok {
			return nil, false
		}
		var all []constant.Value
		found := false
		for _, ref := range *arr.Referrers() {
			ia, ok := ref.(*ssa.IndexAddr)
			if !ok {
				continue
			}
			for _, r2 := range *ia.Referrers() {
				switch y := r2.(type) {
				case *ssa.FieldAddr:
					if y.Field != f {
						continue
					}
					for _, r3 := range *y.Referrers() {
						if st, ok := r3.(*ssa.Store); ok && st.Addr == y {
							r, ok := resolveConsts(st.Val, depth+1)
							if !ok {
								return nil, false
							}
							all = append(all, r...)
							found = true
						}
					}
				case *ssa.Store:
					if y.Addr == ia {
						r, ok := resolveFieldOf(y.Val, f, depth+1)
						if !ok {
							return nil, false
						}
						all = append(all, r...)
						found = true
					}
				}
			}
		}
		return all, found
	}
	return nil, false
}

// resolveFunc finds the function behind a callback value.
func resolveFunc(v ssa.Value) (*ssa.Function, bool /*short*/) {
	v = stripConv(v)
	switch x := v.(type) {
	case *ssa.Function:
		return x, false
	case *ssa.MakeClosure:
		if f, ok := x.Fn.(*ssa.Function); ok {
			return f, false
		}
	case *ssa.Call:
		if obj := calleeObj(x); obj != nil && obj.Name() == "ShortCallback" && isModulePkg(obj.Pkg()) && len(x.Common().Args) == 1 {
			f, _ := resolveFunc(x.Common().Args[0])
			return f, true
		}
	}
	return nil, false
}

// resolveTypeSlice resolves a []object.Type literal to constant values.
func resolveTypeSlice(v ssa.Value) ([]int64, bool) {
	if c, ok := v.(*ssa.Const); ok && c.Value == nil {
		return nil, true // nil slice
	}
	sl, ok := v.(*ssa.Slice)
	if !ok {
		return nil, false
	}
	arr, ok := sl.X.(*ssa.Alloc)
	if !ok {
		return nil, false
	}
	at, ok := arr.Type().(*types.Pointer).Elem().Underlying().(*types.Array)
	if !ok {
		return nil, false
	}
	res := make([]int64, at.Len())
	set := make([]bool, at.Len())
	for _, ref := range *arr.Referrers() {
		ia, ok := ref.(*ssa.IndexAddr)
		if !ok {
			continue
		}
		idx, ok := constInt(ia.Index)
		if !ok {
			return nil, false
		}
		for _, r2 := range *ia.Referrers() {
			if st, ok := r2.(*ssa.Store); ok && st.Addr == ia {
				val, ok := constInt(st.Val)
				if !ok {
					return nil, false
				}
				res[idx] = val
				set[idx] = true
			}
		}
	}
	return res, true
}

// configGuards returns the Config field names whose true edge dominates the instruction.
func configGuards(in ssa.Instruction) []string {
	var res []string
	fn := in.Parent()
	for _, b := range fn.Blocks {
		ifi, ok := b.Instrs[len(b.Instrs)-1].(*ssa.If)
		if !ok {
			continue
		}
		ld, ok := ifi.Cond.(*ssa.UnOp)
		if !ok {
			continue
		}
		fa, ok := ld.X.(*ssa.FieldAddr)
		if !ok {
			continue
		}
		st, ok := fa.X.Type().(*types.Pointer).Elem().Underlying().(*types.Struct)
		if !ok {
			continue
		}
		named, _ := fa.X.Type().(*types.Pointer).Elem().(*types.Named)
		if named == nil || named.Obj().Name() != "Config" {
			continue
		}
		if onEdge(b, 0, in.Block()) {
			res = append(res, st.Field(fa.Field).Name())
		}
	}
	return res
}

func (c *Ctx) guardsOfFunc(fn *ssa.Function, depth int) []string {
	if depth > 3 {
		return nil
	}
	cg := c.CG()
	node := cg.g.Nodes[fn]
	if node == nil || len(node.In) == 0 {
		return nil
	}
	var inter map[string]bool
	for _, e := range node.In {
		if e.Site == nil || !isModuleSSA(e.Caller.Func) {
			continue
		}
		if e.Site.Common().StaticCallee() != fn {
			continue
		}
		gs := map[string]bool{}
		for _, g := range configGuards(e.Site) {
			gs[g] = true
		}
		for _, g := range c.guardsOfFunc(e.Caller.Func, depth+1) {
			gs[g] = true
		}
		if inter == nil {
			inter = gs
		} else {
			for g := range inter {
				if !gs[g] {
					delete(inter, g)
				}
			}
		}
	}
	var res []string
	for g := range inter {
		res = append(res, g)
	}
	sort.Strings(res)
	return res
}

var extregCache map[*Ctx][]*Registration

// ExtReg returns all extension registrations found in the module.
func (c *Ctx) ExtReg() []*Registration {
	if extregCache == nil {
		extregCache = map[*Ctx][]*Registration{}
	}
	if r, ok := extregCache[c]; ok {
		return r
	}
	mustCreate := c.Fn("extensions", "MustCreate")
	createFunction := c.Fn("object", "CreateFunction")
	extT := c.TypeNamed("object", "Extension")
	st := extT.Underlying().(*types.Struct)
	fieldIdx := map[string]int{}
	for i := 0; i < st.NumFields(); i++ {
		fieldIdx[st.Field(i).Name()] = i
	}
	for _, f := range []string{"Name", "MinArgs", "MaxArgs", "ArgTypes", "Callback", "ClientData", "DontCache"} {
		if _, ok := fieldIdx[f]; !ok {
			undecidedf("object.Extension has no field %s", f)
		}
	}
	typeNames := c.objectTypeNames()
	var regs []*Registration
	for _, fn := range c.ModuleSSAFuncs() {
		if fn.Pkg == nil && fn.Parent() == nil {
			continue
		}
		if fn.Name() == "MustCreate" && fn.Parent() == nil {
			continue // the wrapper itself
		}
		cache := map[*ssa.Alloc]map[*ssa.UnOp]fieldState{}
		for _, call := range callsIn(fn, mustCreate, createFunction) {
			cl, ok := call.(*ssa.Call)
			if !ok {
				continue
			}
			reg := &Registration{Site: cl, In: fn, MaxArgs: 0}
			regs = append(regs, reg)
			arg := cl.Common().Args[0]
			ld, ok := arg.(*ssa.UnOp)
			var alloc *ssa.Alloc
			if ok {
				alloc, _ = ld.X.(*ssa.Alloc)
			}
			if alloc == nil {
				reg.Unknown = append(reg.Unknown, "argument is not a load of a local Extension value")
				continue
			}
			snaps, have := cache[alloc]
			if !have {
				var okk bool
				snaps, okk = reachingFieldStores(alloc)
				if !okk {
					snaps = nil
				}
				cache[alloc] = snaps
			}
			fs, ok := snaps[ld]
			if snaps == nil || !ok {
				reg.Unknown = append(reg.Unknown, "extension value escapes or is assigned as a whole")
				continue
			}
			get := func(name string) []ssa.Value {
				var vs []ssa.Value
				for v := range fs[fieldIdx[name]] {
					vs = append(vs, v)
				}
				return vs
			}
			// Name
			for _, v := range get("Name") {
				if v == zeroMarker {
					reg.Unknown = append(reg.Unknown, "Name may be empty")
					continue
				}
				cs, ok := resolveConsts(v, 0)
				if !ok || len(cs) == 0 {
					reg.Unknown = append(reg.Unknown, "Name not resolvable: "+v.String())
					continue
				}
				for _, k := range cs {
					if k != nil && k.Kind() == constant.String {
						reg.Names = append(reg.Names, constant.StringVal(k))
					}
				}
			}
			if len(get("Name")) == 0 {
				reg.Unknown = append(reg.Unknown, "Name not set")
			}
			sort.Strings(reg.Names)
			intField := func(name string) int {
				vs := get(name)
				if len(vs) == 0 {
					return 0
				}
				if len(vs) > 1 {
					reg.Unknown = append(reg.Unknown, name+" has several reaching values")
					return 0
				}
				if vs[0] == zeroMarker {
					return 0
				}
				i, ok := constInt(vs[0])
				if !ok {
					reg.Unknown = append(reg.Unknown, name+" not constant")
				}
				return int(i)
			}
			reg.MinArgs = intField("MinArgs")
			reg.MaxArgs = intField("MaxArgs")
			// DontCache
			for _, v := range get("DontCache") {
				if v == zeroMarker {
					continue
				}
				if k, ok := v.(*ssa.Const); ok && k.Value != nil && k.Value.Kind() == constant.Bool {
					if constant.BoolVal(k.Value) {
						reg.DontCache = true
					}
				} else {
					reg.Unknown = append(reg.Unknown, "DontCache not constant")
				}
			}
			if vs := get("DontCache"); len(vs) > 1 {
				reg.Unknown = append(reg.Unknown, "DontCache has several reaching values")
			}
			// ClientData
			for _, v := range get("ClientData") {
				if v == zeroMarker {
					continue
				}
				if k, ok := v.(*ssa.Const); ok && k.Value == nil {
					continue
				}
				reg.ClientData = true
			}
			// ArgTypes
			vs := get("ArgTypes")
			switch {
			case len(vs) == 0 || (len(vs) == 1 && vs[0] == zeroMarker):
			case len(vs) == 1:
				ts, ok := resolveTypeSlice(vs[0])
				if !ok {
					reg.Unknown = append(reg.Unknown, "ArgTypes not resolvable")
				}
				for _, t := range ts {
					reg.ArgTypes = append(reg.ArgTypes, typeNames[t])
				}
			default:
				reg.Unknown = append(reg.Unknown, "ArgTypes has several reaching values")
			}
			// Callback
			vs = get("Callback")
			if len(vs) != 1 || vs[0] == zeroMarker {
				reg.Unknown = append(reg.Unknown, fmt.Sprintf("Callback has %d reaching values", len(vs)))
			} else {
				f, short := resolveFunc(vs[0])
				if f == nil {
					reg.Unknown = append(reg.Unknown, "Callback not resolvable: "+vs[0].String())
				}
				reg.Callback, reg.Short = f, short
			}
			// guards
			gs := map[string]bool{}
			for _, g := range configGuards(cl) {
				gs[g] = true
			}
			top := fn
			for top.Parent() != nil {
				top = top.Parent()
			}
			for _, g := range c.guardsOfFunc(top, 0) {
				gs[g] = true
			}
			for g := range gs {
				reg.Guards = append(reg.Guards, g)
			}
			sort.Strings(reg.Guards)
		}
	}
	sort.SliceStable(regs, func(i, j int) bool { return regs[i].Site.Pos() < regs[j].Site.Pos() })
	extregCache[c] = regs
	return regs
}

// objectTypeNames maps object.Type constant values to their names.
func (c *Ctx) objectTypeNames() map[int64]string {
	p := c.P("object")
	tt := c.TypeNamed("object", "Type")
	res := map[int64]string{}
	for _, name := range p.Types.Scope().Names() {
		k, ok := p.Types.Scope().Lookup(name).(*types.Const)
		if !ok || !types.Identical(k.Type(), tt) {
			continue
		}
		if v, ok := constant.Int64Val(k.Val()); ok {
			res[v] = name
		}
	}
	return res
}

func hasGuard(reg *Registration, g string) bool {
	for _, x := range reg.Guards {
		if x == g {
			return true
		}
	}
	return false
}
