package main

// taint: interprocedural may-hold analysis for interface-typed objects over SSA.
// Phase 1: which values / parameters / results / struct fields may hold a "tainted" object
//          (e.g. a *object.Register) at run time.
// Phase 2: which parameters of which functions reach a storage sink without a sanitiser.
// Reporting happens at the frontier: the raw sink or call site where the tainted value
// originates locally (not merely from the function's own parameters).

import (
	"fmt"
	"go/types"
	"sort"

	"golang.org/x/tools/go/ssa"
)

type fieldKey struct {
	t *types.Named
	f int
}

type TaintSpec struct {
	Name      string
	Source    func(v ssa.Value) bool                       // value is a fresh tainted object
	Sanitizer func(callee *types.Func) bool                // call result is clean whatever the args
	Carrier   func(t types.Type) bool                      // type may hold a tainted object
	RawSink   func(in ssa.Instruction) (ssa.Value, string) // stored value + sink description, or nil
	// StorageStruct: struct types that are container storage cells; their fields are read as
	// clean (the invariant under check) and never receive field taint.
	StorageStruct func(n *types.Named) bool
	// CleanAt: value v is known clean at the use instruction (path-dependent sanitisation)
	CleanAt func(v ssa.Value, use ssa.Instruction) bool
	// ElemMay: an element read from a list may hold a tainted object (default: elements of containers are
	// clean, every store into one being a checked sink)
	ElemMay func(ia *ssa.IndexAddr) bool
	// CleanCall: argument i of this call is only used by the callee where it is clean (the callee is told,
	// by another argument, whether it is)
	CleanCall func(call ssa.CallInstruction, callee *ssa.Function, i int) bool
}

type originSet struct {
	local  bool
	params map[*ssa.Parameter]bool
}

func (o *originSet) empty() bool { return o == nil || (!o.local && len(o.params) == 0) }
func (o *originSet) add(p *originSet) {
	if p == nil {
		return
	}
	if p.local {
		o.local = true
	}
	for k := range p.params {
		if o.params == nil {
			o.params = map[*ssa.Parameter]bool{}
		}
		o.params[k] = true
	}
}

type Taint struct {
	c     *Ctx
	spec  TaintSpec
	funcs []*ssa.Function

	retT    map[*ssa.Function][]bool
	parT    map[*ssa.Parameter]bool
	fieldT  map[fieldKey]bool
	globalT map[*ssa.Global]bool
	freeT   map[*ssa.FreeVar]bool

	// phase 2: param -> raw sink ids reached
	stores map[*ssa.Parameter]map[string]bool
	// returnsParam: result j of f derives from these params
	retFrom map[*ssa.Function][]map[*ssa.Parameter]bool

	changed bool
}

func NewTaint(c *Ctx, spec TaintSpec) *Taint {
	t := &Taint{c: c, spec: spec, retT: map[*ssa.Function][]bool{}, parT: map[*ssa.Parameter]bool{}, fieldT: map[fieldKey]bool{},
		globalT: map[*ssa.Global]bool{}, freeT: map[*ssa.FreeVar]bool{}, stores: map[*ssa.Parameter]map[string]bool{},
		retFrom: map[*ssa.Function][]map[*ssa.Parameter]bool{}}
	t.funcs = c.ModuleSSAFuncs()
	t.solve()
	return t
}

func namedStruct(tp types.Type) *types.Named {
	if p, ok := tp.(*types.Pointer); ok {
		tp = p.Elem()
	}
	n, _ := tp.(*types.Named)
	if n == nil {
		return nil
	}
	if _, ok := n.Underlying().(*types.Struct); !ok {
		return nil
	}
	return n
}

// callees returns the module functions a call may invoke (static, or CHA for invokes).
func (t *Taint) callees(call ssa.CallInstruction) []*ssa.Function {
	cc := call.Common()
	if sc := cc.StaticCallee(); sc != nil {
		if isModuleSSA(sc) && sc.Blocks != nil {
			return []*ssa.Function{sc}
		}
		return nil
	}
	if !cc.IsInvoke() {
		return nil
	}
	var res []*ssa.Function
	node := t.c.CG().g.Nodes[call.Parent()]
	if node == nil {
		return nil
	}
	for _, e := range node.Out {
		if e.Site == call && isModuleSSA(e.Callee.Func) && e.Callee.Func.Blocks != nil {
			res = append(res, e.Callee.Func)
		}
	}
	return res
}

// may: phase-1 boolean taint of a value.
func (t *Taint) may(v ssa.Value, seen map[ssa.Value]bool) bool {
	if v == nil {
		return false
	}
	if seen[v] {
		return false
	}
	seen[v] = true
	if t.spec.Source(v) {
		return true
	}
	switch x := v.(type) {
	case *ssa.Parameter:
		return t.parT[x]
	case *ssa.FreeVar:
		return t.freeT[x]
	case *ssa.Phi:
		for _, e := range x.Edges {
			if t.may(e, seen) {
				return true
			}
		}
	case *ssa.MakeInterface:
		return t.may(x.X, seen)
	case *ssa.ChangeInterface:
		return t.may(x.X, seen)
	case *ssa.ChangeType:
		return t.may(x.X, seen)
	case *ssa.Convert:
		return t.may(x.X, seen)
	case *ssa.TypeAssert:
		if !t.spec.Carrier(x.AssertedType) {
			return false
		}
		return t.may(x.X, seen)
	case *ssa.Extract:
		if call, ok := x.Tuple.(*ssa.Call); ok {
			return t.callMay(call, x.Index, seen)
		}
		if ta, ok := x.Tuple.(*ssa.TypeAssert); ok && x.Index == 0 {
			return t.may(ta, seen)
		}
		if lk, ok := x.Tuple.(*ssa.Lookup); ok && x.Index == 0 {
			return t.may(lk, seen)
		}
	case *ssa.Call:
		return t.callMay(x, 0, seen)
	case *ssa.Field:
		if n := namedStruct(x.X.Type()); n != nil && t.fieldT[fieldKey{n, x.Field}] {
			return true
		}
		return false
	case *ssa.UnOp:
		return t.loadMay(x.X, seen)
	case *ssa.Slice:
		return t.may(x.X, seen)
	case *ssa.Index:
		return t.may(x.X, seen)
	case *ssa.BinOp:
		if t.spec.Carrier(x.Type()) {
			return t.may(x.X, seen) || t.may(x.Y, seen)
		}
	}
	return false
}

func (t *Taint) loadMay(addr ssa.Value, seen map[ssa.Value]bool) bool {
	switch a := addr.(type) {
	case *ssa.FieldAddr:
		if n := namedStruct(a.X.Type()); n != nil && t.fieldT[fieldKey{n, a.Field}] {
			return true
		}
	case *ssa.IndexAddr:
		// elements of containers are assumed clean: every store into one is a checked sink
		if t.spec.ElemMay != nil && t.spec.ElemMay(a) {
			return true
		}
		return false
	case *ssa.Alloc:
		for _, ref := range *a.Referrers() {
			switch x := ref.(type) {
			case *ssa.Store:
				if x.Addr == a && t.may(x.Val, seen) {
					return true
				}
			case *ssa.FieldAddr: // struct value assembled field by field
				for _, r2 := range *x.Referrers() {
					if st, ok := r2.(*ssa.Store); ok && st.Addr == x && t.may(st.Val, seen) {
						return true
					}
				}
			}
		}
	case *ssa.Global:
		return t.globalT[a]
	case *ssa.FreeVar:
		return t.freeT[a]
	}
	return false
}

func (t *Taint) callMay(call *ssa.Call, idx int, seen map[ssa.Value]bool) bool {
	cc := call.Common()
	if bi, ok := cc.Value.(*ssa.Builtin); ok {
		if bi.Name() == "min" || bi.Name() == "max" {
			for _, a := range cc.Args {
				if t.may(a, seen) {
					return true
				}
			}
		}
		return false
	}
	if obj := calleeObj(call); obj != nil && t.spec.Sanitizer(obj) {
		return false
	}
	for _, f := range t.callees(call) {
		if r := t.retT[f]; idx < len(r) && r[idx] {
			return true
		}
	}
	return false
}

func (t *Taint) May(v ssa.Value) bool { return t.may(v, map[ssa.Value]bool{}) }

func (t *Taint) setPar(p *ssa.Parameter) {
	if !t.parT[p] {
		t.parT[p] = true
		t.changed = true
	}
}

func (t *Taint) solve() {
	for round := 0; round < 50; round++ {
		t.changed = false
		for _, fn := range t.funcs {
			nres := fn.Signature.Results().Len()
			if t.retT[fn] == nil {
				t.retT[fn] = make([]bool, nres)
			}
			eachInstr(fn, func(in ssa.Instruction) {
				switch x := in.(type) {
				case *ssa.Return:
					for i, r := range x.Results {
						if t.spec.CleanAt != nil && t.spec.CleanAt(r, in) {
							continue
						}
						if !t.retT[fn][i] && t.spec.Carrier(r.Type()) && t.May(r) {
							t.retT[fn][i] = true
							t.changed = true
						}
					}
				case *ssa.Store:
					if v, _ := t.spec.RawSink(x); v != nil {
						return // sinks are checked, not propagated (the invariant is assumed to hold)
					}
					if !t.carrierish(x.Val.Type()) || !t.May(x.Val) {
						return
					}
					switch a := x.Addr.(type) {
					case *ssa.FieldAddr:
						if n := namedStruct(a.X.Type()); n != nil && !t.fieldT[fieldKey{n, a.Field}] && !(t.spec.StorageStruct != nil && t.spec.StorageStruct(n)) {
							t.fieldT[fieldKey{n, a.Field}] = true
							t.changed = true
						}
					case *ssa.Global:
						if !t.globalT[a] {
							t.globalT[a] = true
							t.changed = true
						}
					case *ssa.FreeVar:
						if !t.freeT[a] {
							t.freeT[a] = true
							t.changed = true
						}
					}
				case *ssa.MakeClosure:
					if f, ok := x.Fn.(*ssa.Function); ok {
						for i, b := range x.Bindings {
							if i < len(f.FreeVars) && !t.freeT[f.FreeVars[i]] && t.May(b) {
								t.freeT[f.FreeVars[i]] = true
								t.changed = true
							}
						}
					}
				}
				if call, ok := in.(ssa.CallInstruction); ok {
					cc := call.Common()
					for _, callee := range t.callees(call) {
						params := callee.Params
						args := cc.Args
						if cc.IsInvoke() {
							// receiver is cc.Value
							if len(params) > 0 && t.carrierish(cc.Value.Type()) && t.May(cc.Value) {
								t.setPar(params[0])
							}
							params = params[min(1, len(params)):]
						}
						for i, a := range args {
							if i < len(params) && t.carrierish(a.Type()) && t.May(a) {
								if t.spec.CleanAt != nil && t.spec.CleanAt(a, in) {
									continue
								}
								t.setPar(params[i])
							}
						}
					}
				}
			})
		}
		if !t.changed {
			break
		}
	}
	t.solveStores()
}

// carrierish: interface carriers, slices of carriers, structs (may contain carriers).
func (t *Taint) carrierish(tp types.Type) bool {
	if t.spec.Carrier(tp) {
		return true
	}
	switch u := tp.Underlying().(type) {
	case *types.Slice:
		return t.carrierish(u.Elem())
	case *types.Array:
		return t.carrierish(u.Elem())
	case *types.Struct:
		return true
	case *types.Pointer:
		_, ok := u.Elem().Underlying().(*types.Struct)
		return ok
	}
	return false
}

// ---- origins (symbolic, per function) ----

func (t *Taint) origins(v ssa.Value, seen map[ssa.Value]bool) *originSet {
	o := &originSet{}
	if v == nil || seen[v] {
		return o
	}
	seen[v] = true
	if t.spec.Source(v) {
		o.local = true
		return o
	}
	switch x := v.(type) {
	case *ssa.Parameter:
		o.params = map[*ssa.Parameter]bool{x: true}
	case *ssa.FreeVar:
		if t.freeT[x] {
			o.local = true
		}
	case *ssa.Phi:
		for _, e := range x.Edges {
			o.add(t.origins(e, seen))
		}
	case *ssa.MakeInterface:
		o.add(t.origins(x.X, seen))
	case *ssa.ChangeInterface:
		o.add(t.origins(x.X, seen))
	case *ssa.ChangeType:
		o.add(t.origins(x.X, seen))
	case *ssa.Convert:
		o.add(t.origins(x.X, seen))
	case *ssa.TypeAssert:
		if t.spec.Carrier(x.AssertedType) {
			o.add(t.origins(x.X, seen))
		}
	case *ssa.Extract:
		switch tu := x.Tuple.(type) {
		case *ssa.Call:
			o.add(t.callOrigins(tu, x.Index, seen))
		case *ssa.TypeAssert:
			if x.Index == 0 {
				o.add(t.origins(tu, seen))
			}
		}
	case *ssa.Call:
		o.add(t.callOrigins(x, 0, seen))
	case *ssa.Field:
		if n := namedStruct(x.X.Type()); n != nil && t.fieldT[fieldKey{n, x.Field}] {
			o.local = true
		}
	case *ssa.UnOp:
		switch a := x.X.(type) {
		case *ssa.FieldAddr:
			if n := namedStruct(a.X.Type()); n != nil && t.fieldT[fieldKey{n, a.Field}] {
				o.local = true
			}
		case *ssa.IndexAddr:
		case *ssa.Alloc:
			for _, ref := range *a.Referrers() {
				switch y := ref.(type) {
				case *ssa.Store:
					if y.Addr == a {
						o.add(t.origins(y.Val, seen))
					}
				case *ssa.FieldAddr:
					for _, r2 := range *y.Referrers() {
						if st, ok := r2.(*ssa.Store); ok && st.Addr == y {
							o.add(t.origins(st.Val, seen))
						}
					}
				}
			}
		case *ssa.Global:
			if t.globalT[a] {
				o.local = true
			}
		case *ssa.FreeVar:
			if t.freeT[a] {
				o.local = true
			}
		}
	case *ssa.Slice:
		o.add(t.origins(x.X, seen))
	case *ssa.Index:
		o.add(t.origins(x.X, seen))
	}
	return o
}

func (t *Taint) callOrigins(call *ssa.Call, idx int, seen map[ssa.Value]bool) *originSet {
	o := &originSet{}
	cc := call.Common()
	if bi, ok := cc.Value.(*ssa.Builtin); ok {
		_ = bi
		return o
	}
	if obj := calleeObj(call); obj != nil && t.spec.Sanitizer(obj) {
		return o
	}
	for _, f := range t.callees(call) {
		if r := t.retT[f]; idx < len(r) && r[idx] {
			// tainted result: from callee-local sources, or passing through its params
			from := t.retFrom[f]
			passthrough := false
			if idx < len(from) && len(from[idx]) > 0 {
				params := f.Params
				args := cc.Args
				if cc.IsInvoke() {
					args = append([]ssa.Value{cc.Value}, args...)
				}
				for i, p := range params {
					if from[idx][p] && i < len(args) {
						passthrough = true
						o.add(t.origins(args[i], seen))
					}
				}
			}
			if t.retLocal(f, idx) || !passthrough {
				o.local = true
			}
		}
	}
	return o
}

var retLocalCache = map[*ssa.Function]map[int]bool{}

// retLocal: result idx of f may be tainted from something other than f's parameters.
func (t *Taint) retLocal(f *ssa.Function, idx int) bool {
	if m, ok := retLocalCache[f]; ok {
		if v, ok := m[idx]; ok {
			return v
		}
	} else {
		retLocalCache[f] = map[int]bool{}
	}
	retLocalCache[f][idx] = true // assume local during recursion (conservative)
	res := false
	eachInstr(f, func(in ssa.Instruction) {
		if r, ok := in.(*ssa.Return); ok && idx < len(r.Results) {
			if t.origins(r.Results[idx], map[ssa.Value]bool{}).local {
				res = true
			}
		}
	})
	retLocalCache[f][idx] = res
	return res
}

// solveStores computes, per parameter, the raw sinks it reaches unsanitised.
func (t *Taint) solveStores() {
	retLocalCache = map[*ssa.Function]map[int]bool{}
	// retFrom fixpoint
	for round := 0; round < 30; round++ {
		changed := false
		for _, fn := range t.funcs {
			nres := fn.Signature.Results().Len()
			if t.retFrom[fn] == nil {
				t.retFrom[fn] = make([]map[*ssa.Parameter]bool, nres)
				for i := range t.retFrom[fn] {
					t.retFrom[fn][i] = map[*ssa.Parameter]bool{}
				}
			}
			eachInstr(fn, func(in ssa.Instruction) {
				r, ok := in.(*ssa.Return)
				if !ok {
					return
				}
				for i, v := range r.Results {
					if !t.spec.Carrier(v.Type()) && !t.carrierish(v.Type()) {
						continue
					}
					for p := range t.origins(v, map[ssa.Value]bool{}).params {
						if p.Parent() == fn && !t.retFrom[fn][i][p] {
							t.retFrom[fn][i][p] = true
							changed = true
						}
					}
				}
			})
		}
		retLocalCache = map[*ssa.Function]map[int]bool{}
		if !changed {
			break
		}
	}
	for round := 0; round < 30; round++ {
		changed := false
		addStore := func(p *ssa.Parameter, sink string) {
			if t.stores[p] == nil {
				t.stores[p] = map[string]bool{}
			}
			if !t.stores[p][sink] {
				t.stores[p][sink] = true
				changed = true
			}
		}
		for _, fn := range t.funcs {
			eachInstr(fn, func(in ssa.Instruction) {
				if v, desc := t.spec.RawSink(in); v != nil {
					if t.spec.CleanAt != nil && t.spec.CleanAt(v, in) {
						return
					}
					for p := range t.origins(v, map[ssa.Value]bool{}).params {
						if p.Parent() == fn {
							addStore(p, ssaFuncName(fn)+": "+desc)
						}
					}
				}
				call, ok := in.(ssa.CallInstruction)
				if !ok {
					return
				}
				cc := call.Common()
				for _, callee := range t.callees(call) {
					args := cc.Args
					if cc.IsInvoke() {
						args = append([]ssa.Value{cc.Value}, args...)
					}
					for i, a := range args {
						if i >= len(callee.Params) {
							break
						}
						sinks := t.stores[callee.Params[i]]
						if len(sinks) == 0 {
							continue
						}
						if t.spec.CleanAt != nil && t.spec.CleanAt(a, in) {
							continue
						}
						for p := range t.origins(a, map[ssa.Value]bool{}).params {
							if p.Parent() != fn {
								continue
							}
							for s := range sinks {
								addStore(p, s)
							}
						}
					}
				}
			})
		}
		if !changed {
			break
		}
	}
}

type TaintFinding struct {
	Fn    *ssa.Function
	At    ssa.Instruction
	Desc  string // position-free descriptor
	Sinks []string
}

// Findings lists frontier sites: raw sinks or calls into storing functions where a value
// that may be tainted originates locally.
func (t *Taint) Findings() (found []TaintFinding, checked int) {
	for _, fn := range t.funcs {
		eachInstr(fn, func(in ssa.Instruction) {
			if v, desc := t.spec.RawSink(in); v != nil {
				checked++
				if t.May(v) && !(t.spec.CleanAt != nil && t.spec.CleanAt(v, in)) {
					if t.origins(v, map[ssa.Value]bool{}).local {
						found = append(found, TaintFinding{Fn: fn, At: in, Desc: desc, Sinks: []string{ssaFuncName(fn) + ": " + desc}})
					}
				}
			}
			call, ok := in.(ssa.CallInstruction)
			if !ok {
				return
			}
			cc := call.Common()
			for _, callee := range t.callees(call) {
				args := cc.Args
				if cc.IsInvoke() {
					args = append([]ssa.Value{cc.Value}, args...)
				}
				for i, a := range args {
					if i >= len(callee.Params) {
						break
					}
					sinks := t.stores[callee.Params[i]]
					if len(sinks) == 0 {
						continue
					}
					checked++
					if !t.May(a) || (t.spec.CleanAt != nil && t.spec.CleanAt(a, in)) {
						continue
					}
					if t.spec.CleanCall != nil && !cc.IsInvoke() && t.spec.CleanCall(call, callee, i) {
						continue
					}
					if !t.origins(a, map[ssa.Value]bool{}).local {
						continue // only from own parameters: the callers' obligation
					}
					var ss []string
					for s := range sinks {
						ss = append(ss, s)
					}
					sort.Strings(ss)
					argn := i
					if cc.IsInvoke() {
						argn = i - 1
					}
					name := ssaFuncName(callee)
					if cc.IsInvoke() {
						name = "(" + typeShort(cc.Value.Type()) + ")." + cc.Method.Name()
					}
					found = append(found, TaintFinding{Fn: fn, At: in, Desc: fmt.Sprintf("arg %d of %s", argn, name), Sinks: ss})
				}
			}
		})
	}
	// dedupe (invoke with several callees)
	seen := map[string]bool{}
	var res []TaintFinding
	for _, f := range found {
		k := fmt.Sprintf("%p|%s", f.At, f.Desc)
		if seen[k] {
			for i := range res {
				if res[i].At == f.At && res[i].Desc == f.Desc {
					res[i].Sinks = mergeSorted(res[i].Sinks, f.Sinks)
				}
			}
			continue
		}
		seen[k] = true
		res = append(res, f)
	}
	return res, checked
}

func mergeSorted(a, b []string) []string {
	m := map[string]bool{}
	for _, x := range a {
		m[x] = true
	}
	for _, x := range b {
		m[x] = true
	}
	var r []string
	for x := range m {
		r = append(r, x)
	}
	sort.Strings(r)
	return r
}

func typeShort(tp types.Type) string {
	return types.TypeString(tp, func(p *types.Package) string { return shortPkg(p) })
}
