package main

// tokrel: the token-type -> syntax-node-type relation, derived by a small abstract
// interpretation of the parser: the state is the set of possible token types of
// p.curToken / p.peekToken; functions registered in the prefix/infix/postfix registries
// start with cur = their registration keys; nextToken shifts; peekTokenIs / curTokenIs /
// expectPeek refine on their edges; every `X.Token = p.curToken` adds cur to tokens(X).

import (
	"go/token"
	"go/types"
	"sort"

	"golang.org/x/tools/go/ssa"
)

type tokSet struct {
	top bool
	s   map[int64]bool
}

func topSet() tokSet        { return tokSet{top: true} }
func oneTok(k int64) tokSet { return tokSet{s: map[int64]bool{k: true}} }
func (a tokSet) clone() tokSet {
	if a.top {
		return a
	}
	m := map[int64]bool{}
	for k := range a.s {
		m[k] = true
	}
	return tokSet{s: m}
}
func (a tokSet) union(b tokSet) (tokSet, bool) {
	if a.top {
		return a, false
	}
	if b.top {
		return b, true
	}
	ch := false
	m := map[int64]bool{}
	for k := range a.s {
		m[k] = true
	}
	for k := range b.s {
		if !m[k] {
			m[k] = true
			ch = true
		}
	}
	return tokSet{s: m}, ch
}
func (a tokSet) meet(k int64) tokSet {
	if a.top || a.s[k] {
		return oneTok(k)
	}
	return tokSet{s: map[int64]bool{}} // unreachable edge
}
func (a tokSet) minus(k int64) tokSet {
	if a.top {
		return a
	}
	c := a.clone()
	delete(c.s, k)
	return c
}

type parserState struct {
	cur, peek tokSet
	reached   bool
}

func (a parserState) join(b parserState) (parserState, bool) {
	if !b.reached {
		return a, false
	}
	if !a.reached {
		return parserState{cur: b.cur.clone(), peek: b.peek.clone(), reached: true}, true
	}
	c, ch1 := a.cur.union(b.cur)
	p, ch2 := a.peek.union(b.peek)
	return parserState{cur: c, peek: p, reached: true}, ch1 || ch2
}

type TokRel struct {
	Tokens        map[string]tokSet                           // node type name ("*ast.Identifier") -> token types its Token may carry
	Keys          map[*ssa.Function]map[string]map[int64]bool // parse function -> registry -> keys
	ParamPosition []string                                    // node types also built in parameter position with an arbitrary token (excluded)
	Entry         map[*ssa.Function]parserState               // possible cur/peek token types at each parser function's entry
}

var tokRelCache = map[*Ctx]*TokRel{}

func (c *Ctx) TokRel() *TokRel {
	if t, ok := tokRelCache[c]; ok {
		return t
	}
	tr := &TokRel{Tokens: map[string]tokSet{}, Keys: map[*ssa.Function]map[string]map[int64]bool{}}
	tokRelCache[c] = tr
	parserT := c.TypeNamed("parser", "Parser")
	curIdx, peekIdx := fieldIndex(parserT, "curToken"), fieldIndex(parserT, "peekToken")
	nextToken := c.Fn("parser", "Parser.nextToken")
	peekTokenIs := c.Fn("parser", "Parser.peekTokenIs")
	curTokenIs := c.Fn("parser", "Parser.curTokenIs")
	expectPeek := c.Fn("parser", "Parser.expectPeek")
	newFn := c.SSAFn(c.Fn("parser", "New"))

	// unwrap bound-method closures
	unbound := func(v ssa.Value) *ssa.Function {
		f, _ := resolveFunc(v)
		if f == nil {
			return nil
		}
		if f.Synthetic != "" {
			var target *ssa.Function
			eachInstr(f, func(in ssa.Instruction) {
				if call, ok := in.(ssa.CallInstruction); ok {
					if sc := call.Common().StaticCallee(); sc != nil && isModuleSSA(sc) && target == nil {
						target = sc
					}
				}
			})
			return target
		}
		return f
	}
	for _, regName := range []string{"registerPrefix", "registerInfix", "registerPostfix"} {
		rf := c.Fn("parser", "Parser."+regName)
		for _, call := range callsIn(newFn, rf) {
			args := call.Common().Args
			k, ok := constInt(args[1])
			fn := unbound(args[2])
			if !ok || fn == nil {
				undecidedf("parser.New: cannot resolve a %s call", regName)
			}
			if tr.Keys[fn] == nil {
				tr.Keys[fn] = map[string]map[int64]bool{}
			}
			if tr.Keys[fn][regName] == nil {
				tr.Keys[fn][regName] = map[int64]bool{}
			}
			tr.Keys[fn][regName][k] = true
		}
	}
	// parser functions
	var pfuncs []*ssa.Function
	for _, fn := range c.ModuleSSAFuncs() {
		if fn.Pkg != nil && shortPkg(fn.Pkg.Pkg) == "parser" && fn.Signature.Recv() != nil {
			pfuncs = append(pfuncs, fn)
		}
	}
	// shifting summary: functions that may call nextToken (transitively, incl. dynamic registry calls)
	shifts := map[*ssa.Function]bool{c.SSAFn(nextToken): true}
	for changed := true; changed; {
		changed = false
		for _, fn := range pfuncs {
			if shifts[fn] {
				continue
			}
			s := false
			eachInstr(fn, func(in ssa.Instruction) {
				call, ok := in.(ssa.CallInstruction)
				if !ok {
					return
				}
				if sc := call.Common().StaticCallee(); sc != nil {
					if shifts[sc] {
						s = true
					}
				} else if !call.Common().IsInvoke() {
					if _, isBuiltin := call.Common().Value.(*ssa.Builtin); !isBuiltin {
						s = true // call through a function value (registry): may parse anything
					}
				}
			})
			if s {
				shifts[fn] = true
				changed = true
			}
		}
	}
	isTokLoad := func(v ssa.Value, idx int) bool {
		ld, ok := v.(*ssa.UnOp)
		if !ok {
			return false
		}
		fa, ok := ld.X.(*ssa.FieldAddr)
		if !ok || fa.Field != idx {
			return false
		}
		n := namedStruct(fa.X.Type())
		return n != nil && n.Obj() == parserT.Obj()
	}
	// condition refinement
	refine := func(st parserState, cond ssa.Value, edge int) parserState {
		out := parserState{cur: st.cur.clone(), peek: st.peek.clone(), reached: true}
		switch x := cond.(type) {
		case *ssa.Call:
			obj := calleeObj(x)
			if obj == nil || len(x.Common().Args) < 2 {
				return out
			}
			k, ok := constInt(x.Common().Args[1])
			if !ok {
				return out
			}
			switch obj {
			case peekTokenIs:
				if edge == 0 {
					out.peek = st.peek.meet(k)
				} else {
					out.peek = st.peek.minus(k)
				}
			case curTokenIs:
				if edge == 0 {
					out.cur = st.cur.meet(k)
				} else {
					out.cur = st.cur.minus(k)
				}
			case expectPeek:
				if edge == 0 {
					out.cur = oneTok(k)
					out.peek = topSet()
				} else {
					out.peek = st.peek.minus(k)
				}
			}
		case *ssa.BinOp:
			if x.Op != token.EQL && x.Op != token.NEQ {
				return out
			}
			k, ok := constInt(x.Y)
			if !ok {
				return out
			}
			call, ok := x.X.(*ssa.Call)
			if !ok || calleeObj(call) == nil || calleeObj(call).Name() != "Type" || len(call.Common().Args) != 1 {
				return out
			}
			eq := (x.Op == token.EQL) == (edge == 0)
			switch {
			case isTokLoad(call.Common().Args[0], curIdx):
				if eq {
					out.cur = st.cur.meet(k)
				} else {
					out.cur = st.cur.minus(k)
				}
			case isTokLoad(call.Common().Args[0], peekIdx):
				if eq {
					out.peek = st.peek.meet(k)
				} else {
					out.peek = st.peek.minus(k)
				}
			}
		}
		return out
	}
	entry := map[*ssa.Function]parserState{}
	for fn, regs := range tr.Keys {
		st := parserState{reached: true, peek: topSet(), cur: tokSet{s: map[int64]bool{}}}
		for _, ks := range regs {
			for k := range ks {
				st.cur.s[k] = true
			}
		}
		entry[fn] = st
	}
	// exported entry points start anywhere
	for _, fn := range pfuncs {
		if fn.Name() == "ParseProgram" {
			entry[fn] = parserState{reached: true, cur: topSet(), peek: topSet()}
		}
	}
	addTok := func(typeName string, s tokSet) {
		cur, ok := tr.Tokens[typeName]
		if !ok {
			tr.Tokens[typeName] = s.clone()
			return
		}
		n, _ := cur.union(s)
		tr.Tokens[typeName] = n
	}
	// the node type whose Base.Token is stored at addr: FieldAddr(FieldAddr(alloc T, Base), Token)
	nodeTypeOfTokenAddr := func(addr ssa.Value) string {
		fa, ok := addr.(*ssa.FieldAddr)
		if !ok {
			return ""
		}
		inner, ok := fa.X.(*ssa.FieldAddr)
		if !ok {
			return ""
		}
		n := namedStruct(inner.X.Type())
		if n == nil || shortPkg(n.Obj().Pkg()) != "ast" {
			return ""
		}
		st := n.Underlying().(*types.Struct)
		if st.Field(inner.Field).Name() != "Base" {
			return ""
		}
		return "*ast." + n.Obj().Name()
	}
	loadSets := map[ssa.Value]tokSet{}
	unionSet := func(a, b tokSet) tokSet {
		if a.s == nil && !a.top {
			return b.clone()
		}
		u, _ := a.union(b)
		return u
	}
	for iter := 0; iter < 40; iter++ {
		changed := false
		for _, fn := range pfuncs {
			est, ok := entry[fn]
			if !ok || !est.reached || len(fn.Blocks) == 0 {
				continue
			}
			in := map[*ssa.BasicBlock]parserState{fn.Blocks[0]: est}
			work := []*ssa.BasicBlock{fn.Blocks[0]}
			for len(work) > 0 {
				b := work[0]
				work = work[1:]
				st := parserState{cur: in[b].cur.clone(), peek: in[b].peek.clone(), reached: true}
				for _, instr := range b.Instrs {
					switch x := instr.(type) {
					case *ssa.UnOp:
						// a token read now and stored into a node later (operator := p.curToken; ...; node.Token = operator):
						// the set is the one at the read
						if isTokLoad(x, curIdx) {
							loadSets[x] = unionSet(loadSets[x], st.cur)
						} else if isTokLoad(x, peekIdx) {
							loadSets[x] = unionSet(loadSets[x], st.peek)
						}
					case *ssa.Store:
						if tn := nodeTypeOfTokenAddr(x.Addr); tn != "" {
							if fn.Name() == "parseFunctionParameters" {
								// parameter position: these identifiers (which may carry any token, e.g. `func f(1)`)
								// live only in Parameters lists, which are read through Value().Literal() and
								// never discriminated by token type; they are not expression-position nodes
								tr.ParamPosition = append(tr.ParamPosition, tn)
								continue
							}
							ls, seenLoad := loadSets[x.Val]
							switch {
							case seenLoad && (isTokLoad(x.Val, curIdx) || isTokLoad(x.Val, peekIdx)):
								addTok(tn, ls)
							case isTokLoad(x.Val, curIdx):
								addTok(tn, st.cur)
							case isTokLoad(x.Val, peekIdx):
								addTok(tn, st.peek)
							default:
								addTok(tn, topSet())
							}
						}
					case ssa.CallInstruction:
						cc := x.Common()
						sc := cc.StaticCallee()
						switch {
						case sc != nil && sc.Object() == types.Object(nextToken):
							st.cur, st.peek = st.peek.clone(), topSet()
						case sc != nil && (sc.Object() == types.Object(peekTokenIs) || sc.Object() == types.Object(curTokenIs)):
						case sc != nil && sc.Object() == types.Object(expectPeek):
							// handled on the branch edges; if the result is not branched on, be conservative
							if v, ok := instr.(ssa.Value); ok {
								branched := false
								for _, ref := range *v.Referrers() {
									if _, ok := ref.(*ssa.If); ok {
										branched = true
									}
								}
								if !branched {
									st.cur, st.peek = topSet(), topSet()
								}
							}
						case sc != nil && isModuleSSA(sc) && sc.Pkg != nil && shortPkg(sc.Pkg.Pkg) == "parser" && sc.Signature.Recv() != nil:
							// propagate the state to the callee's entry
							if _, registered := tr.Keys[sc]; !registered || true {
								ne, ch := entry[sc].join(st)
								if ch {
									entry[sc] = ne
									changed = true
								}
							}
							if shifts[sc] {
								st.cur, st.peek = topSet(), topSet()
							}
						case sc == nil && !cc.IsInvoke():
							if _, isBuiltin := cc.Value.(*ssa.Builtin); !isBuiltin {
								st.cur, st.peek = topSet(), topSet()
							}
						}
					}
				}
				if ifi, ok := b.Instrs[len(b.Instrs)-1].(*ssa.If); ok {
					for e := 0; e < 2; e++ {
						ns := refine(st, ifi.Cond, e)
						old := in[b.Succs[e]]
						j, ch := old.join(ns)
						if ch || !old.reached {
							in[b.Succs[e]] = j
							work = append(work, b.Succs[e])
						}
					}
				} else {
					for _, s := range b.Succs {
						old := in[s]
						j, ch := old.join(st)
						if ch || !old.reached {
							in[s] = j
							work = append(work, s)
						}
					}
				}
			}
		}
		if !changed {
			break
		}
	}
	tr.Entry = entry
	// nodes built outside the parser with a fixed token
	internFn := c.Fn("token", "Intern")
	byType := c.Fn("token", "ByType")
	for _, fn := range c.ModuleSSAFuncs() {
		if fn.Pkg != nil && shortPkg(fn.Pkg.Pkg) == "parser" {
			continue
		}
		eachInstr(fn, func(in ssa.Instruction) {
			st, ok := in.(*ssa.Store)
			if !ok {
				return
			}
			tn := nodeTypeOfTokenAddr(st.Addr)
			if tn == "" {
				// object.Register embeds ast.Base
				if fa, ok := st.Addr.(*ssa.FieldAddr); ok {
					if inner, ok := fa.X.(*ssa.FieldAddr); ok {
						if n := namedStruct(inner.X.Type()); n != nil && n.Obj().Name() == "Register" {
							tn = "*object.Register"
						}
					}
				}
			}
			if tn == "" {
				return
			}
			switch v := st.Val.(type) {
			case *ssa.Call:
				if isCallTo(v, internFn, byType) {
					if k, ok := constInt(v.Common().Args[0]); ok {
						addTok(tn, oneTok(k))
						return
					}
				}
			case *ssa.UnOp:
				if g, ok := v.X.(*ssa.Global); ok {
					switch g.Name() {
					case "TRUET":
						addTok(tn, oneTok(c.tokenConst("TRUE")))
						return
					case "FALSET":
						addTok(tn, oneTok(c.tokenConst("FALSE")))
						return
					}
				}
			case *ssa.Phi:
				all := true
				for _, e := range v.Edges {
					ld, ok := e.(*ssa.UnOp)
					if !ok {
						all = false
						continue
					}
					g, ok := ld.X.(*ssa.Global)
					if !ok {
						all = false
						continue
					}
					switch g.Name() {
					case "TRUET":
						addTok(tn, oneTok(c.tokenConst("TRUE")))
					case "FALSET":
						addTok(tn, oneTok(c.tokenConst("FALSE")))
					default:
						all = false
					}
				}
				if all {
					return
				}
			}
			// copies of an existing node's Base (Modify) keep the type's own set
			if fn.Pkg != nil && shortPkg(fn.Pkg.Pkg) == "ast" {
				return
			}
			addTok(tn, topSet())
		})
	}
	return tr
}

// NodesWithToken lists the node types whose Token may have type k.
func (tr *TokRel) NodesWithToken(k int64) []string {
	var res []string
	for tn, s := range tr.Tokens {
		if s.top || s.s[k] {
			res = append(res, tn)
		}
	}
	sort.Strings(res)
	return res
}
