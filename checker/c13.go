package main

import (
	"fmt"
	"go/token"
	"go/types"
	"sort"

	"golang.org/x/tools/go/ssa"
)

func runC13(c *Ctx, r *Report) {
	r.Rule("C13.R1", "copying rewriter: ast.Modify never stores into the node it was given; for every node type that has children the value handed to the callback is allocated in that arm (leaves without children may be shared)")
	r.Rule("C13.R2", "field coverage: every child-carrying field of each node type is read in its Modify arm and flows into a recursive Modify call; a single-node child is rewritten on every path from the arm to the callback (only a nil child may be skipped)")
	r.Rule("C13.R3", "exhaustiveness: every node type the parser can build has an arm in Modify")
	r.Rule("C13.R4", "arguments are quoted, not evaluated: during expansion only the macro body is evaluated; call arguments flow only into object.Quote values")
	r.Rule("C13.R5", "unquote results are well-formed nodes: boxed in the form the visitors match, and a failed conversion is tested before it enters the tree (shared with C07.R5)")
	r.Rule("C13.R6", "each expansion binds its parameters in an environment allocated for that expansion, and macro bodies are evaluated by a fully initialised state (shared with C07.R7)")
	r.Rule("C13.R8", "attribute preservation: in every arm of ast.Modify that hands a newly allocated node to the callback, every field of the node type is set on the new node (whole-struct copy or field by field)")
	r.Rule("C13.R7", "the definition sweep examines every statement: in the loop of DefineMacros that removes definitions from the program, an iteration that deletes the element at the loop index (append(s[:i], s[i+1:]...) or slices.Delete(s, i, i+1)) reaches the next loop test with the index unchanged; advancing it skips the statement that moved into place")
	r.Rule("C13.R9", "parameters are new bindings: every binding call of extendMacroEnv and extendFunctionEnv on the frame they build is SetNoChecks/CreateOrSet with create == true (Set resolves the name outward first and writes through a Reference)")
	c.checkParamsAreCreated(r, "C13.R9")
	r.Rule("C13.R11", "both assignment tokens define macros: eval.isAssign tests the expression's token against ASSIGN and against DEFINE")
	c.checkMacroDefinitionTokens(r, "C13.R11")
	r.Rule("C13.R12", "callbacks of ast.Modify tolerate absent children: in every function handed to Modify / ModifyNoOk (and the functions it hands the node on to) a method call or single-result type assertion on the node parameter is dominated by a nil test or the true edge of a comma-ok assertion")
	c.checkModifyCallbacksNilSafe(r, "C13.R12")
	r.Rule("C13.R10", "a call that names a macro is always expanded: in the callback of ExpandMacros, on the ok edge of isMacroCall no return hands back the callback's own argument")
	c.checkMacroCallsAlwaysExpand(r, "C13.R10")
	r.Rule("C02.R2", "(shared) the expanded program prints and re-parses like the hand-substituted one only if operator printers honour precedence")

	modify := c.SSAFn(c.Fn("ast", "Modify"))
	mname := ssaFuncName(modify)
	nodeIface := c.TypeNamed("ast", "Node")
	param := modify.Params[0]
	isChildField := func(t types.Type) bool {
		switch u := t.(type) {
		case *types.Named:
			return types.Identical(u, nodeIface)
		case *types.Pointer:
			if n, ok := u.Elem().(*types.Named); ok {
				return shortPkg(n.Obj().Pkg()) == "ast"
			}
		case *types.Slice:
			return types.Identical(u.Elem(), nodeIface)
		case *types.Map:
			return types.Identical(u.Key(), nodeIface) || types.Identical(u.Elem(), nodeIface)
		}
		return false
	}
	// arms: comma-ok assertions on the parameter
	type arm struct {
		ta *ssa.TypeAssert
		v  ssa.Value // the asserted pointer
		t  *types.Named
	}
	var arms []arm
	eachInstr(modify, func(in ssa.Instruction) {
		ta, ok := in.(*ssa.TypeAssert)
		if !ok || !ta.CommaOk || ta.X != ssa.Value(param) {
			return
		}
		p, ok := ta.AssertedType.(*types.Pointer)
		if !ok {
			return
		}
		n, ok := p.Elem().(*types.Named)
		if !ok {
			return
		}
		var v ssa.Value
		for _, ref := range *ta.Referrers() {
			if ex, ok := ref.(*ssa.Extract); ok && ex.Index == 0 {
				v = ex
			}
		}
		arms = append(arms, arm{ta, v, n})
	})
	if len(arms) < 15 {
		r.Undecided("ast.Modify: only %d type-switch arms found", len(arms))
	}
	armOf := func(b *ssa.BasicBlock) *arm {
		var best *arm
		for i := range arms {
			a := &arms[i]
			ifb := a.ta.Block()
			if onEdge(ifb, 0, b) {
				best = a
			}
		}
		return best
	}
	// R1: no store into the input node
	derivesFromInput := func(v ssa.Value) bool {
		for i := 0; i < 6; i++ {
			switch x := v.(type) {
			case *ssa.FieldAddr:
				v = x.X
			case *ssa.IndexAddr:
				v = x.X
			case *ssa.Extract:
				if ta, ok := x.Tuple.(*ssa.TypeAssert); ok && ta.X == ssa.Value(param) {
					return true
				}
				return false
			default:
				return false
			}
		}
		return false
	}
	nStores := 0
	eachInstr(modify, func(in ssa.Instruction) {
		st, ok := in.(*ssa.Store)
		if !ok {
			return
		}
		nStores++
		if derivesFromInput(st.Addr) {
			r.Fail("C13.R1", mname, "store into a field of the input node", c.Pos(st.Pos()), "Modify writes into the tree it was given: expanding a macro call (or rewriting for registers) alters the definition or the other call sites that share the node")
		}
		// element store through a slice (or map) that a local copy of the node still shares with the input:
		//   newNode := *node; newNode.Elements[i] = ...
		if ia, ok := st.Addr.(*ssa.IndexAddr); ok {
			if why := sharedWithInput(ia.X, st, derivesFromInput); why != "" {
				a := armOf(st.Block())
				an := "?"
				if a != nil {
					an = a.t.Obj().Name()
				}
				r.Fail("C13.R1", mname, "element store in arm *ast."+an+" goes into storage of the input node", c.Pos(st.Pos()), why+": the copy made with `*node` shares the backing array of its child list with the original, so rewriting one call site (or one register allocation) rewrites the tree every other use shares")
			}
		}
	})
	eachInstr(modify, func(in ssa.Instruction) {
		if mu, ok := in.(*ssa.MapUpdate); ok {
			nStores++
			if why := sharedWithInput(mu.Map, mu, derivesFromInput); why != "" {
				r.Fail("C13.R1", mname, "map update goes into a map of the input node", c.Pos(mu.Pos()), why)
			}
		}
	})
	// values handed to f in arms of types with children must be fresh
	eachInstr(modify, func(in ssa.Instruction) {
		call, ok := in.(*ssa.Call)
		if !ok || call.Common().Value != ssa.Value(modify.Params[1]) {
			return
		}
		a := armOf(call.Block())
		if a == nil {
			return
		}
		st := a.t.Underlying().(*types.Struct)
		hasChildren := false
		for i := 0; i < st.NumFields(); i++ {
			if isChildField(st.Field(i).Type()) {
				hasChildren = true
			}
		}
		arg := call.Common().Args[0]
		if mi, ok := arg.(*ssa.MakeInterface); ok {
			arg = mi.X
		}
		_, fresh := arg.(*ssa.Alloc)
		desc := "node handed to the callback in arm *ast." + a.t.Obj().Name()
		if !hasChildren {
			r.OkWhy("C13.R1", mname, desc, c.Pos(call.Pos()), "leaf type (no children): sharing is harmless")
			return
		}
		r.Check(fresh, "C13.R1", mname, desc+" is a new allocation", c.Pos(call.Pos()), "a node with children is passed to the callback without being copied: substitutions made for one call site become visible in the macro definition and in other call sites")
	})
	r.Floor("C13.R1", 15)

	// R2: field coverage per arm
	for i := range arms {
		a := &arms[i]
		st := a.t.Underlying().(*types.Struct)
		read := map[int]bool{}
		copiedWhole := false
		eachInstr(modify, func(in ssa.Instruction) {
			switch x := in.(type) {
			case *ssa.FieldAddr:
				if x.X == a.v {
					read[x.Field] = true
				}
			case *ssa.UnOp:
				if x.X == a.v {
					copiedWhole = true // newNode := *node
				}
			}
		})
		// the field's value (or its elements) must flow into a recursive Modify call
		rewritten := map[int]bool{}
		var fromField func(v ssa.Value, d int) int
		fromField = func(v ssa.Value, d int) int {
			if d > 8 || v == nil {
				return -1
			}
			switch x := v.(type) {
			case *ssa.MakeInterface:
				return fromField(x.X, d+1)
			case *ssa.ChangeInterface:
				return fromField(x.X, d+1)
			case *ssa.UnOp:
				return fromField(x.X, d+1)
			case *ssa.FieldAddr:
				if x.X == a.v {
					return x.Field
				}
				return fromField(x.X, d+1)
			case *ssa.IndexAddr:
				return fromField(x.X, d+1)
			case *ssa.Lookup:
				if r := fromField(x.X, d+1); r >= 0 {
					return r
				}
				return fromField(x.Index, d+1)
			case *ssa.Extract:
				return fromField(x.Tuple, d+1)
			case *ssa.Next:
				return fromField(x.Iter, d+1)
			case *ssa.Range:
				return fromField(x.X, d+1)
			case *ssa.Phi:
				for _, e := range x.Edges {
					if r := fromField(e, d+1); r >= 0 {
						return r
					}
				}
			}
			return -1
		}
		for _, mc := range callsIn(modify, c.Fn("ast", "Modify")) {
			if fld := fromField(mc.Common().Args[0], 0); fld >= 0 {
				rewritten[fld] = true
			}
		}
		// helpers of package ast that receive a field's value (or the node itself) and rewrite it with Modify:
		// a parameter "is rewritten" when a value derived from it is the first argument of a Modify call there
		paramRewritten := func(callee *ssa.Function, pi int) (bool, map[int]bool) {
			fields := map[int]bool{}
			whole := false
			if pi >= len(callee.Params) {
				return false, fields
			}
			p := callee.Params[pi]
			for _, ic := range callsIn(callee, c.Fn("ast", "Modify")) {
				v := ic.Common().Args[0]
				for i := 0; i < 10 && v != nil; i++ {
					if v == ssa.Value(p) {
						whole = true
						break
					}
					switch x := v.(type) {
					case *ssa.UnOp:
						v = x.X
					case *ssa.IndexAddr:
						v = x.X
					case *ssa.MakeInterface:
						v = x.X
					case *ssa.ChangeInterface:
						v = x.X
					case *ssa.Lookup:
						v = x.X
					case *ssa.Extract:
						v = x.Tuple
					case *ssa.Next:
						v = x.Iter
					case *ssa.Range:
						v = x.X
					case *ssa.FieldAddr:
						if x.X == ssa.Value(p) {
							fields[x.Field] = true
						}
						v = x.X
					case *ssa.Phi:
						if len(x.Edges) > 0 {
							v = x.Edges[0]
						} else {
							v = nil
						}
					default:
						v = nil
					}
				}
			}
			return whole, fields
		}
		eachInstr(modify, func(in ssa.Instruction) {
			hc, ok := in.(*ssa.Call)
			if !ok {
				return
			}
			callee := hc.Common().StaticCallee()
			if callee == nil || callee == modify || !isModuleSSA(callee) || callee.Blocks == nil || callee.Pkg == nil || shortPkg(callee.Pkg.Pkg) != "ast" {
				return
			}
			for i, arg := range hc.Common().Args {
				whole, fields := paramRewritten(callee, i)
				if arg == a.v {
					// the node itself is handed over: the fields the helper reads and rewrites
					for f := range fields {
						read[f] = true
						rewritten[f] = true
					}
					continue
				}
				if fld := fromField(arg, 0); fld >= 0 && (whole || len(fields) > 0) {
					rewritten[fld] = true
				}
			}
		})
		for f := 0; f < st.NumFields(); f++ {
			if !isChildField(st.Field(f).Type()) {
				continue
			}
			// a whole-struct copy carries the field, but then it must also be rewritten: require an explicit read for node-valued children
			ok := read[f] && rewritten[f]
			if !ok && copiedWhole {
				// fields copied verbatim: acceptable only for names/tokens that are not rewritten (e.g. FunctionLiteral.Name)
				ft := st.Field(f).Type()
				if p, isP := ft.(*types.Pointer); isP {
					if n, isN := p.Elem().(*types.Named); isN && n.Obj().Name() == "Identifier" {
						r.OkWhy("C13.R2", mname, "field "+a.t.Obj().Name()+"."+st.Field(f).Name(), c.Pos(a.ta.Pos()), "copied verbatim with the node (a name, not an expression)")
						continue
					}
				}
			}
			r.Check(ok, "C13.R2", mname, "field "+a.t.Obj().Name()+"."+st.Field(f).Name()+" is rewritten", c.Pos(a.ta.Pos()),
				"Modify's arm for "+a.t.Obj().Name()+" does not visit "+st.Field(f).Name()+": unquote()/macro calls/registers inside that child are not substituted (or the child is dropped)")
			// single-node children: rewritten on every path to the callback (a nil child may be skipped)
			switch st.Field(f).Type().Underlying().(type) {
			case *types.Slice, *types.Map:
				continue
			}
			if !ok {
				continue
			}
			arm := a.ta.Block().Succs[0]
			type key struct {
				b      *ssa.BasicBlock
				passed bool
			}
			seen := map[key]bool{}
			var bad ssa.Instruction
			var walk func(b *ssa.BasicBlock, passed bool)
			walk = func(b *ssa.BasicBlock, passed bool) {
				if bad != nil || seen[key{b, passed}] {
					return
				}
				seen[key{b, passed}] = true
				for _, in := range b.Instrs {
					call, ok := in.(*ssa.Call)
					if !ok {
						continue
					}
					if isCallTo(call, c.Fn("ast", "Modify")) && fromField(call.Common().Args[0], 0) == f {
						passed = true
					}
					// or a helper of package ast that is handed the field's value and rewrites it on every path
					if callee := call.Common().StaticCallee(); callee != nil && callee != modify && isModuleSSA(callee) && callee.Blocks != nil && callee.Pkg != nil && shortPkg(callee.Pkg.Pkg) == "ast" {
						for i, arg := range call.Common().Args {
							if fromField(arg, 0) != f || i >= len(callee.Params) {
								continue
							}
							p := callee.Params[i]
							rewrites := func(x ssa.Instruction) bool {
								ic, ok := x.(*ssa.Call)
								if !ok || !isCallTo(ic, c.Fn("ast", "Modify")) {
									return false
								}
								v := ic.Common().Args[0]
								for k := 0; k < 4; k++ {
									if v == ssa.Value(p) {
										return true
									}
									switch y := v.(type) {
									case *ssa.MakeInterface:
										v = y.X
									case *ssa.ChangeInterface:
										v = y.X
									default:
										k = 4
									}
								}
								return false
							}
							// every return of the helper that reports success (last result not the constant false) passed the call
							if mustPassFromEntry(callee, rewrites, func(x ssa.Instruction) bool {
								ret, ok := x.(*ssa.Return)
								if !ok {
									return false
								}
								if n := len(ret.Results); n > 0 {
									if k, ok := ret.Results[n-1].(*ssa.Const); ok && k.Value != nil && k.Value.ExactString() == "false" {
										return false
									}
								}
								return true
							}) == nil {
								passed = true
							}
						}
					}
					if call.Common().Value == ssa.Value(modify.Params[1]) && !passed {
						bad = in
						return
					}
				}
				if ifi, ok := b.Instrs[len(b.Instrs)-1].(*ssa.If); ok {
					if bin, ok := ifi.Cond.(*ssa.BinOp); ok && (bin.Op == token.EQL || bin.Op == token.NEQ) && isNilConst(bin.Y) && fromField(bin.X, 0) == f {
						nilEdge := 0
						if bin.Op == token.NEQ {
							nilEdge = 1
						}
						walk(b.Succs[nilEdge], true)
						walk(b.Succs[1-nilEdge], passed)
						return
					}
				}
				for _, sx := range b.Succs {
					if sx == arm || arm.Dominates(sx) {
						walk(sx, passed)
					}
				}
			}
			walk(arm, false)
			desc := "field " + a.t.Obj().Name() + "." + st.Field(f).Name() + " is rewritten on every path to the callback"
			if bad != nil {
				r.Fail("C13.R2", mname, desc, c.Pos(instrPos(bad)), "a path through the arm for "+a.t.Obj().Name()+" hands the rebuilt node to the callback without having rewritten "+st.Field(f).Name()+" (the child is copied as it is): an unquote() or a macro call in that position is never substituted, e.g. the field of a dot index in a quote template")
			} else {
				r.Ok("C13.R2", mname, desc, c.Pos(a.ta.Pos()))
			}
		}
	}
	r.Floor("C13.R2", 30)

	// R3 exhaustiveness
	tr := c.TokRel()
	have := map[string]bool{}
	for _, a := range arms {
		have["*ast."+a.t.Obj().Name()] = true
	}
	var tns []string
	for tn := range tr.Tokens {
		if tn != "*object.Register" {
			tns = append(tns, tn)
		}
	}
	tns = append(tns, "*ast.Statements")
	sort.Strings(tns)
	for _, tn := range tns {
		r.Check(have[tn], "C13.R3", mname, "node type "+tn+" has an arm", c.Pos(modify.Pos()), "the parser can build "+tn+" but Modify has no arm for it: its children are never rewritten")
	}

	// R4
	{
		expand := c.SSAFn(c.Fn("eval", "State.ExpandMacros"))
		macroT := c.TypeNamed("object", "Macro")
		evalE, evalI := c.Fn("eval", "State.Eval"), c.Fn("eval", "State.evalInternal")
		n := 0
		for _, f := range withClosures(expand) {
			for _, ec := range callsIn(f, evalE, evalI) {
				n++
				arg := ec.Common().Args[1]
				for i := 0; i < 3; i++ {
					switch a := arg.(type) {
					case *ssa.MakeInterface:
						arg = a.X
					case *ssa.ChangeInterface:
						arg = a.X
					}
				}
				ok := false
				if ld, isLd := arg.(*ssa.UnOp); isLd && isFieldAddrOf(ld.X, macroT, "Body") {
					ok = true
				}
				r.Check(ok, "C13.R4", ssaFuncName(f), "expansion evaluates the macro body only", c.Pos(ec.Pos()), "something other than macro.Body is evaluated during expansion: arguments must stay unevaluated syntax")
			}
		}
		if n == 0 {
			r.Undecided("ExpandMacros: no evaluation of the macro body found")
		}
		qaObj := c.FnOpt("eval", "quoteArgs")
		if qaObj == nil { // a method of the State after a refactoring
			qaObj = c.FnOpt("eval", "State.quoteArgs")
		}
		if qaObj == nil {
			undecidedf("anchor eval.quoteArgs not found")
		}
		qa := c.SSAFn(qaObj)
		callT := c.TypeNamed("ast", "CallExpression")
		okQ := false
		eachInstr(qa, func(in ssa.Instruction) {
			if st, isSt := in.(*ssa.Store); isSt {
				if fa, isFa := st.Addr.(*ssa.FieldAddr); isFa {
					if nn := namedStruct(fa.X.Type()); nn != nil && nn.Obj().Name() == "Quote" {
						// value is an element of exp.Arguments
						if ld, isLd := st.Val.(*ssa.UnOp); isLd {
							if ia, isIa := ld.X.(*ssa.IndexAddr); isIa {
								if l2, isL2 := ia.X.(*ssa.UnOp); isL2 && isFieldAddrOf(l2.X, callT, "Arguments") {
									okQ = true
								}
							}
						}
					}
				}
			}
		})
		r.Check(okQ, "C13.R4", ssaFuncName(qa), "each call argument is wrapped as Quote{Node: argument}", c.Pos(qa.Pos()), "quoteArgs does not wrap the argument nodes themselves")
	}

	// R5 / R6 shared with C07
	c.reportInhab(r, "C13.R5", func(b string) bool { return len(b) > 4 && b[:4] == "ast." })
	c.checkNilNodeConverters(r)
	{
		ext := c.SSAFn(c.Fn("eval", "State.extendMacroEnv"))
		newEncl := c.Fn("object", "NewEnclosedEnvironment")
		set := c.Fn("object", "Environment.Set")
		okFresh := true
		n := 0
		for _, sc := range callsIn(ext, set, c.Fn("object", "Environment.CreateOrSet"), c.Fn("object", "Environment.SetNoChecks")) {
			n++
			recv := sc.Common().Args[0]
			if call, isCall := recv.(*ssa.Call); !isCall || !isCallTo(call, newEncl) {
				okFresh = false
			}
		}
		r.Check(n > 0 && okFresh, "C13.R6", ssaFuncName(ext), "macro parameters are bound in an environment created for this expansion", c.Pos(ext.Pos()),
			"parameters are bound in an environment that outlives the expansion: the binding of an earlier call site (e.g. an all-upper-case parameter, which cannot be rebound) sticks for later call sites")
		sub := NewReport("C07", r.Tier, c)
		sub.Sub = true
		runC07(c, sub)
		for _, o := range sub.Obls {
			if o.Rule != "C07.R7" {
				continue
			}
			if o.status == FAIL {
				r.Fail("C13.R6", o.Func, o.Desc, o.Pos, o.Reason)
			} else {
				r.Ok("C13.R6", o.Func, o.Desc, o.Pos)
			}
		}
	}
	// ---- R7 ----
	c.checkDeleteWhileIterating(r, "C13.R7", c.SSAFn(c.Fn("eval", "State.DefineMacros")))

	// ---- R8 ---- every field of the node survives the rewrite
	{
		n8 := 0
		eachInstr(modify, func(in ssa.Instruction) {
			call, ok := in.(*ssa.Call)
			if !ok || call.Common().Value != ssa.Value(modify.Params[1]) {
				return
			}
			a := armOf(call.Block())
			if a == nil {
				return
			}
			arg := call.Common().Args[0]
			if mi, ok := arg.(*ssa.MakeInterface); ok {
				arg = mi.X
			}
			al, ok := arg.(*ssa.Alloc)
			if !ok {
				return // the input itself (leaf types): nothing is lost
			}
			stt := a.t.Underlying().(*types.Struct)
			whole := false
			set := map[int]bool{}
			for _, ref := range *al.Referrers() {
				switch x := ref.(type) {
				case *ssa.Store:
					if x.Addr == ssa.Value(al) {
						whole = true // newNode := *node
					}
				case *ssa.FieldAddr:
					for _, r2 := range *x.Referrers() {
						if st, ok := r2.(*ssa.Store); ok && st.Addr == ssa.Value(x) {
							set[x.Field] = true
						}
					}
				}
			}
			for i := 0; i < stt.NumFields(); i++ {
				n8++
				f := stt.Field(i)
				r.Check(whole || set[i], "C13.R8", mname, "arm *ast."+a.t.Obj().Name()+" carries field "+f.Name()+" over to the rebuilt node", c.Pos(al.Pos()),
					"the node handed to the callback is a new "+a.t.Obj().Name()+" in which "+f.Name()+" is never set (neither by copying the whole node nor field by field): the rewritten tree silently loses that attribute (a lambda printed as a function, a variadic flag, a comment position), which only shows when the rewritten tree is printed or evaluated again")
			}
		})
		if n8 < 20 {
			r.Undecided("C13.R8: only %d fields examined in rebuilt nodes", n8)
		}
	}

	// shared C10.R5: the session-wide macro store survives a failed input
	if !r.Sub {
		r.Rule("C10.R5", "(shared) State.Reset, run after every recovered panic, writes transient fields only (the macro store is session state)")
		sub10 := NewReport("C10", r.Tier, c)
		sub10.Sub = true
		runC10(c, sub10)
		n10 := 0
		for _, o := range sub10.Obls {
			if o.Rule != "C10.R5" {
				continue
			}
			n10++
			if o.status == FAIL {
				r.Fail(o.Rule, o.Func, o.Desc, o.Pos, o.Reason)
			} else {
				r.Ok(o.Rule, o.Func, o.Desc, o.Pos)
			}
		}
		if n10 < 3 {
			r.Undecided("C13: only %d shared C10.R5 obligations", n10)
		}
	}
	// shared C02.R2
	sub := NewReport("C02", r.Tier, c)
	sub.Sub = true
	runC02(c, sub)
	for _, o := range sub.Obls {
		if o.Rule != "C02.R2" {
			continue
		}
		if o.status == FAIL {
			r.Fail(o.Rule, o.Func, o.Desc, o.Pos, o.Reason)
		} else {
			r.Ok(o.Rule, o.Func, o.Desc, o.Pos)
		}
	}
}

func init() {
	register("C13", &propDef{
		explain: "Substitution-mechanism rules decided on code shape: ast.Modify is a copying rewriter (no store into its input, children-carrying nodes are re-allocated per arm), visits every child field of every node type the parser can build (arms compared with the parser-derived node inventory), expansion evaluates only the macro body and wraps the argument nodes themselves as quotes, unquote results are well-formed nodes, each expansion binds parameters in its own environment and runs on a fully initialised state. That the expanded program evaluates like the hand-substituted one is not decided; printing of the result shares C02's known precedence findings. Also: the definition sweep of DefineMacros keeps the loop index after deleting the element at the index (every path back to the loop test is resolved through the phis). Also: element stores through a child list shared with the input are rejected, every field of a node is set on the node an arm rebuilds, and (shared C10.R5) recovery does not reset the macro store.",
		assume:  []string{"call sites are found by the bottom-up traversal of Modify (its recursion order is not checked)", "hygiene is not part of the property"},
		run:     runC13,
	})
}

// checkDeleteWhileIterating: see C13.R7. For every deletion of the element at loop index i inside fn,
// follow every path back to the loop header and resolve what the index phi receives.
func (c *Ctx) checkDeleteWhileIterating(r *Report, rule string, fn *ssa.Function) {
	fname := ssaFuncName(fn)
	plusOne := func(v ssa.Value, of ssa.Value) bool {
		bin, ok := v.(*ssa.BinOp)
		if !ok || bin.Op != token.ADD || bin.X != of {
			return false
		}
		k, ok := constInt(bin.Y)
		return ok && k == 1
	}
	deletionIndex := func(in ssa.Instruction) ssa.Value {
		call, ok := in.(*ssa.Call)
		if !ok {
			return nil
		}
		args := call.Common().Args
		if bi, ok := call.Common().Value.(*ssa.Builtin); ok && bi.Name() == "append" && len(args) == 2 {
			a, ok1 := args[0].(*ssa.Slice)
			b, ok2 := args[1].(*ssa.Slice)
			if ok1 && ok2 && a.Low == nil && a.High != nil && b.High == nil && b.Low != nil && plusOne(b.Low, a.High) {
				return a.High
			}
			return nil
		}
		if obj := calleeObj(call); obj != nil && obj.Pkg() != nil && obj.Pkg().Path() == "slices" && obj.Name() == "Delete" && len(args) == 3 && plusOne(args[2], args[1]) {
			return args[1]
		}
		return nil
	}
	n := 0
	eachInstr(fn, func(in ssa.Instruction) {
		idx := deletionIndex(in)
		if idx == nil {
			return
		}
		n++
		desc := fmt.Sprintf("deletion #%d at the loop index keeps the index for the next test", n)
		phi, ok := idx.(*ssa.Phi)
		if !ok {
			r.Abstain(rule, fname, desc, c.Pos(in.Pos()), "the deleted position is not a loop index phi: "+idx.String())
			return
		}
		hdr := phi.Block()
		var bad []string
		var good int
		seen := map[*ssa.BasicBlock]bool{}
		var walk func(b *ssa.BasicBlock, asg map[*ssa.Phi]ssa.Value, trail []*ssa.BasicBlock)
		walk = func(b *ssa.BasicBlock, asg map[*ssa.Phi]ssa.Value, trail []*ssa.BasicBlock) {
			for _, s := range b.Succs {
				// edge b -> s: fix the phis of s
				j := -1
				for k, p := range s.Preds {
					if p == b {
						j = k
					}
				}
				resolve := func(v ssa.Value) ssa.Value {
					for k := 0; k < 8; k++ {
						p, ok := v.(*ssa.Phi)
						if !ok {
							return v
						}
						nv, ok := asg[p]
						if !ok {
							return v
						}
						v = nv
					}
					return v
				}
				if s == hdr {
					v := resolve(phi.Edges[j])
					switch {
					case v == ssa.Value(phi):
						good++
					case plusOne(v, phi):
						bad = append(bad, c.tracePath(&pathResult{trace: append(append([]*ssa.BasicBlock{}, trail...), b)})...)
					default:
						bad = append(bad, "the index becomes "+v.String()+" (not understood)")
					}
					continue
				}
				if seen[s] || !hdr.Dominates(s) {
					continue // left the loop, or already explored
				}
				seen[s] = true
				nasg := map[*ssa.Phi]ssa.Value{}
				for p, v := range asg {
					nasg[p] = v
				}
				for _, x := range s.Instrs {
					p, ok := x.(*ssa.Phi)
					if !ok {
						break
					}
					nasg[p] = resolve(p.Edges[j])
				}
				walk(s, nasg, append(trail, b))
			}
		}
		walk(in.Block(), map[*ssa.Phi]ssa.Value{}, nil)
		switch {
		case len(bad) > 0:
			r.Fail(rule, fname, desc, c.Pos(in.Pos()), "after removing element i the loop index is advanced: the element that moved into position i is never examined (two consecutive macro definitions: the second stays in the program undefined)", bad...)
		case good == 0:
			r.Abstain(rule, fname, desc, c.Pos(in.Pos()), "no path from the deletion back to the loop test was found")
		default:
			r.Ok(rule, fname, desc, c.Pos(in.Pos()))
		}
	})
	if n == 0 {
		r.Undecided("%s: no deletion at a loop index found in %s", rule, fname)
	}
	r.Floor(rule, 1)
}

// sharedWithInput: container value v (a slice or map used by a write at `at`) is loaded from a field of a
// local copy of the input node, and no assignment of a fresh container to that field dominates the load.
func sharedWithInput(v ssa.Value, at ssa.Instruction, derivesFromInput func(ssa.Value) bool) string {
	ld, ok := v.(*ssa.UnOp)
	if !ok {
		return ""
	}
	fa, ok := ld.X.(*ssa.FieldAddr)
	if !ok {
		return ""
	}
	if derivesFromInput(fa) {
		return "the container is read from the input node itself"
	}
	al, ok := fa.X.(*ssa.Alloc)
	if !ok {
		return ""
	}
	// does the local struct start as a copy of the input?
	copied := false
	for _, ref := range *al.Referrers() {
		if st, ok := ref.(*ssa.Store); ok && st.Addr == ssa.Value(al) {
			if src, ok := st.Val.(*ssa.UnOp); ok && derivesFromInput(src.X) {
				copied = true
			}
			if src, ok := st.Val.(*ssa.UnOp); ok {
				if ex, ok := src.X.(*ssa.Extract); ok && derivesFromInput(ex) {
					copied = true
				}
			}
		}
	}
	if !copied {
		return ""
	}
	// a dominating assignment of a new container to that field
	for _, ref := range *al.Referrers() {
		fa2, ok := ref.(*ssa.FieldAddr)
		if !ok || fa2.Field != fa.Field {
			continue
		}
		for _, r2 := range *fa2.Referrers() {
			st, ok := r2.(*ssa.Store)
			if !ok || st.Addr != ssa.Value(fa2) || !instrDominates(st, ld) {
				continue
			}
			switch x := st.Val.(type) {
			case *ssa.MakeSlice, *ssa.MakeMap:
				return ""
			case *ssa.Call:
				if bi, ok := x.Common().Value.(*ssa.Builtin); ok && bi.Name() == "append" {
					if k, ok := x.Common().Args[0].(*ssa.Const); ok && k.IsNil() {
						return ""
					}
				}
			}
		}
	}
	return "the local node is a copy of the input (`*node`) and the field holding this container is not given a new container before the write"
}
