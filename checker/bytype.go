package main

// bytype: rule C08.R9, token.ByType is defined for every type the front end asks for.
//
// parser.peekError renders the expected token with token.ByType(t).Literal(): a type missing from the
// by-type table is a nil dereference in the middle of error reporting ((a,b) 1 panicked once two-character
// tokens were left out of it). Registered set: the constant type arguments of the calls, in package token,
// of the functions that store tToT[<their parameter>] (directly or by handing the parameter to another such
// function). Required set: the constant arguments of Parser.expectPeek / peekError and of token.ByType in
// module code. Required must be a subset of registered.

import (
	"go/token"
	"go/types"
	"sort"
	"strings"

	"golang.org/x/tools/go/ssa"
)

func (c *Ctx) checkByTypeTotal(r *Report, rule string) {
	tokPkg := c.SSAPkg("token")
	tToT, _ := tokPkg.Members["tToT"].(*ssa.Global)
	if tToT == nil {
		r.Undecided("%s: token.tToT not found", rule)
		return
	}
	tokT := c.TypeNamed("token", "Type")
	names := c.tokenTypeNames()
	// registrars: function -> parameter index used as the tToT key
	registrar := map[*ssa.Function]int{}
	paramIndex := func(fn *ssa.Function, v ssa.Value) int {
		for i, p := range fn.Params {
			if ssa.Value(p) == v {
				return i
			}
		}
		return -1
	}
	for changed := true; changed; {
		changed = false
		for _, m := range tokPkg.Members {
			fn, ok := m.(*ssa.Function)
			if !ok || fn.Blocks == nil {
				continue
			}
			if _, done := registrar[fn]; done {
				continue
			}
			eachInstr(fn, func(in ssa.Instruction) {
				switch x := in.(type) {
				case *ssa.MapUpdate:
					if ld, ok := x.Map.(*ssa.UnOp); ok && ld.X == ssa.Value(tToT) {
						if i := paramIndex(fn, x.Key); i >= 0 {
							registrar[fn] = i
							changed = true
						}
					}
				case *ssa.Call:
					if callee := x.Common().StaticCallee(); callee != nil {
						if pi, ok := registrar[callee]; ok && pi < len(x.Common().Args) {
							if i := paramIndex(fn, x.Common().Args[pi]); i >= 0 {
								if _, done := registrar[fn]; !done {
									registrar[fn] = i
									changed = true
								}
							}
						}
					}
				}
			})
		}
	}
	registered := map[int64]bool{}
	for _, m := range tokPkg.Members {
		fn, ok := m.(*ssa.Function)
		if !ok || fn.Blocks == nil {
			continue
		}
		eachInstr(fn, func(in ssa.Instruction) {
			call, ok := in.(*ssa.Call)
			if !ok {
				return
			}
			callee := call.Common().StaticCallee()
			pi, isReg := registrar[callee]
			if callee == nil || !isReg || pi >= len(call.Common().Args) {
				return
			}
			arg := call.Common().Args[pi]
			if k, ok := constInt(arg); ok {
				registered[k] = true
				return
			}
			// a counting loop over a range of types: for i := lo; i < hi; i++ { register(i, ...) }
			phi, ok := arg.(*ssa.Phi)
			if !ok {
				return
			}
			lo, hasLo := int64(0), false
			for _, e := range phi.Edges {
				if k, ok := constInt(e); ok {
					lo, hasLo = k, true
				}
			}
			for _, cc := range controlling(call.Block()) {
				bin, ok := cc.Cond.(*ssa.BinOp)
				if !ok || cc.Edge != 0 || bin.X != ssa.Value(phi) {
					continue
				}
				if hi, ok := constInt(bin.Y); ok && hasLo && (bin.Op == token.LSS || bin.Op == token.LEQ) {
					if bin.Op == token.LEQ {
						hi++
					}
					for k := lo; k < hi; k++ {
						registered[k] = true
					}
				}
			}
		})
	}
	if len(registrar) < 2 || len(registered) < 30 {
		r.Undecided("%s: only %d registering functions and %d registered token types found", rule, len(registrar), len(registered))
		return
	}
	// required
	askers := map[*types.Func]int{
		c.Fn("parser", "Parser.expectPeek"): 1,
		c.Fn("parser", "Parser.peekError"):  1,
		c.Fn("token", "ByType"):             0,
	}
	n := 0
	var missing []string
	for _, fn := range c.ModuleSSAFuncs() {
		eachInstr(fn, func(in ssa.Instruction) {
			call, ok := in.(*ssa.Call)
			if !ok {
				return
			}
			obj := calleeObj(call)
			pi, isAsker := askers[obj]
			if obj == nil || !isAsker || pi >= len(call.Common().Args) {
				return
			}
			a := call.Common().Args[pi]
			if !types.Identical(a.Type(), tokT) {
				return
			}
			k, ok := constInt(a)
			if !ok {
				return // a parameter handed on: its constant sources are call sites of this function, also visited
			}
			n++
			if !registered[k] {
				missing = append(missing, names[k]+" ("+ssaFuncName(fn)+" "+c.Pos(call.Pos())+")")
			}
		})
	}
	sort.Strings(missing)
	r.Check(len(missing) == 0, rule, "token.ByType", "every token type asked for by the front end is in the by-type table", c.Pos(tToT.Pos()),
		"token.ByType returns nil for "+strings.Join(missing, ", ")+": peekError dereferences it while reporting the error (a panic in the middle of a parse error)")
	if n < 10 {
		r.Undecided("%s: only %d constant token types asked for (expectPeek sites expected)", rule, n)
	}
	r.Note("%s: %d registered token types, %d askers", rule, len(registered), n)
}
