package main

// slicebounds: the inventory of index and slice operations on slices and strings in the interpreter
// core and the extensions (rule C07.R10). Every site must be proven in range relative to the length of
// the very operand it indexes (not "some length"), be covered by the callback-argument rule of C07.R2,
// or be a named entry of boundsReviewed with the argument that was read off the code. A new site that
// is neither is reported: an index nobody can bound is how an evaluator panic gets in.

import (
	"fmt"
	"go/token"
	"go/types"
	"os"
	"sort"
	"strings"

	"golang.org/x/tools/go/ssa"
)

// boundsReviewed: sites the prover cannot establish, each confirmed by reading. Keyed "function | construct".
var boundsReviewed = map[string]string{
	"eval.(*State).DefineMacros | low bound of a slice":               "i < len(program.Statements) is the loop test of this iteration, so i+1 <= len",
	"eval.(*State).evalBuiltin | constant index 0 of a slice":         "argCheck(minV, ...) above returned an error unless len(node.Parameters) >= minV, and quote/del (minV=1) and the minV > 0 branch only run then",
	"eval.(*State).evalBuiltin | constant index 0 of a slice #2":      "argCheck(minV, ...) above returned an error unless len(node.Parameters) >= minV, and quote/del (minV=1) and the minV > 0 branch only run then",
	"eval.(*State).evalBuiltin | constant index 0 of a slice #3":      "argCheck(minV, ...) above returned an error unless len(node.Parameters) >= minV, and quote/del (minV=1) and the minV > 0 branch only run then",
	"eval.(*State).evalIndexAssigment | index of a slice":             "0 <= idx < object.Len(val) was tested just above and Elements(val) has Len(val) elements (interface-level equality the prover does not know)",
	"eval.(*State).evalIndexRangeExpression | low bound of a string":  "l and r were clamped with min(.., num) where num is the length of this very operand (len(str) / object.Len), l <= r and l >= 0 were tested above",
	"eval.(*State).evalIndexRangeExpression | high bound of a string": "l and r were clamped with min(.., num) where num is the length of this very operand (len(str) / object.Len), l <= r and l >= 0 were tested above",
	"eval.(*State).evalIndexRangeExpression | low bound of a slice":   "l and r were clamped with min(.., num) where num is the length of this very operand (len(str) / object.Len), l <= r and l >= 0 were tested above",
	"eval.(*State).evalIndexRangeExpression | high bound of a slice":  "l and r were clamped with min(.., num) where num is the length of this very operand (len(str) / object.Len), l <= r and l >= 0 were tested above",
	"eval.(*State).extendFunctionEnv | high bound of a slice":         "n = len(params)-1 >= 0: a variadic function has the `..` parameter, so at least one parameter (parser invariant); the args slices are under len(args) >= n",
	"eval.(*State).extendFunctionEnv | low bound of a slice":          "n = len(params)-1 >= 0: a variadic function has the `..` parameter, so at least one parameter (parser invariant); the args slices are under len(args) >= n",
	"eval.(*State).extendFunctionEnv | high bound of a slice #3":      "n = len(params)-1 >= 0: a variadic function has the `..` parameter, so at least one parameter (parser invariant); the args slices are under len(args) >= n",
	"eval.(*State).extendMacroEnv | index of a slice #2":              "expandMacro rejects a call whose argument count differs from len(macro.Parameters) before calling this",
	"eval.LimitStack | low bound of a slice":                          "len(stack) > limit was tested and limit (the constant 10 at its only call site) was halved: len(stack)-limit > 0",
	"eval.evalArrayIndexExpression | index of a slice":                "0 <= idx <= Len(array)-1 was tested just above and Elements(array) has Len(array) elements",
	"extensions.createCmd | constant index 0 of a slice":              "cmdArgs has one entry per argument and every extension using it (exec, run) is registered with MinArgs 1",
	"extensions.createCmd | constant low bound 1 of a slice":          "cmdArgs has one entry per argument and every extension using it (exec, run) is registered with MinArgs 1",
	"object.(*BigMap).Range | low bound of a slice":                   "the only caller (object.Range from evalIndexRangeExpression) passes 0 <= l <= r <= Len() of this map",
	"object.(*BigMap).Range | high bound of a slice":                  "the only caller (object.Range from evalIndexRangeExpression) passes 0 <= l <= r <= Len() of this map",
	"object.(*BigMap).Range | low bound of a slice #2":                "the only caller (object.Range from evalIndexRangeExpression) passes 0 <= l <= r <= Len() of this map",
	"object.(*BigMap).Range | high bound of a slice #2":               "the only caller (object.Range from evalIndexRangeExpression) passes 0 <= l <= r <= Len() of this map",
	"object.(*Environment).Info | index of a slice #2":                "allKeys is made with e.depth entries (depth of the innermost scope) and the loop walks outwards, so 1 <= e.depth <= len on this branch (C07.R8 keeps depth = outer.depth + 1)",
	"object.(BigArray).Less | index of a slice":                       "sort.Interface contract: called by package sort with 0 <= i, j < Len()",
	"object.(BigArray).Less | index of a slice #2":                    "sort.Interface contract: called by package sort with 0 <= i, j < Len()",
	"object.(BigArray).Swap | index of a slice":                       "sort.Interface contract: called by package sort with 0 <= i, j < Len()",
	"object.(BigArray).Swap | index of a slice #2":                    "sort.Interface contract: called by package sort with 0 <= i, j < Len()",
	"object.(BigArray).Swap | index of a slice #3":                    "sort.Interface contract: called by package sort with 0 <= i, j < Len()",
	"object.(BigArray).Swap | index of a slice #4":                    "sort.Interface contract: called by package sort with 0 <= i, j < Len()",
	"object.(Extension).Usage | index of a slice":                     "i runs over 1..MinArgs and MustCreate rejects a registration with fewer ArgTypes than MinArgs; the second site is under len(e.ArgTypes) > e.MinArgs",
	"object.(Extension).Usage | index of a slice #2":                  "i runs over 1..MinArgs and MustCreate rejects a registration with fewer ArgTypes than MinArgs; the second site is under len(e.ArgTypes) > e.MinArgs",
	"object.Elements | index of a slice #2":                           "res is made with v.len entries and the loop ranges over smallKV[:v.len]",
	"object.First | constant high bound 1 of a slice":                 "a.Value is not empty on this path, so it has at least one rune",
}

// reviewedLocalGuards: reviewed entries whose argument is "tested just above": the checker still requires
// the tests to be there, i.e. dominating comparisons (or min/max clamps) bounding the value from above and,
// where listed, from below. Removing one of the tests re-opens the obligation.
var reviewedLocalGuards = map[string]struct{ upper, lower bool }{
	"eval.(*State).evalIndexAssigment | index of a slice":             {true, true},
	"eval.evalArrayIndexExpression | index of a slice":                {true, true},
	"eval.(*State).evalIndexRangeExpression | low bound of a string":  {true, true},
	"eval.(*State).evalIndexRangeExpression | high bound of a string": {true, false},
	"eval.(*State).evalIndexRangeExpression | low bound of a slice":   {true, true},
	"eval.(*State).evalIndexRangeExpression | high bound of a slice":  {true, false},
}

// guardedBy: some dominating comparison (or a min/max clamp in the value itself) bounds v from above / below.
func (bp *boundProver) guardedBy(v ssa.Value, at *ssa.BasicBlock, upper bool, depth int) bool {
	if depth > 4 || v == nil {
		return false
	}
	v = stripConvert(v)
	for _, cc := range controlling(at) {
		bin, ok := cc.Cond.(*ssa.BinOp)
		if !ok {
			continue
		}
		op := bin.Op
		if _, known := negOp[op]; !known {
			continue
		}
		switch {
		case bp.sameLocFrom(bin.X, v):
		case bp.sameLocFrom(bin.Y, v):
			op = flipOp[op]
		default:
			continue
		}
		if cc.Edge == 1 {
			op = negOp[op]
		}
		if upper && (op == token.LSS || op == token.LEQ || op == token.EQL) {
			return true
		}
		if !upper && (op == token.GTR || op == token.GEQ || op == token.EQL) {
			return true
		}
	}
	switch x := v.(type) {
	case *ssa.Call:
		if bi, ok := x.Common().Value.(*ssa.Builtin); ok {
			if upper && bi.Name() == "min" {
				return true
			}
			if !upper && bi.Name() == "max" {
				return true
			}
			if bi.Name() == "min" || bi.Name() == "max" {
				for _, a := range x.Common().Args {
					if bp.guardedBy(a, at, upper, depth+1) {
						return true
					}
				}
			}
		}
	case *ssa.Phi:
		for i, e := range x.Edges {
			if !bp.guardedBy(e, x.Block().Preds[i], upper, depth+1) {
				// the edge value may itself be bounded by a comparison that selected this edge
				if bin, ok := e.(*ssa.BinOp); ok && (bin.Op == token.ADD || bin.Op == token.SUB) {
					if bp.guardedBy(bin.X, x.Block().Preds[i], upper, depth+1) || bp.guardedBy(bin.Y, x.Block().Preds[i], upper, depth+1) {
						continue
					}
				}
				return false
			}
		}
		return len(x.Edges) > 0
	case *ssa.BinOp:
		if x.Op == token.ADD || x.Op == token.SUB {
			return bp.guardedBy(x.X, at, upper, depth+1)
		}
	}
	return false
}

// sameSeq: x and y denote the same sequence value (identity, loads of the same location, conversions).
func (bp *boundProver) sameSeq(x, y ssa.Value) bool {
	if x == y {
		return true
	}
	if cx, ok := x.(*ssa.Convert); ok {
		if cy, ok := y.(*ssa.Convert); ok {
			return bp.sameSeq(cx.X, cy.X)
		}
	}
	if cx, ok := x.(*ssa.ChangeType); ok {
		return bp.sameSeq(cx.X, y)
	}
	if cy, ok := y.(*ssa.ChangeType); ok {
		return bp.sameSeq(x, cy.X)
	}
	return bp.sameLocFrom(x, y)
}

// lenOf: v is len(x') for a sequence x' that is the same as x.
func (bp *boundProver) isLenOf(v ssa.Value, x ssa.Value) bool {
	v = stripConvert(v)
	call, ok := v.(*ssa.Call)
	if !ok {
		return false
	}
	bi, ok := call.Common().Value.(*ssa.Builtin)
	if !ok || (bi.Name() != "len") {
		return false
	}
	if bp.sameSeq(call.Common().Args[0], x) {
		return true
	}
	// x was made with exactly this length: make([]T, len(a)) is as long as a
	if mk := madeSlice(x); mk != nil {
		if lc, ok := stripConvert(mk.Len).(*ssa.Call); ok {
			if b2, ok := lc.Common().Value.(*ssa.Builtin); ok && b2.Name() == "len" {
				return bp.sameSeq(lc.Common().Args[0], call.Common().Args[0])
			}
		}
	}
	return false
}

// madeSlice: x is a make([]T, n) (possibly through a local variable written once).
func madeSlice(x ssa.Value) *ssa.MakeSlice {
	if mk, ok := x.(*ssa.MakeSlice); ok {
		return mk
	}
	if ld, ok := x.(*ssa.UnOp); ok && ld.Op == token.MUL {
		if al, ok := ld.X.(*ssa.Alloc); ok {
			var only ssa.Value
			n := 0
			for _, ref := range *al.Referrers() {
				if st, ok := ref.(*ssa.Store); ok && st.Addr == ssa.Value(al) {
					n++
					only = st.Val
				}
			}
			if n == 1 {
				if mk, ok := only.(*ssa.MakeSlice); ok {
					return mk
				}
			}
		}
	}
	return nil
}

// lenLB: a proven lower bound of len(x) where block `at` executes (0 when nothing is known).
func (bp *boundProver) lenLB(x ssa.Value, at *ssa.BasicBlock, depth int, seen map[ssa.Value]bool) int64 {
	if x == nil || depth > 5 {
		return 0
	}
	var best int64
	up := func(k int64) {
		if k > best {
			best = k
		}
	}
	if k, ok := constLenOf(x); ok {
		if _, isSlice := x.(*ssa.Slice); !isSlice {
			return k
		}
	}
	if bp.foundOver(x, at) {
		up(1) // a key was found in it
	}
	// a parameter: the argument list of an extension callback has at least MinArgs entries (the evaluator checks
	// the count before the call, C07.R2); any other parameter has what every caller passes
	if p, ok := x.(*ssa.Parameter); ok && depth < 2 {
		if bp.cbMin == nil {
			bp.cbMin = map[*ssa.Parameter]int64{}
			for _, reg := range bp.c.ExtReg() {
				if reg.Callback == nil {
					continue
				}
				i := 2
				if reg.Short {
					i = 0
				}
				if len(reg.Callback.Params) > i {
					ap := reg.Callback.Params[i]
					if m, seen := bp.cbMin[ap]; !seen || int64(reg.MinArgs) < m {
						bp.cbMin[ap] = int64(reg.MinArgs)
					}
				}
			}
		}
		if m, isCb := bp.cbMin[p]; isCb {
			up(m)
		} else if sites, ok := bp.c.argsAtCallSites(p); ok && len(sites) > 0 {
			least := int64(1) << 40
			for _, st := range sites {
				if l := bp.lenLB(st.v, st.b, depth+1, seen); l < least {
					least = l
				}
			}
			up(least)
		}
	}
	// facts on len(x)
	for _, cc := range controlling(at) {
		bin, ok := cc.Cond.(*ssa.BinOp)
		if !ok {
			continue
		}
		op := bin.Op
		if _, known := negOp[op]; !known {
			continue
		}
		var other ssa.Value
		switch {
		case bp.isLenOf(bin.X, x):
			other = bin.Y
		case bp.isLenOf(bin.Y, x):
			other = bin.X
			op = flipOp[op]
		default:
			continue
		}
		if cc.Edge == 1 {
			op = negOp[op]
		}
		k, isK := constInt(other)
		if !isK {
			// len(x) > i / >= i with i >= something: only the trivial consequence
			if (op == token.GTR) && bp.nonNeg(other, cc.If.Block(), 0, map[ssa.Value]bool{}) {
				up(1)
			}
			continue
		}
		switch op {
		case token.GTR:
			up(k + 1)
		case token.GEQ, token.EQL:
			up(k)
		case token.NEQ:
			if k == 0 {
				up(1)
			}
		}
	}
	if seen[x] {
		return best
	}
	seen[x] = true
	defer delete(seen, x)
	switch v := x.(type) {
	case *ssa.Slice:
		t := v.X.Type().Underlying()
		if p, ok := t.(*types.Pointer); ok {
			t = p.Elem().Underlying()
		}
		var base int64
		if a, ok := t.(*types.Array); ok {
			base = a.Len()
		} else {
			base = bp.lenLB(v.X, v.Block(), depth+1, seen)
		}
		if v.High != nil {
			if h, ok := constInt(v.High); ok {
				base = h
			} else {
				base = 0
			}
		}
		if v.Low != nil {
			if l, ok := constInt(v.Low); ok {
				base -= l
			} else {
				base = 0
			}
		}
		up(base)
	case *ssa.MakeSlice:
		if k, ok := constInt(v.Len); ok {
			up(k)
		}
	case *ssa.Convert:
		// []byte(s) / string(b) keep the byte length; []rune(s) does not
		if sl, ok := v.Type().Underlying().(*types.Slice); ok {
			if b, ok := sl.Elem().Underlying().(*types.Basic); ok && b.Kind() == types.Uint8 {
				up(bp.lenLB(v.X, at, depth+1, seen))
			}
		}
	case *ssa.ChangeType:
		up(bp.lenLB(v.X, at, depth+1, seen))
	case *ssa.Phi:
		var m int64 = 1 << 62
		for i, e := range v.Edges {
			k := bp.lenLB(e, v.Block().Preds[i], depth+1, seen)
			if k < m {
				m = k
			}
		}
		if m < 1<<62 {
			up(m)
		}
	case *ssa.UnOp:
		if al, ok := v.X.(*ssa.Alloc); ok && v.Op == token.MUL {
			var m int64 = 1 << 62
			n := 0
			for _, ref := range *al.Referrers() {
				switch y := ref.(type) {
				case *ssa.Store:
					if y.Addr != ssa.Value(al) {
						m = 0
						continue
					}
					n++
					if k := bp.lenLB(y.Val, y.Block(), depth+1, seen); k < m {
						m = k
					}
				case *ssa.UnOp, *ssa.DebugRef:
				default:
					m = 0
				}
			}
			if n > 0 && m < 1<<62 {
				up(m)
			}
		}
	case *ssa.Call:
		if bi, ok := v.Common().Value.(*ssa.Builtin); ok {
			if bi.Name() == "append" {
				k := bp.lenLB(v.Common().Args[0], at, depth+1, seen)
				if len(v.Common().Args) > 1 {
					k += bp.lenLB(v.Common().Args[1], at, depth+1, seen)
				}
				up(k)
			}
			break
		}
		up(bp.calleeLenLB(v, 0, depth))
	case *ssa.Extract:
		if call, ok := v.Tuple.(*ssa.Call); ok {
			up(bp.calleeLenLB(call, v.Index, depth))
		}
	case *ssa.Parameter:
		if depth < 3 && !bp.inParam[v] {
			if sites, ok := bp.c.argsAtCallSites(v); ok && len(sites) > 0 {
				bp.inParam[v] = true
				var m int64 = 1 << 62
				for _, s := range sites {
					if k := bp.lenLB(s.v, s.b, depth+2, map[ssa.Value]bool{}); k < m {
						m = k
					}
				}
				delete(bp.inParam, v)
				if m < 1<<62 {
					up(m)
				}
			}
		}
	}
	return best
}

func (bp *boundProver) calleeLenLB(call *ssa.Call, idx int, depth int) int64 {
	callee := call.Common().StaticCallee()
	if callee == nil || !isModuleSSA(callee) || callee.Blocks == nil || bp.inRet[callee] || depth > 3 {
		return 0
	}
	bp.inRet[callee] = true
	defer delete(bp.inRet, callee)
	var m int64 = 1 << 62
	for _, b := range callee.Blocks {
		ret, ok := b.Instrs[len(b.Instrs)-1].(*ssa.Return)
		if !ok || b == callee.Recover {
			continue
		}
		if k := bp.lenLB(retVal(ret, idx), b, depth+2, map[ssa.Value]bool{}); k < m {
			m = k
		}
	}
	if m == 1<<62 {
		return 0
	}
	return m
}

// ltLen: i < len(x) (strict) or i <= len(x) where block `at` executes.
func (bp *boundProver) ltLen(i, x ssa.Value, at *ssa.BasicBlock, strict bool, depth int, seen map[ssa.Value]bool) (res bool) {
	if os.Getenv("LT_DEBUG") != "" && at.Parent().Name() == os.Getenv("LT_DEBUG") {
		defer func() {
			fmt.Fprintf(os.Stderr, "%*sltLen(%s=%s, %s=%s, b%d, strict=%v) = %v\n", depth*2, "", i.Name(), i.String(), x.Name(), x.String(), at.Index, strict, res)
		}()
	}
	if depth > 5 {
		return false
	}
	lb := bp.lenLB(x, at, 0, map[ssa.Value]bool{})
	if k, ok := constInt(i); ok {
		if strict {
			return k < lb
		}
		return k <= lb
	}
	if u := bp.ub(i, at, 0, map[ssa.Value]bool{}); u.ok && ((strict && u.k < lb) || (!strict && u.k <= lb)) {
		return true
	}
	iv := stripConvert(i)
	// the position a binary search over x returned: <= len(x), and < len(x) where the key was found
	if si, ok := bp.searchPos(iv); ok && bp.searchedSeq(si, x) {
		if !strict || bp.foundAt(si, at) {
			return true
		}
	}
	// comparisons with len(x)
	check := func(cc ctrlCond, v ssa.Value) bool {
		bin, ok := cc.Cond.(*ssa.BinOp)
		if !ok {
			return false
		}
		op := bin.Op
		if _, known := negOp[op]; !known {
			return false
		}
		var other ssa.Value
		sameConst := func(a, b ssa.Value) bool {
			ka, ok1 := constInt(a)
			kb, ok2 := constInt(b)
			return ok1 && ok2 && ka == kb
		}
		switch {
		case bp.sameLocFrom(bin.X, v) || sameConst(bin.X, v):
			other = bin.Y
		case bp.sameLocFrom(bin.Y, v) || sameConst(bin.Y, v):
			other = bin.X
			op = flipOp[op]
		default:
			return false
		}
		if cc.Edge == 1 {
			op = negOp[op]
		}
		// other is len(x), len(x)-k, or a value itself <= len(x)
		off, isLen := bp.lenMinus(other, x)
		if !isLen {
			// i < j and j <= len(x)
			if (op == token.LSS || op == token.LEQ) && !seen[stripConvert(other)] {
				// (the recursion is bounded by depth; `seen` marks the values being expanded structurally)
				return bp.ltLen(other, x, cc.If.Block(), !(op == token.LSS) && strict, depth+1, seen)
			}
			return false
		}
		// v op len(x) - off
		switch op {
		case token.LSS:
			return off >= 0 // v < len - off  =>  v < len
		case token.LEQ, token.EQL:
			if strict {
				return off >= 1
			}
			return off >= 0
		}
		return false
	}
	for _, cc := range controlling(at) {
		if check(cc, iv) {
			return true
		}
	}
	if seen[iv] {
		return false
	}
	seen[iv] = true
	defer delete(seen, iv)
	switch v := iv.(type) {
	case *ssa.BinOp:
		// len(x) - k
		if off, isLen := bp.lenMinus(v, x); isLen {
			if strict {
				return off >= 1
			}
			return off >= 0
		}
		if v.Op == token.ADD && !strict {
			if k, ok := constInt(v.Y); ok && k == 1 {
				return bp.ltLen(v.X, x, at, true, depth+1, seen)
			}
		}
		if v.Op == token.SUB {
			if k, ok := constInt(v.Y); ok && k >= 0 {
				return bp.ltLen(v.X, x, at, strict, depth+1, seen) || (k >= 1 && bp.ltLen(v.X, x, at, false, depth+1, seen))
			}
		}
		if v.Op == token.QUO || v.Op == token.SHR {
			if k, ok := constInt(v.Y); ok && k >= 1 && bp.nonNeg(v.X, at, 0, map[ssa.Value]bool{}) {
				return bp.ltLen(v.X, x, at, strict, depth+1, seen)
			}
		}
	case *ssa.Phi:
		for e, ev := range v.Edges {
			pred := v.Block().Preds[e]
			if ev == ssa.Value(v) {
				continue
			}
			ok := bp.ltLen(ev, x, pred, strict, depth+1, seen)
			if !ok {
				if ifi, isIf := pred.Instrs[len(pred.Instrs)-1].(*ssa.If); isIf && pred.Succs[0] != pred.Succs[1] {
					for ed := 0; ed < 2; ed++ {
						if pred.Succs[ed] == v.Block() {
							for _, cc := range expandCond(ifi, ifi.Cond, ed, 0) {
								if check(cc, stripConvert(ev)) {
									ok = true
								}
							}
						}
					}
				}
			}
			if !ok {
				return false
			}
		}
		return len(v.Edges) > 0
	case *ssa.Call:
		if bi, ok := v.Common().Value.(*ssa.Builtin); ok && bi.Name() == "min" {
			for _, a := range v.Common().Args {
				if off, isLen := bp.lenMinus(a, x); isLen {
					if (strict && off >= 1) || (!strict && off >= 0) {
						return true
					}
				}
				if bp.ltLen(a, x, at, strict, depth+1, seen) {
					return true
				}
			}
		}
	case *ssa.Parameter:
		// both the index and the sequence are parameters: every call site
		xp, ok := x.(*ssa.Parameter)
		if !ok || depth > 2 || bp.inParam[v] {
			return false
		}
		si, ok1 := bp.c.argsAtCallSites(v)
		sx, ok2 := bp.c.argsAtCallSites(xp)
		if !ok1 || !ok2 || len(si) == 0 || len(si) != len(sx) {
			return false
		}
		bp.inParam[v] = true
		defer delete(bp.inParam, v)
		for k := range si {
			if si[k].b != sx[k].b || !bp.ltLen(si[k].v, sx[k].v, si[k].b, strict, depth+2, map[ssa.Value]bool{}) {
				return false
			}
		}
		return true
	}
	return false
}

// lenMinus: v is len(x') - k (k may be 0 or negative for +) for the same sequence.
func (bp *boundProver) lenMinus(v ssa.Value, x ssa.Value) (int64, bool) {
	v = stripConvert(v)
	if bp.isLenOf(v, x) {
		return 0, true
	}
	if bin, ok := v.(*ssa.BinOp); ok {
		if k, isK := constInt(bin.Y); isK {
			if off, isLen := bp.lenMinus(bin.X, x); isLen {
				switch bin.Op {
				case token.SUB:
					return off + k, true
				case token.ADD:
					return off - k, true
				}
			}
		}
	}
	// a variable holding the length: single-store local
	if ld, ok := v.(*ssa.UnOp); ok && ld.Op == token.MUL {
		if al, ok := ld.X.(*ssa.Alloc); ok {
			var only ssa.Value
			n := 0
			for _, ref := range *al.Referrers() {
				if st, ok := ref.(*ssa.Store); ok && st.Addr == ssa.Value(al) {
					n++
					only = st.Val
				}
			}
			if n == 1 {
				return bp.lenMinus(only, x)
			}
		}
	}
	return 0, false
}

// checkSliceBounds: rule C07.R10.
func (c *Ctx) checkSliceBounds(r *Report, rule string, pkgs map[string]bool) {
	bp := c.newBoundProver()
	generated := map[string]bool{}
	for _, p := range c.Mod {
		for _, f := range p.Syntax {
			generated[c.Fset.Position(f.Pos()).Filename] = isGeneratedFile(f)
		}
	}
	// callback argument lists with constant indices belong to C07.R2
	cbArgs := map[*ssa.Parameter]bool{}
	for _, reg := range c.ExtReg() {
		if reg.Callback == nil {
			continue
		}
		i := 2
		if reg.Short {
			i = 0
		}
		if len(reg.Callback.Params) > i {
			cbArgs[reg.Callback.Params[i]] = true
		}
	}
	nProven, nReviewed := 0, 0
	usedReviewed := map[string]bool{}
	for _, fn := range c.ModuleSSAFuncs() {
		if fn.Pkg == nil {
			continue
		}
		top := fn
		for top.Parent() != nil {
			top = top.Parent()
		}
		if top.Pkg == nil || !pkgs[shortPkg(top.Pkg.Pkg)] || generated[c.Fset.Position(fn.Pos()).Filename] {
			continue
		}
		fname := ssaFuncName(fn)
		counts := map[string]int{}
		eachInstr(fn, func(in ssa.Instruction) {
			var operand ssa.Value
			type bound struct {
				v      ssa.Value
				strict bool
				what   string
			}
			var bounds []bound
			var sl *ssa.Slice
			switch x := in.(type) {
			case *ssa.IndexAddr:
				operand, bounds = x.X, []bound{{x.Index, true, "index"}}
			case *ssa.Index:
				operand, bounds = x.X, []bound{{x.Index, true, "index"}}
			case *ssa.Lookup:
				if _, isStr := x.X.Type().Underlying().(*types.Basic); isStr {
					operand, bounds = x.X, []bound{{x.Index, true, "index"}}
				}
			case *ssa.Slice:
				operand, sl = x.X, x
				if x.Low != nil {
					bounds = append(bounds, bound{x.Low, false, "low bound"})
				}
				if x.High != nil {
					bounds = append(bounds, bound{x.High, false, "high bound"})
				}
			}
			if operand == nil {
				return
			}
			t := operand.Type().Underlying()
			if p, ok := t.(*types.Pointer); ok {
				t = p.Elem().Underlying()
			}
			if _, isArr := t.(*types.Array); isArr {
				return // fixed arrays: C07.R9
			}
			kind := "slice"
			if _, isStr := t.(*types.Basic); isStr {
				kind = "string"
			}
			for _, bd := range bounds {
				if k, isK := constInt(bd.v); isK {
					if k == 0 && !bd.strict {
						continue // s[0:...]
					}
					if p, ok := operand.(*ssa.Parameter); ok && cbArgs[p] {
						continue // C07.R2: args[k] against MinArgs / len(args) tests
					}
				}
				what := bd.what
				if k, isK := constInt(bd.v); isK {
					what = fmt.Sprintf("constant %s %d", bd.what, k)
				}
				d := fmt.Sprintf("%s of a %s", what, kind)
				counts[d]++
				if counts[d] > 1 {
					d = fmt.Sprintf("%s #%d", d, counts[d])
				}
				hi := bp.ltLen(bd.v, operand, in.Block(), bd.strict, 0, map[ssa.Value]bool{})
				// a low bound only has to stay below the high bound when there is one
				if !hi && sl != nil && bd.v == sl.Low && sl.High != nil && c.proveLE(sl.Low, sl.High, in.Block(), 0) {
					hi = bp.ltLen(sl.High, operand, in.Block(), false, 0, map[ssa.Value]bool{})
				}
				if !hi && bd.strict {
					hi = bp.equalLenContainers(bd.v, operand, in.Block())
				}
				lo := bp.nonNeg(bd.v, in.Block(), 0, map[ssa.Value]bool{}) || c.proveLo(bd.v, in.Block(), 0)
				if !lo && sl != nil && bd.v == sl.High && sl.Low != nil && c.proveLE(sl.Low, sl.High, in.Block(), 0) {
					lo = bp.nonNeg(sl.Low, in.Block(), 0, map[ssa.Value]bool{}) || c.proveLo(sl.Low, in.Block(), 0)
				}
				if hi && lo {
					nProven++
					r.Ok(rule, fname, d, c.Pos(in.Pos()))
					continue
				}
				key := fname + " | " + d
				if why, ok := boundsReviewed[key]; ok {
					usedReviewed[key] = true
					if g, needs := reviewedLocalGuards[key]; needs {
						missing := ""
						if g.upper && !bp.guardedBy(bd.v, in.Block(), true, 0) {
							missing = "no dominating test (or min clamp) bounds it from above any more"
						}
						if g.lower && !bp.guardedBy(bd.v, in.Block(), false, 0) && !lo {
							if missing != "" {
								missing += "; "
							}
							missing += "no dominating test bounds it from below any more"
						}
						if missing != "" {
							r.Fail(rule, fname, d, c.Pos(in.Pos()), "this site is accepted on the argument `"+why+"`, but "+missing+": index / slice bounds out of range panic")
							continue
						}
					}
					nReviewed++
					r.OkWhy(rule, fname, d, c.Pos(in.Pos()), "reviewed: "+why)
					continue
				}
				why := ""
				if !hi {
					why = fmt.Sprintf("the %s (%s) is not proven within the length of the %s it is applied to", bd.what, bd.v.String(), kind)
				}
				if !lo {
					if why != "" {
						why += "; "
					}
					why += "it is not proven >= 0"
				}
				r.Fail(rule, fname, d, c.Pos(in.Pos()), why+": nothing on this path relates it to that length (a dominating comparison with len of the same value, a range over it, a constant below a known minimum length): index / slice bounds out of range panic for some reachable state")
			}
		})
	}
	var stale []string
	for k := range boundsReviewed {
		if !usedReviewed[k] {
			stale = append(stale, k)
		}
	}
	sort.Strings(stale)
	r.Note("%s: %d sites proven, %d reviewed entries used, %d reviewed entries no longer matching (%v)", rule, nProven, nReviewed, len(stale), stale)
	if nProven < 60 {
		r.Undecided("%s: only %d index/slice sites proven", rule, nProven)
	}
}

// elementsOf: x is B.Elements() / B.mapElements() for a container B of package object (the accessors that
// return Len() items: the array and map representations keep that, C07.R3/R4); returns B and the accessor.
func elementsOf(x ssa.Value) (ssa.Value, string) {
	call, ok := x.(*ssa.Call)
	if !ok {
		return nil, ""
	}
	cc := call.Common()
	if cc.IsInvoke() {
		if n := cc.Method.Name(); (n == "Elements" || n == "mapElements") && cc.Method.Pkg() != nil && cc.Method.Pkg().Name() == "object" {
			return cc.Value, n
		}
		return nil, ""
	}
	if f := cc.StaticCallee(); f != nil && f.Signature.Recv() != nil && len(cc.Args) == 1 && f.Pkg != nil && f.Pkg.Pkg.Name() == "object" && (f.Name() == "Elements" || f.Name() == "mapElements") {
		return cc.Args[0], f.Name()
	}
	return nil, ""
}

func isLenCallOn(v ssa.Value, on ssa.Value) bool {
	call, ok := v.(*ssa.Call)
	if !ok {
		return false
	}
	cc := call.Common()
	if cc.IsInvoke() {
		return cc.Method.Name() == "Len" && len(cc.Args) == 0 && cc.Value == on
	}
	f := cc.StaticCallee()
	return f != nil && f.Name() == "Len" && f.Signature.Recv() != nil && len(cc.Args) == 1 && cc.Args[0] == on
}

// equalLenContainers: the operand is B's elements, the index is proven below the length of A's elements (same
// accessor), and where `at` executes A.Len() == B.Len() is established (an == test, or both orderings
// excluded): two containers compared element by element after their lengths.
func (bp *boundProver) equalLenContainers(i, operand ssa.Value, at *ssa.BasicBlock) bool {
	b, acc := elementsOf(operand)
	if b == nil {
		return false
	}
	found := false
	eachInstr(at.Parent(), func(in ssa.Instruction) {
		v, ok := in.(ssa.Value)
		if !ok || found {
			return
		}
		a, acc2 := elementsOf(v)
		if a == nil || acc2 != acc || a == b {
			return
		}
		if !bp.ltLen(i, v, at, true, 0, map[ssa.Value]bool{}) {
			return
		}
		// A.Len() == B.Len() where at executes
		notLess, notGreater := false, false
		for _, cc := range controlling(at) {
			bin, ok := cc.Cond.(*ssa.BinOp)
			if !ok {
				continue
			}
			op := bin.Op
			switch {
			case isLenCallOn(bin.X, a) && isLenCallOn(bin.Y, b):
			case isLenCallOn(bin.X, b) && isLenCallOn(bin.Y, a):
				if f, ok := flipOp[op]; ok {
					op = f
				}
			default:
				continue
			}
			if cc.Edge == 1 {
				n, ok := negOp[op]
				if !ok {
					continue
				}
				op = n
			}
			switch op { // relation between A.Len() and B.Len()
			case token.EQL:
				notLess, notGreater = true, true
			case token.GEQ:
				notLess = true
			case token.LEQ:
				notGreater = true
			}
		}
		// the index is below len(A's elements) = A.Len() <= B.Len() = len(B's elements)
		if notGreater {
			found = true
		}
		_ = notLess
	})
	return found
}

// checkNoClearingOfSharedStorage: rule C07.R16.
//
// Rest and Range of the large map (and array) hand out sub-slices of the same backing array, so two container
// values can cover the same cells with different lengths. The library functions that shrink a slice in place
// (slices.Delete, DeleteFunc, Compact, CompactFunc) and the builtin clear zero the cells they vacate: applied to
// the storage field of a container of package object they leave a nil key/value pair (or nil element) inside
// every other value that still covers those cells, and the next Inspect / Cmp / iteration on it is a nil
// pointer dereference.
func (c *Ctx) checkNoClearingOfSharedStorage(r *Report, rule string) {
	fromField := func(v ssa.Value) string {
		for i := 0; i < 6; i++ {
			switch x := v.(type) {
			case *ssa.UnOp:
				v = x.X
			case *ssa.Slice:
				v = x.X
			case *ssa.FieldAddr:
				if n := namedStruct(x.X.Type()); n != nil && n.Obj().Pkg() != nil && shortPkg(n.Obj().Pkg()) == "object" {
					return n.Obj().Name() + "." + n.Underlying().(*types.Struct).Field(x.Field).Name()
				}
				return ""
			default:
				return ""
			}
		}
		return ""
	}
	n := 0
	for _, fn := range c.ModuleSSAFuncs() {
		if fn.Pkg == nil || shortPkg(fn.Pkg.Pkg) != "object" {
			continue
		}
		eachInstr(fn, func(in ssa.Instruction) {
			call, ok := in.(*ssa.Call)
			if !ok || len(call.Common().Args) == 0 {
				return
			}
			name := ""
			if bi, ok := call.Common().Value.(*ssa.Builtin); ok && bi.Name() == "clear" {
				name = "clear"
			} else if obj := calleeObj(call); obj != nil && obj.Pkg() != nil && obj.Pkg().Path() == "slices" {
				switch obj.Name() {
				case "Delete", "DeleteFunc", "Compact", "CompactFunc":
					name = "slices." + obj.Name()
				}
			}
			if name == "" {
				return
			}
			f := fromField(call.Common().Args[0])
			if f == "" {
				return
			}
			n++
			r.Fail(rule, ssaFuncName(fn), name+" on container storage "+f, c.Pos(call.Pos()),
				name+" zeroes the cells it vacates in the backing array of "+f+"; rest(m), m[a:b] and iteration hand out values that share that array with their own length, so they end in a nil pair/element and the next use of them dereferences nil (m has 7 pairs; r = rest(m); del(m[1]); r panics)")
		})
	}
	if n == 0 {
		r.OkWhy(rule, "object", "no cell-clearing library call on container storage", "", "deletions copy down and reslice: vacated cells keep their old content, which the other values covering them still own")
	}
}

// ---- positions returned by a binary search ----
//
// slices.BinarySearchFunc(s, ...) returns (i, found) with 0 <= i <= len(s), and found implies i < len(s). A module
// function whose every return hands on such a pair computed on a field of its first parameter (BigMap.get:
// `return v, found, idx`) gives its callers the same facts about that field of the argument.

type searchInfo struct {
	seq    ssa.Value // the slice searched, when it is a value of this function (direct search)
	base   ssa.Value // or: the struct pointer whose field `field` was searched (through a summarised callee)
	field  int
	tuple  ssa.Value // the call whose results these are
	bfound int       // index of the bool result that means "present"
}

func isBinarySearch(call *ssa.Call) bool {
	obj := calleeObj(call)
	return obj != nil && obj.Pkg() != nil && obj.Pkg().Path() == "slices" && strings.HasPrefix(obj.Name(), "BinarySearch") && len(call.Common().Args) >= 1
}

// searchSummary: callee returns, at result index ri, the position of a binary search over field f of its first
// parameter, and at bi the found flag (or the constant false).
func (bp *boundProver) searchSummary(callee *ssa.Function) (ri, bi, field int, ok bool) {
	if callee == nil || len(callee.Blocks) == 0 || len(callee.Params) == 0 {
		return 0, 0, 0, false
	}
	ri, bi, field = -1, -1, -1
	good, n := true, 0
	eachInstr(callee, func(in ssa.Instruction) {
		ret, isRet := in.(*ssa.Return)
		if !isRet || !good {
			return
		}
		n++
		pos, fnd := -1, -1
		var call, via *ssa.Call
		viaField := -1
		for i, res := range ret.Results {
			ex, isEx := res.(*ssa.Extract)
			if !isEx {
				continue
			}
			c2, isCall := ex.Tuple.(*ssa.Call)
			if !isCall {
				continue
			}
			if isBinarySearch(c2) {
				call = c2
				if ex.Index == 0 {
					pos = i
				} else {
					fnd = i
				}
				continue
			}
			// the pair comes from another search helper on the same receiver (get through search)
			if inner := c2.Common().StaticCallee(); inner != nil && inner != callee && isModuleSSA(inner) && !bp.inSearchSum[inner] && len(c2.Common().Args) > 0 && c2.Common().Args[0] == ssa.Value(callee.Params[0]) {
				if bp.inSearchSum == nil {
					bp.inSearchSum = map[*ssa.Function]bool{}
				}
				bp.inSearchSum[callee] = true
				ri2, bi2, f2, ok2 := bp.searchSummary(inner)
				delete(bp.inSearchSum, callee)
				if ok2 {
					via, viaField = c2, f2
					if ex.Index == ri2 {
						pos = i
					} else if ex.Index == bi2 {
						fnd = i
					}
				}
			}
		}
		if call == nil && via != nil && pos >= 0 {
			// summarised inner search: the field is the inner one's, the flag may again be a constant under its edge
			if fnd < 0 {
				for i, res := range ret.Results {
					k, isK := res.(*ssa.Const)
					if !isK {
						continue
					}
					bv, isB := constBool(k)
					if !isB {
						continue
					}
					if !bv {
						fnd = i
						continue
					}
					for _, cc := range controlling(ret.Block()) {
						if ex, isEx := cc.Cond.(*ssa.Extract); isEx && ex.Tuple == ssa.Value(via) && cc.Edge == 0 {
							fnd = i
						}
					}
				}
			}
			if fnd < 0 || (ri >= 0 && ri != pos) || (bi >= 0 && bi != fnd) || (field >= 0 && field != viaField) {
				good = false
				return
			}
			ri, bi, field = pos, fnd, viaField
			return
		}
		if pos < 0 || call == nil {
			good = false
			return
		}
		if fnd < 0 { // the flag may be a constant on this return: false, or true on the edge where the search found the key
			for i, res := range ret.Results {
				k, isK := res.(*ssa.Const)
				if !isK {
					continue
				}
				bv, isB := constBool(k)
				if !isB {
					continue
				}
				if !bv {
					fnd = i
					continue
				}
				for _, cc := range controlling(ret.Block()) {
					if ex, isEx := cc.Cond.(*ssa.Extract); isEx && ex.Tuple == ssa.Value(call) && ex.Index == 1 && cc.Edge == 0 {
						fnd = i
					}
				}
			}
		}
		ld, isLd := call.Common().Args[0].(*ssa.UnOp)
		if !isLd {
			good = false
			return
		}
		fa, isFA := ld.X.(*ssa.FieldAddr)
		if !isFA || fa.X != ssa.Value(callee.Params[0]) || fnd < 0 {
			good = false
			return
		}
		if (ri >= 0 && ri != pos) || (bi >= 0 && bi != fnd) || (field >= 0 && field != fa.Field) {
			good = false
			return
		}
		ri, bi, field = pos, fnd, fa.Field
	})
	// the callee must not change the field itself
	eachInstr(callee, func(in ssa.Instruction) {
		if st, isSt := in.(*ssa.Store); isSt {
			if fa, isFA := st.Addr.(*ssa.FieldAddr); isFA && fa.Field == field && fa.X == ssa.Value(callee.Params[0]) {
				good = false
			}
		}
	})
	return ri, bi, field, good && n > 0 && ri >= 0
}

func (bp *boundProver) searchPos(v ssa.Value) (searchInfo, bool) {
	ex, ok := stripConvert(v).(*ssa.Extract)
	if !ok {
		return searchInfo{}, false
	}
	call, ok := ex.Tuple.(*ssa.Call)
	if !ok {
		return searchInfo{}, false
	}
	if isBinarySearch(call) && ex.Index == 0 {
		return searchInfo{seq: call.Common().Args[0], tuple: call, bfound: 1}, true
	}
	callee := call.Common().StaticCallee()
	if callee == nil || !isModuleSSA(callee) || len(call.Common().Args) == 0 {
		return searchInfo{}, false
	}
	ri, bi, field, ok := bp.searchSummary(callee)
	if !ok || ex.Index != ri {
		return searchInfo{}, false
	}
	return searchInfo{base: call.Common().Args[0], field: field, tuple: call, bfound: bi}, true
}

// searchedSeq: the search of si was over the sequence x (same value, or the same field of the same struct, not
// stored to in between).
func (bp *boundProver) searchedSeq(si searchInfo, x ssa.Value) bool {
	if si.seq != nil {
		return bp.sameSeq(si.seq, x)
	}
	ld, ok := x.(*ssa.UnOp)
	if !ok {
		return false
	}
	fa, ok := ld.X.(*ssa.FieldAddr)
	if !ok || fa.Field != si.field || !(fa.X == si.base || sameValue(fa.X, si.base)) {
		return false
	}
	// no store to that field between the search and the use
	call := si.tuple.(*ssa.Call)
	clean := true
	eachInstr(ld.Parent(), func(in ssa.Instruction) {
		if st, isSt := in.(*ssa.Store); isSt {
			if sfa, isFA := st.Addr.(*ssa.FieldAddr); isFA && sfa.Field == si.field && namedStruct(sfa.X.Type()) != nil && namedStruct(fa.X.Type()) != nil && namedStruct(sfa.X.Type()).Obj() == namedStruct(fa.X.Type()).Obj() {
				if between(call, st, ld) {
					clean = false
				}
			}
		}
	})
	return clean
}

// foundAt: where block `at` executes the search of si is known to have found its key.
func (bp *boundProver) foundAt(si searchInfo, at *ssa.BasicBlock) bool {
	for _, cc := range controlling(at) {
		cond, edge := cc.Cond, cc.Edge
		if u, ok := cond.(*ssa.UnOp); ok && u.Op == token.NOT {
			cond, edge = u.X, 1-edge
		}
		if ex, ok := cond.(*ssa.Extract); ok && ex.Tuple == si.tuple && ex.Index == si.bfound && edge == 0 {
			return true
		}
	}
	return false
}

// foundOver: some search over the sequence x is known to have found its key where `at` executes (so x is not empty).
func (bp *boundProver) foundOver(x ssa.Value, at *ssa.BasicBlock) bool {
	for _, cc := range controlling(at) {
		cond, edge := cc.Cond, cc.Edge
		if u, ok := cond.(*ssa.UnOp); ok && u.Op == token.NOT {
			cond, edge = u.X, 1-edge
		}
		ex, ok := cond.(*ssa.Extract)
		if !ok || edge != 0 {
			continue
		}
		call, ok := ex.Tuple.(*ssa.Call)
		if !ok {
			continue
		}
		// the position result of the same call
		for _, ref := range *call.Referrers() {
			pe, ok := ref.(*ssa.Extract)
			if !ok {
				continue
			}
			if si, ok := bp.searchPos(pe); ok && si.bfound == ex.Index && bp.searchedSeq(si, x) {
				return true
			}
		}
	}
	return false
}
