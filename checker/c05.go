package main

import (
	"fmt"
	"go/token"
	"go/types"
	"strings"

	"golang.org/x/tools/go/ssa"
)

// registerSpec: taint specification "object may be a *object.Register".
func (c *Ctx) registerSpec() TaintSpec {
	regT := c.TypeNamed("object", "Register")
	ptrReg := types.NewPointer(regT)
	objT := c.TypeNamed("object", "Object")
	kvT := c.P("object").Types.Scope().Lookup("keyValuePair")
	san := map[*types.Func]bool{
		c.Fn("object", "Value"):             true,
		c.Fn("object", "CopyRegister"):      true,
		c.Fn("object", "Register.ObjValue"): true,
	}
	isObj := func(t types.Type) bool { return types.Identical(t, objT) }
	regTag := c.tagConst("REGISTER")
	return TaintSpec{
		Name: "register",
		Source: func(v ssa.Value) bool {
			mi, ok := v.(*ssa.MakeInterface)
			return ok && types.Identical(mi.X.Type(), ptrReg)
		},
		Sanitizer: func(f *types.Func) bool { return san[f] },
		CleanAt: func(v ssa.Value, use ssa.Instruction) bool {
			tags, known := c.tagsAt(v, use.Block())
			return known && !tags[regTag]
		},
		StorageStruct: func(n *types.Named) bool { return kvT != nil && n.Obj() == kvT },
		Carrier: func(t types.Type) bool {
			it, ok := t.Underlying().(*types.Interface)
			return ok && types.Implements(ptrReg, it)
		},
		RawSink: func(in ssa.Instruction) (ssa.Value, string) {
			isKV := func(t types.Type) bool {
				n, ok := t.(*types.Named)
				return ok && kvT != nil && n.Obj() == kvT
			}
			elemOf := func(a *ssa.IndexAddr) types.Type {
				switch u := a.X.Type().Underlying().(type) {
				case *types.Slice:
					return u.Elem()
				case *types.Pointer:
					if arr, ok := u.Elem().Underlying().(*types.Array); ok {
						return arr.Elem()
					}
				}
				return nil
			}
			switch x := in.(type) {
			case *ssa.Store:
				switch a := x.Addr.(type) {
				case *ssa.IndexAddr:
					elem := elemOf(a)
					if elem != nil && isObj(elem) {
						return x.Val, "element store into []Object"
					}
					if elem != nil && isKV(elem) {
						return x.Val, "key/value pair store into map storage"
					}
				case *ssa.FieldAddr:
					if ia, ok := a.X.(*ssa.IndexAddr); ok {
						if elem := elemOf(ia); elem != nil && isKV(elem) {
							st := elem.Underlying().(*types.Struct)
							return x.Val, "store into map storage pair ." + st.Field(a.Field).Name()
						}
					}
				}
			case *ssa.MapUpdate:
				if mt, ok := x.Map.Type().Underlying().(*types.Map); ok && isObj(mt.Elem()) {
					return x.Value, "map update (binding store)"
				}
			}
			return nil, ""
		},
	}
}

func runC05(c *Ctx, r *Report) {
	r.Rule("C05.R1", "register typestate: after a register is acquired (MakeRegister, or a wrapper returning with it held) on an environment that outlives the function, every path to a normal return passes ReleaseRegister (or a deferred release)")
	r.Rule("C05.R2", "capacity: every MakeRegister is reached only when HasRegisters() on the same environment is true (in the function or in every caller of the wrapper)")
	r.Rule("C05.R3", "registers do not escape: an object that may be a *Register passes object.Value/CopyRegister before it is stored into an array element, a map key/value or a binding")
	r.Rule("C05.R4", "rewriter/visitor agreement: type assertions inside ast.Modify on results of the callback use the two-value form (the register rewriter substitutes *Register for *Identifier)")
	r.Rule("C05.R6", "no use after release: a function that acquires and releases a register on a long-lived environment does not return an object that may still be that register (directly or inside a ReturnValue): the slot is reused by the next loop")
	r.Rule("C05.R7", "no stale alias: in a function that writes a register slot (through (*Register).Ptr()), no loop-carried value may be an unsanitised evaluation result (a *Register kept across iterations changes when the slot is rewritten)")
	r.Rule("C05.R8", "release only what was acquired: the Register passed to ReleaseRegister comes from MakeRegister, or from a wrapper that acquires on every return path, or from a wrapper whose only non-acquiring exit is its HasRegisters() fallback and whose call is guarded by HasRegisters() on the same environment")
	r.Rule("C05.R9", "nested functions stop the register rewrite: every return of ModifyRegister's *ast.FunctionLiteral arm returns cont = false (the rewriter is post-order, a nested body is already rewritten when the arm runs)")
	r.Rule("C05.R12", "a register is an integer wherever integers are recognised: in packages eval and extensions an ==/!= test of x.Type() against INTEGER on a value that may be a *Register is accompanied by a REGISTER test on the same value (or the value went through Value/CopyRegister)")
	r.Rule("C05.R11", "no failure is specific to the register representation: in package eval no error is created in an arm that is only entered for the REGISTER token or the REGISTER object tag")
	r.Rule("C05.R10", "identifier tests and the rewrite: the register rewriter replaces identifiers by *Register nodes (token REGISTER) anywhere in a body; every test of a node's token type against IDENT in package eval therefore either accepts REGISTER as well (same value, same condition or switch), or concerns a parent construct for which ModifyRegister aborts the rewrite when the child is the register (postfix/prefix ++ --, del(x), for x = ...), or is a named site where an integer-valued name is an error with or without registers")
	r.Rule("C05.R5", "fallback instead of failure: when setupRegister reports !ok the caller takes the variable path instead of returning an error")

	makeReg := c.Fn("object", "Environment.MakeRegister")
	release := c.Fn("object", "Environment.ReleaseRegister")
	hasRegs := c.Fn("object", "Environment.HasRegisters")
	setup := c.Fn("eval", "setupRegister")
	newFnEnv := c.Fn("object", "NewFunctionEnvironment")
	newEnclosed := c.Fn("object", "NewEnclosedEnvironment")

	// wrappers: functions that call MakeRegister on an environment parameter and return with it held
	acquirers := map[*types.Func]int{makeReg: 0} // fn -> index of the env argument (receiver = 0 for methods in Args)
	for _, fn := range c.ModuleSSAFuncs() {
		for _, call := range callsIn(fn, makeReg) {
			recv := call.Common().Args[0]
			if p, ok := recv.(*ssa.Parameter); ok {
				for i, q := range fn.Params {
					if q == p {
						if obj, ok := fn.Object().(*types.Func); ok && len(callsIn(fn, release)) == 0 {
							acquirers[obj] = i
						}
					}
				}
			}
		}
	}
	var acqList []*types.Func
	for f := range acquirers {
		acqList = append(acqList, f)
	}
	isFreshEnv := func(v ssa.Value) bool {
		if ex, ok := v.(*ssa.Extract); ok {
			if call, ok := ex.Tuple.(*ssa.Call); ok && isCallTo(call, newFnEnv, newEnclosed) {
				return true
			}
		}
		if call, ok := v.(*ssa.Call); ok && isCallTo(call, newFnEnv, newEnclosed) {
			return true
		}
		return false
	}
	isRelease := func(in ssa.Instruction) bool {
		if isCallTo(in, release) {
			return true
		}
		if d, ok := in.(*ssa.Defer); ok {
			if isCallTo(d, release) {
				return true
			}
			// deferred closure calling release
			if mc, ok := d.Call.Value.(*ssa.MakeClosure); ok {
				if f, ok := mc.Fn.(*ssa.Function); ok && len(callsIn(f, release)) > 0 {
					return true
				}
			}
		}
		return false
	}
	nAcq := 0
	for _, fn := range c.ModuleSSAFuncs() {
		obj, _ := fn.Object().(*types.Func)
		if obj != nil {
			if _, isWrapper := acquirers[obj]; isWrapper {
				continue // wrapper itself: returns with the register held by design
			}
		}
		for _, call := range callsIn(fn, acqList...) {
			nAcq++
			callee := calleeObj(call)
			envArg := call.Common().Args[acquirers[callee]]
			desc := fmt.Sprintf("register acquired by %s", callee.Name())
			if isFreshEnv(envArg) {
				r.OkWhy("C05.R1", ssaFuncName(fn), desc+" on a fresh call environment", c.Pos(call.Pos()), "released by dropping the environment")
				continue
			}
			bad := pathSearch(call.(ssa.Instruction), isRelease, isReturn)
			if bad != nil {
				r.Fail("C05.R1", ssaFuncName(fn), desc+" on a long-lived environment", c.Pos(call.Pos()),
					"a path from the acquire to a return does not release the register (exit at "+c.Pos(instrPos(bad.exit))+"): the session leaks a register and later loops panic or fail", c.tracePath(bad)...)
			} else {
				r.Ok("C05.R1", ssaFuncName(fn), desc+" on a long-lived environment", c.Pos(call.Pos()))
			}
		}
	}
	r.Floor("C05.R1", 2)

	// R2 capacity
	for _, fn := range c.ModuleSSAFuncs() {
		for _, call := range callsIn(fn, makeReg) {
			env := call.Common().Args[0]
			ok := dominatedByTrue(call.(ssa.Instruction), func(v ssa.Value) bool {
				cl, isCall := v.(*ssa.Call)
				return isCall && isCallTo(cl, hasRegs) && cl.Common().Args[0] == env
			})
			why := ""
			if !ok {
				// every caller guards?
				if p, isParam := env.(*ssa.Parameter); isParam {
					idx := -1
					for i, q := range fn.Params {
						if q == p {
							idx = i
						}
					}
					node := c.CG().g.Nodes[fn]
					n, good := 0, 0
					if node != nil && idx >= 0 {
						for _, e := range node.In {
							if e.Site == nil || e.Site.Common().StaticCallee() != fn {
								continue
							}
							n++
							arg := e.Site.Common().Args[idx]
							if dominatedByTrue(e.Site, func(v ssa.Value) bool {
								cl, isCall := v.(*ssa.Call)
								return isCall && isCallTo(cl, hasRegs) && sameValue(cl.Common().Args[0], arg)
							}) {
								good++
							}
						}
					}
					ok = n > 0 && good == n
					why = fmt.Sprintf("%d of %d callers test HasRegisters()", good, n)
				}
			}
			r.Check(ok, "C05.R2", ssaFuncName(fn), "MakeRegister guarded by HasRegisters", c.Pos(call.Pos()),
				"MakeRegister panics when all registers are in use and nothing on this path tests HasRegisters(): a 9th integer parameter or nested counted loop crashes instead of using a variable; "+why)
		}
	}
	r.Floor("C05.R2", 1)

	// R8 release only what was acquired
	{
		// wrapper summary: every path to a return acquires, or leaves through the "no register available" edge
		type wsum struct{ must, guarded bool }
		wrapperSum := func(w *ssa.Function, envIdx int) wsum {
			isMake := func(in ssa.Instruction) bool { return isCallTo(in, makeReg) }
			if mustPassFromEntry(w, isMake, isReturn) == nil {
				return wsum{must: true}
			}
			if envIdx >= len(w.Params) {
				return wsum{}
			}
			noReg := map[*ssa.BasicBlock]bool{}
			for _, b := range w.Blocks {
				ifi, ok := b.Instrs[len(b.Instrs)-1].(*ssa.If)
				if !ok {
					continue
				}
				cond, edge := ifi.Cond, 1
				if u, ok := cond.(*ssa.UnOp); ok && u.Op == token.NOT {
					cond, edge = u.X, 0
				}
				if cl, ok := cond.(*ssa.Call); ok && isCallTo(cl, hasRegs) && cl.Common().Args[0] == ssa.Value(w.Params[envIdx]) && len(b.Succs[edge].Preds) == 1 {
					noReg[b.Succs[edge]] = true
				}
			}
			sat := func(in ssa.Instruction) bool {
				return isMake(in) || (noReg[in.Block()] && in == in.Block().Instrs[0])
			}
			return wsum{guarded: mustPassFromEntry(w, sat, isReturn) == nil}
		}
		var origin func(v ssa.Value, use ssa.Instruction, seen map[ssa.Value]bool) string
		originCall := func(call *ssa.Call, use ssa.Instruction) string {
			callee := calleeObj(call)
			if callee == makeReg {
				return ""
			}
			idx, isW := acquirers[callee]
			if !isW {
				return "the register comes from " + nameOfCallee(call) + ", which is not an acquirer"
			}
			sum := wrapperSum(c.SSAFn(callee), idx)
			if sum.must {
				return ""
			}
			if !sum.guarded {
				return callee.Name() + " can return without having acquired a register (on a path other than its HasRegisters() fallback)"
			}
			arg := call.Common().Args[idx]
			if dominatedByTrue(call, func(v ssa.Value) bool {
				cl, isCall := v.(*ssa.Call)
				return isCall && isCallTo(cl, hasRegs) && sameValue(cl.Common().Args[0], arg)
			}) {
				return ""
			}
			return callee.Name() + " returns a zero Register when no register is available and this call is not guarded by HasRegisters() on the same environment: the release then hits the 'Releasing non last register' panic (or frees a register of an enclosing loop)"
		}
		origin = func(v ssa.Value, use ssa.Instruction, seen map[ssa.Value]bool) string {
			if seen[v] {
				return ""
			}
			seen[v] = true
			switch x := v.(type) {
			case *ssa.Call:
				return originCall(x, use)
			case *ssa.Extract:
				if call, ok := x.Tuple.(*ssa.Call); ok && x.Index == 0 {
					return originCall(call, use)
				}
			case *ssa.Phi:
				for _, e := range x.Edges {
					if why := origin(e, use, seen); why != "" {
						return why
					}
				}
				return ""
			case *ssa.Const:
				return "the zero Register may be released"
			case *ssa.UnOp:
				if al, ok := x.X.(*ssa.Alloc); ok && x.Op == token.MUL {
					dominated := false
					for _, ref := range *al.Referrers() {
						st, ok := ref.(*ssa.Store)
						if !ok || st.Addr != ssa.Value(al) {
							continue
						}
						if why := origin(st.Val, use, seen); why != "" {
							return why
						}
						if instrDominates(st, use) {
							dominated = true
						}
					}
					if !dominated {
						return "the register variable may still hold its zero value when released"
					}
					return ""
				}
			}
			return "unrecognised origin of the released register: " + v.String()
		}
		n := 0
		for _, fn := range c.ModuleSSAFuncs() {
			eachInstr(fn, func(in ssa.Instruction) {
				var arg ssa.Value
				use := in
				switch x := in.(type) {
				case *ssa.Call:
					if isCallTo(x, release) {
						arg = x.Common().Args[1]
					}
				case *ssa.Defer:
					if isCallTo(x, release) {
						arg = x.Call.Args[1]
					}
				}
				if arg == nil {
					return
				}
				// inside a deferred closure: map the captured variable to the parent's variable
				if ld, ok := arg.(*ssa.UnOp); ok && ld.Op == token.MUL {
					if fv, ok := ld.X.(*ssa.FreeVar); ok && fn.Parent() != nil {
						for _, pin := range allInstrs(fn.Parent()) {
							d, ok := pin.(*ssa.Defer)
							if !ok {
								continue
							}
							if mc, ok := d.Call.Value.(*ssa.MakeClosure); ok && mc.Fn == ssa.Value(fn) {
								for i, f := range fn.FreeVars {
									if f == fv {
										if al, ok := mc.Bindings[i].(*ssa.Alloc); ok {
											// the variable as it is when the defer is set up
											n++
											why := ""
											dominated := false
											for _, ref := range *al.Referrers() {
												if st, ok := ref.(*ssa.Store); ok && st.Addr == ssa.Value(al) {
													if w := origin(st.Val, d, map[ssa.Value]bool{}); w != "" {
														why = w
													}
													if instrDominates(st, d) {
														dominated = true
													}
												}
											}
											if why == "" && !dominated {
												why = "the register variable may still hold its zero value when the deferred release runs"
											}
											r.Check(why == "", "C05.R8", ssaFuncName(fn.Parent()), "deferred release (closure) of an acquired register", c.Pos(d.Pos()), why)
											return
										}
									}
								}
							}
						}
					}
				}
				n++
				why := origin(arg, use, map[ssa.Value]bool{})
				r.Check(why == "", "C05.R8", ssaFuncName(fn), "release of an acquired register", c.Pos(in.Pos()), why)
			})
		}
		if n == 0 {
			r.Undecided("C05.R8: no ReleaseRegister call found")
		}
		r.Floor("C05.R8", 1)
	}

	// R3 escape
	t := NewTaint(c, c.registerSpec())
	finds, checked := t.Findings()
	for _, f := range finds {
		if why, ok := registerEscapeExceptions[ssaFuncName(f.Fn)+" | "+f.Desc]; ok {
			r.OkWhy("C05.R3", ssaFuncName(f.Fn), f.Desc, c.Pos(instrPos(f.At)), "exception: "+why)
			continue
		}
		for _, s := range f.Sinks {
			r.Fail("C05.R3", ssaFuncName(f.Fn), f.Desc+" -> "+s, c.Pos(instrPos(f.At)),
				"an object that may be a *Register (a pointer to a mutable loop/parameter slot) is stored without object.Value/CopyRegister: the stored element changes when the register does")
		}
	}
	nTainted := 0
	for fn, rs := range t.retT {
		for _, b := range rs {
			if b {
				nTainted++
				_ = fn
				break
			}
		}
	}
	r.Note("C05.R3: %d storage sinks / storing call sites checked, %d functions may return a register", checked, nTainted)
	// every checked sink that is not a finding is an ok obligation (summarised per function to keep evidence small)
	perFn := map[string]int{}
	for _, fn := range t.funcs {
		eachInstr(fn, func(in ssa.Instruction) {
			if v, _ := t.spec.RawSink(in); v != nil {
				perFn[ssaFuncName(fn)]++
			}
		})
	}
	isFinding := map[string]bool{}
	for _, f := range finds {
		isFinding[ssaFuncName(f.Fn)] = true
	}
	for fn, n := range perFn {
		if !isFinding[fn] {
			r.Ok("C05.R3", fn, fmt.Sprintf("%d storage sinks receive no unsanitised register", n), "-")
		}
	}
	if nTainted < 10 {
		r.Undecided("C05.R3: only %d functions found that may return a register (expected the evaluator family)", nTainted)
	}
	// lists: a list that may still hold a live register does not become container storage (a register put into a
	// local list, the list then appended / handed to NewArray: [10] + i)
	{
		rl := c.NewRefListsFor(c.registerSpec())
		for _, sk := range rl.Sinks() {
			if pk := pkgOfSSA(sk.Fn); pk == nil || (shortPkg(pk) != "eval" && shortPkg(pk) != "object" && shortPkg(pk) != "extensions") {
				continue
			}
			r.Check(!sk.Raw, "C05.R3", ssaFuncName(sk.Fn), "register-free "+sk.Desc, c.Pos(instrPos(sk.At)),
				"the list may still hold a live *Register (an integer parameter or loop variable read without object.Value / CopyRegister) when it becomes container storage: the stored element follows the register, i.e. later iterations, later loops reusing the slot (for i = 3 { if i == 1 { K = [10] + i } } leaves K following i)")
		}
	}
	r.Floor("C05.R3", 15)

	// R6 use after release
	for _, fn := range c.ModuleSSAFuncs() {
		obj, _ := fn.Object().(*types.Func)
		if obj != nil {
			if _, isWrapper := acquirers[obj]; isWrapper {
				continue
			}
		}
		holds := false
		for _, call := range callsIn(fn, acqList...) {
			if !isFreshEnv(call.Common().Args[acquirers[calleeObj(call)]]) {
				holds = true
			}
		}
		if !holds {
			continue
		}
		eachInstr(fn, func(in ssa.Instruction) {
			ret, ok := in.(*ssa.Return)
			if !ok || ret.Block() == fn.Recover {
				return // the recover block only runs after a recovered panic (none is recovered here)
			}
			for i := range ret.Results {
				v := retVal(ret, i)
				if !t.spec.Carrier(v.Type()) {
					continue
				}
				desc := "returned value " + describeValue(v)
				bad := ""
				if t.May(v) && !t.spec.CleanAt(v, storeOrRet(ret, i)) {
					bad = "the returned object may be a register of the environment whose register this function releases"
				}
				// struct results carrying a tainted field (ReturnValue.Value)
				if mi, ok := v.(*ssa.MakeInterface); ok {
					if ld, ok := mi.X.(*ssa.UnOp); ok {
						if al, ok := ld.X.(*ssa.Alloc); ok {
							if n := namedStruct(al.Type()); n != nil {
								st := n.Underlying().(*types.Struct)
								for f := 0; f < st.NumFields(); f++ {
									if !t.fieldT[fieldKey{n, f}] {
										continue
									}
									clean := false
									for _, ref := range *al.Referrers() {
										fa, ok := ref.(*ssa.FieldAddr)
										if !ok || fa.Field != f {
											continue
										}
										for _, r2 := range *fa.Referrers() {
											if sto, ok := r2.(*ssa.Store); ok && sto.Addr == fa {
												if t.May(sto.Val) {
													clean = false
													bad = "field " + st.Field(f).Name() + " of the returned " + n.Obj().Name() + " is assigned an object that may be a register"
												} else if instrDominates(sto, ret) {
													clean = true
												}
											}
										}
									}
									if !clean && bad == "" {
										bad = "field " + st.Field(f).Name() + " of the returned " + n.Obj().Name() + " may hold the released register (no copy before returning)"
									}
								}
							}
						}
					}
				}
				if bad != "" {
					r.Fail("C05.R6", ssaFuncName(fn), desc, c.Pos(instrPos(ret)), bad)
				} else {
					r.Ok("C05.R6", ssaFuncName(fn), desc, c.Pos(instrPos(ret)))
				}
			}
		})
	}
	r.Floor("C05.R6", 4)

	// R7 loop-carried registers in slot-writing functions
	ptrFn := c.Fn("object", "Register.Ptr")
	for _, fn := range c.ModuleSSAFuncs() {
		writes := false
		eachInstr(fn, func(in ssa.Instruction) {
			st, ok := in.(*ssa.Store)
			if !ok {
				return
			}
			var fromPtr func(v ssa.Value, d int) bool
			fromPtr = func(v ssa.Value, d int) bool {
				if d > 4 {
					return false
				}
				switch x := v.(type) {
				case *ssa.Call:
					return isCallTo(x, ptrFn)
				case *ssa.Phi:
					for _, e := range x.Edges {
						if fromPtr(e, d+1) {
							return true
						}
					}
				}
				return false
			}
			if fromPtr(st.Addr, 0) {
				writes = true
			}
		})
		if !writes {
			continue
		}
		n := 0
		for _, b := range fn.Blocks {
			isHeader := false
			for _, p := range b.Preds {
				if b.Dominates(p) {
					isHeader = true
				}
			}
			if !isHeader {
				continue
			}
			for _, in := range b.Instrs {
				phi, ok := in.(*ssa.Phi)
				if !ok {
					break
				}
				if !t.spec.Carrier(phi.Type()) {
					continue
				}
				n++
				bad := false
				for i, e := range phi.Edges {
					if b.Dominates(b.Preds[i]) && t.May(e) { // back edge value
						bad = true
					}
				}
				r.Check(!bad, "C05.R7", ssaFuncName(fn), "loop-carried value "+phi.Comment, c.Pos(fn.Pos()),
					"a value kept across iterations may be the register itself; it silently changes when the loop rewrites the register slot (continue/break then yield a later value)")
			}
		}
		if n == 0 {
			r.OkWhy("C05.R7", ssaFuncName(fn), "no loop-carried object values", c.Pos(fn.Pos()), "writes a register slot outside any loop")
		}
	}
	r.Floor("C05.R7", 2)

	c.checkModifyAssertions(r, "C05.R4")
	r.Floor("C05.R4", 4)

	// R5 fallback
	for _, fn := range c.ModuleSSAFuncs() {
		for _, call := range callsIn(fn, setup) {
			cl := call.(*ssa.Call)
			okv := extractOf(cl, 2)
			if okv == nil {
				r.Fail("C05.R5", ssaFuncName(fn), "setupRegister ok result", c.Pos(cl.Pos()), "the ok result of setupRegister is ignored")
				continue
			}
			// find If on okv; on the false edge no return of an Error object
			viol := false
			for _, ref := range *okv.Referrers() {
				ifi, isIf := ref.(*ssa.If)
				if !isIf {
					continue
				}
				fb := ifi.Block().Succs[1]
				if len(fb.Preds) == 1 {
					if ret, isRet := fb.Instrs[len(fb.Instrs)-1].(*ssa.Return); isRet {
						for i := range ret.Results {
							if mayBeErrorValue(retVal(ret, i)) {
								viol = true
							}
						}
					}
				}
			}
			r.Check(!viol, "C05.R5", ssaFuncName(fn), "!ok from setupRegister falls back to a variable", c.Pos(cl.Pos()),
				"when the body cannot use a register (e.g. it modifies the loop variable) an error is returned, while the run without registers succeeds")
		}
	}
	r.Floor("C05.R5", 2)

	// R9: the register rewriter gives up on any nested function
	{
		mr := c.SSAFn(c.Fn("eval", "ModifyRegister"))
		flT := types.NewPointer(c.TypeNamed("ast", "FunctionLiteral"))
		var arm *ssa.BasicBlock
		eachInstr(mr, func(in ssa.Instruction) {
			ta, ok := in.(*ssa.TypeAssert)
			if !ok || !ta.CommaOk || !types.Identical(ta.AssertedType, flT) {
				return
			}
			if ifi, ok := ta.Block().Instrs[len(ta.Block().Instrs)-1].(*ssa.If); ok {
				_ = ifi
				arm = ta.Block().Succs[0]
			}
		})
		if arm == nil {
			r.Fail("C05.R9", ssaFuncName(mr), "the register rewriter has an arm for nested function literals", c.Pos(mr.Pos()), "ModifyRegister has no *ast.FunctionLiteral arm any more: a nested function captures the variable by name, and its body (already rewritten, ast.Modify is post-order) would read the enclosing register slot")
		} else {
			n9, bad := 0, ""
			for _, b := range mr.Blocks {
				if !(b == arm || arm.Dominates(b)) {
					continue
				}
				ret, ok := b.Instrs[len(b.Instrs)-1].(*ssa.Return)
				if !ok || len(ret.Results) != 2 {
					continue
				}
				n9++
				if k, ok := retVal(ret, 1).(*ssa.Const); !ok || k.Value == nil || k.Value.ExactString() != "false" {
					bad = c.Pos(instrPos(ret))
				}
			}
			r.Check(n9 > 0 && bad == "", "C05.R9", ssaFuncName(mr), "every return of the nested-function arm aborts the rewrite (cont = false)", c.Pos(arm.Instrs[0].Pos()),
				"a path through the *ast.FunctionLiteral arm lets the register rewrite go on ("+bad+"): ast.Modify visits children first, so the nested function's body has already been rewritten to the enclosing register; when that function is called later it reads the loop/parameter slot instead of its own variable (even when one of its parameters has the same name)")
		}
		r.Floor("C05.R9", 1)
	}

	// R10: wherever the evaluator insists on an identifier token, the register rewrite is accounted for
	c.checkIdentTests(r)
	c.checkNoRegisterOnlyErrors(r, "C05.R11")
	c.checkRegisterIsInteger(r, "C05.R12")

	// shared C13.R1: setupRegister rewrites a *copy* of the body; ast.Modify must not write into its input
	// (only when C05 itself is being decided: other properties that share C05 rules do not need it)
	if r.Prop == "C05" && !r.Sub {
		r.Rule("C13.R1", "(shared) ast.Modify is a copying rewriter: rewriting a body for one register allocation leaves the original body untouched for the next one")
		sub := NewReport("C13", r.Tier, c)
		sub.Sub = true
		runC13(c, sub)
		n := 0
		for _, o := range sub.Obls {
			if o.Rule != "C13.R1" {
				continue
			}
			n++
			if o.status == FAIL {
				r.Fail(o.Rule, o.Func, o.Desc, o.Pos, o.Reason)
			} else {
				r.Ok(o.Rule, o.Func, o.Desc, o.Pos)
			}
		}
		if n < 15 {
			r.Undecided("C05: only %d shared C13.R1 obligations", n)
		}
	}
}

// storeOrRet: the instruction at which the returned value is fixed (the spill store in
// functions with defers, else the return itself).
func storeOrRet(ret *ssa.Return, i int) ssa.Instruction {
	v := ret.Results[i]
	if ld, ok := v.(*ssa.UnOp); ok {
		if al, ok := ld.X.(*ssa.Alloc); ok {
			b := ret.Block()
			for j := instrIndex(ld) - 1; j >= 0; j-- {
				if st, ok := b.Instrs[j].(*ssa.Store); ok && st.Addr == al {
					return st
				}
			}
		}
	}
	return ret
}

// describeValue: a position-free description of a value for construct descriptors.
func describeValue(v ssa.Value) string {
	switch x := v.(type) {
	case *ssa.MakeInterface:
		return "make " + typeShort(x.X.Type())
	case *ssa.Phi:
		return "phi " + x.Comment
	case *ssa.Call:
		return "result of " + nameOfCallee(x)
	case *ssa.Extract:
		if call, ok := x.Tuple.(*ssa.Call); ok {
			return fmt.Sprintf("result %d of %s", x.Index, nameOfCallee(call))
		}
	case *ssa.Parameter:
		return "parameter " + x.Name()
	case *ssa.Const:
		return "constant"
	}
	return typeShort(v.Type())
}

// registerEscapeExceptions: frontier sites accepted with a reason (one named symbol each).
var registerEscapeExceptions = map[string]string{
	"eval.AddEvalResult | arg 1 of object.AddIdentifier": "init-time only: evaluates the fixed function literals of extensions.initInternal at top level, where no register exists",
}

// mayBeErrorValue: value is (a MakeInterface of) object.Error.
func mayBeErrorValue(v ssa.Value) bool {
	if mi, ok := v.(*ssa.MakeInterface); ok {
		if n, ok := mi.X.Type().(*types.Named); ok && n.Obj().Name() == "Error" && isModulePkg(n.Obj().Pkg()) {
			return true
		}
	}
	return false
}

func sameValue(a, b ssa.Value) bool {
	if a == b {
		return true
	}
	if fa, ok := a.(*ssa.FieldAddr); ok {
		if fb, ok := b.(*ssa.FieldAddr); ok && fa.Field == fb.Field && sameValue(fa.X, fb.X) {
			return true
		}
	}
	// loads of the same field of the same base
	la, ok1 := a.(*ssa.UnOp)
	lb, ok2 := b.(*ssa.UnOp)
	if ok1 && ok2 && la.Op == token.MUL && lb.Op == token.MUL {
		fa, ok1 := la.X.(*ssa.FieldAddr)
		fb, ok2 := lb.X.(*ssa.FieldAddr)
		if ok1 && ok2 && fa.Field == fb.Field && sameValue(fa.X, fb.X) {
			return true
		}
		// loads of a variable that is written once (a parameter spilled because a closure captures it)
		if aa, ok := la.X.(*ssa.Alloc); ok && la.X == lb.X {
			stores := 0
			for _, ref := range *aa.Referrers() {
				switch x := ref.(type) {
				case *ssa.Store:
					if x.Addr == ssa.Value(aa) {
						stores++
					}
				case *ssa.UnOp, *ssa.DebugRef:
				case *ssa.MakeClosure:
					// captured: the closure must not write it
					if f, ok := x.Fn.(*ssa.Function); ok {
						for i, b := range x.Bindings {
							if b != ssa.Value(aa) {
								continue
							}
							for _, fr := range *f.FreeVars[i].Referrers() {
								if st, ok := fr.(*ssa.Store); ok && st.Addr == ssa.Value(f.FreeVars[i]) {
									stores += 2
								}
							}
						}
					}
				default:
					stores += 2 // address escapes some other way
				}
			}
			return stores == 1
		}
	}
	return false
}

// dominatedByTrue: the instruction is only reachable through the true edge of an If whose
// condition satisfies pred (or the false edge of its negation).
func dominatedByTrue(in ssa.Instruction, pred func(ssa.Value) bool) bool {
	fn := in.Parent()
	for _, b := range fn.Blocks {
		ifi, ok := b.Instrs[len(b.Instrs)-1].(*ssa.If)
		if !ok {
			continue
		}
		cond := ifi.Cond
		edge := 0
		if u, ok := cond.(*ssa.UnOp); ok && u.Op == token.NOT {
			cond = u.X
			edge = 1
		}
		if pred(cond) && onEdge(b, edge, in.Block()) {
			return true
		}
	}
	return false
}

// checkModifyAssertions: in ast.Modify, one-value type assertions applied to results of
// recursive Modify calls (i.e. callback results) can fail when a rewriter substitutes a node
// of another concrete type. The set of substituting rewriters is derived from the callbacks
// passed to Modify in the module.
func (c *Ctx) checkModifyAssertions(r *Report, rule string) {
	modify := c.Fn("ast", "Modify")
	subst := c.rewriterSubstitutions()
	// Modify itself and the helpers of package ast that call it (a case body moved into its own function)
	var fns []*ssa.Function
	for _, f := range c.ModuleSSAFuncs() {
		if f.Pkg != nil && shortPkg(f.Pkg.Pkg) == "ast" && (f == c.SSAFn(modify) || len(callsIn(f, modify)) > 0) {
			fns = append(fns, f)
		}
	}
	for _, fn := range fns {
		c.checkModifyAssertionsIn(r, rule, fn, modify, subst)
	}
}

func (c *Ctx) checkModifyAssertionsIn(r *Report, rule string, fn *ssa.Function, modify *types.Func, subst map[string][]string) {
	eachInstr(fn, func(in ssa.Instruction) {
		ta, ok := in.(*ssa.TypeAssert)
		if !ok {
			return
		}
		// operand derives from a recursive Modify call result
		ex, ok := ta.X.(*ssa.Extract)
		if !ok {
			return
		}
		call, ok := ex.Tuple.(*ssa.Call)
		if !ok || !isCallTo(call, modify) {
			return
		}
		want := typeShort(ta.AssertedType)
		desc := "assertion of a Modify result to " + want
		// the argument's static element type: which input node type is being rewritten?
		argT := modifyArgType(call)
		if arm := switchArmOf(fn, ta.Block()); arm != "" {
			desc += " in arm " + arm
		}
		if ta.CommaOk {
			r.Ok(rule, ssaFuncName(fn), desc+" ("+argT+", two-value form)", c.Pos(ta.Pos()))
			return
		}
		// refuted if some callback maps a type that can occur at this position to another type
		var refs []string
		for from, tos := range subst {
			if argT == "ast.Node" && "*ast."+strings.TrimPrefix(want, "*ast.") == want && from == want {
				for _, to := range tos {
					refs = append(refs, from+" -> "+to)
				}
			}
			if argT == from {
				for _, to := range tos {
					refs = append(refs, from+" -> "+to)
				}
			}
		}
		if len(refs) > 0 {
			r.Fail(rule, ssaFuncName(fn), desc+" ("+argT+", one-value form)", c.Pos(ta.Pos()),
				"a rewriter callback substitutes "+strings.Join(refs, ", ")+"; the unchecked assertion panics on that result")
		} else {
			r.OkWhy(rule, ssaFuncName(fn), desc+" ("+argT+", one-value form)", c.Pos(ta.Pos()), "no callback in the module maps "+argT+" to another concrete type")
		}
	})
}

// switchArmOf: the type-switch arm (comma-ok assertion on the first parameter) dominating block b.
func switchArmOf(fn *ssa.Function, b *ssa.BasicBlock) string {
	best := ""
	for _, ib := range fn.Blocks {
		ifi, ok := ib.Instrs[len(ib.Instrs)-1].(*ssa.If)
		if !ok {
			continue
		}
		ex, ok := ifi.Cond.(*ssa.Extract)
		if !ok || ex.Index != 1 {
			continue
		}
		ta, ok := ex.Tuple.(*ssa.TypeAssert)
		if !ok || len(fn.Params) == 0 || ta.X != fn.Params[0] {
			continue
		}
		if onEdge(ib, 0, b) {
			best = typeShort(ta.AssertedType)
		}
	}
	return best
}

// modifyArgType: static type of the node handed to the recursive Modify call.
func modifyArgType(call *ssa.Call) string {
	a := call.Common().Args[0]
	if mi, ok := a.(*ssa.MakeInterface); ok {
		return typeShort(mi.X.Type())
	}
	return typeShort(a.Type())
}

// rewriterSubstitutions: for every function passed as callback to Modify/ModifyNoOk, the
// type-switch arms in which it returns a value of a concrete type different from the arm's type.
func (c *Ctx) rewriterSubstitutions() map[string][]string {
	res := map[string][]string{}
	modify := c.Fn("ast", "Modify")
	modifyNoOk := c.Fn("ast", "ModifyNoOk")
	var cbs []*ssa.Function
	seen := map[*ssa.Function]bool{}
	var addCb func(v ssa.Value)
	addCb = func(v ssa.Value) {
		f, _ := resolveFunc(v)
		if f == nil || seen[f] {
			return
		}
		seen[f] = true
		cbs = append(cbs, f)
		// functions statically called by the callback with the node (e.g. ModifyRegister)
		eachInstr(f, func(in ssa.Instruction) {
			if call, ok := in.(*ssa.Call); ok {
				if sc := call.Common().StaticCallee(); sc != nil && isModuleSSA(sc) && !seen[sc] && sc.Signature.Results().Len() >= 1 {
					if types.Identical(sc.Signature.Results().At(0).Type(), c.TypeNamed("ast", "Node")) {
						seen[sc] = true
						cbs = append(cbs, sc)
					}
				}
			}
		})
	}
	for _, fn := range c.ModuleSSAFuncs() {
		for _, call := range callsIn(fn, modify, modifyNoOk) {
			if len(call.Common().Args) >= 2 {
				addCb(call.Common().Args[1])
			}
		}
	}
	for _, cb := range cbs {
		eachInstr(cb, func(in ssa.Instruction) {
			ret, ok := in.(*ssa.Return)
			if !ok || len(ret.Results) == 0 {
				return
			}
			mi, ok := ret.Results[0].(*ssa.MakeInterface)
			if !ok {
				return
			}
			to := typeShort(mi.X.Type())
			// which type-switch arm dominates this return? find TypeAssert (commaok) on the param whose ok edge dominates
			for _, b := range cb.Blocks {
				ifi, ok := b.Instrs[len(b.Instrs)-1].(*ssa.If)
				if !ok {
					continue
				}
				ex, ok := ifi.Cond.(*ssa.Extract)
				if !ok || ex.Index != 1 {
					continue
				}
				ta, ok := ex.Tuple.(*ssa.TypeAssert)
				if !ok {
					continue
				}
				if !onEdge(b, 0, in.Block()) {
					continue
				}
				from := typeShort(ta.AssertedType)
				if from != to {
					dup := false
					for _, x := range res[from] {
						if x == to {
							dup = true
						}
					}
					if !dup {
						res[from] = append(res[from], to)
					}
				}
			}
		})
	}
	return res
}

func init() {
	register("C05", &propDef{
		explain: "Discipline rules behind the register optimisation, decided on SSA for all paths: acquire/release typestate of registers on long-lived environments (phi-sensitive path search), the capacity test before MakeRegister, an interprocedural may-be-*Register taint analysis from the evaluator's results to every storage sink (array elements, map pairs, bindings) with object.Value/CopyRegister as sanitisers, two-value assertions on rewriter results inside ast.Modify, and the variable fallback when a register cannot be used. These are necessary conditions for output equality with registers on/off; equality of outputs itself is a value property and is not decided. Also: ReleaseRegister only receives a register that was acquired (wrapper summaries + HasRegisters guards on the same environment, deferred closures included). Shares C13.R1 (ast.Modify never writes into its input, including through a child list a struct copy still shares).",
		assume:  []string{"containers and bindings hold no *Register initially (the invariant the taint rule maintains)", "calls through function values are not followed for taint (extension callbacks receive arguments already copied by evalExpressions)"},
		run:     runC05,
	})
}

// identTestSites: IDENT-only token tests that need no REGISTER counterpart, with the reason.
var identTestSites = map[string]string{
	"eval.(*State).evalIndexAssigment": "a[i] = v on a name that holds an integer (the only names that get registers) is an error in both configurations",
	"eval.(*State).deleteMapEntry":     "del(m[k]) on a name that holds an integer is an error in both configurations",
}

// identTestAborts: IDENT-only tests covered by an abort arm of ModifyRegister for the parent node type.
var identTestAborts = map[string]string{
	"eval.(*State).evalPrefixIncrDecr":    "PrefixExpression",
	"eval.(*State).evalPostfixExpression": "PostfixExpression",
	"eval.(*State).evalDelete":            "Builtin",
	"eval.(*State).evalForSpecialForms":   "ForExpression",
}

func (c *Ctx) checkIdentTests(r *Report) {
	identK, ok1 := constInt64(c.Const("token", "IDENT"))
	regK, ok2 := constInt64(c.Const("token", "REGISTER"))
	if !ok1 || !ok2 {
		r.Undecided("C05.R10: token.IDENT / token.REGISTER not found")
		return
	}
	// abort arms of ModifyRegister: node types with a path returning cont=false
	mr := c.SSAFn(c.Fn("eval", "ModifyRegister"))
	aborts := map[string]bool{}
	eachInstr(mr, func(in ssa.Instruction) {
		ta, ok := in.(*ssa.TypeAssert)
		if !ok || !ta.CommaOk {
			return
		}
		p, ok := ta.AssertedType.(*types.Pointer)
		if !ok {
			return
		}
		n, ok := p.Elem().(*types.Named)
		if !ok {
			return
		}
		arm := ta.Block().Succs[0]
		for _, b := range mr.Blocks {
			if !(b == arm || arm.Dominates(b)) {
				continue
			}
			if ret, ok := b.Instrs[len(b.Instrs)-1].(*ssa.Return); ok && len(ret.Results) == 2 {
				if k, ok := retVal(ret, 1).(*ssa.Const); ok && k.Value != nil && k.Value.ExactString() == "false" {
					aborts[n.Obj().Name()] = true
				}
			}
		}
	})
	n := 0
	for _, fn := range c.ModuleSSAFuncs() {
		top := fn
		for top.Parent() != nil {
			top = top.Parent()
		}
		if top.Pkg == nil || shortPkg(top.Pkg.Pkg) != "eval" {
			continue
		}
		fname := ssaFuncName(fn)
		// token-type values compared with IDENT in this function, and those compared with REGISTER
		identCmp := map[ssa.Value]ssa.Instruction{}
		regCmp := map[ssa.Value]bool{}
		eachInstr(fn, func(in ssa.Instruction) {
			bin, ok := in.(*ssa.BinOp)
			if !ok || (bin.Op != token.EQL && bin.Op != token.NEQ) {
				return
			}
			k, ok := constInt(bin.Y)
			if !ok {
				return
			}
			call, ok := bin.X.(*ssa.Call)
			if !ok {
				return
			}
			obj := calleeObj(call)
			if obj == nil || obj.Name() != "Type" || obj.Pkg() == nil || shortPkg(obj.Pkg()) != "token" {
				return
			}
			switch k {
			case identK:
				identCmp[call] = in
			case regK:
				regCmp[call] = true
			}
		})
		cnt := 0
		for tv, at := range identCmp {
			n++
			cnt++
			desc := "token test against IDENT"
			if cnt > 1 {
				desc = fmt.Sprintf("token test against IDENT #%d", cnt)
			}
			// same token value also compared with REGISTER, or another Type() call on the same token
			okReg := regCmp[tv]
			if !okReg {
				tcall := tv.(*ssa.Call)
				for other := range regCmp {
					oc := other.(*ssa.Call)
					if len(oc.Common().Args) > 0 && len(tcall.Common().Args) > 0 && (oc.Common().Args[0] == tcall.Common().Args[0] || sameExpr(oc.Common().Args[0], tcall.Common().Args[0])) {
						okReg = true
					}
				}
			}
			switch {
			case okReg:
				r.OkWhy("C05.R10", fname, desc, c.Pos(at.Pos()), "REGISTER is accepted alongside")
			case identTestAborts[fname] != "":
				parent := identTestAborts[fname]
				r.Check(aborts[parent], "C05.R10", fname, desc, c.Pos(at.Pos()),
					"this test rejects a name that was rewritten to its register, and ModifyRegister has no abort arm for *ast."+parent+" any more: the construct works without registers and fails (not an identifier: REGISTER) with them")
			case identTestSites[fname] != "":
				r.OkWhy("C05.R10", fname, desc, c.Pos(at.Pos()), "reviewed: "+identTestSites[fname])
			default:
				r.Fail("C05.R10", fname, desc, c.Pos(at.Pos()), "the evaluator accepts only token.IDENT here; inside a function or counted loop the same name may have been rewritten to a *Register node (token REGISTER): the construct then fails with registers and works without (p.x with a parameter named x, del(x), for x = ..., ++x). Accept REGISTER as well, or make ModifyRegister abort for the parent construct")
			}
		}
	}
	if n < 6 {
		r.Undecided("C05.R10: only %d IDENT token tests found in package eval", n)
	}
	r.Floor("C05.R10", 6)
	// R13: quote() keeps its argument as code: a register node inside it would be printed / unquoted instead of the name
	r.Rule("C05.R15", "no register for a name CreateOrSet refuses: setupRegister / MakeRegister are called on the false edge of object.IsExtraFunction(name) (the Constant(name) half is C19.R4)")
	c.checkNoRegisterForRefusedNames(r, "C05.R15")
	r.Rule("C05.R16", "every test that accepts a field name (one token type tested against both STRING and IDENT, as a chain of != / == or a case list) accepts REGISTER too: the register pass rewrites field names that coincide with a register-held variable")
	c.checkFieldNameTests(r, "C05.R16")
	r.Floor("C05.R16", 2)
	r.Rule("C05.R14", "a register is the only home of its name: in the REGISTER arm of evalAssignment no binding call (CreateOrSet / Set / SetNoChecks) is made")
	c.checkRegisterArmBindsNothing(r, "C05.R14")
	r.Rule("C05.R13", "a name that the body quotes keeps its variable: ModifyRegister aborts the rewrite (returns cont=false) on an edge where the builtin's token was tested against QUOTE")
	{
		mr := c.SSAFn(c.Fn("eval", "ModifyRegister"))
		quoteK, _ := constInt64(c.Const("token", "QUOTE"))
		aborts := false
		pos := c.Pos(mr.Pos())
		for _, b := range mr.Blocks {
			ifi, ok := b.Instrs[len(b.Instrs)-1].(*ssa.If)
			if !ok {
				continue
			}
			for _, cc := range expandCond(ifi, ifi.Cond, 0, 0) {
				bin, ok := cc.Cond.(*ssa.BinOp)
				if !ok || bin.Op != token.EQL || cc.Edge != 0 {
					continue
				}
				k, ok := constInt(bin.Y)
				if !ok || k != quoteK {
					continue
				}
				arm := b.Succs[0]
				for _, ab := range mr.Blocks {
					if !(ab == arm || (len(arm.Preds) == 1 && arm.Dominates(ab))) {
						continue
					}
					if ret, ok := ab.Instrs[len(ab.Instrs)-1].(*ssa.Return); ok && len(ret.Results) == 2 {
						if kk, ok := retVal(ret, 1).(*ssa.Const); ok && kk.Value != nil && kk.Value.ExactString() == "false" {
							aborts = true
							pos = c.Pos(ret.Pos())
						}
					}
				}
			}
		}
		r.Check(aborts, "C05.R13", ssaFuncName(mr), "the rewrite is given up for a name inside quote()", pos,
			"ModifyRegister never aborts on a quote builtin: inside quote() the parameter's identifier is replaced by its *Register node, so func f(n){quote(n+1)}; f(3) gives quote(R[0,n]+1) with registers and quote(n+1) without, and quote(unquote(n)) is an error with registers only")
	}
}
