package main

import (
	"fmt"
	"go/token"
	"go/types"
	"strings"

	"golang.org/x/tools/go/ssa"
)

// reportInhab reports inhabitant contradictions whose base type satisfies keep under the given rule.
func (c *Ctx) reportInhab(r *Report, rule string, keep func(base string) bool) int {
	ih := c.Inhabitants()
	n := 0
	bad := map[string]bool{}
	for _, k := range ih.Contradictions() {
		if !keep(k.Base) {
			continue
		}
		n++
		bad[k.Base] = true
		r.Fail(rule, ssaFuncName(k.Site.Fn), "boxes "+formName(k.Base, k.Site.Form), c.Pos(instrPos(k.Site.At)), k.Why)
	}
	for base, forms := range ih.Produced {
		if !keep(base) || bad[base] {
			continue
		}
		total := 0
		for _, s := range forms {
			total += len(s)
		}
		r.Ok(rule, base, fmt.Sprintf("%d producers box the form all consumers match", total), "-")
		n++
	}
	return n
}

// resolveStringObject: the constant string inside an object.String value (literal or package variable).
func (c *Ctx) resolveStringObject(v ssa.Value) (string, bool) {
	if mi, ok := v.(*ssa.MakeInterface); ok {
		v = mi.X
	}
	ld, ok := v.(*ssa.UnOp)
	if !ok {
		return "", false
	}
	fromStores := func(refs *[]ssa.Instruction, base ssa.Value) (string, bool) {
		res, found := "", false
		for _, ref := range *refs {
			fa, ok := ref.(*ssa.FieldAddr)
			if !ok || fa.Field != 0 {
				continue
			}
			for _, r2 := range *fa.Referrers() {
				if st, ok := r2.(*ssa.Store); ok && st.Addr == ssa.Value(fa) {
					if s, ok := constString(st.Val); ok {
						if found && s != res {
							return "", false
						}
						res, found = s, true
					} else {
						return "", false
					}
				}
			}
		}
		return res, found
	}
	switch a := ld.X.(type) {
	case *ssa.Alloc:
		return fromStores(a.Referrers(), a)
	case *ssa.Global:
		// initial value set in the package initialiser
		if a.Pkg == nil {
			return "", false
		}
		initFn := a.Pkg.Func("init")
		if initFn == nil {
			return "", false
		}
		res, found := "", false
		// stores to fields of the global anywhere in the module must agree
		for _, fn := range append([]*ssa.Function{initFn}, c.ModuleSSAFuncs()...) {
			eachInstr(fn, func(in ssa.Instruction) {
				st, ok := in.(*ssa.Store)
				if !ok {
					return
				}
				if fa, ok := st.Addr.(*ssa.FieldAddr); ok && fa.X == ssa.Value(a) && fa.Field == 0 {
					if s, ok := constString(st.Val); ok && (!found || s == res) {
						res, found = s, true
					} else {
						res, found = "", false
					}
				}
				if st.Addr == ssa.Value(a) {
					found = false
				}
			})
		}
		return res, found
	}
	return "", false
}

func runC11(c *Ctx, r *Report) {
	r.Rule("C11.R1", "canonical representation: every value boxed as a map or array is in the form (SmallMap / *BigMap / SmallArray / BigArray) that the module's type switches match")
	r.Rule("C11.R2", "one key order for both representations: Cmp returns only -1, 0, 1 (shared with C12.R2), which SmallMap.get's `case 1` / `case 0` and the binary search rely on; SmallMap.get compares (stored, searched) with Cmp on every iteration and on no other criterion; CompareKeys is Cmp on the two keys on every path (shared with C12.R1)")
	r.Rule("C11.R3", "sortedness by construction: MakeQuad call sites pass constant keys in strictly increasing order; a freshly allocated pair storage receives bulk copies from at most one existing (sorted) map, everything else goes through the search-based Set; in-place updates and insertions use the index returned by the search")
	r.Rule("C11.R4", "small/large sibling agreement of type switches over map representations (shared with C06.R2)")

	c.reportInhab(r, "C11.R1", func(b string) bool {
		return b == "object.SmallMap" || b == "object.BigMap" || b == "object.SmallArray" || b == "object.BigArray"
	})
	r.Floor("C11.R1", 4)

	// R2: reuse the return-range part of C12
	{
		sub := NewReport("C12", r.Tier, c)
		sub.Sub = true
		runC12(c, sub)
		n := 0
		for _, o := range sub.Obls {
			if o.Rule == "C12.R1" && strings.HasPrefix(o.Desc, "CompareKeys") {
				if o.status == FAIL {
					r.Fail("C11.R2", o.Func, o.Desc, o.Pos, o.Reason)
				} else {
					r.Ok("C11.R2", o.Func, o.Desc, o.Pos)
				}
			}
			if o.Rule == "C12.R2" && strings.HasPrefix(o.Desc, "return value is in") {
				n++
				if o.status == FAIL {
					r.Fail("C11.R2", o.Func, o.Desc, o.Pos, o.Reason)
				} else {
					r.Ok("C11.R2", o.Func, o.Desc, o.Pos)
				}
			}
		}
		// SmallMap.get: the switch on the comparison matches exactly 1 (stop: insertion point) and 0 (found)
		get := c.SSAFn(c.Fn("object", "SmallMap.get"))
		cmpFn := c.Fn("object", "Cmp")
		for _, ci := range callsIn(get, cmpFn) {
			call := ci.(*ssa.Call)
			// operands: stored key first, searched key second
			a := call.Common().Args
			okOrder := a[1] == ssa.Value(get.Params[1])
			if vc, isCall := a[1].(*ssa.Call); isCall && isCallTo(vc, c.Fn("object", "Value")) && vc.Common().Args[0] == ssa.Value(get.Params[1]) {
				okOrder = true // the searched key dereferenced once up front
			}
			r.Check(okOrder, "C11.R2", ssaFuncName(get), "linear search compares (stored key, searched key)", c.Pos(call.Pos()), "the search compares in the other direction: the insertion point test `== 1` then means the opposite")
			consts := map[int64]bool{}
			for _, ref := range *call.Referrers() {
				if bin, ok := ref.(*ssa.BinOp); ok && bin.Op == token.EQL {
					if k, ok := constInt(bin.Y); ok {
						consts[k] = true
					}
				}
			}
			r.Check(consts[1] && consts[0], "C11.R2", ssaFuncName(get), "linear search stops on 1 (greater) and 0 (found)", c.Pos(call.Pos()), "SmallMap.get no longer distinguishes `stored key greater` (insertion point) from `found`")
			// every iteration compares: no stored key is skipped (or accepted) on any other criterion
			// the innermost natural loop around the comparison: the closest dominator of the call's block that
			// is the target of a back edge (an edge from a block it dominates)
			var hdr *ssa.BasicBlock
			for _, b := range get.Blocks {
				if !b.Dominates(call.Block()) {
					continue
				}
				back := false
				for _, p := range b.Preds {
					if b.Dominates(p) {
						back = true
					}
				}
				if back && (hdr == nil || hdr.Dominates(b)) {
					hdr = b
				}
			}
			if hdr == nil {
				r.Undecided("C11.R2: loop of SmallMap.get not recognised")
			} else {
				// from the top of an iteration, the next iteration (back to hdr) or a return is only reached through the comparison
				first := hdr.Instrs[0]
				for _, in := range hdr.Instrs {
					if _, isPhi := in.(*ssa.Phi); !isPhi {
						first = in
						break
					}
				}
				bad := mustPassBefore(first, func(x ssa.Instruction) bool { return x == ssa.Instruction(call) }, func(x ssa.Instruction) bool {
					if isReturn(x) {
						// the return after the loop (key greater than every stored key) is reached without comparing when the map is empty
						return x.Block().Dominates(hdr) == false && hdr.Dominates(x.Block()) && loopBody(hdr, x.Block())
					}
					// the back edge: an instruction that jumps to hdr from inside the loop
					if j, ok := x.(*ssa.Jump); ok && j.Block().Succs[0] == hdr && hdr.Dominates(j.Block()) {
						return true
					}
					if ifi, ok := x.(*ssa.If); ok && hdr.Dominates(ifi.Block()) && ifi.Block() != hdr {
						for _, s := range ifi.Block().Succs {
							if s == hdr {
								return true
							}
						}
					}
					return false
				})
				if bad != nil {
					r.Fail("C11.R2", ssaFuncName(get), "every iteration of the linear search calls Cmp on the stored key", c.Pos(call.Pos()), "an iteration can move on (or return) without comparing: keys are skipped on a criterion other than the language's key order (a type test is not that order: integers and floats sort together by value), so insertion point and lookup disagree with the large map and with ==", c.tracePath(bad)...)
				} else {
					r.Ok("C11.R2", ssaFuncName(get), "every iteration of the linear search calls Cmp on the stored key", c.Pos(call.Pos()))
				}
			}
		}
		_ = n
	}
	r.Floor("C11.R2", 10)

	// R3 (i): MakeQuad call sites
	makeQuad := c.Fn("object", "MakeQuad")
	nq := 0
	for _, fn := range c.ModuleSSAFuncs() {
		for _, call := range callsIn(fn, makeQuad) {
			nq++
			a := call.Common().Args
			k1, ok1 := c.resolveStringObject(a[0])
			k2, ok2 := c.resolveStringObject(a[2])
			desc := "MakeQuad keys"
			if ok1 && ok2 {
				desc = fmt.Sprintf("MakeQuad(%q, _, %q, _)", k1, k2)
			}
			r.Check(ok1 && ok2 && k1 < k2, "C11.R3", ssaFuncName(fn), desc, c.Pos(call.Pos()),
				"MakeQuad builds a two-pair map without sorting: its keys must be constants in strictly increasing order (lookups and merges on the result use binary/linear search)")
		}
	}
	if nq < 3 {
		r.Undecided("C11.R3: only %d MakeQuad call sites found", nq)
	}
	// R3 (ii): bulk copies into fresh pair storage
	kvObj := c.P("object").Types.Scope().Lookup("keyValuePair")
	isKVSlice := func(t types.Type) bool {
		var e types.Type
		switch u := t.Underlying().(type) {
		case *types.Slice:
			e = u.Elem()
		case *types.Pointer:
			if arr, ok := u.Elem().Underlying().(*types.Array); ok {
				e = arr.Elem()
			}
		}
		n, ok := e.(*types.Named)
		return ok && n.Obj() == kvObj
	}
	// source root of a bulk copy: the map value (receiver/param/call) the range comes from
	var srcRoot func(v ssa.Value, d int) string
	srcRoot = func(v ssa.Value, d int) string {
		if d > 8 {
			return "?"
		}
		switch x := v.(type) {
		case *ssa.Slice:
			return srcRoot(x.X, d+1)
		case *ssa.FieldAddr:
			return srcRoot(x.X, d+1)
		case *ssa.IndexAddr:
			return srcRoot(x.X, d+1)
		case *ssa.UnOp:
			return srcRoot(x.X, d+1)
		case *ssa.Parameter:
			return "param " + x.Name()
		case *ssa.Alloc:
			// value receiver spill: find the whole-struct store
			for _, ref := range *x.Referrers() {
				if st, ok := ref.(*ssa.Store); ok && st.Addr == ssa.Value(x) {
					return srcRoot(st.Val, d+1)
				}
			}
			return "local " + x.Comment
		case *ssa.Call:
			if x.Common().IsInvoke() {
				return srcRoot(x.Common().Value, d+1) + "." + x.Common().Method.Name() + "()"
			}
			return "call " + nameOfCallee(x)
		case *ssa.MakeInterface:
			return srcRoot(x.X, d+1)
		}
		return v.Name()
	}
	for _, fn := range c.ModuleSSAFuncs() {
		if fn.Pkg == nil && fn.Parent() == nil {
			continue
		}
		dests := map[string]map[string]bool{} // destination (alloc comment) -> set of bulk sources
		destPos := map[string]token.Pos{}
		eachInstr(fn, func(in ssa.Instruction) {
			call, ok := in.(*ssa.Call)
			if !ok {
				return
			}
			bi, ok := call.Common().Value.(*ssa.Builtin)
			if !ok {
				return
			}
			args := call.Common().Args
			var dst, src ssa.Value
			switch bi.Name() {
			case "append":
				if len(args) == 2 && isKVSlice(args[0].Type()) {
					// bulk if the variadic part is a slice of existing storage (not a varargs temp)
					if sl, ok := args[1].(*ssa.Slice); ok {
						if al, ok := sl.X.(*ssa.Alloc); ok && al.Comment == "varargs" {
							return
						}
					}
					dst, src = args[0], args[1]
				}
			case "copy":
				if len(args) == 2 && isKVSlice(args[0].Type()) {
					dst, src = args[0], args[1]
				}
			}
			if dst == nil {
				return
			}
			d := srcRoot(dst, 0)
			s := srcRoot(src, 0)
			if d == s {
				return // shifting within one storage (Delete)
			}
			if dests[d] == nil {
				dests[d] = map[string]bool{}
				destPos[d] = call.Pos()
			}
			dests[d][s] = true
		})
		for d, srcs := range dests {
			var ss []string
			for s := range srcs {
				ss = append(ss, s)
			}
			r.Check(len(srcs) <= 1, "C11.R3", ssaFuncName(fn), "pair storage "+d+" receives bulk copies from one sorted source", c.Pos(destPos[d]),
				"pairs are bulk-copied into one storage from several maps ("+strings.Join(ss, ", ")+") without going through the search-based Set: the result is sorted and duplicate-free only if the ranges do not interleave or touch, which nothing here enforces")
		}
	}
	// R3 (iii): Set uses the search index
	for _, name := range []string{"SmallMap.Set", "BigMap.Set"} {
		fn := c.SSAFn(c.Fn("object", name))
		fname := ssaFuncName(fn)
		// search result index: Extract of get(...) #2 or BinarySearchFunc #0
		var idx ssa.Value
		var found ssa.Value
		eachInstr(fn, func(in ssa.Instruction) {
			call, ok := in.(*ssa.Call)
			if !ok {
				return
			}
			obj := calleeObj(call)
			if obj == nil {
				return
			}
			// a search helper of the package (its returns hand on the pair of a binary search over the receiver's pairs)
			if callee := call.Common().StaticCallee(); callee != nil && isModulePkg(obj.Pkg()) && obj.Name() != "get" {
				if ri, bi, _, ok := c.boundsProver().searchSummary(callee); ok {
					idx, found = extractOf(call, ri), extractOf(call, bi)
					return
				}
			}
			switch {
			case obj.Name() == "get" && isModulePkg(obj.Pkg()):
				idx, found = extractOf(call, 2), extractOf(call, 1)
			case obj.Name() == "BinarySearchFunc" && obj.Pkg() != nil && obj.Pkg().Path() == "slices":
				idx, found = extractOf(call, 0), extractOf(call, 1)
				// comparator is CompareKeys
				okCmp := false
				if len(call.Common().Args) == 3 {
					if f, _ := resolveFunc(call.Common().Args[2]); f != nil && f.Name() == "CompareKeys" {
						okCmp = true
					}
				}
				r.Check(okCmp, "C11.R3", fname, "binary search uses CompareKeys", c.Pos(call.Pos()), "the large map is searched with a comparator other than CompareKeys")
			}
		})
		if idx == nil {
			r.Fail("C11.R3", fname, "Set searches for the key", c.Pos(fn.Pos()), "no search (get / BinarySearchFunc) in Set")
			continue
		}
		eachInstr(fn, func(in ssa.Instruction) {
			switch x := in.(type) {
			case *ssa.Store:
				// m.kv[i].Value = value / m.smallKV[i] = kv
				var ia *ssa.IndexAddr
				switch a := x.Addr.(type) {
				case *ssa.IndexAddr:
					ia = a
				case *ssa.FieldAddr:
					ia, _ = a.X.(*ssa.IndexAddr)
				}
				if ia == nil || !isKVSlice(ia.X.Type()) {
					return
				}
				if al, ok := baseOf(ia.X).(*ssa.Alloc); ok && al.Comment == "varargs" {
					return
				}
				// shift loop: value loaded from the same array at another index
				if ld, ok := x.Val.(*ssa.UnOp); ok {
					if ia2, ok := ld.X.(*ssa.IndexAddr); ok && sameExpr(ia2.X, ia.X) {
						r.Ok("C11.R3", fname, "shift within the storage", c.Pos(x.Pos()))
						return
					}
				}
				r.Check(ia.Index == idx, "C11.R3", fname, "store at the index returned by the search", c.Pos(x.Pos()), "a pair is written at an index that is not the search result: order or uniqueness of keys is not maintained")
			case *ssa.Call:
				if name := stdName(x); name == "slices.Insert" {
					r.Check(x.Common().Args[1] == idx, "C11.R3", fname, "insertion at the index returned by the search", c.Pos(x.Pos()), "slices.Insert does not insert at the search result")
				}
			}
		})
		_ = found
	}
	r.Floor("C11.R3", 12)

	c.checkSiblingSwitches(r, "C11.R4", "map")
	r.Floor("C11.R4", 2)

	// R5: m + right: the pairs of the right operand are set over a copy of the left operand's
	r.Rule("C11.R5", "merge precedence: in SmallMap.Append and BigMap.Append every Set call takes its key and value from an element of right.mapElements() (the right operand wins on equal keys) and every bulk copy into the result takes the receiver's pairs")
	{
		mapEls := map[*types.Func]bool{c.Fn("object", "SmallMap.mapElements"): true, c.Fn("object", "BigMap.mapElements"): true}
		n5 := 0
		for _, name := range []string{"SmallMap.Append", "BigMap.Append"} {
			entry := c.SSAFn(c.Fn("object", name))
			// the method itself, then the helpers of its package it hands an operand (or a part of one) to
			var analyse func(fn *ssa.Function, paramOrigin map[*ssa.Parameter]string, hdepth int)
			analyse = func(fn *ssa.Function, paramOrigin map[*ssa.Parameter]string, hdepth int) {
				fname := ssaFuncName(fn)
				if fn != entry {
					fname += " (for " + ssaFuncName(entry) + ")"
				}
				// which operand a pair value comes from
				var origin func(v ssa.Value, depth int) string
				origin = func(v ssa.Value, depth int) string {
					if depth > 10 || v == nil {
						return "?"
					}
					switch x := v.(type) {
					case *ssa.Parameter:
						if o, ok := paramOrigin[x]; ok {
							return o
						}
					case *ssa.UnOp:
						return origin(x.X, depth+1)
					case *ssa.FieldAddr:
						return origin(x.X, depth+1)
					case *ssa.Field:
						return origin(x.X, depth+1)
					case *ssa.IndexAddr:
						return origin(x.X, depth+1)
					case *ssa.Index:
						return origin(x.X, depth+1)
					case *ssa.Slice:
						return origin(x.X, depth+1)
					case *ssa.Alloc:
						// a spilled receiver (value receiver copied to a local)
						for _, ref := range *x.Referrers() {
							if st, ok := ref.(*ssa.Store); ok && st.Addr == ssa.Value(x) {
								return origin(st.Val, depth+1)
							}
						}
					case *ssa.Call:
						if x.Common().IsInvoke() && x.Common().Method.Name() == "mapElements" {
							return origin(x.Common().Value, depth+1)
						}
						if obj := calleeObj(x); obj != nil && mapEls[obj] && len(x.Common().Args) > 0 {
							return origin(x.Common().Args[0], depth+1)
						}
					case *ssa.Extract:
						return origin(x.Tuple, depth+1)
					case *ssa.Next:
						return origin(x.Iter, depth+1)
					case *ssa.Range:
						return origin(x.X, depth+1)
					case *ssa.Phi:
						o := ""
						for _, e := range x.Edges {
							oe := origin(e, depth+1)
							if o == "" {
								o = oe
							} else if o != oe {
								return "?"
							}
						}
						return o
					}
					return "?"
				}
				eachInstr(fn, func(in ssa.Instruction) {
					call, ok := in.(*ssa.Call)
					if !ok {
						return
					}
					cc := call.Common()
					var args []ssa.Value
					switch {
					case cc.IsInvoke() && cc.Method.Name() == "Set":
						args = cc.Args
					case !cc.IsInvoke() && calleeObj(call) != nil && calleeObj(call).Name() == "Set" && len(cc.Args) == 3:
						args = cc.Args[1:]
					default:
						// a helper of the package that is handed an operand
						if h := cc.StaticCallee(); h != nil && h.Pkg == entry.Pkg && len(h.Blocks) > 0 && hdepth < 2 && h != fn && len(cc.Args) == len(h.Params) {
							po := map[*ssa.Parameter]string{}
							for i, a := range cc.Args {
								if o := origin(a, 0); o == "left" || o == "right" {
									po[h.Params[i]] = o
								}
							}
							if len(po) > 0 {
								analyse(h, po, hdepth+1)
							}
							return
						}
						// bulk copy: append(res.kv, X...) / copy(dst, X)
						if bi, ok := cc.Value.(*ssa.Builtin); ok && (bi.Name() == "append" || bi.Name() == "copy") && len(cc.Args) == 2 {
							if o := origin(cc.Args[1], 0); o == "right" {
								n5++
								r.Fail("C11.R5", fname, "bulk copy into the result takes the left operand's pairs", c.Pos(call.Pos()), "the result of + starts from the right operand's pairs: setting the left operand's pairs over them makes the left operand win on equal keys ({1:\"L\"} + {1:\"R\",...} gives \"L\")")
							} else if o == "left" {
								n5++
								r.Ok("C11.R5", fname, "bulk copy into the result takes the left operand's pairs", c.Pos(call.Pos()))
							}
						}
						return
					}
					if len(args) != 2 {
						return
					}
					n5++
					ok2 := origin(args[0], 0) == "right" && origin(args[1], 0) == "right"
					r.Check(ok2, "C11.R5", fname, "Set in the merge loop takes key and value from the right operand", c.Pos(call.Pos()),
						"a Set call in the merge takes its pair from "+origin(args[0], 0)+"/"+origin(args[1], 0)+" instead of the right operand: on equal keys the wrong side wins")
				})
			}
			analyse(entry, map[*ssa.Parameter]string{entry.Params[0]: "left", entry.Params[1]: "right"}, 0)
		}
		r.Floor("C11.R5", 4)
		_ = n5
	}

	// R6: nothing but the function cache asks object.Hashable (true for small representations only)
	r.Rule("C11.R6", "representation independence of admissibility: object.Hashable (true for arrays up to 8 elements and maps up to 4 pairs, false beyond) is called only by the memoization cache, by itself and by helpers that only those call; no map or array operation may accept or reject a value with it")
	{
		hash := c.Fn("object", "Hashable")
		allowed := map[string]bool{"eval.(Cache).Get": true, "eval.(Cache).Set": true, "object.Hashable": true}
		// a helper that only the cache (or Hashable itself, or another such helper) calls works for the cache:
		// fixpoint over the static callers, functions used as values excluded
		{
			callers := map[*ssa.Function][]*ssa.Function{}
			taken := map[*ssa.Function]bool{}
			for _, fn := range c.ModuleSSAFuncs() {
				eachInstr(fn, func(in ssa.Instruction) {
					if call, ok := in.(ssa.CallInstruction); ok {
						if callee := call.Common().StaticCallee(); callee != nil {
							callers[callee] = append(callers[callee], fn)
						}
					}
					for _, op := range in.Operands(nil) {
						if f, ok := (*op).(*ssa.Function); ok {
							call, isCall := in.(ssa.CallInstruction)
							if isCall && call.Common().Value == *op {
								continue
							}
							// handed to a library function (slices.ContainsFunc(args, f)): it is called from here
							if isCall {
								if lib := call.Common().StaticCallee(); lib != nil && !isModuleSSA(lib) {
									callers[f] = append(callers[f], fn)
									continue
								}
							}
							taken[f] = true
						}
					}
				})
			}
			for changed := true; changed; {
				changed = false
				for _, fn := range c.ModuleSSAFuncs() {
					name := ssaFuncName(fn)
					if allowed[name] || taken[fn] || len(callers[fn]) == 0 {
						continue
					}
					all := true
					for _, cf := range callers[fn] {
						if !allowed[ssaFuncName(cf)] {
							all = false
						}
					}
					if all {
						allowed[name] = true
						changed = true
					}
				}
			}
		}
		n6 := 0
		for _, fn := range c.ModuleSSAFuncs() {
			for _, call := range callsIn(fn, hash) {
				n6++
				r.Check(allowed[ssaFuncName(fn)], "C11.R6", ssaFuncName(fn), "call to object.Hashable", c.Pos(call.Pos()),
					"object.Hashable answers for the memoization cache and depends on the internal representation (false for arrays over 8 elements and maps over 4 pairs): used here it makes an operation accept a small container and reject the same container once it has grown")
			}
		}
		if n6 < 3 {
			r.Undecided("C11.R6: only %d calls to object.Hashable found", n6)
		}
	}

	r.Rule("C11.R7", "an update keeps the stored key: in SmallMap.Set and BigMap.Set, on the edge where the search found the key, the only store into the pair storage is to the Value field of a pair")
	c.checkUpdateKeepsKey(r, "C11.R7")
	r.Rule("C11.R8", "length decides the representation of arrays too: a locally built BigArray is boxed as a program value only in object.NewArray (which tests the length), the fixed lists of `info` excepted")
	c.checkBigArrayOnlyFromNewArray(r, "C11.R8")
	// shared C07.R9: the small representation never indexes past its capacity (thresholds and length field)
	r.Rule("C07.R9", "(shared) fixed-capacity containers: length fields within capacity, index and slice bounds proven")
	{
		sub := NewReport("C07", r.Tier, c)
		sub.Sub = true
		c.checkBoundedContainers(sub, "C07.R9", map[string]bool{"eval": true, "object": true})
		for _, o := range sub.Obls {
			if !strings.Contains(o.Func, "Map") && !strings.Contains(o.Func, "object.Range") && !strings.Contains(o.Func, "MakePair") && !strings.Contains(o.Func, "MakeQuad") {
				continue
			}
			switch o.status {
			case FAIL:
				r.Fail(o.Rule, o.Func, o.Desc, o.Pos, o.Reason)
			case ABSTAIN:
				r.Abstain(o.Rule, o.Func, o.Desc, o.Pos, o.Reason)
			default:
				r.Ok(o.Rule, o.Func, o.Desc, o.Pos)
			}
		}
		r.Floor("C07.R9", 15)
	}
	// shared C04.R4: a map is a memoization key only in its by-value representation (a large map is updated in
	// place: keyed by pointer, every observation through a memoized function would be frozen at first call)
	if !r.Sub {
		r.Rule("C04.R4", "(shared) Hashable accepts the MAP tag only after narrowing to the by-value representation; components are checked recursively")
		sub := NewReport("C04", r.Tier, c)
		sub.Sub = true
		c.checkHashable(sub)
		for _, o := range sub.Obls {
			if !strings.Contains(o.Desc, "MAP") && !strings.Contains(o.Desc, "SmallMap") {
				continue
			}
			switch o.status {
			case FAIL:
				r.Fail(o.Rule, o.Func, o.Desc, o.Pos, o.Reason)
			default:
				r.Ok(o.Rule, o.Func, o.Desc, o.Pos)
			}
		}
	}
}

func baseOf(v ssa.Value) ssa.Value {
	for i := 0; i < 6; i++ {
		switch x := v.(type) {
		case *ssa.Slice:
			v = x.X
		case *ssa.FieldAddr:
			v = x.X
		case *ssa.IndexAddr:
			v = x.X
		default:
			return v
		}
	}
	return v
}

func init() {
	register("C11", &propDef{
		explain: "Structural rules that make maps finite sorted maps by construction: one canonical boxed form per representation (inhabitant inventory: producers vs type-switch consumers), a three-valued comparator, constant sorted keys at every MakeQuad site (evaluated at analysis time), bulk copies into a fresh storage only from one already-sorted source with everything else going through the search-based Set, Set writing only at the index its search returned, and sibling agreement of representation switches. Observational equivalence with a reference map for all operation sequences is a value property and is not decided; off-by-one errors inside search/shift arithmetic are not covered. Also: SmallMap.get calls Cmp on every iteration and decides on nothing else, CompareKeys is Cmp on every path, and the shared C07.R9 keeps the small representation within its capacity.",
		assume:  []string{"slices.BinarySearchFunc and slices.Insert behave per their contract on a sorted slice", "Cmp is a total order on keys (C12)"},
		run:     runC11,
	})
}

// loopBody: block b belongs to the loop headed by hdr (b can reach hdr again).
func loopBody(hdr, b *ssa.BasicBlock) bool {
	seen := map[*ssa.BasicBlock]bool{}
	stack := []*ssa.BasicBlock{b}
	for len(stack) > 0 {
		x := stack[len(stack)-1]
		stack = stack[:len(stack)-1]
		if seen[x] {
			continue
		}
		seen[x] = true
		for _, s := range x.Succs {
			if s == hdr {
				return true
			}
			stack = append(stack, s)
		}
	}
	return false
}

// checkUpdateKeepsKey: rule C11.R7.
//
// Keys are looked up with Cmp, for which 1 and 1.0 are equal although they are different values. Updating an
// entry through an equal key keeps the key that is stored (both representations): in the Set methods, on the edge
// where the search found the key, the only store into the pair storage is to the Value field of a pair.
func (c *Ctx) checkUpdateKeepsKey(r *Report, rule string) {
	kvObj := c.P("object").Types.Scope().Lookup("keyValuePair")
	if kvObj == nil {
		r.Undecided("%s: object.keyValuePair not found", rule)
		return
	}
	kvT := kvObj.Type()
	valIdx := fieldIndex(kvT.(*types.Named), "Value")
	bp := c.newBoundProver()
	n := 0
	for _, name := range []string{"SmallMap.Set", "BigMap.Set"} {
		fn := c.SSAFn(c.Fn("object", name))
		// the found edge: a block controlled by the found flag of a binary search (direct or summarised helper)
		foundBlock := func(b *ssa.BasicBlock) bool {
			for _, cc := range controlling(b) {
				cond, edge := cc.Cond, cc.Edge
				if u, ok := cond.(*ssa.UnOp); ok && u.Op == token.NOT {
					cond, edge = u.X, 1-edge
				}
				ex, ok := cond.(*ssa.Extract)
				if !ok || edge != 0 {
					continue
				}
				call, ok := ex.Tuple.(*ssa.Call)
				if !ok {
					continue
				}
				for _, ref := range *call.Referrers() {
					if pe, ok := ref.(*ssa.Extract); ok {
						if si, ok := bp.searchPos(pe); ok && si.bfound == ex.Index {
							return true
						}
					}
				}
				// the hand-written search of the small representation: get(key) (value, found, position)
				if callee := call.Common().StaticCallee(); callee != nil && callee.Pkg == fn.Pkg && callee.Name() == "get" && callee.Signature.Results().Len() == 3 && ex.Index == 1 {
					return true
				}
			}
			return false
		}
		k := 0
		eachInstr(fn, func(in ssa.Instruction) {
			st, ok := in.(*ssa.Store)
			if !ok || !foundBlock(st.Block()) {
				return
			}
			// stores into pair storage: an element (whole pair) or a field of an element
			whole, field := false, -1
			switch a := st.Addr.(type) {
			case *ssa.IndexAddr:
				if et := elemTypeOf(a.X.Type()); et != nil && types.Identical(et, kvT) {
					whole = true
				}
			case *ssa.FieldAddr:
				if ia, ok := a.X.(*ssa.IndexAddr); ok {
					if et := elemTypeOf(ia.X.Type()); et != nil && types.Identical(et, kvT) {
						field = a.Field
					}
				}
			}
			if !whole && field < 0 {
				return
			}
			n++
			k++
			desc := "an update stores the value only"
			if k > 1 {
				desc += " #" + itoa(k)
			}
			r.Check(!whole && field == valIdx, rule, ssaFuncName(fn), desc, c.Pos(st.Pos()),
				"where the key was found, Set overwrites the stored key (the whole pair, or its Key field) instead of the value alone: m[1.0] = v on a map that has the key 1 replaces the key in one representation and keeps it in the other (first(m).key, keys(m) differ between a map of 4 and of 5 pairs)")
		})
	}
	if n < 2 {
		r.Undecided("%s: only %d stores on the found edge of the two Set methods", rule, n)
	}
}

func elemTypeOf(t types.Type) types.Type {
	switch u := t.Underlying().(type) {
	case *types.Slice:
		return u.Elem()
	case *types.Array:
		return u.Elem()
	case *types.Pointer:
		if a, ok := u.Elem().Underlying().(*types.Array); ok {
			return a.Elem()
		}
	}
	return nil
}

// checkBigArrayOnlyFromNewArray: rule C11.R8 (arrays; shared with C06).
//
// Arrays of at most 8 elements are SmallArray values (copied on assignment), larger ones share their storage.
// Which one a value is depends on its length only as long as every array is made by NewArray, which tests the
// length. A BigArray boxed as a program value anywhere else (rest() of a 9 element array resliced in place) is a
// short array that aliases its source.
var bigArrayBoxingExceptions = map[string]string{
	"object.(*Environment).BaseInfo": "the fixed lists of keywords, tokens, builtins and extension names of `info`: each has far more than 8 entries",
}

func (c *Ctx) checkBigArrayOnlyFromNewArray(r *Report, rule string) {
	bigT := c.TypeNamed("object", "BigArray")
	newArray := c.SSAFn(c.Fn("object", "NewArray"))
	n := 0
	for _, fn := range c.ModuleSSAFuncs() {
		k := 0
		eachInstr(fn, func(in ssa.Instruction) {
			mi, ok := in.(*ssa.MakeInterface)
			if !ok || !types.Identical(mi.X.Type(), bigT) {
				return
			}
			// the value being boxed was built here (a composite literal), not read from somewhere
			if !builtHere(mi.X) {
				return
			}
			n++
			k++
			desc := "a BigArray is boxed where its length was tested"
			if k > 1 {
				desc += " #" + itoa(k)
			}
			if why, ok := bigArrayBoxingExceptions[ssaFuncName(fn)]; ok {
				r.OkWhy(rule, ssaFuncName(fn), desc, c.Pos(mi.Pos()), "exception: "+why)
				return
			}
			r.Check(fn == newArray, rule, ssaFuncName(fn), desc, c.Pos(mi.Pos()),
				"a BigArray built outside object.NewArray becomes a program value without a length test: when it has 8 elements or fewer it is a short array that shares its storage (b = rest(a) on 9 elements; b[0] = 99 changes a), while every other array of that length is a copied SmallArray")
		})
	}
	if n == 0 {
		r.Undecided("%s: no boxing of a locally built BigArray found (NewArray expected)", rule)
	}
}

// builtHere: the struct value was assembled in this function (load of a local composite literal).
func builtHere(v ssa.Value) bool {
	ld, ok := v.(*ssa.UnOp)
	if !ok {
		return false
	}
	_, isAlloc := ld.X.(*ssa.Alloc)
	return isAlloc
}
