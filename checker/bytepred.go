package main

// bytepred: evaluates the repository's pure byte predicates (isLetter, isDigit, IsAlphaNum,
// isWhiteSpace, notEOL ...) on all 256 byte values at analysis time by constant folding of
// their syntax. "Values touched only through comparisons": this is exact, not sampling.

import (
	"fmt"
	"go/ast"
	"go/constant"
	"go/token"
	"go/types"
	"unicode"
)

type bpVal struct {
	isBool bool
	b      bool
	i      int64
}

type bytePredEval struct {
	c     *Ctx
	depth int
}

// ByteSet evaluates predicate f (func(byte) bool) on all bytes. ok=false when the body is
// not a single pure return expression the folder understands.
func (c *Ctx) ByteSet(f *types.Func) (set [256]bool, ok bool) {
	for b := 0; b < 256; b++ {
		v, ok := c.evalBytePred(f, int64(b), 0)
		if !ok {
			return set, false
		}
		set[b] = v
	}
	return set, true
}

func (c *Ctx) evalBytePred(f *types.Func, arg int64, depth int) (bool, bool) {
	if v, ok := c.evalBytePredAST(f, arg, depth); ok {
		return v, true
	}
	// not a single-expression predicate (a switch, a bit trick, early returns): run its SSA form on the byte
	if fn := c.SSAFn(f); fn != nil && len(fn.Params) == 1 {
		if v, ok := c.ssaEval(fn, []int64{arg}, 0); ok {
			return v != 0, true
		}
	}
	return false, false
}

func (c *Ctx) evalBytePredAST(f *types.Func, arg int64, depth int) (bool, bool) {
	if depth > 8 {
		return false, false
	}
	fd := c.Decl(f)
	if fd == nil || fd.Body == nil || len(fd.Body.List) != 1 {
		return false, false
	}
	ret, ok := fd.Body.List[0].(*ast.ReturnStmt)
	if !ok || len(ret.Results) != 1 {
		return false, false
	}
	if fd.Type.Params == nil || fd.Type.Params.NumFields() != 1 || len(fd.Type.Params.List[0].Names) != 1 {
		return false, false
	}
	info := c.InfoFor(fd)
	param := info.Defs[fd.Type.Params.List[0].Names[0]]
	env := map[types.Object]int64{param: arg}
	v, ok := c.evalExpr(ret.Results[0], info, env, depth)
	if !ok || !v.isBool {
		return false, false
	}
	return v.b, true
}

func (c *Ctx) evalExpr(e ast.Expr, info *types.Info, env map[types.Object]int64, depth int) (bpVal, bool) {
	if tv, ok := info.Types[e]; ok && tv.Value != nil {
		switch tv.Value.Kind() {
		case constant.Int:
			i, ok := constant.Int64Val(tv.Value)
			return bpVal{i: i}, ok
		case constant.Bool:
			return bpVal{isBool: true, b: constant.BoolVal(tv.Value)}, true
		}
		return bpVal{}, false
	}
	switch x := e.(type) {
	case *ast.ParenExpr:
		return c.evalExpr(x.X, info, env, depth)
	case *ast.Ident:
		if obj := info.Uses[x]; obj != nil {
			if v, ok := env[obj]; ok {
				return bpVal{i: v}, true
			}
		}
		return bpVal{}, false
	case *ast.UnaryExpr:
		v, ok := c.evalExpr(x.X, info, env, depth)
		if !ok {
			return v, false
		}
		if x.Op == token.NOT && v.isBool {
			return bpVal{isBool: true, b: !v.b}, true
		}
		return bpVal{}, false
	case *ast.BinaryExpr:
		l, ok := c.evalExpr(x.X, info, env, depth)
		if !ok {
			return l, false
		}
		// short circuit
		if x.Op == token.LAND && l.isBool && !l.b {
			return bpVal{isBool: true, b: false}, true
		}
		if x.Op == token.LOR && l.isBool && l.b {
			return bpVal{isBool: true, b: true}, true
		}
		r, ok := c.evalExpr(x.Y, info, env, depth)
		if !ok {
			return r, false
		}
		if l.isBool != r.isBool {
			return bpVal{}, false
		}
		if l.isBool {
			switch x.Op {
			case token.LAND:
				return bpVal{isBool: true, b: l.b && r.b}, true
			case token.LOR:
				return bpVal{isBool: true, b: l.b || r.b}, true
			case token.EQL:
				return bpVal{isBool: true, b: l.b == r.b}, true
			case token.NEQ:
				return bpVal{isBool: true, b: l.b != r.b}, true
			}
			return bpVal{}, false
		}
		switch x.Op {
		case token.AND:
			return bpVal{i: l.i & r.i}, true
		case token.OR:
			return bpVal{i: l.i | r.i}, true
		case token.XOR:
			return bpVal{i: l.i ^ r.i}, true
		case token.ADD:
			return bpVal{i: l.i + r.i}, true
		case token.SUB:
			return bpVal{i: l.i - r.i}, true
		case token.REM:
			if r.i == 0 {
				return bpVal{}, false
			}
			return bpVal{i: l.i % r.i}, true
		case token.SHR:
			if r.i < 0 || r.i > 62 {
				return bpVal{}, false
			}
			return bpVal{i: l.i >> uint(r.i)}, true
		case token.SHL:
			if r.i < 0 || r.i > 32 {
				return bpVal{}, false
			}
			return bpVal{i: l.i << uint(r.i)}, true
		case token.EQL:
			return bpVal{isBool: true, b: l.i == r.i}, true
		case token.NEQ:
			return bpVal{isBool: true, b: l.i != r.i}, true
		case token.LSS:
			return bpVal{isBool: true, b: l.i < r.i}, true
		case token.LEQ:
			return bpVal{isBool: true, b: l.i <= r.i}, true
		case token.GTR:
			return bpVal{isBool: true, b: l.i > r.i}, true
		case token.GEQ:
			return bpVal{isBool: true, b: l.i >= r.i}, true
		}
		return bpVal{}, false
	case *ast.IndexExpr:
		// lookup in a package-level table
		id, ok := x.X.(*ast.Ident)
		if !ok {
			return bpVal{}, false
		}
		tv, ok := info.Uses[id].(*types.Var)
		if !ok || tv.Parent() != tv.Pkg().Scope() {
			return bpVal{}, false
		}
		idx, ok := c.evalExpr(x.Index, info, env, depth)
		if !ok || idx.isBool {
			return bpVal{}, false
		}
		return c.evalTable(tv, idx.i, depth+1)
	case *ast.CallExpr:
		if len(x.Args) != 1 {
			return bpVal{}, false
		}
		// conversions between integer types: byte(c), int(ch) (values here are 0..255, no truncation except to byte)
		if tvv, isType := info.Types[x.Fun]; isType && tvv.IsType() {
			if b, ok := tvv.Type.Underlying().(*types.Basic); ok && b.Info()&types.IsInteger != 0 {
				a, ok := c.evalExpr(x.Args[0], info, env, depth)
				if !ok || a.isBool {
					return bpVal{}, false
				}
				switch b.Kind() {
				case types.Uint8:
					return bpVal{i: a.i & 0xff}, true
				case types.Int8:
					return bpVal{}, false
				}
				return a, true
			}
			return bpVal{}, false
		}
		var callee *types.Func
		switch fn := x.Fun.(type) {
		case *ast.Ident:
			callee, _ = info.Uses[fn].(*types.Func)
		case *ast.SelectorExpr:
			callee, _ = info.Uses[fn.Sel].(*types.Func)
		}
		// the character classes of package unicode, evaluated here on the byte seen as a rune (Latin-1)
		if callee != nil && callee.Pkg() != nil && callee.Pkg().Path() == "unicode" {
			a, ok := c.evalExpr(x.Args[0], info, env, depth)
			if !ok || a.isBool {
				return bpVal{}, false
			}
			classes := map[string]func(rune) bool{"IsSpace": unicode.IsSpace, "IsLetter": unicode.IsLetter, "IsDigit": unicode.IsDigit,
				"IsUpper": unicode.IsUpper, "IsLower": unicode.IsLower, "IsPunct": unicode.IsPunct, "IsControl": unicode.IsControl, "IsPrint": unicode.IsPrint}
			if f, known := classes[callee.Name()]; known {
				return bpVal{isBool: true, b: f(rune(a.i))}, true
			}
			return bpVal{}, false
		}
		if callee == nil || !isModulePkg(callee.Pkg()) {
			return bpVal{}, false
		}
		a, ok := c.evalExpr(x.Args[0], info, env, depth)
		if !ok || a.isBool {
			return bpVal{}, false
		}
		b, ok := c.evalBytePred(callee, a.i, depth+1)
		return bpVal{isBool: true, b: b}, ok
	}
	return bpVal{}, false
}

func byteSetString(set [256]bool) string {
	s := ""
	for b := 0; b < 256; {
		if !set[b] {
			b++
			continue
		}
		e := b
		for e+1 < 256 && set[e+1] {
			e++
		}
		if s != "" {
			s += ","
		}
		if e == b {
			s += fmt.Sprintf("%q", rune(b))
		} else {
			s += fmt.Sprintf("%q-%q", rune(b), rune(e))
		}
		b = e + 1
	}
	return "{" + s + "}"
}

// evalTable: element i of a package-level array that is written only by its initialiser, which is either a
// composite literal with constant keys and values, or the fill idiom
//
//	var t = func() (t [N]bool) { for c := range t { t[c] = EXPR(c) }; return t }()
func (c *Ctx) evalTable(v *types.Var, i int64, depth int) (bpVal, bool) {
	if depth > 8 {
		return bpVal{}, false
	}
	arr, ok := v.Type().Underlying().(*types.Array)
	if !ok || i < 0 || i >= arr.Len() {
		return bpVal{}, false // out of range would panic: not a total predicate
	}
	// find the declaration and make sure nothing else assigns to (an element of) the variable
	var spec *ast.ValueSpec
	var info *types.Info
	var specIdx int
	for _, p := range c.Mod {
		if p.Types != v.Pkg() {
			continue
		}
		info = p.TypesInfo
		for _, f := range p.Syntax {
			ast.Inspect(f, func(n ast.Node) bool {
				switch x := n.(type) {
				case *ast.ValueSpec:
					for k, name := range x.Names {
						if p.TypesInfo.Defs[name] == types.Object(v) {
							spec, specIdx = x, k
						}
					}
				case *ast.AssignStmt:
					for _, l := range x.Lhs {
						base := l
						if ie, ok := base.(*ast.IndexExpr); ok {
							base = ie.X
						}
						if id, ok := base.(*ast.Ident); ok && p.TypesInfo.Uses[id] == types.Object(v) {
							spec = nil
							info = nil
						}
					}
				case *ast.UnaryExpr:
					if x.Op == token.AND {
						if id, ok := x.X.(*ast.Ident); ok && p.TypesInfo.Uses[id] == types.Object(v) {
							info = nil // address taken
						}
					}
				}
				return true
			})
		}
	}
	if spec == nil || info == nil || specIdx >= len(spec.Values) {
		return bpVal{}, false
	}
	switch init := spec.Values[specIdx].(type) {
	case *ast.CompositeLit:
		res := bpVal{isBool: isBoolType(arr.Elem())}
		pos := int64(0)
		for _, el := range init.Elts {
			val := el
			if kv, ok := el.(*ast.KeyValueExpr); ok {
				k, ok := c.evalExpr(kv.Key, info, nil, depth)
				if !ok || k.isBool {
					return bpVal{}, false
				}
				pos, val = k.i, kv.Value
			}
			if pos == i {
				return c.evalExpr(val, info, nil, depth)
			}
			pos++
		}
		return res, true // zero value
	case *ast.CallExpr:
		fl, ok := init.Fun.(*ast.FuncLit)
		if !ok || len(init.Args) != 0 || fl.Type.Results == nil || len(fl.Type.Results.List) != 1 || len(fl.Type.Results.List[0].Names) != 1 || len(fl.Body.List) != 2 {
			return bpVal{}, false
		}
		resObj := info.Defs[fl.Type.Results.List[0].Names[0]]
		rng, ok := fl.Body.List[0].(*ast.RangeStmt)
		ret, ok2 := fl.Body.List[1].(*ast.ReturnStmt)
		if !ok || !ok2 || rng.Value != nil || rng.Key == nil || len(rng.Body.List) != 1 {
			return bpVal{}, false
		}
		if len(ret.Results) == 1 {
			if id, ok := ret.Results[0].(*ast.Ident); !ok || info.Uses[id] != resObj {
				return bpVal{}, false
			}
		} else if len(ret.Results) != 0 {
			return bpVal{}, false
		}
		if id, ok := rng.X.(*ast.Ident); !ok || info.Uses[id] != resObj {
			return bpVal{}, false
		}
		keyID, ok := rng.Key.(*ast.Ident)
		if !ok {
			return bpVal{}, false
		}
		keyObj := info.Defs[keyID]
		as, ok := rng.Body.List[0].(*ast.AssignStmt)
		if !ok || as.Tok != token.ASSIGN || len(as.Lhs) != 1 || len(as.Rhs) != 1 {
			return bpVal{}, false
		}
		lhs, ok := as.Lhs[0].(*ast.IndexExpr)
		if !ok {
			return bpVal{}, false
		}
		if id, ok := lhs.X.(*ast.Ident); !ok || info.Uses[id] != resObj {
			return bpVal{}, false
		}
		if id, ok := lhs.Index.(*ast.Ident); !ok || info.Uses[id] != keyObj {
			return bpVal{}, false
		}
		return c.evalExpr(as.Rhs[0], info, map[types.Object]int64{keyObj: i}, depth)
	}
	return bpVal{}, false
}

func isBoolType(t types.Type) bool {
	b, ok := t.Underlying().(*types.Basic)
	return ok && b.Kind() == types.Bool
}
