package main

// bytepred: evaluates the repository's pure byte predicates (isLetter, isDigit, IsAlphaNum,
// isWhiteSpace, notEOL ...) on all 256 byte values at analysis time by constant folding of
// their syntax. "Values touched only through comparisons": this is exact, not sampling.

import (
	"fmt"
	"go/ast"
	"go/constant"
	"go/token"
	"go/types"
)

type bpVal struct {
	isBool bool
	b      bool
	i      int64
}

type bytePredEval struct {
	c     *Ctx
	depth int
}

// ByteSet evaluates predicate f (func(byte) bool) on all bytes. ok=false when the body is
// not a single pure return expression the folder understands.
func (c *Ctx) ByteSet(f *types.Func) (set [256]bool, ok bool) {
	for b := 0; b < 256; b++ {
		v, ok := c.evalBytePred(f, int64(b), 0)
		if !ok {
			return set, false
		}
		set[b] = v
	}
	return set, true
}

func (c *Ctx) evalBytePred(f *types.Func, arg int64, depth int) (bool, bool) {
	if depth > 8 {
		return false, false
	}
	fd := c.Decl(f)
	if fd == nil || fd.Body == nil || len(fd.Body.List) != 1 {
		return false, false
	}
	ret, ok := fd.Body.List[0].(*ast.ReturnStmt)
	if !ok || len(ret.Results) != 1 {
		return false, false
	}
	if fd.Type.Params == nil || fd.Type.Params.NumFields() != 1 || len(fd.Type.Params.List[0].Names) != 1 {
		return false, false
	}
	info := c.InfoFor(fd)
	param := info.Defs[fd.Type.Params.List[0].Names[0]]
	env := map[types.Object]int64{param: arg}
	v, ok := c.evalExpr(ret.Results[0], info, env, depth)
	if !ok || !v.isBool {
		return false, false
	}
	return v.b, true
}

func (c *Ctx) evalExpr(e ast.Expr, info *types.Info, env map[types.Object]int64, depth int) (bpVal, bool) {
	if tv, ok := info.Types[e]; ok && tv.Value != nil {
		switch tv.Value.Kind() {
		case constant.Int:
			i, ok := constant.Int64Val(tv.Value)
			return bpVal{i: i}, ok
		case constant.Bool:
			return bpVal{isBool: true, b: constant.BoolVal(tv.Value)}, true
		}
		return bpVal{}, false
	}
	switch x := e.(type) {
	case *ast.ParenExpr:
		return c.evalExpr(x.X, info, env, depth)
	case *ast.Ident:
		if obj := info.Uses[x]; obj != nil {
			if v, ok := env[obj]; ok {
				return bpVal{i: v}, true
			}
		}
		return bpVal{}, false
	case *ast.UnaryExpr:
		v, ok := c.evalExpr(x.X, info, env, depth)
		if !ok {
			return v, false
		}
		if x.Op == token.NOT && v.isBool {
			return bpVal{isBool: true, b: !v.b}, true
		}
		return bpVal{}, false
	case *ast.BinaryExpr:
		l, ok := c.evalExpr(x.X, info, env, depth)
		if !ok {
			return l, false
		}
		// short circuit
		if x.Op == token.LAND && l.isBool && !l.b {
			return bpVal{isBool: true, b: false}, true
		}
		if x.Op == token.LOR && l.isBool && l.b {
			return bpVal{isBool: true, b: true}, true
		}
		r, ok := c.evalExpr(x.Y, info, env, depth)
		if !ok {
			return r, false
		}
		if l.isBool != r.isBool {
			return bpVal{}, false
		}
		if l.isBool {
			switch x.Op {
			case token.LAND:
				return bpVal{isBool: true, b: l.b && r.b}, true
			case token.LOR:
				return bpVal{isBool: true, b: l.b || r.b}, true
			case token.EQL:
				return bpVal{isBool: true, b: l.b == r.b}, true
			case token.NEQ:
				return bpVal{isBool: true, b: l.b != r.b}, true
			}
			return bpVal{}, false
		}
		switch x.Op {
		case token.EQL:
			return bpVal{isBool: true, b: l.i == r.i}, true
		case token.NEQ:
			return bpVal{isBool: true, b: l.i != r.i}, true
		case token.LSS:
			return bpVal{isBool: true, b: l.i < r.i}, true
		case token.LEQ:
			return bpVal{isBool: true, b: l.i <= r.i}, true
		case token.GTR:
			return bpVal{isBool: true, b: l.i > r.i}, true
		case token.GEQ:
			return bpVal{isBool: true, b: l.i >= r.i}, true
		}
		return bpVal{}, false
	case *ast.CallExpr:
		if len(x.Args) != 1 {
			return bpVal{}, false
		}
		var callee *types.Func
		switch fn := x.Fun.(type) {
		case *ast.Ident:
			callee, _ = info.Uses[fn].(*types.Func)
		case *ast.SelectorExpr:
			callee, _ = info.Uses[fn.Sel].(*types.Func)
		}
		if callee == nil || !isModulePkg(callee.Pkg()) {
			return bpVal{}, false
		}
		a, ok := c.evalExpr(x.Args[0], info, env, depth)
		if !ok || a.isBool {
			return bpVal{}, false
		}
		b, ok := c.evalBytePred(callee, a.i, depth+1)
		return bpVal{isBool: true, b: b}, ok
	}
	return bpVal{}, false
}

func byteSetString(set [256]bool) string {
	s := ""
	for b := 0; b < 256; {
		if !set[b] {
			b++
			continue
		}
		e := b
		for e+1 < 256 && set[e+1] {
			e++
		}
		if s != "" {
			s += ","
		}
		if e == b {
			s += fmt.Sprintf("%q", rune(b))
		} else {
			s += fmt.Sprintf("%q-%q", rune(b), rune(e))
		}
		b = e + 1
	}
	return "{" + s + "}"
}
