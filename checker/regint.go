package main

// regint: rule C05.R12, a register is an integer wherever integers are recognised.
//
// An integer parameter or loop variable held in a register evaluates to a *object.Register, tag REGISTER.
// A test `x.Type() == INTEGER` (or != INTEGER) applied to a value that may be a register takes the
// non-integer arm for it - unless the same tag value is also compared with REGISTER (a switch with both
// arms, `t == INTEGER || t == REGISTER`), or the value went through object.Value / CopyRegister first.
// (`n | g(4)` took the string-pipe path for a register when the test became `left.Type() != INTEGER`.)

import (
	"go/token"
	"go/types"

	"golang.org/x/tools/go/ssa"
)

func (c *Ctx) checkRegisterIsInteger(r *Report, rule string) {
	spec := c.registerSpec()
	t := NewTaint(c, spec)
	objT := c.TypeNamed("object", "Object")
	intTag := c.tagConst("INTEGER")
	regTag := c.tagConst("REGISTER")
	n := 0
	for _, fn := range c.ModuleSSAFuncs() {
		top := fn
		for top.Parent() != nil {
			top = top.Parent()
		}
		if top.Pkg == nil {
			continue
		}
		if pk := shortPkg(top.Pkg.Pkg); pk != "eval" && pk != "extensions" {
			continue
		}
		fname := ssaFuncName(fn)
		k := 0
		eachInstr(fn, func(in ssa.Instruction) {
			bin, ok := in.(*ssa.BinOp)
			if !ok || (bin.Op != token.EQL && bin.Op != token.NEQ) {
				return
			}
			kv, isK := constInt(bin.Y)
			if !isK || kv != intTag {
				return
			}
			// the tag value: x.Type() directly or through a phi / local
			var typeCall *ssa.Call
			switch tv := bin.X.(type) {
			case *ssa.Call:
				typeCall = tv
			}
			if typeCall == nil || !typeCall.Common().IsInvoke() || typeCall.Common().Method.Name() != "Type" || !types.Identical(typeCall.Common().Value.Type(), objT) {
				return
			}
			x := typeCall.Common().Value
			n++
			k++
			desc := "INTEGER tag test #" + itoa(k) + " also recognises a register"
			if !t.May(x) || (spec.CleanAt != nil && spec.CleanAt(x, bin)) {
				r.OkWhy(rule, fname, desc, c.Pos(bin.Pos()), "the value cannot be a register here")
				return
			}
			// companion: the same tag value compared with REGISTER, or another Type() call on the same value
			companion := false
			eachInstr(fn, func(in2 ssa.Instruction) {
				b2, ok := in2.(*ssa.BinOp)
				if !ok || (b2.Op != token.EQL && b2.Op != token.NEQ) {
					return
				}
				if k2, ok := constInt(b2.Y); !ok || k2 != regTag {
					return
				}
				if b2.X == ssa.Value(typeCall) {
					companion = true
				}
				if tc2, ok := b2.X.(*ssa.Call); ok && tc2.Common().IsInvoke() && tc2.Common().Method.Name() == "Type" && tc2.Common().Value == x {
					companion = true
				}
			})
			if companion {
				r.OkWhy(rule, fname, desc, c.Pos(bin.Pos()), "REGISTER is tested on the same value")
				return
			}
			r.Fail(rule, fname, desc, c.Pos(bin.Pos()), "the tested value ("+x.Name()+") can be a *object.Register (an integer parameter or loop variable when registers are on) and neither a REGISTER test on the same value nor object.Value/CopyRegister accompanies the INTEGER test: the register takes the non-integer arm, so the result differs between registers on and off")
		})
	}
	if n < 8 {
		r.Undecided("%s: only %d INTEGER tag tests found in packages eval and extensions", rule, n)
	}
	r.Floor(rule, 8)
}
