package main

import (
	"fmt"
	"go/types"
	"sort"
	"strings"

	"golang.org/x/tools/go/ssa"
)

func (c *Ctx) containerFresh() *Fresh {
	objT := c.TypeNamed("object", "Object")
	kv, _ := c.P("object").Types.Scope().Lookup("keyValuePair").(*types.TypeName)
	return NewFresh(c, func(t types.Type) bool {
		if types.Identical(t, objT) {
			return true
		}
		if n, ok := t.(*types.Named); ok && kv != nil && n.Obj() == kv {
			return true
		}
		return false
	})
}

// inPlaceExceptions: accepted in-place writes to non-fresh storage, one named construct each.
var inPlaceExceptions = map[string]string{
	"object.(*Environment).BaseInfo | receiver of object.(*BigMap).Set": "populates the package-level info cache before it is first handed out (guarded by baseInfo.kv == nil); later in-place updates by Info() are reported separately",
}

func runC06(c *Ctx, r *Report) {
	r.Rule("C06.R1", "no in-place write (element store, append into spare capacity, copy into, slices.Insert/Delete/Grow, sort, or a call to a function summarised as mutating its receiver/argument) targets container storage that may be visible through another binding; storage is exclusively owned only when allocated in the function or handed in by every caller as such")
	r.Rule("C06.R3", "x + y builds a new container: no result of evalArrayInfixExpression / evalMapInfixExpression may hold storage derived from an operand (ownership roots propagated through Elements, append, slicing, NewArray, the Append methods)")
	r.Rule("C06.R2", "small/large sibling agreement: every type switch over array or map representations has arms for both representations (or the interface)")
	f := c.containerFresh()
	finds, examined := f.Findings()
	for _, w := range finds {
		key := ssaFuncName(w.Fn) + " | " + w.Desc
		if why, ok := inPlaceExceptions[key]; ok {
			r.OkWhy("C06.R1", ssaFuncName(w.Fn), w.Desc, c.Pos(instrPos(w.At)), "exception: "+why)
			continue
		}
		r.Fail("C06.R1", ssaFuncName(w.Fn), w.Desc, c.Pos(instrPos(w.At)),
			fmt.Sprintf("in-place write to storage that may be shared with another binding (%s); writers reached: %s", w.Root.why, strings.Join(w.Sinks, "; ")))
	}
	// ok obligations: per function, the write sites that target owned storage
	per := map[string]int{}
	bad := map[string]bool{}
	for _, w := range finds {
		bad[ssaFuncName(w.Fn)] = true
	}
	for _, fn := range f.funcs {
		f.rawWrites(fn, func(in ssa.Instruction, target ssa.Value, desc string) { per[ssaFuncName(fn)]++ })
	}
	var names []string
	for n := range per {
		names = append(names, n)
	}
	sort.Strings(names)
	for _, n := range names {
		if !bad[n] {
			r.Ok("C06.R1", n, fmt.Sprintf("%d in-place writes target owned (fresh or caller-owned) storage", per[n]), "-")
		}
	}
	nm := 0
	var muts []string
	for p, s := range f.mutates {
		if len(s) > 0 {
			nm++
			muts = append(muts, ssaFuncName(p.Parent())+"("+p.Name()+")")
		}
	}
	sort.Strings(muts)
	r.Note("C06.R1: %d write sites / mutator call sites examined; mutator summaries: %s", examined, strings.Join(muts, ", "))
	if nm < 3 {
		r.Undecided("C06.R1: only %d mutator summaries derived (expected (*BigMap).Set, (*BigMap).Delete, ...)", nm)
	}
	r.Floor("C06.R1", 12)
	// R3: x + y builds a new container
	objT := c.TypeNamed("object", "Object")
	for _, name := range []string{"State.evalArrayInfixExpression", "State.evalMapInfixExpression"} {
		fn := c.SSAFn(c.Fn("eval", name))
		rets := f.retRoots(fn)
		if len(rets) != 1 {
			r.Undecided("C06.R3: %s does not have a single result", name)
			continue
		}
		n := 0
		for _, p := range fn.Params {
			if !types.Identical(p.Type(), objT) {
				continue
			}
			n++
			r.Check(!rets[0].params[p], "C06.R3", ssaFuncName(fn), "result does not carry the storage of operand "+p.Name(), c.Pos(fn.Pos()),
				"a result of the operator may be (or share the element storage of) operand "+p.Name()+
					": the new value and the operand are then one container, and an in-place update through either binding shows through the other")
		}
		if n != 2 {
			r.Undecided("C06.R3: %s: expected two Object operands, found %d", name, n)
		}
	}
	r.Floor("C06.R3", 4)
	c.checkSiblingSwitches(r, "C06.R2", "array")
	c.checkSiblingSwitches(r, "C06.R2", "map")
	r.Floor("C06.R2", 6)
}

// checkSiblingSwitches: type switches (sequences of comma-ok assertions on one value) that
// name one representation of arrays/maps must name its sibling or the interface too.
func (c *Ctx) checkSiblingSwitches(r *Report, rule, kind string) {
	var small, big, iface types.Type
	if kind == "array" {
		small = c.TypeNamed("object", "SmallArray")
		big = c.TypeNamed("object", "BigArray")
		iface = c.TypeNamed("object", "Array")
	} else {
		small = c.TypeNamed("object", "SmallMap")
		big = types.NewPointer(c.TypeNamed("object", "BigMap"))
		iface = c.TypeNamed("object", "Map")
	}
	for _, fn := range c.ModuleSSAFuncs() {
		// chains of comma-ok assertions on one operand, each in the false successor of the
		// previous test: the shape of `switch x := v.(type)`
		var all []*ssa.TypeAssert
		eachInstr(fn, func(in ssa.Instruction) {
			if ta, ok := in.(*ssa.TypeAssert); ok && ta.CommaOk {
				all = append(all, ta)
			}
		})
		next := map[*ssa.TypeAssert]*ssa.TypeAssert{}
		hasPrev := map[*ssa.TypeAssert]bool{}
		for _, ta := range all {
			ifi, ok := ta.Block().Instrs[len(ta.Block().Instrs)-1].(*ssa.If)
			if !ok {
				continue
			}
			fb := ta.Block().Succs[1]
			_ = ifi
			for _, tb := range all {
				if tb != ta && tb.X == ta.X && tb.Block() == fb {
					next[ta] = tb
					hasPrev[tb] = true
				}
			}
		}
		var groups [][]*ssa.TypeAssert
		for _, ta := range all {
			if hasPrev[ta] {
				continue
			}
			g := []*ssa.TypeAssert{ta}
			for n := next[ta]; n != nil; n = next[n] {
				g = append(g, n)
			}
			groups = append(groups, g)
		}
		for _, tas := range groups {
			if len(tas) < 2 {
				continue // single `if x, ok := v.(SmallArray)` fast paths are not exhaustive switches
			}
			hasS, hasB, hasI := false, false, false
			for _, ta := range tas {
				switch {
				case types.Identical(ta.AssertedType, small):
					hasS = true
				case types.Identical(ta.AssertedType, big):
					hasB = true
				case types.Identical(ta.AssertedType, iface):
					hasI = true
				}
			}
			if !hasS && !hasB {
				continue
			}
			desc := "type switch naming a " + kind + " representation"
			r.Check(hasI || (hasS && hasB), rule, ssaFuncName(fn), desc, c.Pos(tas[0].Pos()),
				fmt.Sprintf("the switch handles only one of the small/large %s representations (small=%v large=%v interface=%v): behaviour differs across the size threshold", kind, hasS, hasB, hasI))
		}
	}
}

func init() {
	register("C06", &propDef{
		explain: "Ownership (freshness) analysis over SSA of every in-place write to container storage ([]Object, []keyValuePair, *BigMap, BigArray): element stores, appends that may reuse spare capacity, copy, slices.Insert/Delete/Grow, sort, and calls to functions summarised as mutating a receiver/argument. A write is accepted only when the target storage is allocated in the function or owned by every caller; otherwise the storage may be visible through another binding (b = a, argument, element of another container) and the write aliases. Plus small/large sibling agreement of type switches. Decides the no-aliasing mechanism for all sizes and sequences; does not decide that copies are complete (value equality).",
		assume:  []string{"no pointer analysis is available: storage not allocated locally or received from all callers as owned is treated as possibly shared", "values loaded from the environment or from containers are shared"},
		run:     runC06,
	})
}
