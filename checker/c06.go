package main

import (
	"fmt"
	"go/token"
	"go/types"
	"sort"
	"strings"

	"golang.org/x/tools/go/ssa"
)

func (c *Ctx) containerFresh() *Fresh {
	objT := c.TypeNamed("object", "Object")
	kv, _ := c.P("object").Types.Scope().Lookup("keyValuePair").(*types.TypeName)
	return NewFresh(c, func(t types.Type) bool {
		if types.Identical(t, objT) {
			return true
		}
		if n, ok := t.(*types.Named); ok && kv != nil && n.Obj() == kv {
			return true
		}
		return false
	})
}

// inPlaceExceptions: accepted in-place writes to non-fresh storage, one named construct each.
var inPlaceExceptions = map[string]string{
	"object.(*Environment).BaseInfo | receiver of object.(*BigMap).Set": "populates the package-level info cache before it is first handed out (guarded by baseInfo.kv == nil); later in-place updates by Info() are reported separately",
}

// refStoreExceptions: element stores of possibly-Reference objects that are not container storage.
var refStoreExceptions = map[string]string{
	"eval.(Cache).Get | element store into []Object": "memoisation key, not a container; reached only for Hashable arguments and Hashable rejects references (its accepted tags are enumerated by C04.R4)",
	"eval.(Cache).Set | element store into []Object": "memoisation key, not a container; reached only for Hashable arguments and Hashable rejects references (its accepted tags are enumerated by C04.R4)",
}

func runC06(c *Ctx, r *Report) {
	r.Rule("C06.R1", "no in-place write (element store, append into spare capacity, copy into, slices.Insert/Delete/Grow, sort, or a call to a function summarised as mutating its receiver/argument) targets container storage that may be visible through another binding; storage is exclusively owned only when allocated in the function or handed in by every caller as such")
	r.Rule("C06.R3", "x + y builds a new container: no result of evalArrayInfixExpression / evalMapInfixExpression may hold storage derived from an operand (ownership roots propagated through Elements, append, slicing, NewArray, the Append methods)")
	r.Rule("C06.R4", "container storage holds values: an object that may be an object.Reference is dereferenced (object.Value) before it is stored into array or map storage; []Object lists that may hold References (argument lists) are followed through slicing, append, variables, returns and parameters, and are clean where they become storage (NewArray and other list-keeping functions, struct fields) only after a full-range sweep l[i] = object.Value(l[i])")
	r.Rule("C06.R2", "small/large sibling agreement: every type switch over array or map representations has arms for both representations (or the interface)")
	r.Rule("C06.R5", "the small/large representation is chosen from the logical length: no comparison against object.MaxSmallArray / object.MaxSmallMap reads cap(), directly or through a local defined from it (the small representation is copied by value, the large one keeps the slice it is handed)")
	c.checkSizeClassByLength(r, "C06.R5")
	r.Floor("C06.R5", 5)
	f := c.containerFresh()
	finds, examined := f.Findings()
	for _, w := range finds {
		key := ssaFuncName(w.Fn) + " | " + w.Desc
		if why, ok := inPlaceExceptions[key]; ok {
			r.OkWhy("C06.R1", ssaFuncName(w.Fn), w.Desc, c.Pos(instrPos(w.At)), "exception: "+why)
			continue
		}
		r.Fail("C06.R1", ssaFuncName(w.Fn), w.Desc, c.Pos(instrPos(w.At)),
			fmt.Sprintf("in-place write to storage that may be shared with another binding (%s); writers reached: %s", w.Root.why, strings.Join(w.Sinks, "; ")))
	}
	// ok obligations: per function, the write sites that target owned storage
	per := map[string]int{}
	bad := map[string]bool{}
	for _, w := range finds {
		bad[ssaFuncName(w.Fn)] = true
	}
	for _, fn := range f.funcs {
		f.rawWrites(fn, func(in ssa.Instruction, target ssa.Value, desc string) { per[ssaFuncName(fn)]++ })
	}
	var names []string
	for n := range per {
		names = append(names, n)
	}
	sort.Strings(names)
	for _, n := range names {
		if !bad[n] {
			r.Ok("C06.R1", n, fmt.Sprintf("%d in-place writes target owned (fresh or caller-owned) storage", per[n]), "-")
		}
	}
	nm := 0
	var muts []string
	for p, s := range f.mutates {
		if len(s) > 0 {
			nm++
			muts = append(muts, ssaFuncName(p.Parent())+"("+p.Name()+")")
		}
	}
	sort.Strings(muts)
	r.Note("C06.R1: %d write sites / mutator call sites examined; mutator summaries: %s", examined, strings.Join(muts, ", "))
	if nm < 3 {
		r.Undecided("C06.R1: only %d mutator summaries derived (expected (*BigMap).Set, (*BigMap).Delete, ...)", nm)
	}
	r.Floor("C06.R1", 12)
	// R3: x + y builds a new container
	objT := c.TypeNamed("object", "Object")
	r3names := []string{}
	for _, name := range []string{"State.evalArrayInfixExpression", "State.evalMapInfixExpression"} {
		if c.FnOpt("eval", name) != nil {
			r3names = append(r3names, name)
		} else if len(r3names) == 0 || r3names[len(r3names)-1] != "State.evalInfixExpression" {
			r3names = append(r3names, "State.evalInfixExpression") // the per-type helper was inlined into the dispatcher
		}
	}
	for _, name := range r3names {
		fn := c.SSAFn(c.Fn("eval", name))
		rets := f.retRoots(fn)
		if len(rets) != 1 {
			r.Undecided("C06.R3: %s does not have a single result", name)
			continue
		}
		n := 0
		for _, p := range fn.Params {
			if !types.Identical(p.Type(), objT) {
				continue
			}
			n++
			r.Check(!rets[0].params[p], "C06.R3", ssaFuncName(fn), "result does not carry the storage of operand "+p.Name(), c.Pos(fn.Pos()),
				"a result of the operator may be (or share the element storage of) operand "+p.Name()+
					": the new value and the operand are then one container, and an in-place update through either binding shows through the other")
		}
		if n != 2 {
			r.Undecided("C06.R3: %s: expected two Object operands, found %d", name, n)
		}
	}
	r.Floor("C06.R3", 2*len(r3names))

	// R4: container storage holds values, not References
	{
		rl := c.NewRefLists()
		for _, sk := range rl.Sinks() {
			r.Check(!sk.Raw, "C06.R4", ssaFuncName(sk.Fn), sk.Desc, c.Pos(instrPos(sk.At)),
				"the list may still hold an object.Reference (an alias of a variable in an outer scope, as returned by evalIdentifier for a name read inside a function) when it becomes array storage: the element then changes whenever that variable is assigned (x=1; func f(){[x]}; a=f(); x=2; a is [2])")
		}
		finds, _ := rl.obj.Findings()
		for _, f := range finds {
			key := ssaFuncName(f.Fn) + " | " + f.Desc
			if why, ok := refStoreExceptions[key]; ok {
				r.OkWhy("C06.R4", ssaFuncName(f.Fn), f.Desc, c.Pos(instrPos(f.At)), "exception: "+why)
				continue
			}
			// the same exception wherever the key is built: a store into the Args array of an eval.CacheKey of a
			// value on the true edge of Hashable(value)
			if st, ok := f.At.(*ssa.Store); ok {
				if ia, ok := st.Addr.(*ssa.IndexAddr); ok {
					if fa, ok := ia.X.(*ssa.FieldAddr); ok {
						if n := namedStruct(fa.X.Type()); n != nil && n.Obj().Name() == "CacheKey" && shortPkg(n.Obj().Pkg()) == "eval" {
							hashable := c.Fn("object", "Hashable")
							guarded := false
							for _, cc := range controlling(st.Block()) {
								cond, edge := cc.Cond, cc.Edge
								if u, ok := cond.(*ssa.UnOp); ok && u.Op == token.NOT {
									cond, edge = u.X, 1-edge
								}
								if hc, ok := cond.(*ssa.Call); ok && isCallTo(hc, hashable) && hc.Common().Args[0] == st.Val && edge == 0 {
									guarded = true
								}
							}
							if guarded {
								r.OkWhy("C06.R4", ssaFuncName(f.Fn), f.Desc, c.Pos(instrPos(f.At)), "exception: memoisation key, not a container; stored only on the true edge of Hashable(value), and Hashable rejects references (C04.R4)")
								continue
							}
						}
					}
				}
			}
			if st, ok := f.At.(*ssa.Store); ok {
				if ia, ok := st.Addr.(*ssa.IndexAddr); ok {
					switch ia.X.(type) {
					case *ssa.Alloc, *ssa.MakeSlice:
						r.OkWhy("C06.R4", ssaFuncName(f.Fn), f.Desc+" (local list)", c.Pos(instrPos(f.At)), "the target is a list built in this function: tracked as a list that may hold References up to the places where lists become storage")
						continue
					}
				}
			}
			r.Fail("C06.R4", ssaFuncName(f.Fn), f.Desc, c.Pos(instrPos(f.At)), "an object that may be an object.Reference is stored into container storage without object.Value: the stored element aliases a variable of an outer scope; reached: "+strings.Join(f.Sinks, "; "))
		}
		r.Floor("C06.R4", 20)
	}
	r.Rule("C11.R8", "(shared with C11) a locally built BigArray is boxed as a program value only in object.NewArray, which tests the length: a short array made any other way shares its storage with its source")
	c.checkBigArrayOnlyFromNewArray(r, "C11.R8")
	c.checkSiblingSwitches(r, "C06.R2", "array")
	c.checkSiblingSwitches(r, "C06.R2", "map")
	r.Floor("C06.R2", 6)
}

// checkSiblingSwitches: type switches (sequences of comma-ok assertions on one value) that
// name one representation of arrays/maps must name its sibling or the interface too.
func (c *Ctx) checkSiblingSwitches(r *Report, rule, kind string) {
	var small, big, iface types.Type
	if kind == "array" {
		small = c.TypeNamed("object", "SmallArray")
		big = c.TypeNamed("object", "BigArray")
		iface = c.TypeNamed("object", "Array")
	} else {
		small = c.TypeNamed("object", "SmallMap")
		big = types.NewPointer(c.TypeNamed("object", "BigMap"))
		iface = c.TypeNamed("object", "Map")
	}
	for _, fn := range c.ModuleSSAFuncs() {
		// chains of comma-ok assertions on one operand, each in the false successor of the
		// previous test: the shape of `switch x := v.(type)`
		var all []*ssa.TypeAssert
		eachInstr(fn, func(in ssa.Instruction) {
			if ta, ok := in.(*ssa.TypeAssert); ok && ta.CommaOk {
				all = append(all, ta)
			}
		})
		next := map[*ssa.TypeAssert]*ssa.TypeAssert{}
		hasPrev := map[*ssa.TypeAssert]bool{}
		for _, ta := range all {
			ifi, ok := ta.Block().Instrs[len(ta.Block().Instrs)-1].(*ssa.If)
			if !ok {
				continue
			}
			fb := ta.Block().Succs[1]
			_ = ifi
			for _, tb := range all {
				if tb != ta && tb.X == ta.X && tb.Block() == fb {
					next[ta] = tb
					hasPrev[tb] = true
				}
			}
		}
		var groups [][]*ssa.TypeAssert
		for _, ta := range all {
			if hasPrev[ta] {
				continue
			}
			g := []*ssa.TypeAssert{ta}
			for n := next[ta]; n != nil; n = next[n] {
				g = append(g, n)
			}
			groups = append(groups, g)
		}
		for _, tas := range groups {
			if len(tas) < 2 {
				continue // single `if x, ok := v.(SmallArray)` fast paths are not exhaustive switches
			}
			hasS, hasB, hasI := false, false, false
			for _, ta := range tas {
				switch {
				case types.Identical(ta.AssertedType, small):
					hasS = true
				case types.Identical(ta.AssertedType, big):
					hasB = true
				case types.Identical(ta.AssertedType, iface):
					hasI = true
				}
			}
			if !hasS && !hasB {
				continue
			}
			desc := "type switch naming a " + kind + " representation"
			r.Check(hasI || (hasS && hasB), rule, ssaFuncName(fn), desc, c.Pos(tas[0].Pos()),
				fmt.Sprintf("the switch handles only one of the small/large %s representations (small=%v large=%v interface=%v): behaviour differs across the size threshold", kind, hasS, hasB, hasI))
		}
	}
}

func init() {
	register("C06", &propDef{
		explain: "Ownership (freshness) analysis over SSA of every in-place write to container storage ([]Object, []keyValuePair, *BigMap, BigArray): element stores, appends that may reuse spare capacity, copy, slices.Insert/Delete/Grow, sort, and calls to functions summarised as mutating a receiver/argument. A write is accepted only when the target storage is allocated in the function or owned by every caller; otherwise the storage may be visible through another binding (b = a, argument, element of another container) and the write aliases. Plus small/large sibling agreement of type switches. Decides the no-aliasing mechanism for all sizes and sequences; does not decide that copies are complete (value equality). Also: x + y never returns storage derived from an operand (ownership roots with parameter sets), and container storage holds values, not References: []Object lists that may hold References are tracked interprocedurally to every place a list becomes array storage, with full-range Value() sweeps as the only cleaner.",
		assume:  []string{"no pointer analysis is available: storage not allocated locally or received from all callers as owned is treated as possibly shared", "values loaded from the environment or from containers are shared"},
		run:     runC06,
	})
}

// referenceSpec: objects that may be an object.Reference (an alias of a binding in an outer
// environment, created by makeRef and returned by Get) must be dereferenced before they are
// stored into container storage. Binding stores are the mechanism itself and are not sinks here.
func (c *Ctx) referenceSpec() TaintSpec {
	refT := c.TypeNamed("object", "Reference")
	objT := c.TypeNamed("object", "Object")
	kvT := c.P("object").Types.Scope().Lookup("keyValuePair")
	san := map[*types.Func]bool{
		c.Fn("object", "Value"):              true,
		c.Fn("object", "Reference.ObjValue"): true,
	}
	isObj := func(t types.Type) bool { return types.Identical(t, objT) }
	refTag := c.tagConst("REFERENCE")
	return TaintSpec{
		Name: "reference",
		Source: func(v ssa.Value) bool {
			mi, ok := v.(*ssa.MakeInterface)
			return ok && types.Identical(mi.X.Type(), refT)
		},
		Sanitizer: func(f *types.Func) bool { return san[f] },
		CleanAt: func(v ssa.Value, use ssa.Instruction) bool {
			if tags, known := c.tagsAt(v, use.Block()); known && !tags[refTag] {
				return true
			}
			// on the false edge of `_, ok := v.(object.Reference)`
			for _, cc := range controlling(use.Block()) {
				if ex, ok := cc.Cond.(*ssa.Extract); ok && ex.Index == 1 && cc.Edge == 1 {
					if ta, ok := ex.Tuple.(*ssa.TypeAssert); ok && ta.CommaOk && ta.X == v && types.Identical(ta.AssertedType, refT) {
						return true
					}
				}
			}
			return false
		},
		StorageStruct: func(n *types.Named) bool { return kvT != nil && n.Obj() == kvT },
		Carrier: func(t types.Type) bool {
			it, ok := t.Underlying().(*types.Interface)
			return ok && types.Implements(refT, it)
		},
		RawSink: func(in ssa.Instruction) (ssa.Value, string) {
			isKV := func(t types.Type) bool {
				n, ok := t.(*types.Named)
				return ok && kvT != nil && n.Obj() == kvT
			}
			elemOf := func(a *ssa.IndexAddr) types.Type {
				switch u := a.X.Type().Underlying().(type) {
				case *types.Slice:
					return u.Elem()
				case *types.Pointer:
					if arr, ok := u.Elem().Underlying().(*types.Array); ok {
						return arr.Elem()
					}
				}
				return nil
			}
			if x, ok := in.(*ssa.Store); ok {
				switch a := x.Addr.(type) {
				case *ssa.IndexAddr:
					elem := elemOf(a)
					if elem != nil && isObj(elem) {
						return x.Val, "element store into []Object"
					}
					if elem != nil && isKV(elem) {
						return x.Val, "key/value pair store into map storage"
					}
				case *ssa.FieldAddr:
					if ia, ok := a.X.(*ssa.IndexAddr); ok {
						if elem := elemOf(ia); elem != nil && isKV(elem) {
							st := elem.Underlying().(*types.Struct)
							return x.Val, "store into map storage pair ." + st.Field(a.Field).Name()
						}
					}
				}
			}
			return nil, ""
		},
	}
}

func init() {
	dumpers["reftaint"] = func(c *Ctx) {
		t := NewTaint(c, c.referenceSpec())
		finds, checked := t.Findings()
		fmt.Println("checked", checked)
		for _, f := range finds {
			fmt.Printf("%s | %s | %s | sinks: %s\n", ssaFuncName(f.Fn), f.Desc, c.Pos(instrPos(f.At)), strings.Join(f.Sinks, "; "))
		}
	}
}
