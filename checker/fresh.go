package main

// fresh: ownership analysis for container storage ([]Object, []keyValuePair, *BigMap, BigArray).
// A storage root is Fresh (allocated in this function, exclusively owned), derived from
// parameters (the callers' obligation), or Shared (may be visible through another binding).
// In-place writes to Shared storage are findings; writes to parameter-derived storage make
// the function a mutator of that parameter and move the obligation to its call sites.

import (
	"fmt"
	"go/types"
	"sort"

	"golang.org/x/tools/go/ssa"
	"golang.org/x/tools/go/ssa/ssautil"
)

type rootKind int

const (
	rFresh rootKind = iota
	rParam
	rShared
)

type root struct {
	kind   rootKind
	params map[*ssa.Parameter]bool
	why    string
}

func freshRoot() root            { return root{kind: rFresh} }
func sharedRoot(why string) root { return root{kind: rShared, why: why} }
func paramRoot(p *ssa.Parameter) root {
	return root{kind: rParam, params: map[*ssa.Parameter]bool{p: true}}
}

func (a root) join(b root) root {
	// the parameter set is carried in every kind: "may also hold storage of these parameters"
	var m map[*ssa.Parameter]bool
	if len(a.params)+len(b.params) > 0 {
		m = map[*ssa.Parameter]bool{}
		for p := range a.params {
			m[p] = true
		}
		for p := range b.params {
			m[p] = true
		}
	}
	switch {
	case a.kind == rShared:
		return root{kind: rShared, why: a.why, params: m}
	case b.kind == rShared:
		return root{kind: rShared, why: b.why, params: m}
	case a.kind == rFresh && b.kind == rFresh:
		return root{kind: rFresh}
	}
	return root{kind: rParam, params: m}
}

type Fresh struct {
	c       *Ctx
	storage func(t types.Type) bool // element types of container storage
	funcs   []*ssa.Function
	// mutates: parameter -> descriptions of in-place writes to storage derived from it
	mutates map[*ssa.Parameter]map[string]bool
	retMemo map[*ssa.Function][]root
	inRet   map[*ssa.Function]bool
}

func NewFresh(c *Ctx, storage func(t types.Type) bool) *Fresh {
	f := &Fresh{c: c, storage: storage, mutates: map[*ssa.Parameter]map[string]bool{}, retMemo: map[*ssa.Function][]root{}, inRet: map[*ssa.Function]bool{}}
	f.funcs = c.ModuleSSAFuncs()
	// include synthetic wrappers of module methods (pointer wrappers of value methods, bound
	// method closures): interface invokes may dispatch to them
	have := map[*ssa.Function]bool{}
	for _, fn := range f.funcs {
		have[fn] = true
	}
	var extra []*ssa.Function
	for fn := range ssautil.AllFunctions(c.SSA()) {
		if !have[fn] && fn.Blocks != nil && fn.Synthetic != "" && isModuleSSA(fn) {
			extra = append(extra, fn)
		}
	}
	sort.Slice(extra, func(i, j int) bool { return extra[i].String() < extra[j].String() })
	f.funcs = append(f.funcs, extra...)
	f.solve()
	return f
}

func (f *Fresh) callees(call ssa.CallInstruction) []*ssa.Function {
	cc := call.Common()
	if sc := cc.StaticCallee(); sc != nil {
		if isModuleSSA(sc) && sc.Blocks != nil {
			return []*ssa.Function{sc}
		}
		return nil
	}
	if !cc.IsInvoke() {
		return nil
	}
	var res []*ssa.Function
	node := f.c.CG().g.Nodes[call.Parent()]
	if node == nil {
		return nil
	}
	for _, e := range node.Out {
		if e.Site == call && e.Callee.Func.Blocks != nil {
			fn := e.Callee.Func
			// look through synthetic pointer wrappers of value methods: they copy the receiver
			res = append(res, fn)
		}
	}
	return res
}

// rootOf computes the ownership root of the storage a value (slice, pointer, struct holding
// slices, interface holding those) refers to.
func (f *Fresh) rootOf(v ssa.Value, seen map[ssa.Value]bool) root {
	if v == nil || !canHoldStorage(v.Type()) {
		return freshRoot()
	}
	if seen[v] {
		return freshRoot()
	}
	seen[v] = true
	switch x := v.(type) {
	case *ssa.Const:
		return freshRoot() // nil slice / zero value
	case *ssa.Alloc:
		// a locally allocated struct that holds container storage (BigMap, BigArray) is only as
		// exclusively owned as the slices stored into it: &BigMap{kv: m.kv} shares m's storage
		r := freshRoot()
		if f.holdsStorage(x.Type()) {
			for _, ref := range *x.Referrers() {
				fa, ok := ref.(*ssa.FieldAddr)
				if !ok {
					continue
				}
				if _, isSlice := fa.Type().(*types.Pointer).Elem().Underlying().(*types.Slice); !isSlice {
					continue
				}
				for _, r2 := range *fa.Referrers() {
					if st, ok := r2.(*ssa.Store); ok && st.Addr == ssa.Value(fa) {
						r = r.join(f.rootOf(st.Val, seen))
					}
				}
			}
		}
		return r
	case *ssa.MakeSlice, *ssa.MakeMap:
		return freshRoot()
	case *ssa.Parameter:
		return paramRoot(x)
	case *ssa.Global:
		return sharedRoot("package-level variable " + x.Name())
	case *ssa.FreeVar:
		return sharedRoot("captured variable " + x.Name())
	case *ssa.IndexAddr:
		return f.rootOf(x.X, seen)
	case *ssa.FieldAddr:
		return f.rootOf(x.X, seen)
	case *ssa.Slice:
		return f.rootOf(x.X, seen)
	case *ssa.Convert:
		return f.rootOf(x.X, seen)
	case *ssa.ChangeType:
		return f.rootOf(x.X, seen)
	case *ssa.ChangeInterface:
		return f.rootOf(x.X, seen)
	case *ssa.MakeInterface:
		return f.rootOf(x.X, seen)
	case *ssa.TypeAssert:
		return f.rootOf(x.X, seen)
	case *ssa.Field:
		return f.rootOf(x.X, seen)
	case *ssa.Index:
		return f.rootOf(x.X, seen)
	case *ssa.Phi:
		r := freshRoot()
		for _, e := range x.Edges {
			r = r.join(f.rootOf(e, seen))
		}
		return r
	case *ssa.Extract:
		switch tu := x.Tuple.(type) {
		case *ssa.Call:
			return f.callRoot(tu, x.Index, seen)
		case *ssa.TypeAssert:
			return f.rootOf(tu.X, seen)
		case *ssa.Lookup:
			return sharedRoot("value read from a map")
		}
		return sharedRoot("tuple of " + x.Tuple.String())
	case *ssa.Call:
		return f.callRoot(x, 0, seen)
	case *ssa.Lookup:
		return sharedRoot("value read from a map")
	case *ssa.UnOp:
		return f.loadRoot(x.X, seen)
	}
	return sharedRoot("value " + v.String())
}

// canHoldStorage: values of basic types (ints, strings, bools) cannot refer to container storage.
func canHoldStorage(t types.Type) bool {
	switch u := t.Underlying().(type) {
	case *types.Basic:
		return false
	case *types.Signature:
		return false
	case *types.Struct:
		for i := 0; i < u.NumFields(); i++ {
			if canHoldStorage(u.Field(i).Type()) {
				return true
			}
		}
		return false
	case *types.Array:
		return canHoldStorage(u.Elem())
	}
	return true
}

// loadRoot: the root of the value stored at addr.
func (f *Fresh) loadRoot(addr ssa.Value, seen map[ssa.Value]bool) root {
	switch a := addr.(type) {
	case *ssa.Alloc:
		r := freshRoot()
		for _, ref := range *a.Referrers() {
			if st, ok := ref.(*ssa.Store); ok && st.Addr == a && canHoldStorage(st.Val.Type()) {
				r = r.join(f.rootOf(st.Val, seen))
			}
		}
		// field-wise assembled struct
		for _, ref := range *a.Referrers() {
			if fa, ok := ref.(*ssa.FieldAddr); ok {
				for _, r2 := range *fa.Referrers() {
					if st, ok := r2.(*ssa.Store); ok && st.Addr == fa && canHoldStorage(st.Val.Type()) {
						r = r.join(f.rootOf(st.Val, seen))
					}
				}
			}
		}
		return r
	case *ssa.FieldAddr:
		base := f.rootOf(a.X, seen)
		if base.kind != rFresh {
			return base // field of parameter-derived / shared struct
		}
		// field of a locally allocated struct: join of what is stored there
		al := baseAlloc(a.X)
		if al == nil {
			return sharedRoot("field of " + a.X.String())
		}
		r := freshRoot()
		for _, ref := range *al.Referrers() {
			switch y := ref.(type) {
			case *ssa.FieldAddr:
				if y.Field != a.Field {
					continue
				}
				for _, r2 := range *y.Referrers() {
					if st, ok := r2.(*ssa.Store); ok && st.Addr == y {
						r = r.join(f.rootOf(st.Val, seen))
					}
				}
			case *ssa.Store:
				if y.Addr == al {
					r = r.join(f.rootOf(y.Val, seen)) // whole struct copied in
				}
			}
		}
		return r
	case *ssa.IndexAddr:
		// an element read out of a container: whatever it refers to is shared with the container
		return sharedRoot("element loaded from a container")
	case *ssa.Parameter:
		return paramRoot(a) // struct loaded through a pointer parameter: shallow copy
	case *ssa.Call:
		if bi, ok := a.Common().Value.(*ssa.Builtin); ok && bi.Name() == "ssa:wrapnilchk" {
			return f.loadRoot(a.Common().Args[0], seen)
		}
	case *ssa.Global:
		return sharedRoot("package-level variable " + a.Name())
	case *ssa.FreeVar:
		return sharedRoot("captured variable " + a.Name())
	}
	return sharedRoot("load of " + addr.String())
}

func baseAlloc(v ssa.Value) *ssa.Alloc {
	for i := 0; i < 6; i++ {
		switch x := v.(type) {
		case *ssa.Alloc:
			return x
		case *ssa.FieldAddr:
			v = x.X
		case *ssa.IndexAddr:
			v = x.X
		default:
			return nil
		}
	}
	return nil
}

var freshStd = map[string]bool{"slices.Clone": true, "bytes.Clone": true, "strings.Clone": true, "slices.Collect": true, "slices.Concat": true}
var sameStd = map[string]bool{"slices.Grow": true, "slices.Insert": true, "slices.Delete": true, "slices.Clip": true, "slices.Compact": true, "slices.Replace": true, "slices.DeleteFunc": true}

func stdName(call ssa.CallInstruction) string {
	obj := calleeObj(call)
	if obj == nil || obj.Pkg() == nil {
		return ""
	}
	return obj.Pkg().Path() + "." + obj.Name()
}

func (f *Fresh) callRoot(call *ssa.Call, idx int, seen map[ssa.Value]bool) root {
	cc := call.Common()
	if bi, ok := cc.Value.(*ssa.Builtin); ok {
		switch bi.Name() {
		case "append":
			return f.rootOf(cc.Args[0], seen) // same backing array when capacity allows
		case "make", "new":
			return freshRoot()
		case "ssa:wrapnilchk":
			return f.rootOf(cc.Args[0], seen)
		}
		return freshRoot()
	}
	name := stdName(call)
	if freshStd[name] {
		return freshRoot()
	}
	if sameStd[name] && len(cc.Args) > 0 {
		return f.rootOf(cc.Args[0], seen)
	}
	callees := f.callees(call)
	if len(callees) == 0 {
		return sharedRoot("result of " + nameOfCallee(call))
	}
	r := freshRoot()
	for _, callee := range callees {
		rets := f.retRoots(callee)
		if idx >= len(rets) {
			return sharedRoot("result of " + nameOfCallee(call))
		}
		rr := rets[idx]
		if len(rr.params) > 0 {
			args := cc.Args
			if cc.IsInvoke() {
				args = append([]ssa.Value{cc.Value}, args...)
			}
			for i, p := range callee.Params {
				if rr.params[p] && i < len(args) {
					r = r.join(f.rootOf(args[i], seen))
				}
			}
		}
		if rr.kind == rShared {
			r = r.join(sharedRoot("result of " + ssaFuncName(callee) + ": " + rr.why))
		}
	}
	return r
}

// retRoots: roots of a function's results in terms of its own parameters.
func (f *Fresh) retRoots(fn *ssa.Function) []root {
	if r, ok := f.retMemo[fn]; ok {
		return r
	}
	n := fn.Signature.Results().Len()
	res := make([]root, n)
	if f.inRet[fn] {
		for i := range res {
			res[i] = freshRoot() // optimistic on recursion; fixed by the outer call
		}
		return res
	}
	f.inRet[fn] = true
	eachInstr(fn, func(in ssa.Instruction) {
		ret, ok := in.(*ssa.Return)
		if !ok {
			return
		}
		for i := range ret.Results {
			res[i] = res[i].join(f.rootOf(retVal(ret, i), map[ssa.Value]bool{}))
		}
	})
	delete(f.inRet, fn)
	f.retMemo[fn] = res
	return res
}

type FreshWrite struct {
	Fn    *ssa.Function
	At    ssa.Instruction
	Desc  string
	Root  root
	Sinks []string
}

func (f *Fresh) elemOf(t types.Type) types.Type {
	switch u := t.Underlying().(type) {
	case *types.Slice:
		return u.Elem()
	case *types.Pointer:
		if arr, ok := u.Elem().Underlying().(*types.Array); ok {
			return arr.Elem()
		}
	case *types.Array:
		return u.Elem()
	}
	return nil
}

// rawWrites lists in-place writes to container storage in fn: (instruction, written storage value, description).
func (f *Fresh) rawWrites(fn *ssa.Function, visit func(in ssa.Instruction, target ssa.Value, desc string)) {
	eachInstr(fn, func(in ssa.Instruction) {
		switch x := in.(type) {
		case *ssa.Store:
			var ia *ssa.IndexAddr
			switch a := x.Addr.(type) {
			case *ssa.IndexAddr:
				ia = a
			case *ssa.FieldAddr:
				ia, _ = a.X.(*ssa.IndexAddr)
			}
			if ia != nil {
				if e := f.elemOf(ia.X.Type()); e != nil && f.storage(e) {
					visit(in, ia.X, "element store")
				}
			}
		case *ssa.Call:
			cc := x.Common()
			if bi, ok := cc.Value.(*ssa.Builtin); ok {
				switch bi.Name() {
				case "append":
					// s[lo:hi:hi] has no spare capacity: append copies before writing
					if sl, ok := cc.Args[0].(*ssa.Slice); ok && sl.Max != nil && sl.High != nil && (sl.Max == sl.High || sameValue(sl.Max, sl.High)) {
						return
					}
					if e := f.elemOf(cc.Args[0].Type()); e != nil && f.storage(e) {
						visit(in, cc.Args[0], "append (may write into spare capacity)")
					}
				case "copy":
					if e := f.elemOf(cc.Args[0].Type()); e != nil && f.storage(e) {
						visit(in, cc.Args[0], "copy into")
					}
				}
				return
			}
			if name := stdName(x); sameStd[name] && len(cc.Args) > 0 {
				if e := f.elemOf(cc.Args[0].Type()); e != nil && f.storage(e) {
					visit(in, cc.Args[0], name+" (writes in place)")
				}
			}
			if name := stdName(x); (name == "sort.Sort" || name == "sort.Stable" || name == "slices.Sort" || name == "slices.SortFunc" || name == "slices.SortStableFunc" || name == "slices.Reverse") && len(cc.Args) > 0 {
				t := cc.Args[0].Type()
				if mi, ok := cc.Args[0].(*ssa.MakeInterface); ok {
					t = mi.X.Type()
				}
				if e := f.elemOf(t); (e != nil && f.storage(e)) || f.holdsStorage(t) {
					visit(in, cc.Args[0], name+" (reorders in place)")
				}
			}
		}
	})
}

// holdsStorage: a struct type with a slice field of storage elements (BigArray, BigMap).
func (f *Fresh) holdsStorage(t types.Type) bool {
	if p, ok := t.Underlying().(*types.Pointer); ok {
		t = p.Elem()
	}
	st, ok := t.Underlying().(*types.Struct)
	if !ok {
		return false
	}
	for i := 0; i < st.NumFields(); i++ {
		if e := f.elemOf(st.Field(i).Type()); e != nil && f.storage(e) {
			if _, isSlice := st.Field(i).Type().Underlying().(*types.Slice); isSlice {
				return true
			}
		}
	}
	return false
}

func (f *Fresh) addMut(p *ssa.Parameter, s string) bool {
	if f.mutates[p] == nil {
		f.mutates[p] = map[string]bool{}
	}
	if f.mutates[p][s] {
		return false
	}
	f.mutates[p][s] = true
	return true
}

func (f *Fresh) solve() {
	for round := 0; round < 30; round++ {
		changed := false
		for _, fn := range f.funcs {
			f.rawWrites(fn, func(in ssa.Instruction, target ssa.Value, desc string) {
				r := f.rootOf(target, map[ssa.Value]bool{})
				if r.kind == rParam {
					for p := range r.params {
						if p.Parent() == fn && f.addMut(p, ssaFuncName(fn)+": "+desc) {
							changed = true
						}
					}
				}
			})
			eachInstr(fn, func(in ssa.Instruction) {
				call, ok := in.(ssa.CallInstruction)
				if !ok {
					return
				}
				cc := call.Common()
				for _, callee := range f.callees(call) {
					args := cc.Args
					if cc.IsInvoke() {
						args = append([]ssa.Value{cc.Value}, args...)
					}
					for i, p := range callee.Params {
						if i >= len(args) || len(f.mutates[p]) == 0 {
							continue
						}
						r := f.rootOf(args[i], map[ssa.Value]bool{})
						if r.kind == rParam {
							for q := range r.params {
								if q.Parent() != fn {
									continue
								}
								for s := range f.mutates[p] {
									if f.addMut(q, s) {
										changed = true
									}
								}
							}
						}
					}
				}
			})
		}
		if !changed {
			break
		}
	}
}

// Findings: in-place writes (raw or through mutator calls) whose target storage is Shared,
// reported where the shared value enters. Also returns the number of write sites examined.
func (f *Fresh) Findings() (res []FreshWrite, examined int) {
	for _, fn := range f.funcs {
		f.rawWrites(fn, func(in ssa.Instruction, target ssa.Value, desc string) {
			examined++
			r := f.rootOf(target, map[ssa.Value]bool{})
			if r.kind == rShared {
				res = append(res, FreshWrite{Fn: fn, At: in, Desc: desc, Root: r, Sinks: []string{ssaFuncName(fn) + ": " + desc}})
			}
		})
		eachInstr(fn, func(in ssa.Instruction) {
			call, ok := in.(ssa.CallInstruction)
			if !ok {
				return
			}
			cc := call.Common()
			seenDesc := map[string]int{}
			for _, callee := range f.callees(call) {
				args := cc.Args
				if cc.IsInvoke() {
					args = append([]ssa.Value{cc.Value}, args...)
				}
				for i, p := range callee.Params {
					if i >= len(args) || len(f.mutates[p]) == 0 {
						continue
					}
					examined++
					r := f.rootOf(args[i], map[ssa.Value]bool{})
					if r.kind != rShared {
						continue
					}
					var ss []string
					for s := range f.mutates[p] {
						ss = append(ss, s)
					}
					sort.Strings(ss)
					name := ssaFuncName(callee)
					argn := fmt.Sprintf("arg %d", i)
					if cc.IsInvoke() {
						name = "(" + typeShort(cc.Value.Type()) + ")." + cc.Method.Name()
						if i == 0 {
							argn = "receiver"
						} else {
							argn = fmt.Sprintf("arg %d", i-1)
						}
					} else if callee.Signature.Recv() != nil && i == 0 {
						argn = "receiver"
					}
					d := argn + " of " + name
					if j, ok := seenDesc[d]; ok {
						res[j].Sinks = mergeSorted(res[j].Sinks, ss)
						continue
					}
					seenDesc[d] = len(res)
					res = append(res, FreshWrite{Fn: fn, At: in, Desc: d, Root: r, Sinks: ss})
				}
			}
		})
	}
	return res, examined
}
