package main

import (
	"go/types"
	"strings"

	"golang.org/x/tools/go/callgraph"
	"golang.org/x/tools/go/ssa"
)

// formatterReach: functions that can influence formatter output.
func (c *Ctx) formatterReach() map[*ssa.Function]bool {
	var roots []*ssa.Function
	for _, fn := range c.ModuleSSAFuncs() {
		if fn.Name() == "PrettyPrint" && fn.Signature.Recv() != nil {
			roots = append(roots, fn)
		}
	}
	for _, n := range []struct{ p, f string }{{"parser", "Parser.ParseProgram"}, {"parser", "New"}, {"lexer", "Lexer.NextToken"}, {"object", "Function.Inspect"}, {"object", "SetCacheKey"}, {"ast", "DebugString"}} {
		roots = append(roots, c.SSAFn(c.Fn(n.p, n.f)))
	}
	taken := map[*ssa.Function]bool{}
	for _, fn := range c.ModuleSSAFuncs() {
		eachInstr(fn, func(in ssa.Instruction) {
			var ops []*ssa.Value
			ops = in.Operands(ops)
			for i, op := range ops {
				if *op == nil {
					continue
				}
				if f, ok := (*op).(*ssa.Function); ok {
					if call, isCall := in.(ssa.CallInstruction); isCall && i == 0 && call.Common().Value == *op {
						continue
					}
					taken[f] = true
				}
			}
		})
	}
	return c.CG().Reach(roots, func(e *callgraph.Edge) bool {
		if e.Site == nil {
			return true
		}
		cc := e.Site.Common()
		if cc.IsInvoke() || cc.StaticCallee() != nil {
			return true
		}
		// calls through function values on the formatter path are the parser's registries, which
		// hold parser methods only (resolved one by one by the token-state engine): same package
		return taken[e.Callee.Func] && samePackage(e.Caller.Func, e.Callee.Func)
	}, func(f *ssa.Function) bool { return !isModuleSSA(f) })
}

func runC03(c *Ctx, r *Report) {
	r.Rule("C03.R6", "token text is printed verbatim: in package ast no result of a Literal() method reaches a text-transforming function (strings.Replace*/Trim*/To*/Map/Title/Fields/Split*/Join, fmt.Sprint(f)) on its way to the output")
	c.checkLiteralsPrintedVerbatim(r, "C03.R6")
	r.Rule("C03.R7", "what the printer folds the parser reads back: in parseIfExpression, on the edge where `if` follows `else`, the alternative is parsed by parseIfExpression and nothing wider")
	c.checkElseIfParsedAsIf(r, "C03.R7")
	r.Rule("C03.R8", "sibling guards agree: in parseExpression the tests that accompany `next token is (` and `next token is [` (whitespace seen before it) use the same predicates")
	c.checkSiblingWhitespaceGuards(r, "C03.R8")
	r.Rule("C16.R7", "(shared with C16) token text is an owned copy: none of the front-end packages imports unsafe, so the text of a parsed program cannot change when the caller reuses its input buffer (formatting it again would print other identifiers)")
	c.checkOwnedTokenText(r, "C16.R7")
	r.Rule("C03.R1", "determinism: no function that can influence formatter output (printers, parser, lexer, function text/cache key) ranges over a Go map, reads the clock, a random source or the environment, or starts a goroutine; the map literal is printed through its recorded key order")
	r.Rule("C03.R3", "normal-mode output ends with exactly one newline: the outermost Statements.PrettyPrint ends with Println on every path and emits nothing after it at the top level")
	r.Rule("C02.R2", "(shared) operator printers consult precedence: output that re-parses to a different tree is not a fixpoint")
	r.Rule("C02.R5", "(shared) statement separation and the previous-sibling typestate")
	r.Rule("C02.R6", "(shared) a value-less return ends its block (its printed form absorbs a following statement)")
	r.Rule("C02.R4", "(shared) every escape the printer emits is decoded to the bytes it denotes (otherwise the second pass prints a different literal)")
	r.Rule("C02.R7", "(shared) printers restore the enclosing precedence")

	reach := c.formatterReach()
	if len(reach) < 80 {
		r.Undecided("C03.R1: only %d functions on the formatter path", len(reach))
	}
	nMapRangesModule := 0
	for _, fn := range c.ModuleSSAFuncs() {
		eachInstr(fn, func(in ssa.Instruction) {
			if rg, ok := in.(*ssa.Range); ok {
				if _, isMap := rg.X.Type().Underlying().(*types.Map); isMap {
					nMapRangesModule++
				}
			}
		})
	}
	if nMapRangesModule < 5 {
		r.Undecided("C03.R1 control: the map-range detector sees only %d map ranges in the whole module (expected >= 5: SaveGlobals, Info, BaseInfo, RegisterTrie, ...)", nMapRangesModule)
	}
	r.Note("C03.R1 control: %d map ranges exist in the module (none may be on the formatter path)", nMapRangesModule)
	for _, fn := range sortedFuncs(reach) {
		var bad []string
		eachInstr(fn, func(in ssa.Instruction) {
			switch x := in.(type) {
			case *ssa.Range:
				if _, isMap := x.X.Type().Underlying().(*types.Map); isMap {
					bad = append(bad, "ranges over a map at "+c.Pos(x.Pos()))
				}
			case *ssa.Go:
				bad = append(bad, "starts a goroutine at "+c.Pos(x.Pos()))
			case *ssa.Call:
				obj := calleeObj(x)
				if obj == nil || obj.Pkg() == nil {
					return
				}
				switch obj.Pkg().Path() {
				case "time":
					if obj.Name() == "Now" || obj.Name() == "Since" {
						bad = append(bad, "reads the clock at "+c.Pos(x.Pos()))
					}
				case "math/rand", "math/rand/v2", "crypto/rand":
					bad = append(bad, "uses a random source at "+c.Pos(x.Pos()))
				case "os":
					if obj.Name() == "Getenv" || obj.Name() == "LookupEnv" || obj.Name() == "Environ" {
						bad = append(bad, "reads the environment at "+c.Pos(x.Pos()))
					}
				}
			}
		})
		if len(bad) > 0 {
			r.Fail("C03.R1", ssaFuncName(fn), "no unordered or ambient input", c.Pos(fn.Pos()), "a function on the formatter path "+strings.Join(bad, "; ")+": the same input can format to different bytes from run to run")
		} else {
			r.Ok("C03.R1", ssaFuncName(fn), "no unordered or ambient input", c.Pos(fn.Pos()))
		}
	}
	// MapLiteral printer iterates Order
	{
		mp := c.SSAFn(c.Fn("ast", "MapLiteral.PrettyPrint"))
		mlT := c.TypeNamed("ast", "MapLiteral")
		usesOrder := false
		eachInstr(mp, func(in ssa.Instruction) {
			switch x := in.(type) {
			case *ssa.FieldAddr:
				if isFieldAddrOf(x, mlT, "Order") {
					usesOrder = true
				}
			case *ssa.Field:
				if n, ok := x.X.Type().(*types.Named); ok && n.Obj() == mlT.Obj() && x.Field == fieldIndex(mlT, "Order") {
					usesOrder = true
				}
			}
		})
		r.Check(usesOrder, "C03.R1", ssaFuncName(mp), "map literal printed in recorded key order", c.Pos(mp.Pos()), "the map literal printer does not iterate MapLiteral.Order")
	}
	r.Floor("C03.R1", 80)

	// R3
	{
		fn := c.SSAFn(c.Fn("ast", "Statements.PrettyPrint"))
		println_ := c.Fn("ast", "PrintState.Println")
		print_ := c.Fn("ast", "PrintState.Print")
		psT := c.TypeNamed("ast", "PrintState")
		// the last Println dominates the return; after it only prints guarded by IndentLevel > 0
		var last ssa.Instruction
		eachInstr(fn, func(in ssa.Instruction) {
			if isCallTo(in, println_) {
				isInLoop := false
				for _, h := range loopHeaders(fn) {
					if loopBlocks(h)[in.Block()] {
						isInLoop = true
					}
				}
				if !isInLoop {
					last = in
				}
			}
		})
		ok := last != nil
		if ok {
			eachInstr(fn, func(in ssa.Instruction) {
				if ret, isRet := in.(*ssa.Return); isRet && !instrDominates(last, ret) {
					ok = false
				}
				if isCallTo(in, print_) && last != nil && instrDominates(last, in) {
					guarded := false
					for _, cc := range controlling(in.Block()) {
						if bin, isBin := cc.Cond.(*ssa.BinOp); isBin && cc.Edge == 0 {
							if ld, isLd := bin.X.(*ssa.UnOp); isLd && isFieldAddrOf(ld.X, psT, "IndentLevel") {
								if k, isK := constInt(bin.Y); isK && k == 0 {
									guarded = true
								}
							}
						}
					}
					if !guarded {
						ok = false
					}
				}
			})
		}
		r.Check(ok, "C03.R3", ssaFuncName(fn), "block printing ends with Println and prints nothing after it at top level", c.Pos(fn.Pos()), "normal-mode output does not end with exactly one newline")
		// Println writes one newline when not compact
		pf := c.SSAFn(println_)
		okNL := false
		eachInstr(pf, func(in ssa.Instruction) {
			call, isCall := in.(*ssa.Call)
			if !isCall || !call.Common().IsInvoke() || call.Common().Method.Name() != "Write" {
				return
			}
			for _, cc := range controlling(in.Block()) {
				if ld, isLd := cc.Cond.(*ssa.UnOp); isLd && isFieldAddrOf(ld.X, psT, "Compact") && cc.Edge == 1 {
					okNL = true
				}
			}
		})
		r.Check(okNL, "C03.R3", ssaFuncName(pf), "Println writes the newline exactly when not compact", c.Pos(pf.Pos()), "Println's newline is not conditioned on !Compact")
	}
	// shared C16.R3: tokens are interned under their whole value (formatting one input never prints text
	// that an earlier input left in the process-wide table)
	{
		r.Rule("C16.R3", "(shared) the interning table is keyed by the whole token and is not shrunk while tokens are produced")
		sub16 := NewReport("C16", r.Tier, c)
		sub16.Sub = true
		runC16(c, sub16)
		n16 := 0
		for _, o := range sub16.Obls {
			if o.Rule != "C16.R3" || !(strings.Contains(o.Desc, "interning table") || strings.Contains(o.Desc, "not reachable from token production")) {
				continue
			}
			n16++
			if o.status == FAIL {
				r.Fail(o.Rule, o.Func, o.Desc, o.Pos, o.Reason)
			} else {
				r.Ok(o.Rule, o.Func, o.Desc, o.Pos)
			}
		}
		if n16 < 2 {
			r.Undecided("C03: only %d shared C16.R3 obligations", n16)
		}
	}
	// shared
	sub := NewReport("C02", r.Tier, c)
	sub.Sub = true
	runC02(c, sub)
	for _, o := range sub.Obls {
		if o.Rule != "C02.R2" && o.Rule != "C02.R4" && o.Rule != "C02.R5" && o.Rule != "C02.R6" && o.Rule != "C02.R7" {
			continue
		}
		if o.status == FAIL {
			r.Fail(o.Rule, o.Func, o.Desc, o.Pos, o.Reason, o.Path...)
		} else {
			r.Ok(o.Rule, o.Func, o.Desc, o.Pos)
		}
	}
}

func init() {
	register("C03", &propDef{
		explain: "Determinism and canonical-ending clauses decided on code shape: nothing on the formatter path (printers, parser, lexer, function text) ranges over a Go map or reads clock, randomness, environment or spawns goroutines (call-graph reachability; the detector is calibrated against the map ranges that do exist elsewhere in the module); map literals print in recorded order; block printing ends with exactly one Println at top level; plus the shared round-trip conditions whose violation makes output a non-fixpoint. Idempotence as such (second pass equals first, which depends on comment flags and neighbouring constructs) is not decided. Shares the C02 rule that a value-less return ends its block. Also shares the escape-decoding (C02.R4) and precedence-scoping (C02.R7) rules.",
		assume:  []string{"token interning is pointer identity over equal values and cannot change printed text (tokens are only read through Type()/Literal())"},
		run:     runC03,
	})
}

func pkgOfSSA(f *ssa.Function) *types.Package {
	for x := f; x != nil; x = x.Parent() {
		if x.Pkg != nil {
			return x.Pkg.Pkg
		}
		if obj := x.Object(); obj != nil {
			return obj.Pkg()
		}
	}
	return nil
}

func samePackage(a, b *ssa.Function) bool {
	pa, pb := pkgOfSSA(a), pkgOfSSA(b)
	return pa != nil && pa == pb
}
