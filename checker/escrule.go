package main

// escrule: rule C16.R6, escape readers consume validated bytes only.
//
// readString tests every byte it consumes for the closing quote and for the end of the input. The helpers
// it calls for \x, \u and \U escapes consume bytes too: if they consume without looking, a malformed
// escape takes the closing quote as a digit and the string token runs on ("\x" + "b" was one token). In
// every lexer function reachable from readString (readString itself, readChar and peekChar excepted) a
// call of readChar sits on the true edge of a byte predicate applied to peekChar() of the same lexer,
// and that predicate (folded on all 256 bytes) rejects both quote characters and the NUL end marker.

import (
	"go/types"

	"golang.org/x/tools/go/ssa"
)

func (c *Ctx) checkEscapeReaders(r *Report, rule string) {
	readString := c.SSAFn(c.Fn("lexer", "Lexer.readString"))
	readChar := c.Fn("lexer", "Lexer.readChar")
	peekChar := c.Fn("lexer", "Lexer.peekChar")
	skip := map[*ssa.Function]bool{readString: true, c.SSAFn(readChar): true, c.SSAFn(peekChar): true}
	// functions reachable from readString by static calls inside the lexer package
	reach := map[*ssa.Function]bool{}
	var visit func(fn *ssa.Function)
	visit = func(fn *ssa.Function) {
		eachInstr(fn, func(in ssa.Instruction) {
			call, ok := in.(*ssa.Call)
			if !ok {
				return
			}
			callee := call.Common().StaticCallee()
			if callee == nil || callee.Pkg == nil || shortPkg(callee.Pkg.Pkg) != "lexer" || reach[callee] || skip[callee] {
				return
			}
			reach[callee] = true
			visit(callee)
		})
	}
	visit(readString)
	n := 0
	for fn := range reach {
		fname := ssaFuncName(fn)
		k := 0
		for _, ci := range callsIn(fn, readChar) {
			call, ok := ci.(*ssa.Call)
			if !ok {
				continue
			}
			n++
			k++
			desc := "byte consumed after a test that rejects the delimiters"
			if k > 1 {
				desc += " #" + itoa(k)
			}
			good, why := false, "no byte predicate on peekChar() controls this readChar()"
			for _, cc := range controlling(call.Block()) {
				pc, ok := cc.Cond.(*ssa.Call)
				if !ok || cc.Edge != 0 {
					continue
				}
				callee := pc.Common().StaticCallee()
				if callee == nil || len(pc.Common().Args) != 1 {
					continue
				}
				arg, ok := pc.Common().Args[0].(*ssa.Call)
				if !ok || calleeObj(arg) != peekChar || !sameValue(arg.Common().Args[0], call.Common().Args[0]) {
					continue
				}
				obj, _ := callee.Object().(*types.Func)
				if obj == nil {
					continue
				}
				set, ok := c.ByteSet(obj)
				if !ok {
					why = "the predicate " + callee.Name() + " could not be folded on all bytes"
					continue
				}
				if set[0] || set['"'] || set['`'] {
					why = "the predicate " + callee.Name() + " accepts a quote character or the NUL end marker"
					continue
				}
				good = true
			}
			r.Check(good, rule, fname, desc, c.Pos(call.Pos()), why+": an escape with too few digits consumes the closing quote (or runs past the end of the input) and the string token swallows what follows")
		}
	}
	if len(reach) < 3 {
		r.Undecided("%s: only %d lexer functions reachable from readString (readHex, readUnicode16, readUnicode32 expected)", rule, len(reach))
	}
	if n == 0 {
		// consumption only through readChar is the lexer's idiom; position stores are checked by C16.R1/R2
		r.Undecided("%s: no readChar call found in the escape readers", rule)
	}
}
