package main

// escrule: rule C16.R6, escape readers consume validated bytes only.
//
// readString tests every byte it consumes for the closing quote and for the end of the input. The helpers
// it calls for \x, \u and \U escapes consume bytes too: if they consume without looking, a malformed
// escape takes the closing quote as a digit and the string token runs on ("\x" + "b" was one token). In
// every lexer function reachable from readString (readString itself, readChar and peekChar excepted) a
// call of readChar is dominated by a peekChar() of the same lexer, and with that byte fixed to a quote
// character or to the NUL end marker the block of the readChar is unreachable: branch conditions are
// evaluated on the fixed byte (comparisons, arithmetic, && / || phis, calls of the lexer's pure byte
// predicates folded by bytepred); what cannot be evaluated is taken both ways.

import (
	"fmt"
	"go/constant"
	"go/token"
	"go/types"

	"golang.org/x/tools/go/ssa"
)

func byteName(b int64) string {
	if b == 0 {
		return "NUL"
	}
	return fmt.Sprintf("%q", rune(b))
}

// evalWith: the value of v when `fixed` holds the byte b (ok=false: not determined).
func (c *Ctx) evalWith(v ssa.Value, fixed ssa.Value, b int64, from *ssa.BasicBlock, depth int) (int64, bool) {
	if v == fixed {
		return b, true
	}
	if depth > 12 {
		return 0, false
	}
	switch x := v.(type) {
	case *ssa.Const:
		if x.Value == nil {
			return 0, false
		}
		switch x.Value.Kind() {
		case constant.Bool:
			if constant.BoolVal(x.Value) {
				return 1, true
			}
			return 0, true
		case constant.Int:
			i, ok := constant.Int64Val(x.Value)
			return i, ok
		}
	case *ssa.Convert:
		return c.evalWith(x.X, fixed, b, from, depth+1)
	case *ssa.ChangeType:
		return c.evalWith(x.X, fixed, b, from, depth+1)
	case *ssa.UnOp:
		if x.Op == token.NOT {
			if a, ok := c.evalWith(x.X, fixed, b, from, depth+1); ok {
				return 1 - a, true
			}
		}
	case *ssa.BinOp:
		l, ok1 := c.evalWith(x.X, fixed, b, from, depth+1)
		r, ok2 := c.evalWith(x.Y, fixed, b, from, depth+1)
		if !ok1 || !ok2 {
			return 0, false
		}
		bv := func(t bool) (int64, bool) {
			if t {
				return 1, true
			}
			return 0, true
		}
		switch x.Op {
		case token.EQL:
			return bv(l == r)
		case token.NEQ:
			return bv(l != r)
		case token.LSS:
			return bv(l < r)
		case token.LEQ:
			return bv(l <= r)
		case token.GTR:
			return bv(l > r)
		case token.GEQ:
			return bv(l >= r)
		case token.ADD:
			return l + r, true
		case token.SUB:
			return l - r, true
		case token.AND:
			return l & r, true
		case token.OR:
			return l | r, true
		}
	case *ssa.Call:
		callee := x.Common().StaticCallee()
		if callee == nil || len(x.Common().Args) != 1 {
			return 0, false
		}
		obj, _ := callee.Object().(*types.Func)
		if obj == nil {
			return 0, false
		}
		a, ok := c.evalWith(x.Common().Args[0], fixed, b, from, depth+1)
		if !ok || a < 0 || a > 255 {
			return 0, false
		}
		if res, ok := c.evalBytePred(obj, a, 0); ok {
			if res {
				return 1, true
			}
			return 0, true
		}
	}
	return 0, false
}

// reachableWith: can block target execute after `fixed` (an instruction of fn) produced the byte b?
// Conditions that evaluate to a constant under that assumption are followed one way only; a && / || phi is
// resolved from the edge the walk arrives on.
func (c *Ctx) reachableWith(fn *ssa.Function, fixed *ssa.Call, b int64, target *ssa.BasicBlock) bool {
	type state struct {
		blk  *ssa.BasicBlock
		from *ssa.BasicBlock
	}
	seen := map[state]bool{}
	var walk func(blk, from *ssa.BasicBlock) bool
	walk = func(blk, from *ssa.BasicBlock) bool {
		st := state{blk, from}
		if seen[st] {
			return false
		}
		seen[st] = true
		if blk == target && blk != fixed.Block() {
			return true
		}
		// a re-execution of the peek invalidates the assumption: stop there (the new byte is judged on its own)
		if blk == fixed.Block() && from != nil {
			return false
		}
		last := blk.Instrs[len(blk.Instrs)-1]
		if ifi, ok := last.(*ssa.If); ok {
			cond := ifi.Cond
			// phi of && / ||: take the operand of the edge we came by
			if phi, ok := cond.(*ssa.Phi); ok && phi.Block() == blk && from != nil {
				for i, p := range blk.Preds {
					if p == from {
						cond = phi.Edges[i]
					}
				}
			}
			if v, ok := c.evalWith(cond, fixed, b, from, 0); ok {
				if v != 0 {
					return walk(blk.Succs[0], blk)
				}
				return walk(blk.Succs[1], blk)
			}
		}
		for _, s := range blk.Succs {
			if walk(s, blk) {
				return true
			}
		}
		return false
	}
	if fixed.Block() == target {
		return true // nothing between the peek and the consumption
	}
	return walk(fixed.Block(), nil)
}

func (c *Ctx) checkEscapeReaders(r *Report, rule string) {
	readString := c.SSAFn(c.Fn("lexer", "Lexer.readString"))
	readChar := c.Fn("lexer", "Lexer.readChar")
	peekChar := c.Fn("lexer", "Lexer.peekChar")
	lexT := c.TypeNamed("lexer", "Lexer")
	skip := map[*ssa.Function]bool{readString: true, c.SSAFn(readChar): true, c.SSAFn(peekChar): true}
	// functions reachable from readString by static calls inside the lexer package
	reach := map[*ssa.Function]bool{}
	var visit func(fn *ssa.Function)
	visit = func(fn *ssa.Function) {
		eachInstr(fn, func(in ssa.Instruction) {
			call, ok := in.(*ssa.Call)
			if !ok {
				return
			}
			callee := call.Common().StaticCallee()
			if callee == nil || callee.Pkg == nil || shortPkg(callee.Pkg.Pkg) != "lexer" || reach[callee] || skip[callee] {
				return
			}
			reach[callee] = true
			visit(callee)
		})
	}
	visit(readString)
	n := 0
	for fn := range reach {
		fname := ssaFuncName(fn)
		k := 0
		// consumption: readChar(), or the position advanced by hand (readChar inlined)
		type consume struct {
			in   ssa.Instruction
			recv ssa.Value
		}
		var sites []consume
		eachInstr(fn, func(in ssa.Instruction) {
			if call, ok := in.(*ssa.Call); ok && isCallTo(call, readChar) {
				sites = append(sites, consume{call, call.Common().Args[0]})
			}
			if st, ok := in.(*ssa.Store); ok && isFieldAddrOf(st.Addr, lexT, "pos") {
				sites = append(sites, consume{st, st.Addr.(*ssa.FieldAddr).X})
			}
		})
		for _, site := range sites {
			call := site.in
			n++
			k++
			desc := "byte consumed after a test that rejects the delimiters"
			if k > 1 {
				desc += " #" + itoa(k)
			}
			// the byte about to be consumed: the latest peekChar() of the same lexer that dominates the call
			var peek *ssa.Call
			for _, pc := range callsIn(fn, peekChar) {
				pcv, ok := pc.(*ssa.Call)
				if ok && sameValue(pcv.Common().Args[0], site.recv) && instrDominates(pcv, call) {
					if peek == nil || instrDominates(peek, pcv) {
						peek = pcv
					}
				}
			}
			good, why := false, "no peekChar() of the same lexer dominates this readChar(): the byte is consumed unseen"
			if peek != nil {
				good = true
				// the byte that was looked at is the one consumed: nothing else is consumed in between
				for _, other := range sites {
					if other.in != call && sameValue(other.recv, site.recv) && between(peek, other.in, call) {
						good = false
						why = "another byte is consumed (" + c.Pos(other.in.Pos()) + ") between the peekChar() and this consumption: the byte consumed here was never looked at"
					}
				}
			}
			if peek != nil && good {
				for _, b := range []int64{0, '"', '`'} {
					if c.reachableWith(fn, peek, b, call.Block()) {
						good = false
						why = "with peekChar() == " + byteName(b) + " the tests between the peek and this readChar() can all pass"
						break
					}
				}
			}
			r.Check(good, rule, fname, desc, c.Pos(call.Pos()), why+": an escape with too few digits consumes the closing quote (or runs past the end of the input) and the string token swallows what follows")
		}
	}
	if len(reach) < 3 {
		r.Undecided("%s: only %d lexer functions reachable from readString (readHex, readUnicode16, readUnicode32 expected)", rule, len(reach))
	}
	if n == 0 {
		// consumption only through readChar is the lexer's idiom; position stores are checked by C16.R1/R2
		r.Undecided("%s: no readChar call found in the escape readers", rule)
	}
}
