package main

// sessionstate: rule C15.R4, what a session remembers is not reset per input.
//
// The memoization cache (State.cache), like the globals and the macro store, belongs to the session: a
// script evaluated in one go and the same script fed statement by statement must see the same cache
// (cached output is replayed, a callee redefined between two calls is or is not seen...). The field is
// written only by the State constructors and by State.ResetCache, and nothing reachable from the
// per-input entry points (repl.EvalOne, eval.EvalString, State.Eval) calls ResetCache or writes the field.

import (
	"sort"
	"strings"

	"golang.org/x/tools/go/ssa"
)

func (c *Ctx) checkSessionCacheKept(r *Report, rule string) {
	stateT := c.TypeNamed("eval", "State")
	resetCache := c.SSAFn(c.Fn("eval", "State.ResetCache"))
	allowedWriters := map[*ssa.Function]bool{
		c.SSAFn(c.Fn("eval", "NewState")):      true,
		c.SSAFn(c.Fn("eval", "NewBlankState")): true,
		resetCache:                             true,
	}
	// writers of the field
	writers := map[*ssa.Function]bool{}
	var stray []string
	for _, fn := range c.ModuleSSAFuncs() {
		eachInstr(fn, func(in ssa.Instruction) {
			if st, ok := in.(*ssa.Store); ok && isFieldAddrOf(st.Addr, stateT, "cache") {
				writers[fn] = true
				if !allowedWriters[fn] {
					stray = append(stray, ssaFuncName(fn)+" "+c.Pos(st.Pos()))
				}
			}
		})
	}
	sort.Strings(stray)
	r.Check(len(stray) == 0, rule, "eval.State", "State.cache is written only by the constructors and ResetCache", c.Pos(resetCache.Pos()),
		"the memoization cache field is replaced in "+strings.Join(stray, ", ")+": the cache no longer lives as long as the session")
	// reach of the per-input entry points
	entries := []*ssa.Function{
		c.SSAFn(c.Fn("repl", "EvalOne")),
		c.SSAFn(c.Fn("eval", "EvalString")),
		c.SSAFn(c.Fn("eval", "State.Eval")),
	}
	seen := map[*ssa.Function]bool{}
	parent := map[*ssa.Function]*ssa.Function{}
	var queue []*ssa.Function
	for _, e := range entries {
		if e != nil {
			seen[e] = true
			queue = append(queue, e)
		}
	}
	cg := c.CG().g
	for len(queue) > 0 {
		fn := queue[0]
		queue = queue[1:]
		node := cg.Nodes[fn]
		if node == nil {
			continue
		}
		for _, e := range node.Out {
			if !staticOrInvoke(e) {
				continue
			}
			callee := e.Callee.Func
			if callee == nil || seen[callee] || !isModuleSSA(callee) {
				continue
			}
			seen[callee] = true
			parent[callee] = fn
			queue = append(queue, callee)
		}
	}
	path := func(fn *ssa.Function) string {
		var names []string
		for f := fn; f != nil; f = parent[f] {
			names = append([]string{ssaFuncName(f)}, names...)
		}
		return strings.Join(names, " -> ")
	}
	bad := ""
	for fn := range seen {
		if fn == resetCache || (writers[fn] && fn != c.SSAFn(c.Fn("eval", "NewState")) && fn != c.SSAFn(c.Fn("eval", "NewBlankState"))) {
			bad = path(fn)
		}
	}
	r.Check(bad == "", rule, "repl.EvalOne", "no per-input entry point reaches a reset of the memoization cache", c.Pos(resetCache.Pos()),
		"the cache is reset on the way of every input ("+bad+"): a script fed statement by statement no longer sees what the same script evaluated in one go sees (a cacheable call repeated in two inputs runs twice, prints twice, sees a redefined callee)")
	if len(seen) < 50 {
		r.Undecided("%s: only %d functions reachable from the per-input entry points", rule, len(seen))
	}
}
