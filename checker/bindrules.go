package main

// bindrules: two rules on the calls that bind names.
//
//	C13.R9  parameters are new bindings: in the functions that build the frame of a call or of a macro
//	        expansion (extendFunctionEnv, extendMacroEnv) every binding call on the new environment
//	        creates (SetNoChecks / CreateOrSet with create == true). Set and create == false resolve the
//	        name outward first and write through a Reference: a parameter named like an outer binding
//	        overwrites it.
//	C01.R10 binding errors are not dropped: Environment.Set and CreateOrSet return an Error object for
//	        constants and built-in names; in package eval their result is used (tested, returned or
//	        stored), never discarded.

import (
	"fmt"
	"go/constant"
	"go/token"
	"go/types"
	"strings"

	"golang.org/x/tools/go/ssa"
)

func (c *Ctx) checkParamsAreCreated(r *Report, rule string) {
	set := c.Fn("object", "Environment.Set")
	cos := c.Fn("object", "Environment.CreateOrSet")
	snc := c.Fn("object", "Environment.SetNoChecks")
	want := map[string]int{"State.extendFunctionEnv": 2, "State.extendMacroEnv": 1}
	for _, name := range []string{"State.extendFunctionEnv", "State.extendMacroEnv"} {
		fn := c.SSAFn(c.Fn("eval", name))
		fname := ssaFuncName(fn)
		n := 0
		eachInstr(fn, func(in ssa.Instruction) {
			call, ok := in.(*ssa.Call)
			if !ok {
				return
			}
			obj := calleeObj(call)
			if obj == nil || (obj != set && obj != cos && obj != snc) {
				return
			}
			n++
			desc := "binding #" + itoa(n) + " creates the name in the new frame"
			if obj == set {
				r.Fail(rule, fname, desc, c.Pos(call.Pos()), "the name is bound with Environment.Set, which looks for it in the outer environments first and writes through a Reference when found: a parameter named like an outer binding overwrites that binding instead of shadowing it")
				return
			}
			args := call.Common().Args
			k, isK := args[len(args)-1].(*ssa.Const)
			if isK && k.Value != nil && k.Value.Kind() == constant.Bool && constant.BoolVal(k.Value) {
				r.Ok(rule, fname, desc, c.Pos(call.Pos()))
			} else {
				r.Fail(rule, fname, desc, c.Pos(call.Pos()), "the binding call does not pass create == true: an existing outer binding of that name is updated instead of shadowed")
			}
		})
		if n < want[name] {
			r.Undecided("%s: only %d binding calls found in %s (%d expected)", rule, n, fname, want[name])
		}
	}
	r.Floor(rule, 3)
}

// bindErrorExceptions: keyed "function | call #n".
var bindErrorExceptions = map[string]string{
	"eval.addMacro | result of Environment.Set is used": "macro definitions have no error channel (DefineMacros returns nothing): a macro named like a constant that is already bound, or like a built-in, is silently not defined; outside the core language of C01",
}

func (c *Ctx) checkBindingErrorsUsed(r *Report, rule string) {
	set := c.Fn("object", "Environment.Set")
	cos := c.Fn("object", "Environment.CreateOrSet")
	n := 0
	for _, fn := range c.ModuleSSAFuncs() {
		top := fn
		for top.Parent() != nil {
			top = top.Parent()
		}
		if top.Pkg == nil || shortPkg(top.Pkg.Pkg) != "eval" {
			continue
		}
		fname := ssaFuncName(fn)
		k := 0
		eachInstr(fn, func(in ssa.Instruction) {
			call, ok := in.(*ssa.Call)
			if !ok {
				return
			}
			obj := calleeObj(call)
			if obj == nil || (obj != set && obj != cos) {
				return
			}
			n++
			k++
			desc := "result of Environment." + obj.Name() + " is used"
			if k > 1 {
				desc += " #" + itoa(k)
			}
			used := false
			for _, ref := range *call.Referrers() {
				if _, isDbg := ref.(*ssa.DebugRef); !isDbg {
					used = true
				}
			}
			switch {
			case used:
				r.Ok(rule, fname, desc, c.Pos(call.Pos()))
			case bindErrorExceptions[fname+" | "+desc] != "":
				r.Abstain(rule, fname, desc, c.Pos(call.Pos()), bindErrorExceptions[fname+" | "+desc])
			default:
				r.Fail(rule, fname, desc, c.Pos(call.Pos()), "the Object returned by the binding call is discarded: for a constant that is already bound or a built-in name it is an Error and the assignment did not happen, yet evaluation goes on with the old value (for I=3 {println(I)} printed 0 0 0)")
			}
		})
	}
	if n < 8 {
		r.Undecided("%s: only %d calls to Environment.Set/CreateOrSet found in package eval", rule, n)
	}
	r.Floor(rule, 8)
}

// checkMacroCallsAlwaysExpand: rule C13.R10.
//
// ExpandMacros rewrites the tree with a callback: once isMacroCall has said that a call names a macro of the
// macro store, the callback returns an expansion (or an error node), never its own argument. A path that
// hands the call back unchanged after that test leaves a macro call in the program to be evaluated as an
// ordinary call - whatever the extra condition on that path looks at (a function of the same name bound in
// the session, for instance), separate call sites stop expanding independently of the history.
func (c *Ctx) checkMacroCallsAlwaysExpand(r *Report, rule string) {
	isMacroCall := c.Fn("eval", "isMacroCall")
	n := 0
	for _, fn := range c.ModuleSSAFuncs() {
		if fn.Parent() == nil || fn.Parent().Name() != "ExpandMacros" {
			continue
		}
		for _, ci := range callsIn(fn, isMacroCall) {
			call, ok := ci.(*ssa.Call)
			if !ok {
				continue
			}
			n++
			okv := extractOf(call, 1)
			var arm *ssa.BasicBlock
			if okv != nil {
				for _, ref := range *okv.Referrers() {
					if ifi, ok := ref.(*ssa.If); ok {
						arm = ifi.Block().Succs[0]
					}
				}
			}
			if arm == nil || len(arm.Preds) != 1 {
				r.Undecided("%s: the ok edge of isMacroCall was not found in %s", rule, ssaFuncName(fn))
				continue
			}
			bad := ""
			for _, b := range fn.Blocks {
				if !(b == arm || arm.Dominates(b)) {
					continue
				}
				ret, ok := b.Instrs[len(b.Instrs)-1].(*ssa.Return)
				if !ok || len(ret.Results) != 1 {
					continue
				}
				v := ret.Results[0]
				for i := 0; i < 3; i++ {
					switch x := v.(type) {
					case *ssa.MakeInterface:
						v = x.X
					case *ssa.ChangeInterface:
						v = x.X
					case *ssa.TypeAssert:
						v = x.X
					}
				}
				if len(fn.Params) > 0 && v == ssa.Value(fn.Params[0]) {
					bad = c.Pos(ret.Pos())
				}
				if ex, ok := v.(*ssa.Extract); ok {
					if ta, ok := ex.Tuple.(*ssa.TypeAssert); ok && len(fn.Params) > 0 && ta.X == ssa.Value(fn.Params[0]) {
						bad = c.Pos(ret.Pos())
					}
				}
			}
			r.Check(bad == "", rule, ssaFuncName(fn), "a call that names a macro is always expanded", c.Pos(call.Pos()),
				"after isMacroCall said yes the callback can still return the call unchanged ("+bad+"): the macro call stays in the program and is evaluated as an ordinary call")
		}
	}
	if n == 0 {
		r.Undecided("%s: no call of isMacroCall found in the callback of ExpandMacros", rule)
	}
}

// checkMacroDefinitionTokens: rule C13.R11.
//
// The evaluator treats `name = value` and `name := value` as assignments (the infix arm of evalInternal
// tests both tokens). The definition sweep of DefineMacros must recognise a macro literal under both: in
// eval.isAssign the token type of the expression is compared with ASSIGN and with DEFINE (directly or through
// token.ByType).
func (c *Ctx) checkMacroDefinitionTokens(r *Report, rule string) {
	fn := c.SSAFn(c.Fn("eval", "isAssign"))
	want := map[string]int64{}
	for _, n := range []string{"ASSIGN", "DEFINE"} {
		k, _ := constInt64(c.Const("token", n))
		want[n] = k
	}
	seen := map[int64]bool{}
	byType := c.Fn("token", "ByType")
	eachInstr(fn, func(in ssa.Instruction) {
		switch x := in.(type) {
		case *ssa.BinOp:
			for _, v := range []ssa.Value{x.X, x.Y} {
				if k, ok := constInt(v); ok {
					seen[k] = true
				}
			}
		case *ssa.Call:
			if calleeObj(x) == byType {
				if k, ok := constInt(x.Common().Args[0]); ok {
					seen[k] = true
				}
			}
		}
	})
	for _, n := range []string{"ASSIGN", "DEFINE"} {
		r.Check(seen[want[n]], rule, ssaFuncName(fn), "a macro literal assigned with the "+n+" token is a definition", c.Pos(fn.Pos()),
			"isAssign does not test the "+n+" token: `m "+map[string]string{"ASSIGN": "=", "DEFINE": ":="}[n]+" macro(...)` stays in the program and is evaluated (unknown node type *ast.MacroLiteral), its calls are never expanded")
	}
}

// checkModifyCallbacksNilSafe: rule C13.R12.
//
// ast.Modify hands every child of a node to the callback, absent ones included (the open-ended slice x[1:] is a
// `:` node whose right child is nil, a lambda has no name), and a nil interface has no methods: invoking one
// (or asserting a concrete type without the comma-ok form) on the callback's node parameter panics. In every
// function or closure handed to Modify / ModifyNoOk, and in the functions of the module that are handed the
// node as is, a method call or single-result type assertion on that parameter is dominated by a nil test
// or lies on the true edge of a comma-ok assertion of it.
func (c *Ctx) checkModifyCallbacksNilSafe(r *Report, rule string) {
	modify, modifyNoOk := c.Fn("ast", "Modify"), c.Fn("ast", "ModifyNoOk")
	n := 0
	var check func(fn *ssa.Function, p *ssa.Parameter, depth int, via string)
	seen := map[*ssa.Parameter]bool{}
	check = func(fn *ssa.Function, p *ssa.Parameter, depth int, via string) {
		if seen[p] || depth > 3 || p.Referrers() == nil {
			return
		}
		seen[p] = true
		guarded := func(b *ssa.BasicBlock) bool {
			for _, cc := range controlling(b) {
				switch x := cc.Cond.(type) {
				case *ssa.BinOp:
					if (x.X == ssa.Value(p) && isNilConst(x.Y)) || (x.Y == ssa.Value(p) && isNilConst(x.X)) {
						if (x.Op == token.NEQ && cc.Edge == 0) || (x.Op == token.EQL && cc.Edge == 1) {
							return true
						}
					}
				case *ssa.Extract:
					if ta, ok := x.Tuple.(*ssa.TypeAssert); ok && ta.CommaOk && ta.X == ssa.Value(p) && x.Index == 1 && cc.Edge == 0 {
						return true
					}
				}
			}
			return false
		}
		k := 0
		for _, ref := range *p.Referrers() {
			switch x := ref.(type) {
			case *ssa.Call:
				cc := x.Common()
				if cc.IsInvoke() && cc.Value == ssa.Value(p) {
					n++
					k++
					r.Check(guarded(x.Block()), rule, ssaFuncName(fn), fmt.Sprintf("method call #%d on the node handed over by Modify is behind a nil test", k), c.Pos(x.Pos()),
						"the callback invokes "+cc.Method.Name()+"() on its node parameter"+via+" without a nil test (or a successful comma-ok assertion): Modify hands over absent children too (the right side of x[1:] is nil), so a quoted template or macro body containing an open-ended slice panics with a nil pointer dereference")
					continue
				}
				if callee := cc.StaticCallee(); callee != nil && isModuleSSA(callee) && len(callee.Blocks) > 0 && !guarded(x.Block()) {
					for i, a := range cc.Args {
						if a == ssa.Value(p) && i < len(callee.Params) && callee.Object() != types.Object(modify) && callee.Object() != types.Object(modifyNoOk) {
							check(callee, callee.Params[i], depth+1, " (handed on by "+ssaFuncName(fn)+")")
						}
					}
				}
			case *ssa.TypeAssert:
				if !x.CommaOk && x.X == ssa.Value(p) {
					n++
					k++
					r.Check(guarded(x.Block()), rule, ssaFuncName(fn), fmt.Sprintf("type assertion #%d on the node handed over by Modify is behind a nil test", k), c.Pos(x.Pos()),
						"the callback asserts a concrete type on its node parameter"+via+" without the comma-ok form or a nil test: Modify hands over absent children too, and the assertion panics on nil")
				}
			}
		}
	}
	ncb := 0
	for _, fn := range c.ModuleSSAFuncs() {
		for _, ci := range callsIn(fn, modify, modifyNoOk) {
			args := ci.Common().Args
			if len(args) < 2 {
				continue
			}
			var cb *ssa.Function
			switch f := args[1].(type) {
			case *ssa.MakeClosure:
				cb, _ = f.Fn.(*ssa.Function)
			case *ssa.Function:
				cb = f
			}
			if cb == nil || len(cb.Params) == 0 || (cb.Pkg != nil && shortPkg(cb.Pkg.Pkg) == "ast") {
				continue // Modify's own recursion passes its parameter f on
			}
			if cb.Pkg == nil && cb.Synthetic == "" {
				continue
			}
			// (a method value s.method is a synthetic wrapper that hands its parameter to the method: followed below)
			ncb++
			check(cb, cb.Params[len(cb.Params)-1], 0, "")
		}
	}
	if ncb < 3 {
		r.Undecided("%s: only %d callbacks handed to ast.Modify found (macro expansion, unquote, register rewriting expected)", rule, ncb)
	}
	if n == 0 {
		r.OkWhy(rule, "eval", "no method call on the raw node parameter of a Modify callback", "", "every callback goes through type switches / comma-ok assertions")
	}
}

// checkForcedCreateOnFreshFrames: rule C01.R12.
//
// A forced-local binding (SetNoChecks / CreateOrSet with the constant create == true) shadows whatever the
// name denotes further out; that is the rule of `:=` (which passes the assignment's own token test, not a
// constant) and of the names a new frame starts with (parameters, `..`, the function's own name in its frame).
// In package eval such a call is therefore made only on an environment created in the same function (the result
// of object.New*Environment). On the running environment (s.env) it turns `func name(){}` inside a function, or
// any other definition, into a local one: the enclosing binding of that name is no longer updated.
var forcedCreateExceptions = map[string]string{
	"eval.(*State).SetArgs": "embedding API: defines the `args` array of the session's top-level scope before anything runs",
}

func (c *Ctx) checkForcedCreateOnFreshFrames(r *Report, rule string) {
	cos, snc := c.Fn("object", "Environment.CreateOrSet"), c.Fn("object", "Environment.SetNoChecks")
	fresh := func(v ssa.Value) bool {
		seen := map[ssa.Value]bool{}
		var walk func(v ssa.Value) bool
		walk = func(v ssa.Value) bool {
			if seen[v] {
				return true
			}
			seen[v] = true
			switch x := v.(type) {
			case *ssa.Extract:
				return walk(x.Tuple)
			case *ssa.Phi:
				for _, e := range x.Edges {
					if !walk(e) {
						return false
					}
				}
				return len(x.Edges) > 0
			case *ssa.Call:
				callee := x.Common().StaticCallee()
				return callee != nil && callee.Pkg != nil && shortPkg(callee.Pkg.Pkg) == "object" && strings.HasPrefix(callee.Name(), "New") && strings.HasSuffix(callee.Name(), "Environment")
			}
			return false
		}
		return walk(v)
	}
	n := 0
	for _, fn := range c.ModuleSSAFuncs() {
		if fn.Pkg == nil || shortPkg(fn.Pkg.Pkg) != "eval" {
			continue
		}
		k := 0
		for _, ci := range callsIn(fn, cos, snc) {
			args := ci.Common().Args
			last, ok := args[len(args)-1].(*ssa.Const)
			if !ok || last.Value == nil || last.Value.Kind() != constant.Bool || !constant.BoolVal(last.Value) {
				continue
			}
			n++
			k++
			desc := "a forced-local binding is made on a frame created here"
			if k > 1 {
				desc += " #" + itoa(k)
			}
			if why, ok := forcedCreateExceptions[ssaFuncName(fn)]; ok {
				r.OkWhy(rule, ssaFuncName(fn), desc, c.Pos(ci.Pos()), "exception: "+why)
				continue
			}
			r.Check(fresh(args[0]), rule, ssaFuncName(fn), desc, c.Pos(ci.Pos()),
				"a binding call with create == true is made on an environment that was not created in this function (the running scope): the name is defined locally even when an enclosing scope already binds it, which is the rule of `:=` only; a named function defined inside a recursive function, or under a global of the same name, no longer updates that binding")
		}
	}
	if n < 3 {
		r.Undecided("%s: only %d forced-local binding calls found in package eval (parameters, `..`, self name expected)", rule, n)
	}
}
