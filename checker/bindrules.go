package main

// bindrules: two rules on the calls that bind names.
//
//	C13.R9  parameters are new bindings: in the functions that build the frame of a call or of a macro
//	        expansion (extendFunctionEnv, extendMacroEnv) every binding call on the new environment
//	        creates (SetNoChecks / CreateOrSet with create == true). Set and create == false resolve the
//	        name outward first and write through a Reference: a parameter named like an outer binding
//	        overwrites it.
//	C01.R10 binding errors are not dropped: Environment.Set and CreateOrSet return an Error object for
//	        constants and built-in names; in package eval their result is used (tested, returned or
//	        stored), never discarded.

import (
	"go/constant"

	"golang.org/x/tools/go/ssa"
)

func (c *Ctx) checkParamsAreCreated(r *Report, rule string) {
	set := c.Fn("object", "Environment.Set")
	cos := c.Fn("object", "Environment.CreateOrSet")
	snc := c.Fn("object", "Environment.SetNoChecks")
	want := map[string]int{"State.extendFunctionEnv": 2, "State.extendMacroEnv": 1}
	for _, name := range []string{"State.extendFunctionEnv", "State.extendMacroEnv"} {
		fn := c.SSAFn(c.Fn("eval", name))
		fname := ssaFuncName(fn)
		n := 0
		eachInstr(fn, func(in ssa.Instruction) {
			call, ok := in.(*ssa.Call)
			if !ok {
				return
			}
			obj := calleeObj(call)
			if obj == nil || (obj != set && obj != cos && obj != snc) {
				return
			}
			n++
			desc := "binding #" + itoa(n) + " creates the name in the new frame"
			if obj == set {
				r.Fail(rule, fname, desc, c.Pos(call.Pos()), "the name is bound with Environment.Set, which looks for it in the outer environments first and writes through a Reference when found: a parameter named like an outer binding overwrites that binding instead of shadowing it")
				return
			}
			args := call.Common().Args
			k, isK := args[len(args)-1].(*ssa.Const)
			if isK && k.Value != nil && k.Value.Kind() == constant.Bool && constant.BoolVal(k.Value) {
				r.Ok(rule, fname, desc, c.Pos(call.Pos()))
			} else {
				r.Fail(rule, fname, desc, c.Pos(call.Pos()), "the binding call does not pass create == true: an existing outer binding of that name is updated instead of shadowed")
			}
		})
		if n < want[name] {
			r.Undecided("%s: only %d binding calls found in %s (%d expected)", rule, n, fname, want[name])
		}
	}
	r.Floor(rule, 3)
}

// bindErrorExceptions: keyed "function | call #n".
var bindErrorExceptions = map[string]string{
	"eval.addMacro | result of Environment.Set is used": "macro definitions have no error channel (DefineMacros returns nothing): a macro named like a constant that is already bound, or like a built-in, is silently not defined; outside the core language of C01",
}

func (c *Ctx) checkBindingErrorsUsed(r *Report, rule string) {
	set := c.Fn("object", "Environment.Set")
	cos := c.Fn("object", "Environment.CreateOrSet")
	n := 0
	for _, fn := range c.ModuleSSAFuncs() {
		top := fn
		for top.Parent() != nil {
			top = top.Parent()
		}
		if top.Pkg == nil || shortPkg(top.Pkg.Pkg) != "eval" {
			continue
		}
		fname := ssaFuncName(fn)
		k := 0
		eachInstr(fn, func(in ssa.Instruction) {
			call, ok := in.(*ssa.Call)
			if !ok {
				return
			}
			obj := calleeObj(call)
			if obj == nil || (obj != set && obj != cos) {
				return
			}
			n++
			k++
			desc := "result of Environment." + obj.Name() + " is used"
			if k > 1 {
				desc += " #" + itoa(k)
			}
			used := false
			for _, ref := range *call.Referrers() {
				if _, isDbg := ref.(*ssa.DebugRef); !isDbg {
					used = true
				}
			}
			switch {
			case used:
				r.Ok(rule, fname, desc, c.Pos(call.Pos()))
			case bindErrorExceptions[fname+" | "+desc] != "":
				r.Abstain(rule, fname, desc, c.Pos(call.Pos()), bindErrorExceptions[fname+" | "+desc])
			default:
				r.Fail(rule, fname, desc, c.Pos(call.Pos()), "the Object returned by the binding call is discarded: for a constant that is already bound or a built-in name it is an Error and the assignment did not happen, yet evaluation goes on with the old value (for I=3 {println(I)} printed 0 0 0)")
			}
		})
	}
	if n < 8 {
		r.Undecided("%s: only %d calls to Environment.Set/CreateOrSet found in package eval", rule, n)
	}
	r.Floor(rule, 8)
}

// checkMacroCallsAlwaysExpand: rule C13.R10.
//
// ExpandMacros rewrites the tree with a callback: once isMacroCall has said that a call names a macro of the
// macro store, the callback returns an expansion (or an error node), never its own argument. A path that
// hands the call back unchanged after that test leaves a macro call in the program to be evaluated as an
// ordinary call - whatever the extra condition on that path looks at (a function of the same name bound in
// the session, for instance), separate call sites stop expanding independently of the history.
func (c *Ctx) checkMacroCallsAlwaysExpand(r *Report, rule string) {
	isMacroCall := c.Fn("eval", "isMacroCall")
	n := 0
	for _, fn := range c.ModuleSSAFuncs() {
		if fn.Parent() == nil || fn.Parent().Name() != "ExpandMacros" {
			continue
		}
		for _, ci := range callsIn(fn, isMacroCall) {
			call, ok := ci.(*ssa.Call)
			if !ok {
				continue
			}
			n++
			okv := extractOf(call, 1)
			var arm *ssa.BasicBlock
			if okv != nil {
				for _, ref := range *okv.Referrers() {
					if ifi, ok := ref.(*ssa.If); ok {
						arm = ifi.Block().Succs[0]
					}
				}
			}
			if arm == nil || len(arm.Preds) != 1 {
				r.Undecided("%s: the ok edge of isMacroCall was not found in %s", rule, ssaFuncName(fn))
				continue
			}
			bad := ""
			for _, b := range fn.Blocks {
				if !(b == arm || arm.Dominates(b)) {
					continue
				}
				ret, ok := b.Instrs[len(b.Instrs)-1].(*ssa.Return)
				if !ok || len(ret.Results) != 1 {
					continue
				}
				v := ret.Results[0]
				for i := 0; i < 3; i++ {
					switch x := v.(type) {
					case *ssa.MakeInterface:
						v = x.X
					case *ssa.ChangeInterface:
						v = x.X
					case *ssa.TypeAssert:
						v = x.X
					}
				}
				if len(fn.Params) > 0 && v == ssa.Value(fn.Params[0]) {
					bad = c.Pos(ret.Pos())
				}
				if ex, ok := v.(*ssa.Extract); ok {
					if ta, ok := ex.Tuple.(*ssa.TypeAssert); ok && len(fn.Params) > 0 && ta.X == ssa.Value(fn.Params[0]) {
						bad = c.Pos(ret.Pos())
					}
				}
			}
			r.Check(bad == "", rule, ssaFuncName(fn), "a call that names a macro is always expanded", c.Pos(call.Pos()),
				"after isMacroCall said yes the callback can still return the call unchanged ("+bad+"): the macro call stays in the program and is evaluated as an ordinary call")
		}
	}
	if n == 0 {
		r.Undecided("%s: no call of isMacroCall found in the callback of ExpandMacros", rule)
	}
}

// checkMacroDefinitionTokens: rule C13.R11.
//
// The evaluator treats `name = value` and `name := value` as assignments (the infix arm of evalInternal
// tests both tokens). The definition sweep of DefineMacros must recognise a macro literal under both: in
// eval.isAssign the token type of the expression is compared with ASSIGN and with DEFINE (directly or through
// token.ByType).
func (c *Ctx) checkMacroDefinitionTokens(r *Report, rule string) {
	fn := c.SSAFn(c.Fn("eval", "isAssign"))
	want := map[string]int64{}
	for _, n := range []string{"ASSIGN", "DEFINE"} {
		k, _ := constInt64(c.Const("token", n))
		want[n] = k
	}
	seen := map[int64]bool{}
	byType := c.Fn("token", "ByType")
	eachInstr(fn, func(in ssa.Instruction) {
		switch x := in.(type) {
		case *ssa.BinOp:
			for _, v := range []ssa.Value{x.X, x.Y} {
				if k, ok := constInt(v); ok {
					seen[k] = true
				}
			}
		case *ssa.Call:
			if calleeObj(x) == byType {
				if k, ok := constInt(x.Common().Args[0]); ok {
					seen[k] = true
				}
			}
		}
	})
	for _, n := range []string{"ASSIGN", "DEFINE"} {
		r.Check(seen[want[n]], rule, ssaFuncName(fn), "a macro literal assigned with the "+n+" token is a definition", c.Pos(fn.Pos()),
			"isAssign does not test the "+n+" token: `m "+map[string]string{"ASSIGN": "=", "DEFINE": ":="}[n]+" macro(...)` stays in the program and is evaluated (unknown node type *ast.MacroLiteral), its calls are never expanded")
	}
}
