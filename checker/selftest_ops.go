package main

// Thorough tier: (1) extra build configuration (js/wasm entry point), (2) mutation self-test:
// one source-level mutation per operator is applied to a scratch copy of /repo (outside /repo
// and /verif), the copy is type-checked and the property's rules must report the expected
// rule. A miss is a checker weakness: it is recorded as selftest_missed and makes the run
// undecided; it is never printed as a VIOLATION of the property.

import (
	"fmt"
	"os"
	"os/exec"
	"path/filepath"
	"regexp"
	"runtime/debug"
	"strings"

	"golang.org/x/tools/go/ssa"
)

type mutOp struct {
	Prop   string
	Rule   string // expected rule id among the violations
	File   string
	Find   string // regexp (first match is replaced)
	Repl   string
	Remark string
}

var mutOps = []mutOp{
	{"C01", "C01.R2", "ast/ast.go", `token\.SLASH:\s+DIVIDE,`, "token.SLASH:      PRODUCT,", "precedence entry moved"},
	{"C01", "C01.R3", "eval/eval.go", `node\.Token\.Type\(\) == token\.AND && left == object\.FALSE`, "node.Token.Type() == token.AND && left == object.TRUE", "short-circuit test inverted"},
	{"C01", "C01.R4", "eval/eval.go", `(?s)if index\.Type\(\) == object\.ERROR \{\s+return index\s+\}\s+return s\.evalIndexAssigment`, "return s.evalIndexAssigment", "error check before index assignment dropped"},
	{"C02", "C02.R2", "ast/ast.go", `needParen, oldExpressionPrecedence := out\.needParen\(ie\.Token\)`, "needParen, oldExpressionPrecedence := false, out.ExpressionPrecedence", "index printer stops consulting precedence"},
	{"C02", "C02.R4", "lexer/lexer.go", `(?s)case 'n':\s+ch = '\\n'`, "case 'N':\n\t\t\t\tch = '\\n'", "escape case removed"},
	{"C02", "C02.R5", "ast/ast.go", `(?s)s\.PrettyPrint\(ps\)\s+ps\.prev = s`, "ps.prev = s\n\t\ts.PrettyPrint(ps)", "previous-sibling recorded before printing"},
	{"C03", "C03.R1", "ast/ast.go", `for i, key := range hl\.Order \{`, "i := -1\n\tfor key := range hl.Pairs {\n\t\ti++", "map literal printed in Go map order"},
	{"C04", "C04.R3", "extensions/extension.go", `(?s)(rand\.Int64N\(n\)\}[^\n]*\n\t\t\},\n)\t\tDontCache: true,\n`, "$1", "DontCache removed from rand"},
	{"C04", "C04.R1", "eval/eval.go", `(?s)if res\.Type\(\) == object\.ERROR \{\s+log\.Debugf\("Cache miss for %s %v, not caching error result"[^\n]*\n\s+return res\s+\}`, "", "errors become cacheable"},
	{"C04", "C04.R2", "object/state.go", `orig\.getMiss\+\+ // creating a ref to a non constant is a miss\.`, "_ = orig", "miss increment dropped in makeRef"},
	{"C05", "C05.R1", "eval/eval.go", `defer s\.env\.ReleaseRegister\(register\)`, "_ = register", "register release dropped"},
	{"C05", "C05.R3", "eval/eval.go", `result = append\(result, object\.CopyRegister\(evaluated\)\)`, "result = append(result, evaluated)", "arguments no longer copied out of registers"},
	{"C05", "C05.R2", "eval/eval.go", `if !env\.HasRegisters\(\) \{`, "if false {", "capacity test removed"},
	{"C06", "C06.R1", "object/object.go", `(?s)res := &BigMap\{kv: make\(\[\]keyValuePair, 0, nl\)\}\s+res\.kv = append\(res\.kv, m\.kv\.\.\.\)`, "res := &BigMap{kv: m.kv}", "BigMap.Append reuses the left operand's storage"},
	{"C07", "C07.R3", "eval/eval.go", `(?s)if rightVal == 0 \{\s+return s\.NewError\("division by zero"\)\s+\}`, "", "zero-divisor test removed"},
	{"C07", "C07.R4", "eval/eval.go", `if idx < 0 \|\| idx >= int64\(len\(str\)\) \{`, "if idx >= int64(len(str)) {", "lower bound test removed"},
	{"C07", "C07.R2", "eval/eval.go", `(?s)idxE, ok := node\.\(\*ast\.IndexExpression\)\s+if !ok \{\s+return s\.NewError\("delete not supported on " \+ node\.Value\(\)\.DebugString\(\)\)\s+\}\s+index := s\.Eval`, "idxE := node.(*ast.IndexExpression)\n\t\tindex := s.Eval", "comma-ok removed from an assertion under an ambiguous token test"},
	{"C08", "C08.R1", "parser/parser.go", `(?s)log\.Debugf\("parseBlockStatement: EOL"\)\s+p\.continuationNeeded = true`, `log.Debugf("parseBlockStatement: EOL")`, "continuation mark dropped before return nil"},
	{"C08", "C08.R2", "parser/parser.go", `for !p\.curTokenIs\(token\.RBRACE\) && !p\.curTokenIs\(token\.EOF\) \{`, "for !p.curTokenIs(token.RBRACE) {", "block loop no longer exits at EOF"},
	{"C09", "C09.R1", "eval/eval.go", `(?s)if s\.Context != nil && s\.Context\.Err\(\) != nil \{\s+return s\.Error\(s\.Context\.Err\(\)\)\s+\}\s+switch node := node\.\(type\)`, "switch node := node.(type)", "deadline test removed from evalInternal"},
	{"C09", "C09.R4", "eval/eval.go", `object\.MustBeOk\(\(len\(leftVal\) \+ len\(rightVal\)\) / object\.ObjectSize\)[^\n]*\n`, "", "memory guard removed from string +"},
	{"C10", "C10.R1", "eval/eval_api.go", `s\.PipeVal = nil`, "_ = s", "Reset no longer clears the pipe value"},
	{"C11", "C11.R3", "extensions/shell.go", `object\.MakeQuad\(stderr, object\.String\{Value: serr\.String\(\)\},\s+stdout, object\.String\{Value: sout\.String\(\)\}\)`, "object.MakeQuad(stdout, object.String{Value: sout.String()}, stderr, object.String{Value: serr.String()})", "MakeQuad keys out of order"},
	{"C12", "C12.R1", "eval/eval.go", `object\.Cmp\(left, right\) >= 0\)`, "object.Cmp(left, right) > 0)", ">= implemented as >"},
	{"C12", "C12.R2", "object/object.go", `return cmp\.Compare\(ei\.\(String\)\.Value, ej\.\(String\)\.Value\)`, "return cmp.Compare(ej.(String).Value, ei.(String).Value)", "comparator operands swapped"},
	{"C13", "C13.R2", "ast/modify.go", `(?s)newNode\.Index, cont = Modify\(node\.Index, f\)\s+if !cont \{\s+return nil, false\s+\}`, "newNode.Index = node.Index", "Modify stops rewriting the index child"},
	{"C14", "C14.R3", "object/state.go", `\n\tslices\.Sort\(keys\)\n\tn := 0`, "\n\tn := 0", "globals saved in map order"},
	{"C14", "C14.R4", "object/state.go", `(?s)if isConstantAndExtraIdentifier\(k\) \{\s+// Don't save PI, E, etc\.\. that can't be changed\.\s+continue\s+\}`, "", "constants are saved"},
	{"C15", "C15.R2", "parser/parser.go", `(?s)if p\.peekTokenIs\(token\.EOL\) \{\s+p\.continuationNeeded = true\s+return false\s+\}`, "", "expectPeek reports an error at end of line"},
	{"C16", "C16.R1", "lexer/lexer.go", `return string\(l\.input\[pos:l\.pos\]\)\n\}\n\nfunc notEOL`, "return string(l.input[pos+1 : l.pos])\n}\n\nfunc notEOL", "identifier text loses its first byte"},
	{"C16", "C16.R2", "lexer/lexer.go", `(?s)if nextChar == ch \{ // << and >>\s+l\.pos\+\+`, "if nextChar == ch { // << and >>", "position not advanced for a two-byte token"},
	{"C17", "C17.R2", "extensions/extension.go", `return "", fmt\.Errorf\("invalid character in filename %q: %c", file, r\)`, "break", "sanitiser loop breaks instead of rejecting"},
	{"C17", "C17.R1", "extensions/extension.go", `f, err := os\.Open\(file\)`, "f, err := os.Open(args[0].(object.String).Value)", "load opens the unsanitised name"},
	{"C18", "C18.R1", "repl/repl.go", `(?s)n, err := s\.SaveGlobals\(f\)\s+if err != nil \{\s+return err\s+\}`, "n, _ := s.SaveGlobals(f)", "rename no longer guarded by the write's success"},
	{"C19", "C19.R4", "eval/eval.go", ` && !object\.Constant\(name\) \{`, " {", "constant loop variables become registers again"},
	{"C19", "C19.R1", "eval/eval.go", `oerr := s\.env\.Set\(name\.Literal\(\), fn\)`, "oerr := s.env.SetNoChecks(name.Literal(), fn, false)", "function definition bypasses the constant check"},
	{"C20", "C20.R3", "trie/trie.go", `(?s)if char > t\.max \{\s+t\.max = char\s+\}`, "", "max bound not maintained"},
	{"C20", "C20.R1", "trie/trie.go", `(?s)default:\s+// Existing interior node[^\n]*\n\s+if i == l-1 \{\s+t\.children\[char\]\.valid = true\s+\}`, "default:", "interior node not marked"},
	// rules added after the seeded rounds
	{"C01", "C01.R6", "eval/eval.go", `(?s)if buf\.Len\(\) > 0 \{\s+output = buf\.Bytes\(\)\s+_, err := s\.Out\.Write\(output\)`, "if buf.Len() > 0 {\n\t\toutput = buf.Bytes()\n\t\t_, err := bytes.NewBuffer(nil).Write(output)", "captured output written to a writer that is not the restored one"},
	{"C02", "C02.R6", "parser/parser.go", `(?s)// nil return value\s+return stmt`, "// nil return value\n\t\tp.nextToken()\n\t\treturn stmt", "bare return shifts a token"},
	{"C02", "C02.R7", "ast/ast.go", `p\.Right\.PrettyPrint\(out\)\n\tout\.ExpressionPrecedence = oldPrecedence\n`, "p.Right.PrettyPrint(out)\n\t_ = oldPrecedence\n", "prefix printer does not restore the enclosing precedence"},
	// (an operator that dropped the cantCache test of applyFunction was retired: with the test folded into `after != before || cantCache`
	// it is an equivalent mutant - TriggerNoCache bumps the miss counter too, which the writer obligations of C04.R2 establish)
	{"C05", "C05.R8", "eval/eval.go", `if name != "" && !s\.NoReg && s\.env\.HasRegisters\(\) && !object\.Constant\(name\) \{`, `if name != "" && !s.NoReg && !object.Constant(name) {`, "register released although none may have been acquired"},
	{"C06", "C06.R3", "eval/eval.go", `rightArr := object\.Elements\(right\)\n`, "rightArr := object.Elements(right)\n\t\tif len(rightArr) == 0 {\n\t\t\treturn left\n\t\t}\n", "a + [] returns a"},
	{"C06", "C06.R4", "eval/eval.go", `(?s)for i, e := range elements \{\s+elements\[i\] = object\.Value\(e\)[^\n]*\n\s+\}\n`, "", "array literal keeps references"},
	{"C01", "C01.R9", "eval/eval.go", `(?s)case token\.BREAK:\s+return lastEval\s+case token\.CONTINUE:\s+continue\s+default: // return`, "default: // return", "while-form loop stops handling break/continue"},
	{"C14", "C14.R7", "object/state.go", `(?s)if ref\.RefEnv\.depth == 0 \{\s+ref\.RefEnv\.numSet\+\+[^\n]*\n\s+\}`, "", "first write through a fresh reference no longer advances numSet"},
	{"C04", "C04.R2", "object/state.go", `e\.getMiss\+\+ // a write outside of this frame[^\n]*\n`, "", "update through a reference no longer counts as a miss"},
	{"C13", "C13.R9", "eval/macro_expension.go", `extended\.CreateOrSet\(param\.Value\(\)\.Literal\(\), args\[paramIdx\], true\)`, "extended.CreateOrSet(param.Value().Literal(), args[paramIdx], false)", "macro parameters bound like ="},
	{"C01", "C01.R10", "eval/eval.go", `(?s)if oerr := s\.env\.Set\(name, v\); oerr\.Type\(\) == object\.ERROR \{\s+return oerr[^\n]*\n\s+\}`, "s.env.Set(name, v)", "list loop drops the binding error"},
	{"C08", "C08.R8", "eval/eval_api.go", `(?s)if p\.ContinuationNeeded\(\) \{[^\n]*\n\s+return object\.NULL, errors\.New\("parsing error: incomplete input"\)\s+\}`, "_ = errors.New", "EvalString evaluates incomplete trees again"},
	{"C04", "C04.R5", "eval/eval.go", `(?s)if res\.Type\(\) == object\.FUNC \{\s+return res\s+\}`, "", "closures become cacheable again"},
	{"C04", "C04.R1", "eval/eval.go", `s\.env\.TriggerNoCache\(\)\n\t\t\tval = object\.String\{Value: val\.\(object\.Error\)\.Value\}`, "val = object.String{Value: val.(object.Error).Value}", "catch no longer marks the call uncacheable"},
	{"C02", "C02.R9", "ast/ast.go", `(?s)if rightOperandBindsTighter\(i\.Type\(\), i\.Right\) \{\s+out\.ExpressionPrecedence\+\+\s+\}`, "", "right operand printed at the operator's own precedence"},
	{"C02", "C02.R10", "ast/ast.go", `(?s)if i\.Right != nil \{ // nil for the open ended slice[^\n]*\n`, "if i.Right == nil {\n\t\tout.Print(\"nil\")\n\t} else {\n", "missing operand printed as nil"},
	{"C16", "C16.R5", "lexer/lexer.go", `(?s)// unterminated string: not the end of the program, an error\.\s+return token\.Intern\(token\.ILLEGAL, string\(ch\)\)`, "return token.EOFT", "unterminated string is the end of file again"},
	{"C15", "C15.R3", "parser/parser.go", `(?s)if p\.l\.OpenString\(\) \{[^\n]*\n\s+p\.continuationNeeded = true\s+\}`, "", "the open string no longer asks for more input"},
	{"C16", "C16.R6", "lexer/lexer.go", `(?s)if !isHexChar\(l\.peekChar\(\)\) \{\s+break\s+\}`, "", "readHex consumes whatever follows"},
	{"C07", "C07.R13", "eval/eval_api.go", `\t\tContext:    context\.Background\(\),\n`, "", "blank states start without a context"},
	{"C09", "C09.R9", "main.go", `(?s)if options\.MaxDepth > 0 \{\s+ns\.MaxDepth = options\.MaxDepth\s+\}`, "", "script files run without the depth limit of the command line"},
	{"C09", "C09.R7", "eval/macro_expension.go", `\tres\.depth = s\.depth[^\n]*\n`, "", "macro expansion states restart the depth count"},
	{"C07", "C07.R14", "extensions/images.go", `if !\(v > -maxCoord && v < maxCoord\)`, "if !(v < maxCoord)", "path coordinates lose their lower bound"},
	{"C01", "C01.R11", "eval/eval.go", `lastEval = object\.Value\(nextEval\) // not a reference that later iterations can change\.`, "lastEval = nextEval", "a loop keeps the reference again"},
	{"C18", "C18.R5", "object/state.go", `(?s)_, err := fmt\.Fprintf\(to, "%s\\n", f\.Inspect\(\)\)\s+if err != nil \{\s+return n, err\s+\}`, "fmt.Fprintf(to, \"%s\\n\", f.Inspect())", "write error of a function line dropped"},
	{"C12", "C12.R7", "object/object.go", `return a == b \|\| \(IsIntType\(a\) && IsIntType\(b\)\)`, "return a == b || (a == REGISTER && b == INTEGER)", "TypeEqual loses symmetry"},
	{"C20", "C20.R8", "object/state.go", `if ids == nil \{\n\t\treturn\n\t\}\n\tif t == FUNC`, "if ids == nil || ids.Prefix(key) != nil {\n\t\treturn\n\t}\n\tif t == FUNC", "names that are a prefix of a known one are not indexed"},
	{"C01", "C01.R8", "eval/eval.go", `condition := object\.Value\(s\.evalInternal\(ie\.Condition\)\)`, "condition := s.evalInternal(ie.Condition)", "if condition no longer dereferenced"},
	{"C07", "C07.R9", "object/object.go", `return NULL, false, m\.len\n`, "return NULL, false, m.len + 1\n", "SmallMap.get reports an insertion point past len (relational summary)"},
	{"C07", "C07.R9", "object/object.go", `if nl > MaxSmallMap \{\n\t\treturn &BigMap\{kv: m\.kv\[1:\]\}`, "if nl > MaxSmallMap+1 {\n\t\treturn &BigMap{kv: m.kv[1:]}", "small-map threshold off by one"},
	{"C07", "C07.R10", "eval/eval.go", `if idx < 0 \|\| idx > maxV \{`, "if idx < 0 {", "upper bound test removed from array indexing"},
	{"C08", "C08.R7", "ast/ast.go", `_, _ = ps\.Out\.Write\(\[\]byte\(strings\.Repeat\("\\t", ps\.IndentLevel-1\)\)\)`, "_, _ = ps.Out.Write([]byte(\"\\t\\t\\t\\t\\t\\t\\t\\t\"[:ps.IndentLevel-1]))", "indentation sliced from a fixed string"},
	{"C09", "C09.R6", "object/memory.go", `gomemlimit := debug\.SetMemoryLimit\(-1\)`, "gomemlimit := debug.SetMemoryLimit(-1)\n\tgomemlimit = int64(1) << 62", "memory limit queried but not used"},
	{"C09", "C09.R7", "eval/eval_api.go", `evalState\.Context = ctx\n`, "_ = ctx\n", "blank state no longer inherits the deadline"},
	{"C10", "C10.R4", "eval/eval_api.go", `s\.env = s\.rootEnv\n\ts\.depth = 0`, "for s.env.StackParent() != nil {\n\t\ts.env = s.env.StackParent()\n\t}\n\ts.depth = 0", "Reset derives the scope from the current one"},
	{"C10", "C10.R5", "eval/eval_api.go", `s\.PipeVal = nil\n\}`, "s.PipeVal = nil\n\ts.macroState = object.NewMacroEnvironment()\n}", "Reset drops the macro store"},
	{"C12", "C12.R1", "object/object.go", `func CompareKeys\(a, b keyValuePair\) int \{\n`, "func CompareKeys(a, b keyValuePair) int {\n\tif a.Key == b.Key {\n\t\treturn 0\n\t}\n", "CompareKeys has a path that is not Cmp"},
	{"C13", "C13.R7", "eval/macro_expension.go", `/\* not always incrementing \*/ \{`, "i++ {", "index advanced after a removal"},
	{"C13", "C13.R8", "ast/modify.go", `newNode := &ArrayLiteral\{Base: node\.Base, Elements:`, "newNode := &ArrayLiteral{Elements:", "Base dropped from the rebuilt array literal"},
	{"C14", "C14.R5", "repl/repl.go", `\tscanner\.Buffer\(nil, math\.MaxInt\)[^\n]*\n`, "\t_ = math.MaxInt\n", "line limit back to bufio's default"},
	{"C16", "C16.R3", "token/token.go", `\tinterning\[\*t\] = t\n`, "\tif len(interning) > 1<<16 {\n\t\tResetInterning()\n\t}\n\tinterning[*t] = t\n", "interning table reset while lexing"},
	{"C18", "C18.R4", "eval/eval_api.go", `func \(s \*State\) SaveGlobals\(w io\.Writer\) \(int, error\) \{\n\treturn s\.env\.SaveGlobals\(w, s\.MaxValueLen\)`, "func (s *State) SaveGlobals(w io.Writer) (n int, err error) {\n\tdefer func() { err = nil }()\n\treturn s.env.SaveGlobals(w, s.MaxValueLen)", "deferred closure masks the write error"},
	{"C19", "C19.R2", "object/state.go", `\t\t\treturn old\n\t\t\}\n\t\}\n\tif IsExtraFunction`, "\t\t}\n\t}\n\tif IsExtraFunction", "an equal value overwrites the constant again"},
	{"C01", "C01.R13", "eval/eval.go", `(?s)\tcase token\.ERROR, token\.PRINT, token\.PRINTLN, token\.LOG:\n\t\treturn s\.evalPrintLogError\(node\)\n\tdefault:\n\t\}`, "\tdefault:\n\t}\n\tif minV > 0 {\n\t\tif pre := s.evalInternal(node.Parameters[0]); pre.Type() == object.ERROR && t != token.LOG && t != token.CATCH {\n\t\t\treturn pre\n\t\t}\n\t}\n\tswitch t {\n\tcase token.ERROR, token.PRINT, token.PRINTLN, token.LOG:\n\t\treturn s.evalPrintLogError(node)\n\tdefault:\n\t}", "first argument of print evaluated before the printer evaluates all of them"},
	{"C01", "C01.R14", "eval/eval.go", `left := object\.Value\(s\.Eval\(node\.Left\)\)`, "left := s.Eval(node.Left)", "left operand kept as a register/reference while the right one runs"},
	{"C01", "C01.R14", "eval/eval.go", `s\.evalExpressions\(node\.Elements, true\)`, "s.evalExpressions(node.Elements, false)", "array elements dereferenced after the whole list"},
	{"C04", "C04.R3", "extensions/extension.go", `(?s)Help:      "in seconds",\n\t\tDontCache: true,[^\n]*\n`, "Help:      \"in seconds\",\n", "sleep cacheable again"},
	{"C04", "C04.R4", "object/object.go", `(?s)case INTEGER, BOOLEAN, NIL, STRING, REGISTER:\n\t\treturn true\n\tcase FLOAT:.*?return f != 0 \|\| !math\.Signbit\(f\)`, "case INTEGER, FLOAT, BOOLEAN, NIL, STRING, REGISTER:\n\t\t_ = math.Signbit\n\t\treturn true", "every float accepted as a key"},
	{"C05", "C05.R13", "eval/eval.go", `(?s)if in\.Type\(\) == token\.QUOTE && len\(in\.Parameters\) == 1 \{.*?if found \{\n\t\t\t\treturn nil, false\n\t\t\t\}\n\t\t\}`, "", "quote no longer aborts the register rewrite"},
	{"C14", "C14.R10", "object/state.go", `if f\.Name != nil && f\.Name\.Literal\(\) == k \{`, "if f.Name != nil {", "definition form written for aliases too"},
	{"C15", "C15.R6", "parser/parser.go", `(?s)if p\.curTokenIs\(token\.RPAREN\) && p\.peekTokenIs\(token\.EOL\) \{[^\n]*\n\t\tp\.continuationNeeded = true\n\t\treturn nil\n\t\}\n`, "", "() at the end of a line is a parse error again"},
	{"C02", "C02.R12", "ast/ast.go", `ps\.Print\(strconv\.Quote\(s\.Literal\(\)\)\)`, "ps.Print(`\"`, s.Literal(), `\"`, strconv.Quote(\"\")[:0])", "string literal printed raw"},
	{"C03", "C03.R8", "parser/parser.go", `t == token\.LBRACKET && p\.l\.HadWhitespace\(\)`, "t == token.LBRACKET && p.l.HadWhitespace() && !p.nextNewline", "the [ guard looks at something the ( guard does not"},
	{"C04", "C04.R2", "object/state.go", `(?s)e\.getMiss\+\+([^\n]*)\n(\s+)e = rr\.RefEnv`, "e = rr.RefEnv\n${2}e.getMiss++", "miss charged to the referenced environment"},
	{"C05", "C05.R14", "eval/eval.go", `(?s)(case token\.REGISTER:\n\t\treg := node\.Left\.\(\*object\.Register\)\n)`, "${1}\t\tif node.Type() == token.DEFINE {\n\t\t\treturn s.env.CreateOrSet(reg.Literal(), right, true)\n\t\t}\n", "the REGISTER arm also creates a variable"},
	{"C11", "C11.R7", "object/object.go", `m\.kv\[i\]\.Value = value`, "m.kv[i] = kv", "update replaces the stored key"},
	{"C11", "C11.R8", "object/object.go", `return NewArray\(v\.elements\[1:\]\)`, "return BigArray{elements: v.elements[1:]}", "rest of a big array reslices in place"},
	{"C14", "C14.R11", "object/object.go", `(?s)func \(f Float\) Inspect\(\) string \{\n`, "func (f Float) Inspect() string {\n\tif f.Value != 0 && f.Value >= math.MinInt64 && f.Value <= math.MaxInt64 && f.Value == math.Trunc(f.Value) {\n\t\treturn strconv.FormatInt(int64(f.Value), 10)\n\t}\n", "whole floats printed through int64"},
	{"C15", "C15.R7", "parser/parser.go", `\(p\.peekToken\.Type\(\) == token\.RBRACKET\)`, "(p.prefixParseFns[p.peekToken.Type()] == nil)", "operand left out whenever the next token cannot start an expression"},
	{"C16", "C16.R8", "lexer/lexer.go", `return ch == ' ' \|\| ch == '\\t' \|\| ch == '\\n' \|\| ch == '\\r'`, "return ch == ' ' || ch == '\\t' || ch == '\\n' || ch == '\\r' || ch == '\\v'", "vertical tab skipped as whitespace"},
	{"C18", "C18.R6", "repl/repl.go", `scanner\.Buffer\(nil, math\.MaxInt\)`, "scanner.Buffer(nil, min(math.MaxInt, options.MaxValueLen+1024))", "line limit of the state file reader"},
	{"C20", "C20.R10", "trie/trie.go", `(?s)(func \(t \*Trie\) Prefix\(word string\) \*Trie \{\n\tfor i := range len\(word\) \{\n\t\tchar := word\[i\]\n)`, "${1}\t\tif t.max == 0 {\n\t\t\treturn nil\n\t\t}\n", "Prefix gives up when max == 0"},
	{"C01", "C01.R12", "eval/eval.go", `oerr := s\.env\.Set\(name\.Literal\(\), fn\)`, "oerr := s.env.CreateOrSet(name.Literal(), fn, true)", "named function bound as a forced local"},
	{"C02", "C02.R5", "ast/ast.go", `ps\.last != "\}" && ps\.last != "\]"`, `ps.last != "}" && ps.last != "]" && ps.last != ")"`, "compact separator also dropped after )"},
	{"C03", "C03.R7", "parser/parser.go", `Statements: \[\]ast\.Node\{p\.parseIfExpression\(\)\}`, "Statements: []ast.Node{p.parseStatement()}", "else-if alternative parsed as a statement"},
	{"C07", "C07.R16", "object/object.go", `(?s)copy\(m\.kv\[idx:\], m\.kv\[idx\+1:\]\)\s+m\.kv = m\.kv\[:len\(m\.kv\)-1\]`, "m.kv = slices.Delete(m.kv, idx, idx+1)", "deletion zeroes the vacated cell"},
	{"C08", "C02.R11", "ast/ast.go", `if len\(ie\.Alternative\.Statements\) == 1 && ie\.Alternative\.Statements\[0\]\.Value\(\)\.Type\(\) == token\.IF`, "if first := ie.Alternative.Statements[0]; len(ie.Alternative.Statements) == 1 && first.Value().Type() == token.IF", "else block indexed before its length is known"},
	{"C10", "C10.R6", "eval/stack.go", `(?s)func \(s \*State\) Error\(err error\) object\.Object \{`, "func (s *State) Error(err error) object.Object {\n\ts.CurrentFile = err.Error()", "the error path writes a State field"},
	{"C13", "C13.R12", "eval/quote_unquote.go", `(?s)b, ok := node\.\(\*ast\.Builtin\)\s+if !ok \{\s+return false\s+\}\s+return b\.Token == unquoteToken`, "return node.Value() == unquoteToken", "method call on the possibly nil node"},
	{"C14", "C14.R9", "object/state.go", `(?s)for e\.outer != nil \{\s+e = e\.outer\s+\}\s+keys := make\(\[\]string, 0, len\(e\.store\)\)`, "keys := make([]string, 0, len(e.store))", "SaveGlobals no longer walks to the root"},
	{"C20", "C20.R6", "trie/trie.go", `return t\.Prefix\(prefix\)\.All\(prefix\)`, "n := t.Prefix(prefix)\n\tif n.IsValid() && n.min >= n.max {\n\t\treturn len(prefix), []string{prefix}\n\t}\n\treturn n.All(prefix)", "PrefixAll fast path for min >= max"},
	{"C20", "C20.R6", "trie/trie.go", `if t\.leaf \{\n\t\treturn longest, res`, "if t.max == 0 {\n\t\treturn longest, res", "early return on max == 0"},
}

func copyTree(src, dst string) error {
	cmd := exec.Command("rsync", "-a", "--exclude", ".git", src+"/", dst+"/")
	if out, err := cmd.CombinedOutput(); err != nil {
		return fmt.Errorf("rsync: %v: %s", err, out)
	}
	return nil
}

func dropCaches(c *Ctx) {
	delete(extregCache, c)
	delete(tokRelCache, c)
	retLocalCache = map[*ssa.Function]map[int]bool{}
}

func selfTestImpl(id string, c *Ctx, r *Report, verif string) map[string]any {
	res := map[string]any{}
	// (1) extra build configuration
	if id == "C09" || id == "C17" {
		w := Load(LoadConfig{Repo: c.Repo, Env: []string{"GOOS=js", "GOARCH=wasm"}, Patterns: []string{"./wasm"}, MinPkgs: 9})
		checkWasmEntry(id, w, r)
		res["wasm_config"] = fmt.Sprintf("js/wasm entry point analysed (%d module packages)", len(w.Mod))
		dropCaches(w)
	}
	// (2) mutation self-test
	var ops []mutOp
	for _, op := range mutOps {
		if op.Prop == id {
			ops = append(ops, op)
		}
	}
	var caught, missed, skipped []string
	for _, op := range ops {
		tmp, err := os.MkdirTemp("", "grolcheck-selftest-")
		if err != nil {
			skipped = append(skipped, op.Remark+": "+err.Error())
			continue
		}
		func() {
			defer os.RemoveAll(tmp)
			scratch := filepath.Join(tmp, "repo")
			if err := copyTree(c.Repo, scratch); err != nil {
				skipped = append(skipped, op.Remark+": "+err.Error())
				return
			}
			path := filepath.Join(scratch, op.File)
			b, err := os.ReadFile(path)
			if err != nil {
				skipped = append(skipped, op.Remark+": "+err.Error())
				return
			}
			re := regexp.MustCompile(op.Find)
			loc := re.FindSubmatchIndex(b)
			if loc == nil {
				skipped = append(skipped, op.Remark+": target construct not found (operator out of date)")
				return
			}
			var dst []byte
			dst = re.Expand(dst, []byte(op.Repl), b, loc)
			nb := append(append(append([]byte{}, b[:loc[0]]...), dst...), b[loc[1]:]...)
			if err := os.WriteFile(path, nb, 0o644); err != nil {
				skipped = append(skipped, op.Remark+": "+err.Error())
				return
			}
			var mc *Ctx
			failed := false
			func() {
				defer func() {
					if e := recover(); e != nil {
						failed = true
						skipped = append(skipped, fmt.Sprintf("%s: variant does not type-check or analyse (%v)", op.Remark, e))
					}
				}()
				mc = Load(LoadConfig{Repo: scratch, MinPkgs: 10})
				mc.Tier = "quick"
				sub := NewReport(id, "quick", mc)
				props[id].run(mc, sub)
				hit := false
				kf := loadKnown(knownPath)
				for _, o := range sub.Obls {
					if o.status == FAIL && o.Rule == op.Rule && kf.match(id, o.Key()) == nil {
						hit = true
					}
				}
				if hit {
					caught = append(caught, op.Rule+": "+op.Remark)
				} else {
					missed = append(missed, op.Rule+": "+op.Remark)
				}
			}()
			_ = failed
			if mc != nil {
				dropCaches(mc)
			}
		}()
		debug.FreeOSMemory()
	}
	res["operators"] = len(ops)
	res["caught"] = caught
	res["selftest_missed"] = missed
	res["skipped"] = skipped
	if len(missed) > 0 {
		r.Undecided("mutation self-test: %d operator(s) not detected: %s", len(missed), strings.Join(missed, "; "))
	}
	if len(skipped) > 0 {
		// not a verdict on the tree: the operator's target moved (or its variant no longer compiles) and it has to be
		// brought up to date; listed so that it is not silently lost
		r.Note("mutation self-test: %d operator(s) could not be applied and were skipped: %s", len(skipped), strings.Join(skipped, "; "))
	}
	return res
}

// checkWasmEntry: the restricted deployment (wasm) initialises extensions with the restricted
// defaults and passes a depth and a duration limit.
func checkWasmEntry(id string, w *Ctx, r *Report) {
	mainFn := w.SSAFn(w.Fn("wasm", "main"))
	jsEval := w.SSAFn(w.Fn("wasm", "jsEval"))
	if id == "C17" {
		initFn := w.Fn("extensions", "Init")
		ok := false
		for _, call := range callsIn(mainFn, initFn) {
			if isNilConst(call.Common().Args[0]) {
				ok = true
			}
		}
		r.Rule("C17.R4", r.RuleDoc["C17.R4"])
		r.Check(ok, "C17.R4", ssaFuncName(mainFn), "wasm entry point calls extensions.Init(nil) (restricted defaults)", w.Pos(mainFn.Pos()), "the wasm deployment does not initialise extensions with the restricted default configuration")
	}
	if id == "C09" {
		optsT := w.TypeNamed("repl", "Options")
		set := map[string]bool{}
		eachInstr(jsEval, func(in ssa.Instruction) {
			st, ok := in.(*ssa.Store)
			if !ok {
				return
			}
			for _, f := range []string{"MaxDepth", "MaxDuration"} {
				if isFieldAddrOf(st.Addr, optsT, f) {
					if ld, ok := st.Val.(*ssa.UnOp); ok {
						if g, ok := ld.X.(*ssa.Global); ok && nonZeroInit(w, g) {
							set[f] = true
						}
					}
					if k, ok := constInt(st.Val); ok && k > 0 {
						set[f] = true
					}
				}
			}
		})
		r.Check(set["MaxDepth"] && set["MaxDuration"], "C09.R5", ssaFuncName(jsEval), "wasm entry point sets a depth limit and a duration limit", w.Pos(jsEval.Pos()), "the wasm deployment evaluates without a depth or a duration limit")
		memLimit := false
		eachInstr(mainFn, func(in ssa.Instruction) {
			if call, ok := in.(*ssa.Call); ok && stdName(call) == "runtime/debug.SetMemoryLimit" {
				memLimit = true
			}
		})
		r.Check(memLimit, "C09.R5", ssaFuncName(mainFn), "wasm entry point sets a memory limit", w.Pos(mainFn.Pos()), "the wasm deployment sets no memory limit: the memory guard has nothing to compare against")
	}
}

// nonZeroInit: the package-level variable is initialised to a non-zero constant and never stored elsewhere.
func nonZeroInit(c *Ctx, g *ssa.Global) bool {
	if g.Pkg == nil {
		return false
	}
	initFn := g.Pkg.Func("init")
	ok := false
	if initFn != nil {
		eachInstr(initFn, func(in ssa.Instruction) {
			if st, isSt := in.(*ssa.Store); isSt && st.Addr == ssa.Value(g) {
				if k, isK := constInt(st.Val); isK && k > 0 {
					ok = true
				}
				if cv, isCv := st.Val.(*ssa.Convert); isCv {
					if k, isK := constInt(cv.X); isK && k > 0 {
						ok = true
					}
				}
			}
		})
	}
	return ok
}
