package main

func selfTestImpl(id string, c *Ctx, r *Report, verif string) map[string]any { return nil }
