package main

// loopctl: rule C01.R9, loops honour break and continue.
//
// A loop construct of the language is evaluated by a Go loop that evaluates the same body node again and
// again: a call to State.evalInternal that sits in a cycle of the control-flow graph and whose argument does
// not change in that cycle (evalStatements / evalExpressions evaluate a different node per iteration and are
// not concerned). When the result of such a call is tested for the RETURN tag, the ReturnValue has to be
// looked at: ControlType BREAK leaves the Go loop without evaluating the body again, CONTINUE goes back to
// it. A loop form that hands every RETURN-tagged object to its caller turns `break` into the error
// "unexpected control type BREAK outside of for loops" (for true {break} did exactly that).

import (
	"go/token"
	"go/types"

	"golang.org/x/tools/go/ssa"
)

func blockReaches(a, b *ssa.BasicBlock) bool {
	seen := map[*ssa.BasicBlock]bool{}
	stack := append([]*ssa.BasicBlock{}, a.Succs...)
	for len(stack) > 0 {
		x := stack[len(stack)-1]
		stack = stack[:len(stack)-1]
		if seen[x] {
			continue
		}
		seen[x] = true
		if x == b {
			return true
		}
		stack = append(stack, x.Succs...)
	}
	return false
}

func (c *Ctx) checkLoopControl(r *Report, rule string) {
	evalInternal := c.SSAFn(c.Fn("eval", "State.evalInternal"))
	retT := c.TypeNamed("object", "ReturnValue")
	ctlIdx := fieldIndex(retT, "ControlType")
	retTag := c.tagConst("RETURN")
	brk, _ := constInt64(c.Const("token", "BREAK"))
	cnt, _ := constInt64(c.Const("token", "CONTINUE"))
	if evalInternal == nil || ctlIdx < 0 {
		r.Undecided("%s: State.evalInternal or ReturnValue.ControlType not found", rule)
		return
	}
	// the argument keeps its value while the cycle runs
	var invariant func(v ssa.Value, in *ssa.BasicBlock, depth int) bool
	invariant = func(v ssa.Value, in *ssa.BasicBlock, depth int) bool {
		if depth > 5 {
			return false
		}
		switch x := v.(type) {
		case *ssa.Parameter, *ssa.Const, *ssa.FreeVar, *ssa.Global:
			return true
		case *ssa.MakeInterface:
			return invariant(x.X, in, depth+1)
		case *ssa.ChangeInterface:
			return invariant(x.X, in, depth+1)
		case *ssa.UnOp:
			if x.Op == token.MUL {
				if fa, ok := x.X.(*ssa.FieldAddr); ok {
					return invariant(fa.X, in, depth+1)
				}
			}
		case *ssa.Field:
			return invariant(x.X, in, depth+1)
		case *ssa.Phi:
			if x.Block() == in || (blockReaches(x.Block(), in) && blockReaches(in, x.Block())) {
				return false
			}
			return true
		}
		if ins, ok := v.(ssa.Instruction); ok {
			b := ins.Block()
			return !(b == in || (blockReaches(b, in) && blockReaches(in, b)))
		}
		return false
	}
	n := 0
	perFn := map[*ssa.Function]int{}
	for _, fn := range c.ModuleSSAFuncs() {
		if fn.Pkg == nil || shortPkg(fn.Pkg.Pkg) != "eval" {
			continue
		}
		eachInstr(fn, func(in ssa.Instruction) {
			call, ok := in.(*ssa.Call)
			if !ok || call.Common().StaticCallee() != evalInternal {
				return
			}
			b := call.Block()
			if !blockReaches(b, b) {
				return
			}
			args := call.Common().Args
			if len(args) < 2 || !invariant(args[1], b, 0) {
				return
			}
			// is the result tested for RETURN?
			tested := false
			for _, ref := range *call.Referrers() {
				tc, ok := ref.(*ssa.Call)
				if !ok || !tc.Common().IsInvoke() || tc.Common().Method.Name() != "Type" {
					continue
				}
				var walk func(v ssa.Value, depth int)
				walk = func(v ssa.Value, depth int) {
					if depth > 3 {
						return
					}
					for _, r2 := range *v.Referrers() {
						switch y := r2.(type) {
						case *ssa.BinOp:
							if k, ok := constInt(y.Y); ok && k == retTag && (y.Op == token.EQL || y.Op == token.NEQ) {
								tested = true
							}
						case *ssa.Phi:
							walk(y, depth+1)
						}
					}
				}
				walk(tc, 0)
			}
			if !tested {
				return
			}
			n++
			perFn[fn]++
			desc := "loop body evaluation looks at ControlType"
			if perFn[fn] > 1 {
				desc += " #" + itoa(perFn[fn])
			}
			// ControlType reads on a ReturnValue asserted from this result
			var ctlVals []ssa.Value
			for _, ref := range *call.Referrers() {
				ta, ok := ref.(*ssa.TypeAssert)
				if !ok || !types.Identical(ta.AssertedType, retT) {
					continue
				}
				var collect func(v ssa.Value, depth int)
				collect = func(v ssa.Value, depth int) {
					if depth > 4 {
						return
					}
					for _, r2 := range *v.Referrers() {
						switch y := r2.(type) {
						case *ssa.Field:
							if y.Field == ctlIdx {
								ctlVals = append(ctlVals, y)
							}
						case *ssa.Extract:
							if y.Index == 0 {
								collect(y, depth+1)
							}
						case *ssa.Store:
							// spilled into a local: follow its loads
							if al, ok := y.Addr.(*ssa.Alloc); ok && y.Val == v {
								for _, r3 := range *al.Referrers() {
									if fa, ok := r3.(*ssa.FieldAddr); ok && fa.Field == ctlIdx {
										for _, r4 := range *fa.Referrers() {
											if ld, ok := r4.(*ssa.UnOp); ok && ld.Op == token.MUL {
												ctlVals = append(ctlVals, ld)
											}
										}
									}
								}
							}
						}
					}
				}
				collect(ta, 0)
			}
			var brkEdge, cntEdge *ssa.BasicBlock
			for _, cv := range ctlVals {
				for _, ref := range *cv.Referrers() {
					bin, ok := ref.(*ssa.BinOp)
					if !ok || bin.Op != token.EQL {
						continue
					}
					k, ok := constInt(bin.Y)
					if !ok {
						continue
					}
					for _, r2 := range *bin.Referrers() {
						if ifi, ok := r2.(*ssa.If); ok {
							if k == brk {
								brkEdge = ifi.Block().Succs[0]
							}
							if k == cnt {
								cntEdge = ifi.Block().Succs[0]
							}
						}
					}
				}
			}
			pos := c.Pos(call.Pos())
			switch {
			case brkEdge == nil || cntEdge == nil:
				r.Fail(rule, ssaFuncName(fn), desc, pos, "the result of evaluating the loop body is tested for RETURN but its ControlType is not compared with both BREAK and CONTINUE: break / continue inside this loop form travel up as if they were `return` and end as \"unexpected control type\" errors")
			case brkEdge == b || blockReaches(brkEdge, b):
				r.Fail(rule, ssaFuncName(fn), desc, pos, "the BREAK arm can reach the evaluation of the body again: break does not leave the loop")
			case !(cntEdge == b || blockReaches(cntEdge, b)):
				r.Fail(rule, ssaFuncName(fn), desc, pos, "the CONTINUE arm cannot reach the evaluation of the body again: continue leaves the loop")
			default:
				r.Ok(rule, ssaFuncName(fn), desc, pos)
			}
		})
	}
	if n < 3 {
		r.Undecided("%s: only %d loop body evaluations found (evalForInteger, evalForList, evalForExpression expected)", rule, n)
	}
	r.Floor(rule, 3)
}

// checkLoopCarriedValues: rule C01.R11, what a loop keeps from one iteration to the next is a value.
//
// The loop forms remember the value of the last iteration (lastEval) to return it when the loop ends or
// breaks. evalInternal hands back an object.Reference for a variable of an outer scope: kept as is, it is
// dereferenced when the loop returns, after later iterations changed the variable
// (x=0; func f(){for i=5 {x=x+1; if i==3 {break}; x}}; f() gave 4). In package eval, in every function that
// calls evalInternal inside a cycle, no Object-typed value carried around that cycle (a phi of the loop
// header fed by a back edge) may be a Reference: object.Value (or any other cleaner of C01.R8) comes first.
func (c *Ctx) checkLoopCarriedValues(r *Report, rule string) {
	evalInternal := c.SSAFn(c.Fn("eval", "State.evalInternal"))
	t := NewTaint(c, c.referenceSpec())
	objT := c.TypeNamed("object", "Object")
	n := 0
	for _, fn := range c.ModuleSSAFuncs() {
		if fn.Pkg == nil || shortPkg(fn.Pkg.Pkg) != "eval" {
			continue
		}
		inCycle := false
		eachInstr(fn, func(in ssa.Instruction) {
			if call, ok := in.(*ssa.Call); ok && call.Common().StaticCallee() == evalInternal && blockReaches(call.Block(), call.Block()) {
				inCycle = true
			}
		})
		if !inCycle {
			continue
		}
		fname := ssaFuncName(fn)
		for _, b := range fn.Blocks {
			for _, in := range b.Instrs {
				phi, ok := in.(*ssa.Phi)
				if !ok {
					break
				}
				if !types.Identical(phi.Type(), objT) {
					continue
				}
				back := false
				bad := ""
				for i, e := range phi.Edges {
					if !b.Dominates(b.Preds[i]) {
						continue
					}
					back = true
					if t.May(e) && !(t.spec.CleanAt != nil && t.spec.CleanAt(e, lastInstr(b.Preds[i]))) {
						bad = e.Name()
					}
				}
				if !back {
					continue
				}
				// only a value that can survive an iteration in which something was evaluated matters: a back edge
				// that brings the phi itself back, from a block reached through a call of evalInternal in the cycle
				// (evalStatements overwrites its result whenever it evaluates a statement: not concerned)
				survives := false
				evalBlocks := []*ssa.BasicBlock{}
				for _, cb := range fn.Blocks {
					for _, x := range cb.Instrs {
						if call, ok := x.(*ssa.Call); ok && call.Common().StaticCallee() == evalInternal {
							evalBlocks = append(evalBlocks, cb)
							break
						}
					}
				}
				// the phi's own value comes back along `pred` after an evaluation happened in this iteration
				var comesBack func(v ssa.Value, pred *ssa.BasicBlock, depth int) bool
				comesBack = func(v ssa.Value, pred *ssa.BasicBlock, depth int) bool {
					if depth > 4 {
						return false
					}
					if v == ssa.Value(phi) {
						for _, cb := range evalBlocks {
							if reachesWithout(b, cb, nil) && reachesWithout(cb, pred, b) {
								return true
							}
						}
						return false
					}
					if p2, ok := v.(*ssa.Phi); ok && p2 != phi {
						for j, e2 := range p2.Edges {
							if comesBack(e2, p2.Block().Preds[j], depth+1) {
								return true
							}
						}
					}
					return false
				}
				for i, e := range phi.Edges {
					if b.Dominates(b.Preds[i]) && comesBack(e, b.Preds[i], 0) {
						survives = true
					}
				}
				if !survives {
					continue
				}
				n++
				desc := "loop-carried value " + phi.Comment
				r.Check(bad == "", rule, fname, desc, c.Pos(fn.Pos()),
					"the value kept from one iteration to the next ("+bad+") can be an object.Reference: it is dereferenced when the loop returns, after later iterations changed the variable, so the loop yields a value no iteration produced")
			}
		}
	}
	if n < 3 {
		r.Undecided("%s: only %d loop-carried object values found in the evaluator's loops", rule, n)
	}
	r.Floor(rule, 3)
}

// reachesWithout: a path from block a to block b (a == b counts) that does not enter block avoid.
func reachesWithout(a, b, avoid *ssa.BasicBlock) bool {
	if a == b {
		return true
	}
	seen := map[*ssa.BasicBlock]bool{a: true}
	stack := []*ssa.BasicBlock{a}
	for len(stack) > 0 {
		x := stack[len(stack)-1]
		stack = stack[:len(stack)-1]
		for _, s := range x.Succs {
			if s == avoid || seen[s] {
				continue
			}
			if s == b {
				return true
			}
			seen[s] = true
			stack = append(stack, s)
		}
	}
	return false
}
