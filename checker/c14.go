package main

import (
	"fmt"
	"go/token"
	"strings"

	"golang.org/x/tools/go/ssa"
)

func runC14(c *Ctx, r *Report) {
	r.Rule("C14.R1", "writer/reader agreement per value type: strings are written with strconv.Quote and every escape it emits is decoded by the lexer (shared with C02.R4); Float.Inspect guarantees a float marker; Integer.Inspect is base 10")
	r.Rule("C14.R2", "one binding per line: SaveGlobals writes each binding with a constant format that ends in exactly one newline and contains no other; the compact printers used for values never write a newline")
	r.Rule("C14.R3", "sorted, skip-not-truncate: the keys collected from the global map are sorted before use, the printed value is written whole, and the write is confined to the edge where the length limit is not exceeded")
	r.Rule("C14.R5", "reader capacity: the line reader of AutoLoad imposes no limit on line length (a bufio.Scanner has Buffer called before every Scan with a constant maximum of at least 2^31-1) and consults Scanner.Err() on every path from the scan loop to a return")
	r.Rule("C14.R4", "constants and built-in identifiers are not saved: every write of SaveGlobals is confined to the false edge of isConstantAndExtraIdentifier(key)")

	r.Rule("C14.R8", "a literal's value is what its text says: in package parser every store to IntegerLiteral.Val writes the first result of strconv.ParseInt and every store to FloatLiteral.Val the first result of strconv.ParseFloat (no converted unsigned / float parse)")
	c.checkLiteralValueSources(r, "C14.R8")
	r.Rule("C14.R9", "what is saved is the global scope: under Environment.SaveGlobals every read of an environment's store is dominated by the `outer == nil` edge of a test on that very environment (the exit of the walk to the root)")
	c.checkSaveIsGlobal(r, "C14.R9")
	r.Rule("C14.R10", "a saved line binds the name it is saved for: under SaveGlobals a line without `name=` (the definition form of a named function) is written only where the key was compared with the function's own name")
	c.checkNamedFormOnlyForOwnName(r, "C14.R10")
	r.Rule("C14.R12", "an alias keeps the function's name only if the name still denotes that function: under SaveGlobals the store is looked up by the function's own name and there is a path that drops the name")
	c.checkAliasKeepsNameOnlyIfCurrent(r, "C14.R12")
	r.Rule("C18.R6", "(shared with C18) the state file is read whole: the line scanner of repl.AutoLoad is given math.MaxInt as its line limit on every path (named functions are saved whatever their length)")
	c.checkAutoLoadReadsWholeLines(r, "C18.R6")
	r.Rule("C14.R11", "printing a number does not overflow it: every float -> integer conversion in package object (the Inspect / JSON printers of values) is dominated by -2^63 <= f < 2^63 with a strict upper bound")
	{
		var fns []*ssa.Function
		for _, fn := range c.ModuleSSAFuncs() {
			if fn.Pkg != nil && shortPkg(fn.Pkg.Pkg) == "object" {
				fns = append(fns, fn)
			}
		}
		if n := c.checkFloatToIntGuards(r, "C14.R11", fns, "the printed integer digits are those of the overflowed conversion (2^63 is written as -9223372036854775808) and the value reloads with the wrong sign"); n == 0 {
			r.OkWhy("C14.R11", "object", "no float -> integer conversion in the value printers", "", "floats are printed by strconv.FormatFloat")
		}
	}
	r.Rule("C14.R7", "auto-save sees every change: every write or delete on an Environment's store map (other than installing a Reference) is accompanied, on every path through it, by an increment of numSet of the same environment under its depth==0 test")
	c.checkChangeCounter(r, "C14.R7")

	sg := c.SSAFn(c.Fn("object", "Environment.SaveGlobals"))
	sname := ssaFuncName(sg)
	// ---- R1 ----
	{
		sub := NewReport("C02", r.Tier, c)
		sub.Sub = true
		runC02(c, sub)
		for _, o := range sub.Obls {
			if o.Rule != "C02.R4" {
				continue
			}
			if o.status == FAIL {
				r.Fail("C14.R1", o.Func, o.Desc, o.Pos, o.Reason)
			} else {
				r.Ok("C14.R1", o.Func, o.Desc, o.Pos)
			}
		}
		si := c.SSAFn(c.Fn("object", "String.Inspect"))
		uses := false
		eachInstr(si, func(in ssa.Instruction) {
			if call, ok := in.(*ssa.Call); ok && stdName(call) == "strconv.Quote" {
				uses = true
			}
		})
		r.Check(uses, "C14.R1", ssaFuncName(si), "String.Inspect writes with strconv.Quote", c.Pos(si.Pos()), "string values are no longer written with strconv.Quote, the writer the lexer's escapes were checked against")
		fi := c.SSAFn(c.Fn("object", "Float.Inspect"))
		// the result of FormatFloat with -1 precision is returned as is: integral floats print without a marker
		direct := false
		eachInstr(fi, func(in ssa.Instruction) {
			if ret, ok := in.(*ssa.Return); ok {
				if call, ok := retVal(ret, 0).(*ssa.Call); ok && stdName(call) == "strconv.FormatFloat" {
					if f, ok := constInt(call.Common().Args[1]); ok && (f == 'f' || f == 'g') {
						direct = true
					}
				}
			}
		})
		r.Check(!direct, "C14.R1", ssaFuncName(fi), "Float.Inspect guarantees a float marker", c.Pos(fi.Pos()),
			"strconv.FormatFloat(v, 'f', -1, 64) is returned unchanged: an integral float prints as an integer literal (3.0 -> 3), so a saved float reloads as an integer (and -9223372036854775808 as a float)")
		ii := c.SSAFn(c.Fn("object", "Integer.Inspect"))
		base10 := false
		eachInstr(ii, func(in ssa.Instruction) {
			if call, ok := in.(*ssa.Call); ok && stdName(call) == "strconv.FormatInt" {
				if b, ok := constInt(call.Common().Args[1]); ok && b == 10 {
					base10 = true
				}
			}
		})
		r.Check(base10, "C14.R1", ssaFuncName(ii), "Integer.Inspect is base 10", c.Pos(ii.Pos()), "integers are not written in base 10")
	}
	r.Floor("C14.R1", 14)

	// ---- R2 ----
	var writes []*ssa.Call
	siteOf := map[*ssa.Call]ssa.Instruction{} // where, in SaveGlobals, the write happens (itself, or the call of the helper that does it)
	fnOf := map[*ssa.Call]*ssa.Function{}     // the function that contains the write
	isWriteCall := func(call *ssa.Call) bool {
		name := stdName(call)
		return name == "fmt.Fprintf" || name == "fmt.Fprint" || name == "fmt.Fprintln" || (call.Common().IsInvoke() && call.Common().Method.Name() == "Write") || name == "io.WriteString"
	}
	eachInstr(sg, func(in ssa.Instruction) {
		call, ok := in.(*ssa.Call)
		if !ok {
			return
		}
		if isWriteCall(call) {
			writes = append(writes, call)
			siteOf[call], fnOf[call] = call, sg
			return
		}
		// a module helper that is handed the writer: its writes on that parameter are writes of SaveGlobals
		callee := call.Common().StaticCallee()
		if callee == nil || !isModuleSSA(callee) || callee.Blocks == nil || call.Common().IsInvoke() {
			return
		}
		for i, a := range call.Common().Args {
			if i >= len(callee.Params) || a != ssa.Value(sg.Params[1]) {
				continue
			}
			wp := callee.Params[i]
			eachInstr(callee, func(x ssa.Instruction) {
				ic, ok := x.(*ssa.Call)
				if !ok || !isWriteCall(ic) || len(ic.Common().Args) == 0 || ic.Common().Args[0] != ssa.Value(wp) {
					return
				}
				writes = append(writes, ic)
				siteOf[ic], fnOf[ic] = call, callee
			})
		}
	})
	if len(writes) < 2 {
		r.Undecided("SaveGlobals: %d writes found", len(writes))
	}
	for i, w := range writes {
		desc := "write #" + string(rune('1'+i)) + " of SaveGlobals"
		if stdName(w) != "fmt.Fprintf" {
			r.Fail("C14.R2", sname, desc+" uses a constant one-line format", c.Pos(w.Pos()), "a binding is written with something other than fmt.Fprintf and a constant format: the one-binding-per-line shape cannot be established")
			continue
		}
		f, ok := constString(w.Common().Args[1])
		good := ok && strings.HasSuffix(f, "\n") && strings.Count(f, "\n") == 1 && !strings.Contains(f, "\r")
		r.Check(good, "C14.R2", sname, desc+" uses a constant one-line format", c.Pos(w.Pos()), "the format does not end in exactly one newline (or contains another): auto-load reads the file one line at a time")
	}
	// compact printers: Function.Inspect / finishFuncOutput use compact=true
	{
		fi := c.SSAFn(c.Fn("object", "Function.Inspect"))
		ffo := c.Fn("object", "Function.finishFuncOutput")
		okCompact := false
		for _, call := range callsIn(fi, ffo) {
			if k, ok := call.Common().Args[len(call.Common().Args)-1].(*ssa.Const); ok && k.Value != nil && k.Value.ExactString() == "true" {
				okCompact = true
			}
		}
		r.Check(okCompact, "C14.R2", ssaFuncName(fi), "functions are saved in compact (single-line) form", c.Pos(fi.Pos()), "Function.Inspect does not print the body in compact mode: a saved function spans several lines")
		// every PrintState an Inspect method builds is compact (no newline) and inside a block level (braces kept)
		{
			psT := c.TypeNamed("ast", "PrintState")
			nPS := 0
			for _, fn := range c.ModuleSSAFuncs() {
				if fn.Name() != "Inspect" || fn.Pkg == nil || shortPkg(fn.Pkg.Pkg) != "object" {
					continue
				}
				eachInstr(fn, func(in ssa.Instruction) {
					al, ok := in.(*ssa.Alloc)
					if !ok {
						return
					}
					n := namedStruct(al.Type())
					if n == nil || n.Obj() != psT.Obj() {
						return
					}
					nPS++
					compact, level := false, false
					for _, ref := range *al.Referrers() {
						fa, ok := ref.(*ssa.FieldAddr)
						if !ok {
							continue
						}
						for _, r2 := range *fa.Referrers() {
							st, ok := r2.(*ssa.Store)
							if !ok || st.Addr != ssa.Value(fa) {
								continue
							}
							if fa.Field == fieldIndex(psT, "Compact") {
								if k, ok := st.Val.(*ssa.Const); ok && k.Value != nil && k.Value.ExactString() == "true" {
									compact = true
								}
							}
							if fa.Field == fieldIndex(psT, "IndentLevel") {
								if k, ok := constInt(st.Val); ok && k >= 1 {
									level = true
								}
							}
						}
					}
					// the level matters when an arbitrary node (interface receiver) is printed with it: a body printed as a
					// *Statements with hand-written braces around it (Macro.Inspect) is the top level of that text
					anyNode := false
					eachInstr(fn, func(in2 ssa.Instruction) {
						if call, ok := in2.(*ssa.Call); ok && call.Common().IsInvoke() && call.Common().Method.Name() == "PrettyPrint" {
							for _, a := range call.Common().Args {
								if a == ssa.Value(al) {
									anyNode = true
								}
							}
						}
					})
					if !anyNode {
						level = true
					}
					r.Check(compact && level, "C14.R2", ssaFuncName(fn), "the PrintState built here is compact and inside a block", c.Pos(al.Pos()),
						"an Inspect method prints code with a PrintState that is not compact or sits at indent level 0 (where a block is printed as the top level program: no braces, one statement per line): the saved binding spans several lines that do not parse, and auto-load runs them one by one")
				})
			}
			if nPS == 0 {
				r.Undecided("C14.R2: no PrintState built in an Inspect method of package object (Quote.Inspect expected)")
			}
		}
		// no Inspect method of package object writes a constant containing a newline (Error excepted: errors are not bindings)
		for _, fn := range c.ModuleSSAFuncs() {
			if fn.Name() != "Inspect" || fn.Pkg == nil || shortPkg(fn.Pkg.Pkg) != "object" {
				continue
			}
			bad := false
			eachInstr(fn, func(in ssa.Instruction) {
				call, ok := in.(*ssa.Call)
				if !ok {
					return
				}
				for _, a := range call.Common().Args {
					if s, ok := constString(a); ok && strings.Contains(s, "\n") {
						bad = true
					}
					if k, ok := constInt(a); ok && k == '\n' && calleeObj(call) != nil && calleeObj(call).Name() == "WriteByte" {
						bad = true
					}
				}
			})
			if strings.Contains(ssaFuncName(fn), "(Error)") {
				r.OkWhy("C14.R2", ssaFuncName(fn), "no newline in the printed form", c.Pos(fn.Pos()), "exception: Error.Inspect prints its stack on several lines; an error is never a saved binding")
				continue
			}
			r.Check(!bad, "C14.R2", ssaFuncName(fn), "no newline in the printed form", c.Pos(fn.Pos()), "a value's printed form can contain a newline: the binding would span several lines of the state file")
		}
	}
	r.Floor("C14.R2", 12)

	// ---- R3 ----
	{
		// sorted keys: a slices.Sort / sort.Strings call between the map range and the loop over keys
		var rng *ssa.Range
		var sortCall *ssa.Call
		eachInstr(sg, func(in ssa.Instruction) {
			if x, ok := in.(*ssa.Range); ok {
				rng = x
			}
			if call, ok := in.(*ssa.Call); ok {
				n := stdName(call)
				if n == "slices.Sort" || n == "sort.Strings" || n == "slices.SortFunc" {
					sortCall = call
				}
			}
		})
		// slices.Sorted(maps.Keys(m)): collection and sort in one expression
		eachInstr(sg, func(in ssa.Instruction) {
			if call, ok := in.(*ssa.Call); ok && strings.HasPrefix(stdName(call), "slices.Sorted") && len(call.Common().Args) == 1 {
				if kc, ok := call.Common().Args[0].(*ssa.Call); ok && strings.HasPrefix(stdName(kc), "maps.Keys") {
					sortCall = call
					if rng == nil {
						rng = &ssa.Range{}
					}
				}
			}
		})
		okSorted := rng != nil && sortCall != nil
		if okSorted {
			for _, w := range writes {
				if !instrDominates(sortCall, siteOf[w]) {
					okSorted = false
				}
			}
		}
		if !okSorted {
			// a helper on the same environment that collects the keys of its store and sorts them before returning
			eachInstr(sg, func(in ssa.Instruction) {
				hc, ok := in.(*ssa.Call)
				if !ok || okSorted {
					return
				}
				callee := hc.Common().StaticCallee()
				if callee == nil || !isModuleSSA(callee) || callee.Blocks == nil {
					return
				}
				hasRange, hasSort := false, false
				eachInstr(callee, func(x ssa.Instruction) {
					if _, ok := x.(*ssa.Range); ok {
						hasRange = true
					}
					if call, ok := x.(*ssa.Call); ok {
						if n := stdName(call); n == "slices.Sort" || n == "sort.Strings" || n == "slices.SortFunc" {
							// the sorted slice is what the helper returns
							for _, b := range callee.Blocks {
								if ret, ok := b.Instrs[len(b.Instrs)-1].(*ssa.Return); ok && len(ret.Results) == 1 && instrDominates(call, ret) {
									hasSort = true
								}
							}
						}
					}
				})
				if !hasRange || !hasSort {
					return
				}
				all := true
				for _, w := range writes {
					if !instrDominates(hc, siteOf[w]) {
						all = false
					}
				}
				okSorted = all
			})
		}
		r.Check(okSorted, "C14.R3", sname, "keys are sorted before any binding is written", c.Pos(sg.Pos()), "the bindings are written in Go map iteration order: saving the same state twice gives different files")
		// the value written is the whole Inspect() result and the write is under !(len(val) > max)
		for _, w := range writes {
			wf := fnOf[w]
			inspectVals := map[ssa.Value]bool{}
			eachInstr(wf, func(in ssa.Instruction) {
				if call, ok := in.(*ssa.Call); ok && call.Common().IsInvoke() && call.Common().Method.Name() == "Inspect" {
					inspectVals[call] = true
				}
			})
			if stdName(w) != "fmt.Fprintf" {
				continue
			}
			f, _ := constString(w.Common().Args[1])
			if !strings.Contains(f, "=") {
				continue // named functions: printed by their own Inspect
			}
			// varargs: find values stored into the varargs array
			whole, guarded := false, false
			if sl, ok := w.Common().Args[2].(*ssa.Slice); ok {
				if arr, ok := sl.X.(*ssa.Alloc); ok {
					for _, ref := range *arr.Referrers() {
						if ia, ok := ref.(*ssa.IndexAddr); ok {
							for _, r2 := range *ia.Referrers() {
								if st, ok := r2.(*ssa.Store); ok {
									v := st.Val
									if mi, ok := v.(*ssa.MakeInterface); ok {
										v = mi.X
									}
									if inspectVals[v] {
										whole = true
										// length guard on v: the edge on which len(v) > limit holds must not reach this write
										// within the same iteration
										headers := map[*ssa.BasicBlock]bool{}
										for _, h := range loopHeaders(wf) {
											headers[h] = true
										}
										for _, ib := range wf.Blocks {
											ifi, ok := ib.Instrs[len(ib.Instrs)-1].(*ssa.If)
											if !ok {
												continue
											}
											hasLen := false
											for _, cc := range expandCond(ifi, ifi.Cond, 0, 0) {
												if bin, ok := cc.Cond.(*ssa.BinOp); ok && cc.Edge == 0 {
													if lc, ok := bin.X.(*ssa.Call); ok {
														if bi, ok := lc.Common().Value.(*ssa.Builtin); ok && bi.Name() == "len" && lc.Common().Args[0] == v {
															hasLen = true
														}
													}
												}
											}
											if !hasLen {
												continue
											}
											seen := map[*ssa.BasicBlock]bool{}
											reach := false
											var walk func(x *ssa.BasicBlock)
											walk = func(x *ssa.BasicBlock) {
												if seen[x] || headers[x] {
													return
												}
												seen[x] = true
												if x == w.Block() {
													reach = true
												}
												for _, su := range x.Succs {
													walk(su)
												}
											}
											walk(ib.Succs[0])
											if !reach {
												guarded = true
											}
										}
									}
									if _, isSlice := v.(*ssa.Slice); isSlice {
										whole = false
									}
								}
							}
						}
					}
				}
			}
			r.Check(whole, "C14.R3", sname, "the value is written whole", c.Pos(w.Pos()), "the printed value is sliced or otherwise transformed before being written: a truncated binding is syntactically broken or silently different")
			r.Check(guarded, "C14.R3", sname, "over-long values are skipped", c.Pos(w.Pos()), "the write of name=value is not confined to the edge where len(value) <= the configured limit")
		}
	}
	r.Floor("C14.R3", 3)

	// ---- R4 ----
	{
		isConst := c.Fn("object", "isConstantAndExtraIdentifier")
		for i, w := range writes {
			ok := false
			for _, cc := range controlling(siteOf[w].Block()) {
				if call, isCall := cc.Cond.(*ssa.Call); isCall && isCallTo(call, isConst) && cc.Edge == 1 {
					ok = true
				}
			}
			r.Check(ok, "C14.R4", sname, "write #"+string(rune('1'+i))+" skips constants and built-in identifiers", c.Pos(w.Pos()), "PI, E and the other predefined constants can be written to the state file; loading it then fails on 'attempt to change constant'")
		}
	}
	r.Floor("C14.R4", 2)

	// ---- R5 ---- the reader takes lines of any length and notices when it had to stop
	{
		al := c.SSAFn(c.Fn("repl", "AutoLoad"))
		aname := ssaFuncName(al)
		n := 0
		eachInstr(al, func(in ssa.Instruction) {
			call, ok := in.(*ssa.Call)
			if !ok {
				return
			}
			obj := calleeObj(call)
			if obj == nil || obj.Pkg() == nil || obj.Pkg().Path() != "bufio" || obj.Name() != "NewScanner" {
				return
			}
			n++
			var scans, bufs, errsSeen []ssa.Instruction
			for _, ref := range *call.Referrers() {
				rc, ok := ref.(*ssa.Call)
				if !ok || len(rc.Common().Args) == 0 || rc.Common().Args[0] != ssa.Value(call) {
					continue
				}
				if m := calleeObj(rc); m != nil {
					switch m.Name() {
					case "Scan":
						scans = append(scans, rc)
					case "Buffer":
						bufs = append(bufs, rc)
					case "Err":
						errsSeen = append(errsSeen, rc)
					}
				}
			}
			// line length
			okLen, why := false, "the scanner keeps bufio's default 64 KiB line limit, but SaveGlobals writes a binding of any length on one line (functions always, values when the length limit is 0): the first longer line ends the load silently and every later binding is dropped"
			if len(bufs) > 0 {
				okLen, why = true, ""
				for _, b := range bufs {
					bc := b.(*ssa.Call)
					k, isK := constInt(bc.Common().Args[2])
					switch {
					case !isK:
						okLen, why = false, "the scanner's line limit is a run-time value ("+bc.Common().Args[2].String()+"): the writer's lines are `name=value` and whole functions, longer than any limit on the value alone, and the first longer line ends the load silently"
					case k < 1<<31-1:
						okLen, why = false, fmt.Sprintf("the scanner's line limit is %d bytes; SaveGlobals writes lines of any length", k)
					}
				}
				if okLen {
					isBuf := func(x ssa.Instruction) bool {
						for _, b := range bufs {
							if x == b {
								return true
							}
						}
						return false
					}
					isScan := func(x ssa.Instruction) bool {
						for _, sc := range scans {
							if x == sc {
								return true
							}
						}
						return false
					}
					if mustPassBefore(call, isBuf, isScan) != nil {
						okLen, why = false, "a Scan is reachable without Scanner.Buffer having been called (default 64 KiB line limit)"
					}
				}
			}
			if len(scans) == 0 {
				okLen, why = false, "the scanner is never advanced"
			}
			r.Check(okLen, "C14.R5", aname, "the line reader accepts lines of any length", c.Pos(call.Pos()), why)
			// read errors are noticed: Err() is consulted on every path from the loop to a return
			okErr := len(errsSeen) > 0
			whyErr := "Scanner.Err() is never consulted: a read error or an over-long line ends the load as if the file were complete, and the next save rewrites the file without the rest"
			if okErr && len(scans) > 0 {
				bad := mustPassBefore(scans[0], func(x ssa.Instruction) bool {
					for _, e := range errsSeen {
						if x == e {
							return true
						}
					}
					return false
				}, isReturn)
				if bad != nil {
					okErr, whyErr = false, "a return is reachable after scanning without consulting Scanner.Err()"
				}
			}
			r.Check(okErr, "C14.R5", aname, "a scan that stops early is noticed (Scanner.Err)", c.Pos(call.Pos()), whyErr)
		})
		if n == 0 {
			// another reader (bufio.Reader.ReadString, os.ReadFile) has no line limit; nothing to check
			r.OkWhy("C14.R5", aname, "the line reader accepts lines of any length", c.Pos(al.Pos()), "AutoLoad does not use a bufio.Scanner")
		}
		r.Floor("C14.R5", 1)
	}

	// R6: a state file is written from an empty file
	r.Rule("C14.R6", "state files are written from scratch: every os.OpenFile in the module that opens for writing with O_CREATE also has O_TRUNC, O_EXCL or O_APPEND in its (constant) flags; os.Create and os.CreateTemp truncate by definition")
	{
		const oWRONLY, oRDWR, oAPPEND, oCREATE, oEXCL, oTRUNC = 0x1, 0x2, 0x400, 0x40, 0x80, 0x200
		n6 := 0
		for _, fn := range c.ModuleSSAFuncs() {
			eachInstr(fn, func(in ssa.Instruction) {
				call, ok := in.(*ssa.Call)
				if !ok {
					return
				}
				switch stdName(call) {
				case "os.Create", "os.CreateTemp":
					n6++
					r.Ok("C14.R6", ssaFuncName(fn), stdName(call)+" starts from an empty file", c.Pos(call.Pos()))
				case "os.OpenFile":
					n6++
					flags, isK := constInt(call.Common().Args[1])
					if !isK {
						r.Fail("C14.R6", ssaFuncName(fn), "os.OpenFile flags", c.Pos(call.Pos()), "the open flags are not a constant: cannot tell whether an existing file is truncated")
						return
					}
					writes := flags&oWRONLY != 0 || flags&oRDWR != 0
					okT := !writes || flags&oCREATE == 0 || flags&(oTRUNC|oEXCL|oAPPEND) != 0
					r.Check(okT, "C14.R6", ssaFuncName(fn), "os.OpenFile for writing truncates", c.Pos(call.Pos()),
						"the file is opened for writing with O_CREATE but without O_TRUNC: a shorter state written over a longer one leaves the tail of the old state in the file, which loads as stale (or unparsable) bindings")
				}
			})
		}
		if n6 < 2 {
			r.Undecided("C14.R6: only %d file creations found (save() and AutoSave expected)", n6)
		}
	}

	// shared C13.R8: load() and auto-load evaluate through EvalString, which always rewrites the program with
	// ast.Modify (macro expansion): an attribute the rewrite drops is gone from the next save
	if !r.Sub {
		r.Rule("C13.R8", "(shared) ast.Modify carries every field of a node over to the node it rebuilds")
		sub := NewReport("C13", r.Tier, c)
		sub.Sub = true
		runC13(c, sub)
		n := 0
		for _, o := range sub.Obls {
			if o.Rule != "C13.R8" {
				continue
			}
			n++
			if o.status == FAIL {
				r.Fail(o.Rule, o.Func, o.Desc, o.Pos, o.Reason)
			} else {
				r.Ok(o.Rule, o.Func, o.Desc, o.Pos)
			}
		}
		if n < 20 {
			r.Undecided("C14: only %d shared C13.R8 obligations", n)
		}
	}
}

func init() {
	register("C14", &propDef{
		explain: "Save-format rules decided on code shape: the string writer is strconv.Quote and the lexer decodes every escape it emits (symbolic execution of the decoder, shared with C02); integers are base 10; each binding is written by a constant one-line format; the printers used for values and functions cannot emit a newline in compact mode; keys are sorted before writing, values are written whole and only under the length limit; predefined constants are skipped. The integral-float marker problem (3.0 saved as 3) is a known finding. Equality of reloaded values and behavioural equality of reloaded functions are not decided. Also: the line reader of AutoLoad has no line-length limit and consults Scanner.Err() on every path. Shares C13.R8: loading rewrites the program through ast.Modify, which must carry every attribute over.",
		assume:  []string{"function bodies saved in compact form re-parse correctly only as far as C02's compact-separator known finding allows", "auto-load evaluates the file one line at a time (bufio.Scanner)"},
		run:     runC14,
	})
}

// checkLiteralValueSources: rule C14.R8, a literal's value is what its text says.
//
// The state file is text: an integer literal node must hold the number its digits denote and a float literal
// the float they denote (Float.Inspect writes a large float as a bare digit string and relies on the integer
// parse failing on it, known finding D25). In package parser every store to IntegerLiteral.Val writes the
// first result of strconv.ParseInt(.., 64) on the ok path - never a converted unsigned or float parse, which
// wraps around (10000000000000000000, the saved form of 1e19, came back as -8446744073709551616) - and every
// store to FloatLiteral.Val the first result of strconv.ParseFloat.
func (c *Ctx) checkLiteralValueSources(r *Report, rule string) {
	type want struct {
		node, parse string
	}
	n := 0
	for _, w := range []want{{"IntegerLiteral", "strconv.ParseInt"}, {"FloatLiteral", "strconv.ParseFloat"}} {
		nodeT := c.TypeNamed("ast", w.node)
		for _, fn := range c.ModuleSSAFuncs() {
			if fn.Pkg == nil || shortPkg(fn.Pkg.Pkg) != "parser" {
				continue
			}
			k := 0
			eachInstr(fn, func(in ssa.Instruction) {
				st, ok := in.(*ssa.Store)
				if !ok || !isFieldAddrOf(st.Addr, nodeT, "Val") {
					return
				}
				n++
				k++
				desc := w.node + ".Val is the parse of the token text"
				if k > 1 {
					desc += " #" + itoa(k)
				}
				var direct func(v ssa.Value, depth int) bool
				direct = func(v ssa.Value, depth int) bool {
					if depth > 4 {
						return false
					}
					switch x := v.(type) {
					case *ssa.Extract:
						call, ok := x.Tuple.(*ssa.Call)
						return ok && x.Index == 0 && stdName(call) == w.parse
					case *ssa.Phi:
						for _, e := range x.Edges {
							if !direct(e, depth+1) {
								return false
							}
						}
						return true
					case *ssa.UnOp:
						if al, ok := x.X.(*ssa.Alloc); ok && x.Op == token.MUL {
							all := true
							cnt := 0
							for _, ref := range *al.Referrers() {
								if s2, ok := ref.(*ssa.Store); ok && s2.Addr == ssa.Value(al) {
									cnt++
									if !direct(s2.Val, depth+1) {
										all = false
									}
								}
							}
							return cnt > 0 && all
						}
					}
					return false
				}
				r.Check(direct(st.Val, 0), rule, ssaFuncName(fn), desc, c.Pos(st.Pos()),
					"the value stored into "+w.node+".Val ("+st.Val.String()+") is not the first result of "+w.parse+": a converted unsigned or float parse wraps around or rounds, so a saved value reloads as another one (10000000000000000000, the saved form of the float 1e19, as a negative integer)")
			})
		}
	}
	if n < 2 {
		r.Undecided("%s: only %d stores to IntegerLiteral.Val / FloatLiteral.Val found in package parser", rule, n)
	}
	r.Floor(rule, 2)
}

// helperFprintf: call hands an io.Writer-like argument to a module function whose only write is one
// fmt.Fprintf on that parameter; returns that inner call.
func helperFprintf(call *ssa.Call) *ssa.Call {
	callee := call.Common().StaticCallee()
	if callee == nil || !isModuleSSA(callee) || callee.Blocks == nil {
		return nil
	}
	var inner *ssa.Call
	n := 0
	eachInstr(callee, func(in ssa.Instruction) {
		c2, ok := in.(*ssa.Call)
		if !ok {
			return
		}
		switch stdName(c2) {
		case "fmt.Fprintf":
			if p, ok := c2.Common().Args[0].(*ssa.Parameter); ok && p.Parent() == callee {
				inner = c2
				n++
			}
		case "fmt.Fprint", "fmt.Fprintln", "io.WriteString":
			n += 2
		}
	})
	if n != 1 {
		return nil
	}
	return inner
}
