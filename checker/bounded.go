package main

// bounded: representation invariants of the fixed-capacity containers and the bounds proofs that
// rest on them (rule C07.R9, shared into C11).
//
//	object.SmallArray{smallArr [8]Object, len}     0 <= len <= 8
//	object.SmallMap{smallKV [4]keyValuePair, len}  0 <= len <= 4
//	object.Environment{registers [8]int64, numReg} 0 <= numReg <= 8
//	object.Register{Idx}                           0 <= Idx < 8   (indexes RefEnv.registers)
//
// The limits are read from the array types, not written here. Two kinds of obligations:
//
//	(a) the invariant is inductive: every store to such a field through a pointer writes a value that
//	    is provably within the limit; for a local copy (value receiver, struct being built) the store may
//	    exceed it transiently (SmallMap.Set increments before testing) but wherever the struct value
//	    leaves the function (boxed, returned, stored, passed) the field is within the limit;
//	(b) every index and slice bound applied to a fixed-size array in the interpreter core is within the
//	    array, given (a), dominating comparisons, loop-edge facts, callers' arguments and callees' results.
//
// The prover computes constant upper bounds (and non-negativity). What needs a relation between two values
// ("the index returned by get() is <= len before the increment") goes to the difference-constraint prover of
// relbound.go as a second chance; what neither reaches is listed in boundAbstentions.

import (
	"fmt"
	goast "go/ast"
	"go/token"
	"go/types"
	"sort"
	"strings"

	"golang.org/x/tools/go/ssa"
)

type fieldBound struct {
	named *types.Named
	field int
	max   int64 // inclusive
	desc  string
}

type boundProver struct {
	c       *Ctx
	fields  []fieldBound
	inRet   map[*ssa.Function]bool
	inParam map[*ssa.Parameter]bool
	// cbMin: for the argument list parameter of every extension callback, the smallest MinArgs it is registered with
	cbMin map[*ssa.Parameter]int64
	// inSearchSum: recursion guard of the search summaries
	inSearchSum map[*ssa.Function]bool
}

// boundAbstentions: bounds the constant-interval prover cannot establish; keyed "function | construct".
var boundAbstentions = map[string]string{
	"object.(SmallMap).Range | local SmallMap leaves the function with SmallMap.len <= 4": "relational across a type switch: the only caller (object.Range, reached from evalIndexRangeExpression) passes 0 <= l <= r <= Len() of this very map, which is <= 4 because it is a SmallMap",
	"object.(SmallMap).Range | low bound into [4]object.keyValuePair":                     "same caller argument as above",
	"object.(SmallMap).Range | high bound into [4]object.keyValuePair":                    "same caller argument as above",
}

func (c *Ctx) newBoundProver() *boundProver {
	bp := &boundProver{c: c, inRet: map[*ssa.Function]bool{}, inParam: map[*ssa.Parameter]bool{}}
	arrLen := func(n *types.Named, field string) int64 {
		i := fieldIndex(n, field)
		if i < 0 {
			undecidedf("bounded: %s.%s not found", n.Obj().Name(), field)
		}
		a, ok := n.Underlying().(*types.Struct).Field(i).Type().Underlying().(*types.Array)
		if !ok {
			undecidedf("bounded: %s.%s is not a fixed array", n.Obj().Name(), field)
		}
		return a.Len()
	}
	add := func(tn, lenField, arrField string, arrOwner string, strict bool) {
		n := c.TypeNamed("object", tn)
		owner := n
		if arrOwner != "" {
			owner = c.TypeNamed("object", arrOwner)
		}
		i := fieldIndex(n, lenField)
		if i < 0 {
			undecidedf("bounded: %s.%s not found", tn, lenField)
		}
		max := arrLen(owner, arrField)
		if strict {
			max--
		}
		bp.fields = append(bp.fields, fieldBound{n, i, max, fmt.Sprintf("%s.%s <= %d", tn, lenField, max)})
	}
	add("SmallArray", "len", "smallArr", "", false)
	add("SmallMap", "len", "smallKV", "", false)
	add("Environment", "numReg", "registers", "", false)
	add("Register", "Idx", "registers", "Environment", true)
	return bp
}

func (bp *boundProver) fieldOfAddr(addr ssa.Value) *fieldBound {
	fa, ok := addr.(*ssa.FieldAddr)
	if !ok {
		return nil
	}
	n := namedStruct(fa.X.Type())
	if n == nil {
		return nil
	}
	for i := range bp.fields {
		if bp.fields[i].named.Obj() == n.Obj() && bp.fields[i].field == fa.Field {
			return &bp.fields[i]
		}
	}
	return nil
}

func (bp *boundProver) fieldOfValue(x *ssa.Field) *fieldBound {
	n, _ := x.X.Type().(*types.Named)
	if n == nil {
		return nil
	}
	for i := range bp.fields {
		if bp.fields[i].named.Obj() == n.Obj() && bp.fields[i].field == x.Field {
			return &bp.fields[i]
		}
	}
	return nil
}

// sameLoc: two values that are the same SSA value, or loads of the same field of the same base with no
// store to that field (of any object of the type, in this function) that can lie between them.
func (bp *boundProver) sameLoc(a, b ssa.Value) bool {
	return bp.sameLocD(a, b, 0, false)
}

// sameLocFrom: like sameLoc, for a fact established on `fact` and used at `use`: only stores that can
// execute after the fact and before the use matter.
func (bp *boundProver) sameLocFrom(fact, use ssa.Value) bool {
	return bp.sameLocD(fact, use, 0, true)
}

func (bp *boundProver) sameLocD(a, b ssa.Value, depth int, directed bool) bool {
	a, b = stripConvert(a), stripConvert(b)
	if a == b {
		return true
	}
	if depth > 4 {
		return false
	}
	// pure expressions over the same locations: len/cap, +/- a constant
	if ca, ok := a.(*ssa.Call); ok {
		cb, ok := b.(*ssa.Call)
		if !ok {
			return false
		}
		ba, ok1 := ca.Common().Value.(*ssa.Builtin)
		bb, ok2 := cb.Common().Value.(*ssa.Builtin)
		if ok1 && ok2 && ba.Name() == bb.Name() && (ba.Name() == "len" || ba.Name() == "cap") {
			return bp.sameLocD(ca.Common().Args[0], cb.Common().Args[0], depth+1, directed)
		}
		return false
	}
	if xa, ok := a.(*ssa.BinOp); ok {
		xb, ok := b.(*ssa.BinOp)
		if !ok || xa.Op != xb.Op || (xa.Op != token.ADD && xa.Op != token.SUB) {
			return false
		}
		ka, ok1 := constInt(xa.Y)
		kb, ok2 := constInt(xb.Y)
		return ok1 && ok2 && ka == kb && bp.sameLocD(xa.X, xb.X, depth+1, directed)
	}
	la, ok1 := a.(*ssa.UnOp)
	lb, ok2 := b.(*ssa.UnOp)
	if !ok1 || !ok2 || la.Op != token.MUL || lb.Op != token.MUL {
		return false
	}
	fa, ok1 := la.X.(*ssa.FieldAddr)
	fb, ok2 := lb.X.(*ssa.FieldAddr)
	if !ok1 || !ok2 || fa.Field != fb.Field || !(sameValue(fa.X, fb.X) || bp.sameLocD(fa.X, fb.X, depth+1, directed)) {
		return false
	}
	// stores to this field between the two loads
	fn := la.Parent()
	_, baseIsAlloc := fa.X.(*ssa.Alloc)
	for _, blk := range fn.Blocks {
		for _, in := range blk.Instrs {
			st, ok := in.(*ssa.Store)
			if !ok {
				continue
			}
			sfa, ok := st.Addr.(*ssa.FieldAddr)
			if !ok || sfa.Field != fa.Field || namedStruct(sfa.X.Type()) == nil || namedStruct(fa.X.Type()) == nil || namedStruct(sfa.X.Type()).Obj() != namedStruct(fa.X.Type()).Obj() {
				continue
			}
			if _, otherAlloc := sfa.X.(*ssa.Alloc); otherAlloc && baseIsAlloc && sfa.X != fa.X {
				continue // another local struct
			}
			if between(la, st, lb) || (!directed && between(lb, st, la)) {
				return false
			}
		}
	}
	return true
}

// between: instruction m can execute after a and before b on some path that does not come back to a first
// (a fact established at a is established again whenever a executes again).
func between(a, m, b ssa.Instruction) bool {
	return reachesAvoiding(a, m, a) && reachesAvoiding(m, b, a)
}

// reachesAvoiding: b can execute after a without a's block being re-entered on the way (other than as the start).
func reachesAvoiding(a, b, avoid ssa.Instruction) bool {
	if a.Block() == b.Block() && instrIndex(a) < instrIndex(b) {
		return true
	}
	seen := map[*ssa.BasicBlock]bool{}
	stack := append([]*ssa.BasicBlock{}, a.Block().Succs...)
	for len(stack) > 0 {
		x := stack[len(stack)-1]
		stack = stack[:len(stack)-1]
		if seen[x] {
			continue
		}
		seen[x] = true
		if x == b.Block() {
			if x != avoid.Block() || b == avoid || instrIndex(b) <= instrIndex(avoid) {
				return true
			}
			// b sits after `avoid` in the same block: reaching it means passing avoid again
			continue
		}
		if x == avoid.Block() {
			continue
		}
		stack = append(stack, x.Succs...)
	}
	return false
}

func reachesInstr(a, b ssa.Instruction) bool {
	if a.Block() == b.Block() {
		if instrIndex(a) < instrIndex(b) {
			return true
		}
		// only through a cycle
	}
	seen := map[*ssa.BasicBlock]bool{}
	stack := append([]*ssa.BasicBlock{}, a.Block().Succs...)
	for len(stack) > 0 {
		x := stack[len(stack)-1]
		stack = stack[:len(stack)-1]
		if seen[x] {
			continue
		}
		seen[x] = true
		if x == b.Block() {
			return true
		}
		stack = append(stack, x.Succs...)
	}
	return false
}

type bres struct {
	k  int64
	ok bool
}

func (r bres) min(o bres) bres {
	if !r.ok {
		return o
	}
	if o.ok && o.k < r.k {
		return o
	}
	return r
}

const maxBoundDepth = 7

// ub: a constant upper bound of v where block `at` executes.
func (bp *boundProver) ub(v ssa.Value, at *ssa.BasicBlock, depth int, seen map[ssa.Value]bool) bres {
	if v == nil || depth > maxBoundDepth {
		return bres{}
	}
	if k, ok := constInt(v); ok {
		return bres{k, true}
	}
	best := bres{}
	// by type
	if bt, ok := v.Type().Underlying().(*types.Basic); ok {
		switch bt.Kind() {
		case types.Uint8:
			best = best.min(bres{255, true})
		case types.Uint16:
			best = best.min(bres{65535, true})
		case types.Int8:
			best = best.min(bres{127, true})
		}
	}
	// by dominating comparisons
	for _, cc := range controlling(at) {
		best = best.min(bp.fromCond(v, cc, at, depth, seen))
	}
	if seen[v] {
		return best
	}
	seen[v] = true
	defer delete(seen, v)
	switch x := v.(type) {
	case *ssa.Convert:
		if isIntegerType(x.X.Type()) {
			best = best.min(bp.ub(x.X, at, depth+1, seen))
		}
	case *ssa.ChangeType:
		best = best.min(bp.ub(x.X, at, depth+1, seen))
	case *ssa.Field:
		if fb := bp.fieldOfValue(x); fb != nil {
			best = best.min(bres{fb.max, true})
		}
	case *ssa.UnOp:
		if x.Op != token.MUL {
			break
		}
		if fb := bp.fieldOfAddr(x.X); fb != nil {
			best = best.min(bp.fieldLoadBound(x, fb, depth, seen))
		} else if al, ok := x.X.(*ssa.Alloc); ok {
			// local integer variable: max over its stores
			acc := bres{-1 << 62, true}
			n := 0
			for _, ref := range *al.Referrers() {
				switch y := ref.(type) {
				case *ssa.Store:
					if y.Addr != ssa.Value(al) {
						acc.ok = false
						continue
					}
					n++
					r := bp.ub(y.Val, y.Block(), depth+1, seen)
					if !r.ok {
						acc.ok = false
					} else if r.k > acc.k {
						acc.k = r.k
					}
				case *ssa.UnOp, *ssa.DebugRef:
				default:
					acc.ok = false
				}
			}
			if n > 0 && acc.ok {
				best = best.min(acc)
			}
		}
	case *ssa.BinOp:
		switch x.Op {
		case token.ADD:
			a, b := bp.ub(x.X, at, depth+1, seen), bp.ub(x.Y, at, depth+1, seen)
			if a.ok && b.ok {
				best = best.min(bres{a.k + b.k, true})
			}
		case token.SUB:
			if k, ok := constInt(x.Y); ok {
				if a := bp.ub(x.X, at, depth+1, seen); a.ok {
					best = best.min(bres{a.k - k, true})
				}
			} else if bp.nonNeg(x.Y, at, depth+1, map[ssa.Value]bool{}) {
				best = best.min(bp.ub(x.X, at, depth+1, seen))
			}
		case token.REM:
			if k, ok := constInt(x.Y); ok && k > 0 {
				best = best.min(bres{k - 1, true})
			}
		case token.AND:
			if k, ok := constInt(x.Y); ok && k >= 0 {
				best = best.min(bres{k, true})
			}
		}
	case *ssa.Phi:
		acc := bres{-1 << 62, true}
		for i, e := range x.Edges {
			if e == ssa.Value(x) {
				continue
			}
			// a step that only decreases the phi cannot raise its bound
			if bin, ok := e.(*ssa.BinOp); ok && bin.Op == token.SUB && bin.X == ssa.Value(x) {
				if k, ok := constInt(bin.Y); ok && k >= 0 {
					continue
				}
			}
			pred := x.Block().Preds[i]
			r := bp.ub(e, pred, depth+1, seen)
			// facts on the edge itself (loop tests sit on the back edge of rotated loops)
			if ifi, ok := pred.Instrs[len(pred.Instrs)-1].(*ssa.If); ok && pred.Succs[0] != pred.Succs[1] {
				for ed := 0; ed < 2; ed++ {
					if pred.Succs[ed] == x.Block() {
						for _, cc := range expandCond(ifi, ifi.Cond, ed, 0) {
							r = r.min(bp.fromCond(e, cc, pred, depth+1, seen))
						}
					}
				}
			}
			if !r.ok {
				acc.ok = false
				break
			}
			if r.k > acc.k {
				acc.k = r.k
			}
		}
		if acc.ok && acc.k > -1<<62 {
			best = best.min(acc)
		}
	case *ssa.Call:
		best = best.min(bp.callBound(x, 0, at, depth, seen))
	case *ssa.Extract:
		if call, ok := x.Tuple.(*ssa.Call); ok {
			best = best.min(bp.callBound(call, x.Index, at, depth, seen))
		}
	case *ssa.Parameter:
		best = best.min(bp.paramBound(x, depth, seen))
	}
	return best
}

func isIntegerType(t types.Type) bool {
	b, ok := t.Underlying().(*types.Basic)
	return ok && b.Info()&types.IsInteger != 0
}

// fromCond: what the controlling condition cc says about an upper bound of v.
func (bp *boundProver) fromCond(v ssa.Value, cc ctrlCond, at *ssa.BasicBlock, depth int, seen map[ssa.Value]bool) bres {
	if call, isCall := cc.Cond.(*ssa.Call); isCall {
		return bp.fromPredicate(v, call, cc.Edge)
	}
	bin, ok := cc.Cond.(*ssa.BinOp)
	if !ok {
		return bres{}
	}
	op := bin.Op
	if _, known := negOp[op]; !known {
		return bres{}
	}
	var other ssa.Value
	switch {
	case bp.sameLocFrom(bin.X, v):
		other = bin.Y
	case bp.sameLocFrom(bin.Y, v):
		other = bin.X
		op = flipOp[op]
	default:
		return bres{}
	}
	if cc.Edge == 1 {
		op = negOp[op]
	}
	if seen[other] {
		return bres{}
	}
	o := bp.ub(other, cc.If.Block(), depth+1, seen)
	if !o.ok {
		return bres{}
	}
	switch op {
	case token.LSS:
		return bres{o.k - 1, true}
	case token.LEQ, token.EQL:
		return bres{o.k, true}
	}
	return bres{}
}

// fromPredicate: the condition is a call to a one-line predicate of the form
// func (x *T) P() bool { return x.f OP constant } (HasRegisters): read it as that comparison on the receiver.
func (bp *boundProver) fromPredicate(v ssa.Value, call *ssa.Call, edge int) bres {
	callee := call.Common().StaticCallee()
	if callee == nil || !isModuleSSA(callee) || len(callee.Blocks) != 1 || len(callee.Params) != 1 || len(call.Common().Args) != 1 {
		return bres{}
	}
	ret, ok := callee.Blocks[0].Instrs[len(callee.Blocks[0].Instrs)-1].(*ssa.Return)
	if !ok || len(ret.Results) != 1 {
		return bres{}
	}
	bin, ok := ret.Results[0].(*ssa.BinOp)
	if !ok {
		return bres{}
	}
	k, ok := constInt(bin.Y)
	if !ok {
		return bres{}
	}
	ld, ok := bin.X.(*ssa.UnOp)
	if !ok || ld.Op != token.MUL {
		return bres{}
	}
	pfa, ok := ld.X.(*ssa.FieldAddr)
	if !ok || pfa.X != ssa.Value(callee.Params[0]) {
		return bres{}
	}
	// the predicate must not write anything
	for _, in := range callee.Blocks[0].Instrs {
		switch in.(type) {
		case *ssa.Store, *ssa.Call, *ssa.MapUpdate:
			return bres{}
		}
	}
	// v must be a load of that field of the call's receiver, with no store in between
	vl, ok := stripConvert(v).(*ssa.UnOp)
	if !ok || vl.Op != token.MUL {
		return bres{}
	}
	vfa, ok := vl.X.(*ssa.FieldAddr)
	if !ok || vfa.Field != pfa.Field || !sameValue(vfa.X, call.Common().Args[0]) {
		return bres{}
	}
	for _, blk := range vl.Parent().Blocks {
		for _, in := range blk.Instrs {
			if st, ok := in.(*ssa.Store); ok {
				if sfa, ok := st.Addr.(*ssa.FieldAddr); ok && sfa.Field == vfa.Field && sameValue(sfa.X, vfa.X) && (between(call, st, vl) || between(vl, st, call)) {
					return bres{}
				}
			}
		}
	}
	op := bin.Op
	if edge == 1 {
		op = negOp[op]
	}
	switch op {
	case token.LSS:
		return bres{k - 1, true}
	case token.LEQ, token.EQL:
		return bres{k, true}
	}
	return bres{}
}

// fieldLoadBound: bound of a load of a bounded field.
func (bp *boundProver) fieldLoadBound(ld *ssa.UnOp, fb *fieldBound, depth int, seen map[ssa.Value]bool) bres {
	fa := ld.X.(*ssa.FieldAddr)
	al, isLocal := fa.X.(*ssa.Alloc)
	if !isLocal {
		return bres{fb.max, true}
	}
	// a local struct: whole-value stores bring the invariant, field stores bring their own value
	acc := bres{0, true} // zero value of a fresh struct
	for _, ref := range *al.Referrers() {
		switch y := ref.(type) {
		case *ssa.Store:
			if y.Addr == ssa.Value(al) && fb.max > acc.k {
				acc.k = fb.max
			}
		case *ssa.FieldAddr:
			if y.Field != fa.Field {
				continue
			}
			for _, r2 := range *y.Referrers() {
				st, ok := r2.(*ssa.Store)
				if !ok || st.Addr != ssa.Value(y) {
					continue
				}
				if !reachesInstr(st, ld) {
					continue
				}
				r := bp.ub(st.Val, st.Block(), depth+1, seen)
				if !r.ok {
					return bres{}
				}
				if r.k > acc.k {
					acc.k = r.k
				}
			}
		}
	}
	return acc
}

func (bp *boundProver) callBound(call *ssa.Call, idx int, at *ssa.BasicBlock, depth int, seen map[ssa.Value]bool) bres {
	cc := call.Common()
	if bi, ok := cc.Value.(*ssa.Builtin); ok {
		switch bi.Name() {
		case "len", "cap":
			return bp.lenBound(cc.Args[0], at, depth, seen)
		case "min":
			best := bres{}
			for _, a := range cc.Args {
				best = best.min(bp.ub(a, at, depth+1, seen))
			}
			return best
		case "max":
			acc := bres{-1 << 62, true}
			for _, a := range cc.Args {
				r := bp.ub(a, at, depth+1, seen)
				if !r.ok {
					return bres{}
				}
				if r.k > acc.k {
					acc.k = r.k
				}
			}
			return acc
		}
		return bres{}
	}
	callee := cc.StaticCallee()
	if callee == nil || !isModuleSSA(callee) || callee.Blocks == nil || bp.inRet[callee] || depth > 4 {
		return bres{}
	}
	if !isIntegerType(callee.Signature.Results().At(idx).Type()) {
		return bres{}
	}
	bp.inRet[callee] = true
	defer delete(bp.inRet, callee)
	acc := bres{-1 << 62, true}
	for _, b := range callee.Blocks {
		ret, ok := b.Instrs[len(b.Instrs)-1].(*ssa.Return)
		if !ok || b == callee.Recover {
			continue
		}
		r := bp.ub(retVal(ret, idx), b, depth+2, map[ssa.Value]bool{})
		if !r.ok {
			return bres{}
		}
		if r.k > acc.k {
			acc.k = r.k
		}
	}
	if acc.k == -1<<62 {
		return bres{}
	}
	return acc
}

// lenBound: upper bound of len(x).
func (bp *boundProver) lenBound(x ssa.Value, at *ssa.BasicBlock, depth int, seen map[ssa.Value]bool) bres {
	t := x.Type().Underlying()
	if p, ok := t.(*types.Pointer); ok {
		t = p.Elem().Underlying()
	}
	if a, ok := t.(*types.Array); ok {
		return bres{a.Len(), true}
	}
	if k, ok := constLenOf(x); ok {
		return bres{k, true}
	}
	if sl, ok := x.(*ssa.Slice); ok {
		best := bres{}
		if sl.High != nil {
			best = best.min(bp.ub(sl.High, sl.Block(), depth+1, seen))
		} else {
			best = best.min(bp.lenBound(sl.X, at, depth+1, seen))
		}
		return best
	}
	return bres{}
}

func (bp *boundProver) paramBound(p *ssa.Parameter, depth int, seen map[ssa.Value]bool) bres {
	if depth > 3 || bp.inParam[p] {
		return bres{}
	}
	sites, ok := bp.c.argsAtCallSites(p)
	if !ok || len(sites) == 0 {
		return bres{}
	}
	bp.inParam[p] = true
	defer delete(bp.inParam, p)
	acc := bres{-1 << 62, true}
	for _, s := range sites {
		r := bp.ub(s.v, s.b, depth+2, map[ssa.Value]bool{})
		if !r.ok {
			return bres{}
		}
		if r.k > acc.k {
			acc.k = r.k
		}
	}
	return acc
}

// nonNeg: v >= 0 where block `at` executes.
func (bp *boundProver) nonNeg(v ssa.Value, at *ssa.BasicBlock, depth int, seen map[ssa.Value]bool) bool {
	if v == nil || depth > maxBoundDepth {
		return false
	}
	if k, ok := constInt(v); ok {
		return k >= 0
	}
	if bt, ok := v.Type().Underlying().(*types.Basic); ok && bt.Info()&types.IsUnsigned != 0 {
		return true
	}
	if bp.lowerFromConds(v, at, 0, depth, seen) {
		return true
	}
	if _, ok := bp.searchPos(v); ok {
		return true // the position a binary search returned
	}
	if seen[v] {
		return false
	}
	seen[v] = true
	defer delete(seen, v)
	switch x := v.(type) {
	case *ssa.Convert:
		if bt, ok := x.X.Type().Underlying().(*types.Basic); ok && bt.Info()&types.IsUnsigned != 0 {
			return true
		}
		return isIntegerType(x.X.Type()) && bp.nonNeg(x.X, at, depth+1, seen)
	case *ssa.Field:
		return bp.fieldOfValue(x) != nil
	case *ssa.UnOp:
		if x.Op != token.MUL {
			return false
		}
		if fb := bp.fieldOfAddr(x.X); fb != nil {
			fa := x.X.(*ssa.FieldAddr)
			al, isLocal := fa.X.(*ssa.Alloc)
			if !isLocal {
				return true
			}
			for _, ref := range *al.Referrers() {
				if y, ok := ref.(*ssa.FieldAddr); ok && y.Field == fa.Field {
					for _, r2 := range *y.Referrers() {
						if st, ok := r2.(*ssa.Store); ok && st.Addr == ssa.Value(y) && reachesInstr(st, x) {
							if !bp.nonNeg(st.Val, st.Block(), depth+1, seen) {
								return false
							}
						}
					}
				}
			}
			return true
		}
		if al, ok := x.X.(*ssa.Alloc); ok {
			n := 0
			for _, ref := range *al.Referrers() {
				switch y := ref.(type) {
				case *ssa.Store:
					if y.Addr != ssa.Value(al) || !bp.nonNeg(y.Val, y.Block(), depth+1, seen) {
						return false
					}
					n++
				case *ssa.UnOp, *ssa.DebugRef:
				default:
					return false
				}
			}
			return n > 0
		}
	case *ssa.BinOp:
		switch x.Op {
		case token.ADD:
			if k, ok := constInt(x.Y); ok && k > 0 && bp.atLeast(x.X, -k, 0) {
				return true
			}
			return bp.nonNeg(x.X, at, depth+1, seen) && bp.nonNeg(x.Y, at, depth+1, seen)
		case token.MUL, token.QUO, token.REM, token.AND, token.SHR:
			return bp.nonNeg(x.X, at, depth+1, seen) && bp.nonNeg(x.Y, at, depth+1, seen)
		case token.SUB:
			// x - k with x >= k established
			if k, ok := constInt(x.Y); ok {
				if k <= 0 {
					return bp.nonNeg(x.X, at, depth+1, seen)
				}
				// len(s) - k where s is known to have at least k elements there
				if lc, ok := stripConvert(x.X).(*ssa.Call); ok {
					if bi, isB := lc.Common().Value.(*ssa.Builtin); isB && bi.Name() == "len" && bp.lenLB(lc.Common().Args[0], at, 0, map[ssa.Value]bool{}) >= k {
						return true
					}
				}
				return bp.lowerFromConds(x.X, at, k, depth, seen) || bp.lowerConst(x.X, at, k, depth+1, seen)
			}
			// x - y with y <= x established (also at every call site when both are parameters)
			if bp.c.proveLE(x.Y, x.X, at, 0) {
				return true
			}
			for _, cc := range controlling(at) {
				bin, ok := cc.Cond.(*ssa.BinOp)
				if !ok {
					continue
				}
				op, a, b := bin.Op, bin.X, bin.Y
				if cc.Edge == 1 {
					op = negOp[op]
				}
				if (op == token.GEQ || op == token.GTR) && bp.sameLoc(a, x.X) && bp.sameLoc(b, x.Y) {
					return true
				}
				if (op == token.LEQ || op == token.LSS) && bp.sameLoc(a, x.Y) && bp.sameLoc(b, x.X) {
					return true
				}
			}
		}
	case *ssa.Phi:
		for i, e := range x.Edges {
			if e == ssa.Value(x) {
				continue
			}
			if bin, ok := e.(*ssa.BinOp); ok && bin.Op == token.ADD && bin.X == ssa.Value(x) {
				if k, ok := constInt(bin.Y); ok && k >= 0 {
					continue // only increases
				}
			}
			pred := x.Block().Preds[i]
			if bp.nonNeg(e, pred, depth+1, seen) {
				continue
			}
			okEdge := false
			if ifi, ok := pred.Instrs[len(pred.Instrs)-1].(*ssa.If); ok && pred.Succs[0] != pred.Succs[1] {
				for ed := 0; ed < 2; ed++ {
					if pred.Succs[ed] == x.Block() {
						for _, cc := range expandCond(ifi, ifi.Cond, ed, 0) {
							if bp.lowerFromCond(e, cc, 0, depth+1, seen) {
								okEdge = true
							}
						}
					}
				}
			}
			if !okEdge {
				return false
			}
		}
		return true
	case *ssa.Call:
		if bi, ok := x.Common().Value.(*ssa.Builtin); ok {
			switch bi.Name() {
			case "len", "cap":
				return true
			case "max":
				for _, a := range x.Common().Args {
					if bp.nonNeg(a, at, depth+1, seen) {
						return true
					}
				}
			case "min":
				for _, a := range x.Common().Args {
					if !bp.nonNeg(a, at, depth+1, seen) {
						return false
					}
				}
				return true
			}
			return false
		}
		return bp.callNonNeg(x, 0, depth)
	case *ssa.Extract:
		if call, ok := x.Tuple.(*ssa.Call); ok {
			return bp.callNonNeg(call, x.Index, depth)
		}
	case *ssa.Parameter:
		if depth > 3 || bp.inParam[x] {
			return false
		}
		sites, ok := bp.c.argsAtCallSites(x)
		if !ok || len(sites) == 0 {
			return false
		}
		bp.inParam[x] = true
		defer delete(bp.inParam, x)
		for _, s := range sites {
			if !bp.nonNeg(s.v, s.b, depth+2, map[ssa.Value]bool{}) {
				return false
			}
		}
		return true
	}
	return false
}

// atLeast: v >= k for a loop counter: constants and phis whose other edges only step upwards.
func (bp *boundProver) atLeast(v ssa.Value, k int64, depth int) bool {
	if depth > 3 {
		return false
	}
	if c, ok := constInt(v); ok {
		return c >= k
	}
	phi, ok := v.(*ssa.Phi)
	if !ok {
		return false
	}
	for _, e := range phi.Edges {
		if e == ssa.Value(phi) {
			continue
		}
		if bin, ok := e.(*ssa.BinOp); ok && bin.Op == token.ADD && bin.X == ssa.Value(phi) {
			if st, ok := constInt(bin.Y); ok && st >= 0 {
				continue
			}
		}
		if !bp.atLeast(e, k, depth+1) {
			return false
		}
	}
	return true
}

// lowerConst: v >= k structurally (v is a bounded-field load cannot give that; only constants / sums).
func (bp *boundProver) lowerConst(v ssa.Value, at *ssa.BasicBlock, k int64, depth int, seen map[ssa.Value]bool) bool {
	if c, ok := constInt(v); ok {
		return c >= k
	}
	if bin, ok := v.(*ssa.BinOp); ok && bin.Op == token.ADD {
		if c, ok := constInt(bin.Y); ok {
			if k-c <= 0 {
				return bp.nonNeg(bin.X, at, depth+1, seen)
			}
			return bp.lowerFromConds(bin.X, at, k-c, depth, seen)
		}
	}
	return false
}

// lowerFromConds: some controlling condition establishes v >= k.
func (bp *boundProver) lowerFromConds(v ssa.Value, at *ssa.BasicBlock, k int64, depth int, seen map[ssa.Value]bool) bool {
	for _, cc := range controlling(at) {
		if bp.lowerFromCond(v, cc, k, depth, seen) {
			return true
		}
	}
	return false
}

func (bp *boundProver) lowerFromCond(v ssa.Value, cc ctrlCond, k int64, depth int, seen map[ssa.Value]bool) bool {
	bin, ok := cc.Cond.(*ssa.BinOp)
	if !ok {
		return false
	}
	op := bin.Op
	if _, known := negOp[op]; !known {
		return false
	}
	var other ssa.Value
	switch {
	case bp.sameLocFrom(bin.X, v):
		other = bin.Y
	case bp.sameLocFrom(bin.Y, v):
		other = bin.X
		op = flipOp[op]
	default:
		return false
	}
	if cc.Edge == 1 {
		op = negOp[op]
	}
	c, isK := constInt(other)
	switch op {
	case token.GTR:
		if isK {
			return c+1 >= k
		}
		return k <= 1 && bp.nonNeg(other, cc.If.Block(), depth+1, seen)
	case token.GEQ, token.EQL:
		if isK {
			return c >= k
		}
		return k <= 0 && bp.nonNeg(other, cc.If.Block(), depth+1, seen)
	case token.NEQ:
		// v != 0 with v >= 0 known structurally gives v >= 1
		if isK && c == 0 && k == 1 {
			return bp.nonNeg(v, cc.If.Block(), depth+1, map[ssa.Value]bool{v: true}) || bp.fieldIsNonNeg(v)
		}
	}
	return false
}

func (bp *boundProver) fieldIsNonNeg(v ssa.Value) bool {
	switch x := stripConvert(v).(type) {
	case *ssa.UnOp:
		return x.Op == token.MUL && bp.fieldOfAddr(x.X) != nil
	case *ssa.Field:
		return bp.fieldOfValue(x) != nil
	case *ssa.Call:
		if bi, ok := x.Common().Value.(*ssa.Builtin); ok && (bi.Name() == "len" || bi.Name() == "cap") {
			return true
		}
	}
	return false
}

func (bp *boundProver) callNonNeg(call *ssa.Call, idx int, depth int) bool {
	callee := call.Common().StaticCallee()
	if callee == nil || !isModuleSSA(callee) || callee.Blocks == nil || bp.inRet[callee] || depth > 4 {
		return false
	}
	bp.inRet[callee] = true
	defer delete(bp.inRet, callee)
	n := 0
	for _, b := range callee.Blocks {
		ret, ok := b.Instrs[len(b.Instrs)-1].(*ssa.Return)
		if !ok || b == callee.Recover {
			continue
		}
		n++
		if !bp.nonNeg(retVal(ret, idx), b, depth+2, map[ssa.Value]bool{}) {
			return false
		}
	}
	return n > 0
}

// ---------------------------------------------------------------------------------------------

// checkBoundedContainers: obligations (a) and (b) over the given packages.
func (c *Ctx) checkBoundedContainers(r *Report, rule string, pkgs map[string]bool) {
	bp := c.newBoundProver()
	rp := newRelProver(bp)
	nRel := 0
	generated := map[string]bool{}
	for _, p := range c.Mod {
		for _, f := range p.Syntax {
			generated[c.Fset.Position(f.Pos()).Filename] = isGeneratedFile(f)
		}
	}
	nStores, nUses := 0, 0
	report := func(ok bool, fname, desc, pos, why string) {
		if ok {
			r.Ok(rule, fname, desc, pos)
			return
		}
		if reason, listed := boundAbstentions[fname+" | "+desc]; listed {
			r.Abstain(rule, fname, desc, pos, reason)
			return
		}
		r.Fail(rule, fname, desc, pos, why)
	}
	for _, fn := range c.ModuleSSAFuncs() {
		if fn.Pkg == nil {
			continue
		}
		fname := ssaFuncName(fn)
		counts := map[string]int{}
		num := func(d string) string {
			counts[d]++
			if counts[d] > 1 {
				return fmt.Sprintf("%s #%d", d, counts[d])
			}
			return d
		}
		// (a) stores
		eachInstr(fn, func(in ssa.Instruction) {
			st, ok := in.(*ssa.Store)
			if !ok {
				return
			}
			fb := bp.fieldOfAddr(st.Addr)
			if fb == nil {
				return
			}
			fa := st.Addr.(*ssa.FieldAddr)
			if _, isLocal := fa.X.(*ssa.Alloc); isLocal {
				return // checked where the local struct leaves the function
			}
			nStores++
			desc := num("store keeps " + fb.desc)
			u := bp.ub(st.Val, st.Block(), 0, map[ssa.Value]bool{})
			lo := bp.nonNeg(st.Val, st.Block(), 0, map[ssa.Value]bool{})
			why := ""
			if (!u.ok || u.k > fb.max) && rp.upper(st.Val, st.Block(), fb.max) {
				u = bres{fb.max, true}
				nRel++
			}
			if !lo && rp.lower(st.Val, st.Block(), 0) {
				lo = true
				nRel++
			}
			if !u.ok || u.k > fb.max {
				why = fmt.Sprintf("the stored value (%s) is not proven <= %d", st.Val.String(), fb.max)
				if u.ok {
					why += fmt.Sprintf(" (bound found: %d)", u.k)
				}
			}
			if !lo {
				if why != "" {
					why += "; "
				}
				why += "it is not proven >= 0"
			}
			report(why == "", fname, desc, c.Pos(st.Pos()), why+": every index and slice over the fixed array relies on this invariant")
		})
		// (a') local structs leaving the function
		for _, b := range fn.Blocks {
			for _, in := range b.Instrs {
				al, ok := in.(*ssa.Alloc)
				if !ok {
					continue
				}
				n := namedStruct(al.Type())
				if n == nil {
					continue
				}
				var fbs []*fieldBound
				for i := range bp.fields {
					if bp.fields[i].named.Obj() == n.Obj() {
						fbs = append(fbs, &bp.fields[i])
					}
				}
				if len(fbs) == 0 {
					continue
				}
				// is the field written at all in this function?
				for _, fb := range fbs {
					written := false
					for _, ref := range *al.Referrers() {
						if fa, ok := ref.(*ssa.FieldAddr); ok && fa.Field == fb.field {
							for _, r2 := range *fa.Referrers() {
								if st, ok := r2.(*ssa.Store); ok && st.Addr == ssa.Value(fa) {
									written = true
								}
							}
						}
					}
					if !written {
						continue
					}
					// escapes: loads of the whole struct
					for _, ref := range *al.Referrers() {
						ld, ok := ref.(*ssa.UnOp)
						if !ok || ld.Op != token.MUL || ld.X != ssa.Value(al) {
							continue
						}
						nStores++
						desc := num("local " + n.Obj().Name() + " leaves the function with " + fb.desc)
						// the field value at that point: a synthetic load is not available, so bound it by the stores
						// that reach the escape, refined by comparisons on loads of the field that dominate it
						u := bp.localFieldAt(al, fb, ld)
						if !(u.ok && u.k <= fb.max && u.lo) && rp.fieldWithin(al, fb.field, ld, fb.max) {
							u = lbres{fb.max, true, true}
							nRel++
						}
						report(u.ok && u.k <= fb.max && u.lo, fname, desc, c.Pos(ld.Pos()),
							fmt.Sprintf("the struct value is used (boxed, returned, stored or passed on) where its %s is not proven within [0,%d] (bound found: %v): later index/slice operations rely on it", n.Underlying().(*types.Struct).Field(fb.field).Name(), fb.max, u))
					}
				}
			}
		}
		// (b) uses
		if !pkgs[shortPkg(fn.Pkg.Pkg)] || generated[c.Fset.Position(fn.Pos()).Filename] {
			continue
		}
		eachInstr(fn, func(in ssa.Instruction) {
			var operand ssa.Value
			type bound struct {
				v      ssa.Value
				strict bool
				what   string
			}
			var bounds []bound
			switch x := in.(type) {
			case *ssa.IndexAddr:
				operand, bounds = x.X, []bound{{x.Index, true, "index"}}
			case *ssa.Index:
				operand, bounds = x.X, []bound{{x.Index, true, "index"}}
			case *ssa.Slice:
				operand = x.X
				if x.Low != nil {
					bounds = append(bounds, bound{x.Low, false, "low bound"})
				}
				if x.High != nil {
					bounds = append(bounds, bound{x.High, false, "high bound"})
				}
			}
			if operand == nil {
				return
			}
			t := operand.Type().Underlying()
			if p, ok := t.(*types.Pointer); ok {
				t = p.Elem().Underlying()
			}
			arr, ok := t.(*types.Array)
			if !ok {
				return
			}
			for _, bd := range bounds {
				if k, isConst := constInt(bd.v); isConst {
					_ = k
					continue // checked by the compiler
				}
				nUses++
				desc := num(fmt.Sprintf("%s into [%d]%s", bd.what, arr.Len(), typeShort(arr.Elem())))
				u := bp.ub(bd.v, in.Block(), 0, map[ssa.Value]bool{})
				lo := bp.nonNeg(bd.v, in.Block(), 0, map[ssa.Value]bool{})
				// the two bounds of one slice expression: low <= high (locally or at every call site) lets each
				// borrow from the other
				if sl, isSlice := in.(*ssa.Slice); isSlice && sl.Low != nil && sl.High != nil && c.proveLE(sl.Low, sl.High, in.Block(), 0) {
					if bd.v == sl.Low {
						u = u.min(bp.ub(sl.High, in.Block(), 0, map[ssa.Value]bool{}))
					} else if !lo {
						lo = bp.nonNeg(sl.Low, in.Block(), 0, map[ssa.Value]bool{})
					}
				}
				limit := arr.Len()
				if bd.strict {
					limit--
				}
				why := ""
				if (!u.ok || u.k > limit) && rp.upper(bd.v, in.Block(), limit) {
					u = bres{limit, true}
					nRel++
				}
				if !lo && rp.lower(bd.v, in.Block(), 0) {
					lo = true
					nRel++
				}
				if !u.ok || u.k > limit {
					why = fmt.Sprintf("the %s (%s) is not proven <= %d", bd.what, bd.v.String(), limit)
					if u.ok {
						why += fmt.Sprintf(" (bound found: %d)", u.k)
					}
				}
				if !lo {
					if why != "" {
						why += "; "
					}
					why += "it is not proven >= 0"
				}
				report(why == "", fname, desc, c.Pos(in.Pos()), why+": index / slice bounds out of range panic for some reachable state")
			}
		})
	}
	r.Note("%s: %d invariant obligations (stores and escapes), %d index/slice uses on fixed arrays; %d bounds needed the relational prover (relbound.go)", rule, nStores, nUses, nRel)
	if nStores < 8 || nUses < 20 {
		r.Undecided("%s: only %d invariant obligations and %d uses found", rule, nStores, nUses)
	}
	var keys []string
	for k := range boundAbstentions {
		keys = append(keys, k)
	}
	sort.Strings(keys)
	_ = strings.Join
}

type lbres struct {
	k      int64
	ok, lo bool
}

func (r lbres) String() string {
	if !r.ok {
		return "none"
	}
	return fmt.Sprintf("<= %d, non-negative %v", r.k, r.lo)
}

// localFieldAt: bound of field fb of local struct al where instruction `at` reads the whole struct.
func (bp *boundProver) localFieldAt(al *ssa.Alloc, fb *fieldBound, at *ssa.UnOp) lbres {
	// comparisons on loads of the field that dominate `at` with no store in between
	res := lbres{}
	var loads []*ssa.UnOp
	for _, ref := range *al.Referrers() {
		if fa, ok := ref.(*ssa.FieldAddr); ok && fa.Field == fb.field {
			for _, r2 := range *fa.Referrers() {
				if ld, ok := r2.(*ssa.UnOp); ok && ld.Op == token.MUL {
					loads = append(loads, ld)
				}
			}
		}
	}
	storeBetween := func(ld *ssa.UnOp) bool {
		for _, ref := range *al.Referrers() {
			if fa, ok := ref.(*ssa.FieldAddr); ok && fa.Field == fb.field {
				for _, r2 := range *fa.Referrers() {
					if st, ok := r2.(*ssa.Store); ok && st.Addr == ssa.Value(fa) && between(ld, st, at) {
						return true
					}
				}
			}
			if st, ok := ref.(*ssa.Store); ok && st.Addr == ssa.Value(al) && between(ld, st, at) {
				return true
			}
		}
		return false
	}
	best := bres{}
	for _, cc := range controlling(at.Block()) {
		bin, ok := cc.Cond.(*ssa.BinOp)
		if !ok {
			continue
		}
		for _, ld := range loads {
			if (stripConvert(bin.X) == ssa.Value(ld) || stripConvert(bin.Y) == ssa.Value(ld)) && !storeBetween(ld) {
				best = best.min(bp.fromCond(ld, cc, at.Block(), 1, map[ssa.Value]bool{}))
			}
		}
	}
	// reaching stores
	acc := bres{0, true}
	lo := true
	for _, ref := range *al.Referrers() {
		switch y := ref.(type) {
		case *ssa.Store:
			if y.Addr == ssa.Value(al) && reachesInstr(y, at) && fb.max > acc.k {
				acc.k = fb.max
			}
		case *ssa.FieldAddr:
			if y.Field != fb.field {
				continue
			}
			for _, r2 := range *y.Referrers() {
				st, ok := r2.(*ssa.Store)
				if !ok || st.Addr != ssa.Value(y) || !reachesInstr(st, at) {
					continue
				}
				u := bp.ub(st.Val, st.Block(), 1, map[ssa.Value]bool{})
				if !u.ok {
					acc.ok = false
				} else if u.k > acc.k {
					acc.k = u.k
				}
				if !bp.nonNeg(st.Val, st.Block(), 1, map[ssa.Value]bool{}) {
					lo = false
				}
			}
		}
	}
	best = best.min(acc)
	res.k, res.ok, res.lo = best.k, best.ok, lo
	return res
}

func isGeneratedFile(f *goast.File) bool { return goast.IsGenerated(f) }
