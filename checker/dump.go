package main

import "fmt"

var dumpers = map[string]func(c *Ctx){}

func dumpEngine(c *Ctx, what string) {
	if f, ok := dumpers[what]; ok {
		f(c)
		return
	}
	switch what {
	case "extreg":
		n := 0
		for _, r := range c.ExtReg() {
			n += len(r.Names)
			cb := "?"
			if r.Callback != nil {
				cb = ssaFuncName(r.Callback)
			}
			fmt.Printf("%-28s min=%d max=%d types=%v dontcache=%v cdata=%v short=%v cb=%s guards=%v unknown=%v in=%s %s\n",
				r.Key(), r.MinArgs, r.MaxArgs, r.ArgTypes, r.DontCache, r.ClientData, r.Short, cb, r.Guards, r.Unknown, ssaFuncName(r.In), c.Pos(r.Site.Pos()))
		}
		fmt.Printf("%d sites, %d names\n", len(c.ExtReg()), n)
	}
}

func init() {
	dumpers["inhab"] = func(c *Ctx) {
		ih := c.Inhabitants()
		for b, forms := range ih.Produced {
			for f, sites := range forms {
				fmt.Printf("produced %-28s %-3s x%d consumed=%v\n", b, f, len(sites), ih.Consumed[b])
			}
		}
		for _, k := range ih.Contradictions() {
			fmt.Printf("CONTRADICTION %s in %s at %s: %s\n", k.Base, ssaFuncName(k.Site.Fn), c.Pos(instrPos(k.Site.At)), k.Why)
		}
	}
}
