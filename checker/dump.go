package main

import (
	"fmt"
	"os"

	"golang.org/x/tools/go/ssa"
)

var dumpers = map[string]func(c *Ctx){}

func dumpEngine(c *Ctx, what string) {
	if f, ok := dumpers[what]; ok {
		f(c)
		return
	}
	switch what {
	case "extreg":
		n := 0
		for _, r := range c.ExtReg() {
			n += len(r.Names)
			cb := "?"
			if r.Callback != nil {
				cb = ssaFuncName(r.Callback)
			}
			fmt.Printf("%-28s min=%d max=%d types=%v dontcache=%v cdata=%v short=%v cb=%s guards=%v unknown=%v in=%s %s\n",
				r.Key(), r.MinArgs, r.MaxArgs, r.ArgTypes, r.DontCache, r.ClientData, r.Short, cb, r.Guards, r.Unknown, ssaFuncName(r.In), c.Pos(r.Site.Pos()))
		}
		fmt.Printf("%d sites, %d names\n", len(c.ExtReg()), n)
	}
}

func init() {
	dumpers["inhab"] = func(c *Ctx) {
		ih := c.Inhabitants()
		for b, forms := range ih.Produced {
			for f, sites := range forms {
				fmt.Printf("produced %-28s %-3s x%d consumed=%v\n", b, f, len(sites), ih.Consumed[b])
			}
		}
		for _, k := range ih.Contradictions() {
			fmt.Printf("CONTRADICTION %s in %s at %s: %s\n", k.Base, ssaFuncName(k.Site.Fn), c.Pos(instrPos(k.Site.At)), k.Why)
		}
	}
}

func init() {
	dumpers["tokrel"] = func(c *Ctx) {
		tr := c.TokRel()
		names := c.tokenTypeNames()
		for tn, s := range tr.Tokens {
			if s.top {
				fmt.Printf("%-28s TOP\n", tn)
				continue
			}
			var ks []string
			for k := range s.s {
				ks = append(ks, names[k])
			}
			fmt.Printf("%-28s %v\n", tn, ks)
		}
	}
}

func init() {
	dumpers["whycalls"] = func(c *Ctx) {
		reach := c.programReach()
		target := os.Getenv("WHY")
		for fn := range reach {
			node := c.CG().g.Nodes[fn]
			if node == nil {
				continue
			}
			for _, e := range node.Out {
				if ssaFuncName(e.Callee.Func) == target {
					fmt.Printf("%s -> %s at %s (%s)\n", ssaFuncName(fn), target, c.Pos(e.Pos()), e.Description())
				}
			}
		}
	}
}

func init() {
	dumpers["tags"] = func(c *Ctx) {
		fn := c.SSAFn(c.Fn("eval", "State.evalIndexExpressionIdx"))
		eachInstr(fn, func(in ssa.Instruction) {
			if ta, ok := in.(*ssa.TypeAssert); ok {
				tags, known := c.tagsAt(ta.X, ta.Block())
				fmt.Println(ta, ta.Block().Index, tags, known, len(c.typeCallsOn(ta.X)))
				for _, cc := range controlling(ta.Block()) {
					fmt.Println("  ctrl", cc.Cond, cc.Edge)
				}
			}
		})
	}
}

func init() {
	dumpers["scc"] = func(c *Ctx) {
		reach := c.programReach()
		for _, comp := range c.recursiveSCCs(reach, staticOrInvoke) {
			fmt.Println(len(comp), sccName(comp))
		}
	}
}

func init() {
	dumpers["whyformat"] = func(c *Ctx) {
		reach := c.formatterReach()
		target := os.Getenv("WHY")
		for fn := range reach {
			node := c.CG().g.Nodes[fn]
			if node == nil {
				continue
			}
			for _, e := range node.Out {
				if ssaFuncName(e.Callee.Func) == target {
					fmt.Printf("%s -> %s at %s (%s)\n", ssaFuncName(fn), target, c.Pos(e.Pos()), e.Description())
				}
			}
		}
	}
}

func init() {
	dumpers["wasm"] = func(c *Ctx) {
		w := Load(LoadConfig{Repo: c.Repo, Env: []string{"GOOS=js", "GOARCH=wasm"}, Patterns: []string{"./wasm"}, MinPkgs: 5})
		fmt.Println(len(w.Mod), "module packages loaded for js/wasm")
		for k := range w.Pkgs {
			fmt.Println(" ", k)
		}
	}
}
