package main

import (
	"fmt"
	"go/token"
	"go/types"
	"os"

	"golang.org/x/tools/go/ssa"
)

var dumpers = map[string]func(c *Ctx){}

func dumpEngine(c *Ctx, what string) {
	if f, ok := dumpers[what]; ok {
		f(c)
		return
	}
	switch what {
	case "extreg":
		n := 0
		for _, r := range c.ExtReg() {
			n += len(r.Names)
			cb := "?"
			if r.Callback != nil {
				cb = ssaFuncName(r.Callback)
			}
			fmt.Printf("%-28s min=%d max=%d types=%v dontcache=%v cdata=%v short=%v cb=%s guards=%v unknown=%v in=%s %s\n",
				r.Key(), r.MinArgs, r.MaxArgs, r.ArgTypes, r.DontCache, r.ClientData, r.Short, cb, r.Guards, r.Unknown, ssaFuncName(r.In), c.Pos(r.Site.Pos()))
		}
		fmt.Printf("%d sites, %d names\n", len(c.ExtReg()), n)
	}
}

func init() {
	dumpers["inhab"] = func(c *Ctx) {
		ih := c.Inhabitants()
		for b, forms := range ih.Produced {
			for f, sites := range forms {
				fmt.Printf("produced %-28s %-3s x%d consumed=%v\n", b, f, len(sites), ih.Consumed[b])
			}
		}
		for _, k := range ih.Contradictions() {
			fmt.Printf("CONTRADICTION %s in %s at %s: %s\n", k.Base, ssaFuncName(k.Site.Fn), c.Pos(instrPos(k.Site.At)), k.Why)
		}
	}
}

func init() {
	dumpers["tokrel"] = func(c *Ctx) {
		tr := c.TokRel()
		names := c.tokenTypeNames()
		for tn, s := range tr.Tokens {
			if s.top {
				fmt.Printf("%-28s TOP\n", tn)
				continue
			}
			var ks []string
			for k := range s.s {
				ks = append(ks, names[k])
			}
			fmt.Printf("%-28s %v\n", tn, ks)
		}
	}
}

func init() {
	dumpers["whycalls"] = func(c *Ctx) {
		reach := c.programReach()
		target := os.Getenv("WHY")
		for fn := range reach {
			node := c.CG().g.Nodes[fn]
			if node == nil {
				continue
			}
			for _, e := range node.Out {
				if ssaFuncName(e.Callee.Func) == target {
					fmt.Printf("%s -> %s at %s (%s)\n", ssaFuncName(fn), target, c.Pos(e.Pos()), e.Description())
				}
			}
		}
	}
}

func init() {
	dumpers["tags"] = func(c *Ctx) {
		fn := c.SSAFn(c.Fn("eval", "State.evalIndexExpressionIdx"))
		eachInstr(fn, func(in ssa.Instruction) {
			if ta, ok := in.(*ssa.TypeAssert); ok {
				tags, known := c.tagsAt(ta.X, ta.Block())
				fmt.Println(ta, ta.Block().Index, tags, known, len(c.typeCallsOn(ta.X)))
				for _, cc := range controlling(ta.Block()) {
					fmt.Println("  ctrl", cc.Cond, cc.Edge)
				}
			}
		})
	}
}

func init() {
	dumpers["scc"] = func(c *Ctx) {
		reach := c.programReach()
		for _, comp := range c.recursiveSCCs(reach, staticOrInvoke) {
			fmt.Println(len(comp), sccName(comp))
		}
	}
}

func init() {
	dumpers["whyformat"] = func(c *Ctx) {
		reach := c.formatterReach()
		target := os.Getenv("WHY")
		for fn := range reach {
			node := c.CG().g.Nodes[fn]
			if node == nil {
				continue
			}
			for _, e := range node.Out {
				if ssaFuncName(e.Callee.Func) == target {
					fmt.Printf("%s -> %s at %s (%s)\n", ssaFuncName(fn), target, c.Pos(e.Pos()), e.Description())
				}
			}
		}
	}
}

func init() {
	dumpers["wasm"] = func(c *Ctx) {
		w := Load(LoadConfig{Repo: c.Repo, Env: []string{"GOOS=js", "GOARCH=wasm"}, Patterns: []string{"./wasm"}, MinPkgs: 5})
		fmt.Println(len(w.Mod), "module packages loaded for js/wasm")
		for k := range w.Pkgs {
			fmt.Println(" ", k)
		}
	}
}

func init() {
	dumpers["retroots"] = func(c *Ctx) {
		f := c.containerFresh()
		for _, fn := range f.funcs {
			if fn.Pkg == nil || (shortPkg(fn.Pkg.Pkg) != "eval" && shortPkg(fn.Pkg.Pkg) != "object" && shortPkg(fn.Pkg.Pkg) != "extensions") {
				continue
			}
			rets := f.retRoots(fn)
			for i, rr := range rets {
				if !canHoldStorage(fn.Signature.Results().At(i).Type()) {
					continue
				}
				s := "fresh"
				switch rr.kind {
				case rShared:
					s = "shared: " + rr.why
					for p := range rr.params {
						s += " [+param " + p.Name() + "]"
					}
				case rParam:
					s = "param:"
					for p := range rr.params {
						s += " " + p.Name()
					}
				}
				fmt.Printf("%s #%d %s\n", ssaFuncName(fn), i, s)
			}
		}
	}
}

func init() {
	dumpers["febounds"] = func(c *Ctx) {
		for _, fn := range c.ModuleSSAFuncs() {
			if fn.Pkg == nil {
				continue
			}
			switch shortPkg(fn.Pkg.Pkg) {
			case "ast", "lexer", "parser", "token", "trie":
			default:
				continue
			}
			eachInstr(fn, func(in ssa.Instruction) {
				show := func(kind string, idx ssa.Value, strict bool) {
					if idx == nil {
						return
					}
					if _, isConst := idx.(*ssa.Const); isConst {
						return
					}
					lo := c.proveLo(idx, in.Block(), 0)
					hi := c.proveHi(idx, in.Block(), strict, 0)
					fmt.Printf("%s %s %s lo=%v hi=%v  %s  [%s]\n", c.Pos(in.Pos()), ssaFuncName(fn), kind, lo, hi, idx.String(), in.String())
				}
				switch x := in.(type) {
				case *ssa.IndexAddr:
					show("index", x.Index, true)
				case *ssa.Index:
					show("index", x.Index, true)
				case *ssa.Lookup:
					if _, isStr := x.X.Type().Underlying().(*types.Basic); isStr {
						show("strindex", x.Index, true)
					}
				case *ssa.Slice:
					show("slice-low", x.Low, false)
					show("slice-high", x.High, false)
				}
			})
		}
	}
}

func init() {
	dumpers["fixedlen"] = func(c *Ctx) {
		r := NewReport("C07", "quick", c)
		c.checkFixedLengthOperands(r, "X", map[string]bool{"eval": true, "object": true, "extensions": true, "repl": true, "main": true})
		for _, o := range r.Obls {
			fmt.Printf("%v %s | %s | %s | %s\n", o.status, o.Func, o.Desc, o.Pos, o.Reason)
		}
	}
}

func init() {
	dumpers["reflists"] = func(c *Ctx) {
		rl := c.NewRefLists()
		for p, why := range rl.stores {
			fmt.Printf("stores: %s(%s): %s\n", ssaFuncName(p.Parent()), p.Name(), why)
		}
		for p := range rl.rawParam {
			fmt.Printf("rawParam: %s(%s)\n", ssaFuncName(p.Parent()), p.Name())
		}
		for f, r := range rl.rawRet {
			for i, b := range r {
				if b {
					fmt.Printf("rawRet: %s #%d\n", ssaFuncName(f), i)
				}
			}
		}
		for l, sw := range rl.sweeps {
			fmt.Printf("sweep: %s in %s (%d)\n", l.Name(), ssaFuncName(l.Parent()), len(sw))
		}
		for _, s := range rl.Sinks() {
			fmt.Printf("sink raw=%v %s | %s | %s\n", s.Raw, ssaFuncName(s.Fn), s.Desc, c.Pos(instrPos(s.At)))
		}
		finds, checked := rl.obj.Findings()
		fmt.Println("object-level checked", checked)
		for _, f := range finds {
			fmt.Printf("obj: %s | %s | %s\n", ssaFuncName(f.Fn), f.Desc, c.Pos(instrPos(f.At)))
		}
	}
}

func init() {
	dumpers["lenstores"] = func(c *Ctx) {
		type fk struct{ t, f string }
		want := map[fk]bool{{"SmallArray", "len"}: true, {"SmallMap", "len"}: true, {"Environment", "numReg"}: true, {"Register", "Idx"}: true}
		for _, fn := range c.ModuleSSAFuncs() {
			eachInstr(fn, func(in ssa.Instruction) {
				st, ok := in.(*ssa.Store)
				if !ok {
					return
				}
				fa, ok := st.Addr.(*ssa.FieldAddr)
				if !ok {
					return
				}
				n := namedStruct(fa.X.Type())
				if n == nil {
					return
				}
				fname := n.Underlying().(*types.Struct).Field(fa.Field).Name()
				if !want[fk{n.Obj().Name(), fname}] {
					return
				}
				fmt.Printf("%s %s.%s = %s   [%s] in %s\n", c.Pos(st.Pos()), n.Obj().Name(), fname, st.Val.String(), st.Val.Name(), ssaFuncName(fn))
			})
		}
	}
}

func init() {
	dumpers["bounded"] = func(c *Ctx) {
		r := NewReport("C07", "quick", c)
		c.checkBoundedContainers(r, "X", map[string]bool{"eval": true, "object": true})
		for _, o := range r.Obls {
			fmt.Printf("%v %s | %s | %s | %s\n", o.status, o.Func, o.Desc, o.Pos, o.Reason)
		}
	}
}

func init() {
	dumpers["allbounds"] = func(c *Ctx) {
		bp := c.newBoundProver()
		proven, unproven := 0, 0
		for _, fn := range c.ModuleSSAFuncs() {
			if fn.Pkg == nil {
				continue
			}
			switch shortPkg(fn.Pkg.Pkg) {
			case "eval", "object", "extensions", "repl", "main":
			default:
				continue
			}
			eachInstr(fn, func(in ssa.Instruction) {
				var operand ssa.Value
				type bound struct {
					v      ssa.Value
					strict bool
					what   string
				}
				var bounds []bound
				switch x := in.(type) {
				case *ssa.IndexAddr:
					operand, bounds = x.X, []bound{{x.Index, true, "index"}}
				case *ssa.Index:
					operand, bounds = x.X, []bound{{x.Index, true, "index"}}
				case *ssa.Lookup:
					if _, isStr := x.X.Type().Underlying().(*types.Basic); isStr {
						operand, bounds = x.X, []bound{{x.Index, true, "index"}}
					}
				case *ssa.Slice:
					operand = x.X
					if x.Low != nil {
						bounds = append(bounds, bound{x.Low, false, "low"})
					}
					if x.High != nil {
						bounds = append(bounds, bound{x.High, false, "high"})
					}
				}
				if operand == nil {
					return
				}
				t := operand.Type().Underlying()
				if p, ok := t.(*types.Pointer); ok {
					t = p.Elem().Underlying()
				}
				if _, isArr := t.(*types.Array); isArr {
					return // R9
				}
				for _, bd := range bounds {
					if _, isK := constInt(bd.v); isK {
						// constant index into a slice: needs len > k
						k, _ := constInt(bd.v)
						if k == 0 && !bd.strict {
							continue
						}
					}
					// relative proof: v < len(operand) via the C07.R4 machinery
					hi := c.proveHi(bd.v, in.Block(), bd.strict, 0)
					lo := c.proveLo(bd.v, in.Block(), 0) || bp.nonNeg(bd.v, in.Block(), 0, map[ssa.Value]bool{})
					if hi && lo {
						proven++
						continue
					}
					unproven++
					fmt.Printf("%s %s %s hi=%v lo=%v %s [%s]\n", c.Pos(in.Pos()), ssaFuncName(fn), bd.what, hi, lo, bd.v.String(), in.String())
				}
			})
		}
		fmt.Println("proven", proven, "unproven", unproven)
	}
}

func init() {
	dumpers["slicebounds"] = func(c *Ctx) {
		r := NewReport("C07", "quick", c)
		c.checkSliceBounds(r, "X", map[string]bool{"eval": true, "object": true, "extensions": true})
		n := 0
		for _, o := range r.Obls {
			if o.status != OK {
				fmt.Printf("%s | %s | %s | %s\n", o.Func, o.Desc, o.Pos, o.Reason)
			} else {
				n++
			}
		}
		fmt.Println("ok", n)
	}
}

func init() {
	dumpers["ifaceeq"] = func(c *Ctx) {
		for _, fn := range c.ModuleSSAFuncs() {
			eachInstr(fn, func(in ssa.Instruction) {
				bin, ok := in.(*ssa.BinOp)
				if !ok || (bin.Op != token.EQL && bin.Op != token.NEQ) {
					return
				}
				_, xi := bin.X.Type().Underlying().(*types.Interface)
				_, yi := bin.Y.Type().Underlying().(*types.Interface)
				if !xi || !yi {
					return
				}
				if isNilConst(bin.X) || isNilConst(bin.Y) {
					return
				}
				fmt.Printf("%s %s: %s  |  %s (%s) vs %s (%s)\n", c.Pos(bin.Pos()), ssaFuncName(fn), bin.String(), bin.X.String(), bin.X.Type(), bin.Y.String(), bin.Y.Type())
			})
		}
	}
}
