package main

import "fmt"

func dumpEngine(c *Ctx, what string) {
	switch what {
	case "extreg":
		n := 0
		for _, r := range c.ExtReg() {
			n += len(r.Names)
			cb := "?"
			if r.Callback != nil {
				cb = ssaFuncName(r.Callback)
			}
			fmt.Printf("%-28s min=%d max=%d types=%v dontcache=%v cdata=%v short=%v cb=%s guards=%v unknown=%v in=%s %s\n",
				r.Key(), r.MinArgs, r.MaxArgs, r.ArgTypes, r.DontCache, r.ClientData, r.Short, cb, r.Guards, r.Unknown, ssaFuncName(r.In), c.Pos(r.Site.Pos()))
		}
		fmt.Printf("%d sites, %d names\n", len(c.ExtReg()), n)
	}
}
