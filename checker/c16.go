package main

import (
	"fmt"
	"go/token"
	"go/types"
	"sort"
	"strings"

	"golang.org/x/tools/go/callgraph"
	"golang.org/x/tools/go/ssa"
)

type lexerInfo struct {
	c        *Ctx
	lexT     *types.Named
	posIdx   int
	inputIdx int
	writers  map[*ssa.Function]bool // *Lexer methods that (transitively) write l.pos
}

func (c *Ctx) lexerInfo() *lexerInfo {
	li := &lexerInfo{c: c, lexT: c.TypeNamed("lexer", "Lexer"), writers: map[*ssa.Function]bool{}}
	li.posIdx = fieldIndex(li.lexT, "pos")
	li.inputIdx = fieldIndex(li.lexT, "input")
	if li.posIdx < 0 || li.inputIdx < 0 {
		undecidedf("lexer.Lexer has no pos/input field")
	}
	var fns []*ssa.Function
	for _, fn := range c.ModuleSSAFuncs() {
		if fn.Pkg != nil && shortPkg(fn.Pkg.Pkg) == "lexer" {
			fns = append(fns, fn)
		}
	}
	for changed := true; changed; {
		changed = false
		for _, fn := range fns {
			if li.writers[fn] {
				continue
			}
			w := false
			eachInstr(fn, func(in ssa.Instruction) {
				if li.isPosStore(in) {
					w = true
				}
				if call, ok := in.(*ssa.Call); ok {
					if sc := call.Common().StaticCallee(); sc != nil && li.writers[sc] {
						w = true
					}
				}
			})
			if w {
				li.writers[fn] = true
				changed = true
			}
		}
	}
	return li
}

func (li *lexerInfo) isPosAddr(v ssa.Value) bool {
	fa, ok := v.(*ssa.FieldAddr)
	if !ok || fa.Field != li.posIdx {
		return false
	}
	n := namedStruct(fa.X.Type())
	return n != nil && n.Obj() == li.lexT.Obj()
}

func (li *lexerInfo) isPosStore(in ssa.Instruction) bool {
	st, ok := in.(*ssa.Store)
	return ok && li.isPosAddr(st.Addr)
}

func (li *lexerInfo) isPosLoad(v ssa.Value) bool {
	ld, ok := v.(*ssa.UnOp)
	return ok && ld.Op == token.MUL && li.isPosAddr(ld.X)
}

// posWrite: the instruction may change l.pos (direct store or call to a writer).
func (li *lexerInfo) posWrite(in ssa.Instruction) bool {
	if li.isPosStore(in) {
		return true
	}
	if call, ok := in.(*ssa.Call); ok {
		if sc := call.Common().StaticCallee(); sc != nil && li.writers[sc] {
			return true
		}
	}
	return false
}

// posDelta: for a direct store l.pos = l.pos + k returns k; for readChar-like callee that
// advances by exactly one on every path returns 1. ok=false if unknown.
func (li *lexerInfo) posDelta(in ssa.Instruction) (int, bool) {
	if st, ok := in.(*ssa.Store); ok && li.isPosAddr(st.Addr) {
		if bin, ok := st.Val.(*ssa.BinOp); ok && (bin.Op == token.ADD || bin.Op == token.SUB) && li.isPosLoad(bin.X) {
			if k, ok := constInt(bin.Y); ok {
				if bin.Op == token.SUB {
					return -int(k), true
				}
				return int(k), true
			}
		}
		return 0, false
	}
	if call, ok := in.(*ssa.Call); ok {
		if sc := call.Common().StaticCallee(); sc != nil && li.writers[sc] {
			// exactly-one-advance summary: single block function with one store of +1
			total, known := 0, true
			if len(sc.Blocks) != 1 {
				return 0, false
			}
			for _, x := range sc.Blocks[0].Instrs {
				if li.posWrite(x) {
					d, ok := li.posDelta(x)
					if !ok {
						known = false
					}
					total += d
				}
			}
			return total, known
		}
	}
	return 0, true
}

func runC16(c *Ctx, r *Report) {

	if !r.Sub {
		r.Rule("C16.R5", "(shared with C15) an unfinished token is not the end of the input: in file mode the failed-read edge of readString does not return the end marker")
		sub := NewReport("C15", r.Tier, c)
		sub.Sub = true
		runC15(c, sub)
		for _, o := range sub.Obls {
			if o.Rule != "C16.R5" {
				continue
			}
			if o.status == FAIL {
				r.Fail(o.Rule, o.Func, o.Desc, o.Pos, o.Reason)
			} else {
				r.Ok(o.Rule, o.Func, o.Desc, o.Pos)
			}
		}
	}
	r.Rule("C16.R1", "token text = bytes spanned: in every lexer function that returns a slice of the input as token text, the low bound is the token start (position at entry minus the byte already consumed) and the high bound is the current position at that return (no position write between reading the bound and returning, or the position is rewound to the bound)")
	r.Rule("C16.R2", "constant tokens: on every path of NextToken to a return of a one-byte constant token (or ILLEGAL) the position advanced by exactly 1 after skipping whitespace, and by exactly 2 for two-byte tokens; unchecked table lookups are only reached with byte pairs / bytes that are registered (path conditions evaluated on all 256x256 byte pairs)")
	r.Rule("C16.R3", "interning and keywords: identifier text goes only through LookupIdent, which consults the keyword table before interning an IDENT; the keyword table is filled for the whole identity-token range; value tokens are built through Intern; nothing reachable from token production (NextToken, Intern, InternToken, LookupIdent) replaces, clears or deletes from the interning table")
	r.Rule("C16.R6", "escape readers consume validated bytes only: in the lexer functions reachable from readString every readChar() sits on the true edge of a byte predicate applied to peekChar() that rejects both quote characters and NUL (folded on all 256 bytes)")
	c.checkEscapeReaders(r, "C16.R6")
	r.Rule("C16.R7", "token text is an owned copy: none of the front-end packages (lexer, token, parser, ast) imports unsafe, so the text the readers build with string(input[a:b]) cannot share storage with the caller's buffer")
	c.checkOwnedTokenText(r, "C16.R7")
	r.Rule("C16.R8", "what is skipped between tokens is whitespace only: lexer.isWhiteSpace, folded on all 256 byte values, holds for space, tab, line feed and carriage return and for nothing else (every other byte belongs to a token)")
	{
		isWS := c.Fn("lexer", "isWhiteSpace")
		ws, ok := c.ByteSet(isWS)
		if !ok {
			r.Undecided("C16.R8: cannot fold lexer.isWhiteSpace on the 256 byte values")
		} else {
			var extra, missing []string
			for b := 0; b < 256; b++ {
				want := b == ' ' || b == '\t' || b == '\n' || b == '\r'
				if ws[b] && !want {
					extra = append(extra, fmt.Sprintf("%#02x", b))
				}
				if !ws[b] && want {
					missing = append(missing, fmt.Sprintf("%#02x", b))
				}
			}
			r.Check(len(extra) == 0 && len(missing) == 0, "C16.R8", "lexer.isWhiteSpace", "the bytes skipped between tokens are space, tab, LF and CR", c.Pos(c.SSAFn(isWS).Pos()),
				fmt.Sprintf("isWhiteSpace also holds for %v (and not for %v): those bytes are skipped silently between tokens, so they belong to no token and the tokens no longer tile the input (0x85 and 0xa0 are the second bytes of ordinary UTF-8 letters)", extra, missing))
		}
	}
	r.Rule("C16.R4", "sticky end marker: NextToken returns the end marker only when the position is past the end of the input (a NUL byte inside the input is not the end)")

	li := c.lexerInfo()
	nextToken := c.SSAFn(c.Fn("lexer", "Lexer.NextToken"))

	// ---- R1 ----
	n1 := 0
	tokenReach := c.CG().Reach([]*ssa.Function{nextToken}, staticOrInvoke, func(f *ssa.Function) bool { return !isModuleSSA(f) })
	for _, fn := range c.ModuleSSAFuncs() {
		if fn.Pkg == nil || shortPkg(fn.Pkg.Pkg) != "lexer" || fn.Signature.Recv() == nil || !tokenReach[fn] {
			continue // only functions that produce token text (reachable from NextToken)
		}
		eachInstr(fn, func(in ssa.Instruction) {
			ret, ok := in.(*ssa.Return)
			if !ok {
				return
			}
			for i := range ret.Results {
				v := retVal(ret, i)
				// string(l.input[lo:hi]) possibly wrapped in strings.TrimSpace
				if call, ok := v.(*ssa.Call); ok {
					if obj := calleeObj(call); obj != nil && obj.Pkg() != nil && obj.Pkg().Path() == "strings" && len(call.Common().Args) == 1 {
						v = call.Common().Args[0]
					}
				}
				cv, ok := v.(*ssa.Convert)
				if !ok {
					continue
				}
				sl, ok := cv.X.(*ssa.Slice)
				if !ok {
					continue
				}
				ld, ok := sl.X.(*ssa.UnOp)
				if !ok {
					continue
				}
				fa, ok := ld.X.(*ssa.FieldAddr)
				if !ok || fa.Field != li.inputIdx {
					continue
				}
				n1++
				fname := ssaFuncName(fn)
				pos := c.Pos(instrPos(ret))
				// low bound
				var lowIsEntryPos func(f *ssa.Function, low ssa.Value, depth int) bool
				lowIsEntryPos = func(f *ssa.Function, low ssa.Value, depth int) bool {
					if sub, ok := low.(*ssa.BinOp); ok && sub.Op == token.SUB && li.isPosLoad(sub.X) {
						if k, ok := constInt(sub.Y); ok && k == 1 {
							// the load happens before any position write in this function
							load := sub.X.(*ssa.UnOp)
							return mustPassFromEntry(f, func(x ssa.Instruction) bool { return x == ssa.Instruction(load) }, li.posWrite) == nil
						}
					}
					// the saved position is handed to the reader that finishes the token: every caller saved it at its entry
					if p, ok := low.(*ssa.Parameter); ok && depth < 3 {
						sites, ok := c.argsAtCallSites(p)
						if !ok {
							return false
						}
						for _, s := range sites {
							if !lowIsEntryPos(s.b.Parent(), s.v, depth+1) {
								return false
							}
						}
						return true
					}
					return false
				}
				okLo := lowIsEntryPos(fn, sl.Low, 0)
				r.Check(okLo, "C16.R1", fname, fmt.Sprintf("low bound of the token text returned (%s)", describeBound(li, sl.Low)), pos,
					"the token text does not start at the token's first byte (position at entry - 1)")
				// high bound
				okHi, why := li.highIsCurrent(fn, sl.High, ret)
				r.Check(okHi, "C16.R1", fname, fmt.Sprintf("high bound of the token text returned (%s)", describeBound(li, sl.High)), pos, why)
			}
		})
	}
	// the body of a block comment starts right after the two bytes of its opening delimiter: the first byte
	// the terminator search looks at is token start + 2
	{
		rb := c.SSAFn(c.Fn("lexer", "Lexer.readBlockComment"))
		rbName := ssaFuncName(rb)
		readChar, peekChar := c.Fn("lexer", "Lexer.readChar"), c.Fn("lexer", "Lexer.peekChar")
		delta := map[ssa.Value]int64{} // value -> offset from the position at entry
		cur, known := int64(0), true
		firstRead, haveRead := int64(0), false
		what := ""
		if len(rb.Blocks) > 0 {
			for _, in := range rb.Blocks[0].Instrs {
				if haveRead || !known {
					break
				}
				switch x := in.(type) {
				case *ssa.UnOp:
					if li.isFieldLoad(x, "pos") {
						delta[x] = cur
					}
				case *ssa.BinOp:
					if d, ok := delta[x.X]; ok {
						if k, isK := constInt(x.Y); isK {
							switch x.Op {
							case token.ADD:
								delta[x] = d + k
							case token.SUB:
								delta[x] = d - k
							}
						}
					}
				case *ssa.Convert:
					if d, ok := delta[x.X]; ok {
						delta[x] = d
					}
				case *ssa.Store:
					if fa, ok := x.Addr.(*ssa.FieldAddr); ok && fa.Field == fieldIndex(li.lexT, "pos") {
						d, ok := delta[x.Val]
						if !ok {
							known = false
							break
						}
						cur = d
					}
				case *ssa.Slice:
					if ld, ok := x.X.(*ssa.UnOp); ok && li.isFieldLoad(ld, "input") && x.Low != nil {
						if d, ok := delta[x.Low]; ok {
							firstRead, haveRead, what = d, true, "slice of the input from"
						} else {
							known = false
						}
					}
				case *ssa.Call:
					if bi, ok := x.Common().Value.(*ssa.Builtin); ok {
						if bi.Name() == "min" || bi.Name() == "max" {
							// clamping to the input length does not move a position that is inside the input
							for _, a := range x.Common().Args {
								if d, ok := delta[a]; ok {
									delta[x] = d
								}
							}
						}
						break
					}
					switch {
					case isCallTo(x, readChar), isCallTo(x, peekChar):
						firstRead, haveRead, what = cur, true, "read of the byte at"
					default:
						if sc := x.Common().StaticCallee(); sc != nil && isModuleSSA(sc) {
							known = false // another lexer method may move the position
						}
					}
				}
			}
		}
		switch {
		case !known || !haveRead:
			r.Abstain("C16.R1", rbName, "the terminator search starts right after the opening delimiter", c.Pos(rb.Pos()), "the first read of the comment body could not be located by following the position through the entry block")
		default:
			// the token starts one byte before the position at entry (the '/' already consumed): start = -1
			r.Check(firstRead == 1, "C16.R1", rbName, "the terminator search starts right after the opening delimiter", c.Pos(rb.Pos()),
				fmt.Sprintf("the first %s position entry%+d, i.e. token start + %d: the opening delimiter is 2 bytes long, so the body must be scanned from token start + 2 (starting later misses a terminator at the very beginning, as in /**/; starting earlier would take the `*` of the opening for one)", what, firstRead, firstRead+1))
		}
	}
	// end of input inside a string literal is recognised on the byte that was read, never on a decoded escape
	{
		rs := c.SSAFn(c.Fn("lexer", "Lexer.readString"))
		readChar := c.Fn("lexer", "Lexer.readChar")
		nEOF := 0
		eachInstr(rs, func(in ssa.Instruction) {
			ret, ok := in.(*ssa.Return)
			if !ok || len(ret.Results) != 2 {
				return
			}
			k, ok := retVal(ret, 1).(*ssa.Const)
			if !ok || k.Value == nil || k.Value.ExactString() != "false" {
				return // not the "unterminated" return
			}
			// the byte tests selecting this return
			for _, cc := range controlling(ret.Block()) {
				bin, ok := cc.Cond.(*ssa.BinOp)
				if !ok || bin.Op != token.EQL || cc.Edge != 0 {
					continue
				}
				if kk, isK := constInt(bin.Y); !isK || kk != 0 {
					continue
				}
				nEOF++
				call, isCall := bin.X.(*ssa.Call)
				r.Check(isCall && isCallTo(call, readChar), "C16.R1", ssaFuncName(rs), "the end-of-input test of a string literal looks at the byte just read", c.Pos(bin.Pos()),
					"the `== 0` test that ends the literal as unterminated is applied to "+bin.X.String()+", not to the result of readChar(): a decoded escape (\\x00) is then taken for the end of the input, the string token stops in the middle and the end marker is delivered early")
			}
		})
		if nEOF == 0 {
			r.Undecided("C16.R1: no end-of-input test found in readString")
		}
	}
	r.Floor("C16.R1", 14)

	// ---- R2 ----
	ctc := c.Fn("token", "ConstantTokenChar")
	ctc2 := c.Fn("token", "ConstantTokenChar2")
	intern := c.Fn("token", "Intern")
	illegal := c.tokenConst("ILLEGAL")
	// start: the readChar call
	var start ssa.Instruction
	readChar := c.Fn("lexer", "Lexer.readChar")
	for _, rc := range callsIn(nextToken, readChar) {
		if rc.Block() == nextToken.Blocks[0] {
			start = rc.(ssa.Instruction)
		}
	}
	if start == nil {
		r.Undecided("NextToken: initial readChar not found")
		return
	}
	expected := func(ret *ssa.Return) (int, string, bool) {
		v := retVal(ret, 0)
		call, ok := v.(*ssa.Call)
		if !ok {
			return 0, "", false
		}
		switch {
		case isCallTo(call, ctc):
			return 1, "ConstantTokenChar", true
		case isCallTo(call, ctc2):
			return 2, "ConstantTokenChar2", true
		case isCallTo(call, intern):
			if k, ok := constInt(call.Common().Args[0]); ok && k == illegal {
				return 1, "Intern(ILLEGAL)", true
			}
		}
		return 0, "", false
	}
	type st struct {
		b *ssa.BasicBlock
		n int
	}
	results := map[*ssa.Return]map[int]bool{}
	seen := map[st]bool{}
	unknownDelta := false
	var walk func(b *ssa.BasicBlock, from int, n int)
	walk = func(b *ssa.BasicBlock, from int, n int) {
		if from == 0 {
			if seen[st{b, n}] || n > 6 {
				return
			}
			seen[st{b, n}] = true
		}
		for i := from; i < len(b.Instrs); i++ {
			in := b.Instrs[i]
			if li.posWrite(in) {
				d, ok := li.posDelta(in)
				if !ok {
					// a read* helper: its own slice rule (R1) covers the span; stop counting this path
					unknownDelta = true
					return
				}
				n += d
			}
			if ret, ok := in.(*ssa.Return); ok {
				if results[ret] == nil {
					results[ret] = map[int]bool{}
				}
				results[ret][n] = true
			}
		}
		for _, s := range b.Succs {
			walk(s, 0, n)
		}
	}
	walk(start.Block(), instrIndex(start), 0)
	_ = unknownDelta
	var rets []*ssa.Return
	for ret := range results {
		rets = append(rets, ret)
	}
	sort.Slice(rets, func(i, j int) bool { return instrPos(rets[i]) < instrPos(rets[j]) })
	perKind := map[string]int{}
	for _, ret := range rets {
		want, kind, ok := expected(ret)
		if !ok {
			continue
		}
		perKind[kind]++
		var got []string
		good := true
		for n := range results[ret] {
			got = append(got, fmt.Sprint(n))
			if n != want {
				good = false
			}
		}
		sort.Strings(got)
		desc := fmt.Sprintf("return of %s #%d advances the position by %d", kind, perKind[kind], want)
		r.Check(good, "C16.R2", ssaFuncName(nextToken), desc, c.Pos(instrPos(ret)),
			fmt.Sprintf("a %d-byte constant token is returned on a path that advanced the position by %s byte(s): the token's text differs from the bytes it spans (bytes are lost or lexed twice)", want, strings.Join(got, " or ")))
	}
	// table validity on path conditions
	c.checkTokenTables(r, nextToken, li, ctc, ctc2)
	r.Floor("C16.R2", 15)

	// ---- R3 ----
	{
		lookupIdent := c.Fn("token", "LookupIdent")
		readIdent := c.Fn("lexer", "Lexer.readIdentifier")
		// readIdentifier results flow only into LookupIdent
		for _, fn := range c.ModuleSSAFuncs() {
			for _, rc := range callsIn(fn, readIdent) {
				okAll := true
				for _, ref := range *rc.(*ssa.Call).Referrers() {
					if call, ok := ref.(*ssa.Call); ok && isCallTo(call, lookupIdent) {
						continue
					}
					if _, ok := ref.(*ssa.DebugRef); ok {
						continue
					}
					okAll = false
				}
				r.Check(okAll, "C16.R3", ssaFuncName(fn), "identifier text goes through LookupIdent", c.Pos(rc.Pos()), "identifier text reaches something other than token.LookupIdent: keywords could lex as identifiers")
			}
		}
		lf := c.SSAFn(lookupIdent)
		// the IDENT interning is on the not-found edge of the keywords lookup
		okKw := false
		eachInstr(lf, func(in ssa.Instruction) {
			call, ok := in.(*ssa.Call)
			if !ok {
				return
			}
			obj := calleeObj(call)
			if obj == nil || (obj.Name() != "InternToken" && obj.Name() != "Intern") {
				return
			}
			for _, cc := range controlling(call.Block()) {
				if ex, ok := cc.Cond.(*ssa.Extract); ok && ex.Index == 1 && cc.Edge == 1 {
					if lk, ok := ex.Tuple.(*ssa.Lookup); ok {
						if ld, ok := lk.X.(*ssa.UnOp); ok {
							if g, ok := ld.X.(*ssa.Global); ok && g.Name() == "keywords" {
								okKw = true
							}
						}
					}
				}
			}
		})
		r.Check(okKw, "C16.R3", ssaFuncName(lf), "IDENT is interned only when the keyword table has no entry", c.Pos(lf.Pos()), "LookupIdent no longer consults the keyword table before creating an IDENT token")
		// Init fills keywords for the identity range
		initFn := c.SSAFn(c.Fn("token", "Init"))
		startK, endK := c.tokenConst("startIdentityTokens"), c.tokenConst("endIdentityTokens")
		okRange := false
		eachInstr(initFn, func(in ssa.Instruction) {
			mu, ok := in.(*ssa.MapUpdate)
			if !ok {
				return
			}
			ld, ok := mu.Map.(*ssa.UnOp)
			if !ok {
				return
			}
			g, ok := ld.X.(*ssa.Global)
			if !ok || g.Name() != "keywords" {
				return
			}
			// enclosing loop: phi from start+1 with < end
			for _, b := range initFn.Blocks {
				for _, x := range b.Instrs {
					phi, ok := x.(*ssa.Phi)
					if !ok {
						continue
					}
					hasInit := false
					for _, e := range phi.Edges {
						if k, ok := constInt(e); ok && k == startK+1 {
							hasInit = true
						}
					}
					if !hasInit || !b.Dominates(mu.Block()) {
						continue
					}
					for _, ref := range *phi.Referrers() {
						if cmp, ok := ref.(*ssa.BinOp); ok && cmp.Op == token.LSS {
							if k, ok := constInt(cmp.Y); ok && k == endK {
								okRange = true
							}
						}
					}
				}
			}
		})
		r.Check(okRange, "C16.R3", ssaFuncName(initFn), "keyword table filled for startIdentityTokens+1 .. endIdentityTokens-1", c.Pos(initFn.Pos()), "the keyword table is not filled by a loop over the whole identity-token range")
	}
	// one canonical instance per constant token: the pointer registered by type is the one the lexer hands out
	for _, spec := range []struct{ fn, table string }{{"assoc", "cTokens"}, {"assocC2", "c2Tokens"}} {
		af := c.SSAFn(c.Fn("token", spec.fn))
		var byType, byLex ssa.Value
		eachInstr(af, func(in ssa.Instruction) {
			mu, ok := in.(*ssa.MapUpdate)
			if !ok {
				return
			}
			ld, ok := mu.Map.(*ssa.UnOp)
			if !ok {
				return
			}
			g, ok := ld.X.(*ssa.Global)
			if !ok {
				return
			}
			switch g.Name() {
			case "tToT":
				byType = mu.Value
			case spec.table:
				byLex = mu.Value
			}
		})
		if byType == nil {
			// registered by a helper that stores tToT[...] = tok and returns that very tok
			eachInstr(af, func(in ssa.Instruction) {
				hc, ok := in.(*ssa.Call)
				if !ok || byType != nil {
					return
				}
				callee := hc.Common().StaticCallee()
				if callee == nil || !isModuleSSA(callee) || callee.Blocks == nil {
					return
				}
				var stored ssa.Value
				eachInstr(callee, func(x ssa.Instruction) {
					if mu, ok := x.(*ssa.MapUpdate); ok {
						if ld, ok := mu.Map.(*ssa.UnOp); ok {
							if g, ok := ld.X.(*ssa.Global); ok && g.Name() == "tToT" {
								stored = mu.Value
							}
						}
					}
				})
				if stored == nil {
					return
				}
				same := true
				for _, b := range callee.Blocks {
					if ret, ok := b.Instrs[len(b.Instrs)-1].(*ssa.Return); ok {
						if len(ret.Results) != 1 || ret.Results[0] != stored {
							same = false
						}
					}
				}
				if same {
					byType = hc
				}
			})
		}
		r.Check(byType != nil && byType == byLex, "C16.R3", ssaFuncName(af), "the token registered by type is the instance the lexer returns", c.Pos(af.Pos()),
			"the by-type table and the lexer's table hold different Token objects for the same token: pointer comparisons with token.ByType (macro definitions, unquote detection) silently fail")
	}
	// the interning table only grows while tokens are being produced
	{
		tokPkg := c.SSAPkg("token")
		var table *ssa.Global
		for _, m := range tokPkg.Members {
			if g, ok := m.(*ssa.Global); ok && g.Name() == "interning" {
				table = g
			}
		}
		if table == nil {
			r.Undecided("C16.R3: token.interning not found")
		} else {
			// the key under which a token is interned is the token itself (type and the whole literal)
			tokT := c.TypeNamed("token", "Token")
			nKeys := 0
			for _, fn := range c.ModuleSSAFuncs() {
				eachInstr(fn, func(in ssa.Instruction) {
					var key ssa.Value
					switch x := in.(type) {
					case *ssa.MapUpdate:
						if ld, ok := x.Map.(*ssa.UnOp); ok && ld.X == ssa.Value(table) {
							key = x.Key
						}
					case *ssa.Lookup:
						if ld, ok := x.X.(*ssa.UnOp); ok && ld.X == ssa.Value(table) {
							key = x.Index
						}
					}
					if key == nil {
						return
					}
					nKeys++
					okKey := types.Identical(key.Type(), tokT)
					if okKey {
						// the whole token value: a load through the pointer being interned
						ld, isLoad := key.(*ssa.UnOp)
						okKey = isLoad && types.Identical(ld.X.Type(), types.NewPointer(tokT))
					}
					r.Check(okKey, "C16.R3", ssaFuncName(fn), "the interning table is keyed by the whole token", c.Pos(in.Pos()),
						"the key used with the interning table is not the token value itself ("+typeShort(key.Type())+"): two tokens that differ somewhere the key does not look (the middle of a long literal) are interned as one, and the later one is printed with the earlier one's text")
				})
			}
			if nKeys < 2 {
				r.Undecided("C16.R3: only %d accesses to the interning table found", nKeys)
			}
			// functions that replace or shrink the table
			shrinkers := map[*ssa.Function]string{}
			fns := c.ModuleSSAFuncs()
			for _, fn := range fns {
				eachInstr(fn, func(in ssa.Instruction) {
					switch x := in.(type) {
					case *ssa.Store:
						if x.Addr == ssa.Value(table) {
							shrinkers[fn] = "replaces the table"
						}
					case *ssa.Call:
						if bi, ok := x.Common().Value.(*ssa.Builtin); ok && (bi.Name() == "delete" || bi.Name() == "clear") && len(x.Common().Args) > 0 {
							if ld, ok := x.Common().Args[0].(*ssa.UnOp); ok && ld.X == ssa.Value(table) {
								shrinkers[fn] = bi.Name() + "s entries of the table"
							}
						}
					}
				})
			}
			if len(shrinkers) == 0 {
				r.Undecided("C16.R3: nothing ever initialises token.interning")
			}
			// reach of token production: the lexer's NextToken and the interning API
			roots := []*ssa.Function{c.SSAFn(c.Fn("lexer", "Lexer.NextToken")), c.SSAFn(c.Fn("token", "InternToken")), c.SSAFn(c.Fn("token", "Intern")), c.SSAFn(c.Fn("token", "LookupIdent"))}
			taken := c.AddressTaken()
			reach := c.CG().Reach(roots, func(e *callgraph.Edge) bool {
				if e.Site == nil {
					return true
				}
				cc := e.Site.Common()
				if cc.IsInvoke() || cc.StaticCallee() != nil {
					return true
				}
				return taken[e.Callee.Func]
			}, func(f *ssa.Function) bool { return !isModuleSSA(f) })
			shrinkSet := map[*ssa.Function]bool{}
			for fn := range shrinkers {
				shrinkSet[fn] = true
			}
			for _, fn := range sortedFuncs(shrinkSet) {
				r.Check(!reach[fn], "C16.R3", ssaFuncName(fn), "the function that "+shrinkers[fn]+" is not reachable from token production", c.Pos(fn.Pos()),
					"the interning table can be emptied while tokens are being produced: a token handed out earlier and an equal one produced later are then two objects, and pointer comparisons between them (ast nodes keep their token) fail")
			}
		}
	}
	r.Floor("C16.R3", 8)

	// ---- R4 ----
	{
		eoleof := c.Fn("lexer", "Lexer.EOLEOF")
		n := 0
		for _, ec := range callsIn(nextToken, eoleof) {
			n++
			// which path conditions lead here: ch == 0 (end marker byte) or a failed readString
			viaNul := false
			guarded := false
			for _, cc := range controlling(ec.Block()) {
				if bin, ok := cc.Cond.(*ssa.BinOp); ok {
					if k, ok := constInt(bin.Y); ok && k == 0 && bin.Op == token.EQL && cc.Edge == 0 {
						viaNul = true
					}
					if (bin.Op == token.GEQ || bin.Op == token.GTR || bin.Op == token.LSS || bin.Op == token.LEQ) && (li.isPosLoad(bin.X) || li.isPosLoad(bin.Y)) {
						guarded = true
					}
				}
			}
			if !viaNul {
				r.OkWhy("C16.R4", ssaFuncName(nextToken), "end marker after an unterminated string", c.Pos(ec.Pos()), "readString stops only at byte 0; see the NUL case")
				continue
			}
			r.Check(guarded, "C16.R4", ssaFuncName(nextToken), "end marker on byte 0 requires position >= len(input)", c.Pos(ec.Pos()),
				"a NUL byte inside the input is reported as the end marker and lexing continues after it: the end marker is not sticky and `a\\x00b` yields a, EOF, b")
		}
		if n == 0 {
			r.Undecided("NextToken: no EOLEOF call found")
		}
	}
}

func describeBound(li *lexerInfo, v ssa.Value) string {
	switch x := v.(type) {
	case nil:
		return "none"
	case *ssa.UnOp:
		if li.isPosLoad(x) {
			return "l.pos"
		}
	case *ssa.BinOp:
		if li.isPosLoad(x.X) {
			if k, ok := constInt(x.Y); ok {
				return fmt.Sprintf("l.pos%s%d", x.Op, k)
			}
		}
		return "expression"
	case *ssa.Phi:
		return "variable " + x.Comment
	}
	return "saved position"
}

// highIsCurrent: the slice's high bound equals the lexer position when the function returns.
func (li *lexerInfo) highIsCurrent(fn *ssa.Function, hi ssa.Value, ret *ssa.Return) (bool, string) {
	if hi == nil {
		return false, "the token text extends to the end of the input"
	}
	if li.isPosLoad(hi) {
		load := hi.(*ssa.UnOp)
		bad := mustPassBefore(load, func(ssa.Instruction) bool { return false }, func(in ssa.Instruction) bool {
			return li.posWrite(in) && reaches(in, ret)
		})
		if bad == nil {
			return true, ""
		}
		// written in between: acceptable only if the position is rewound to the bound (below)
	}
	// saved position: accept if the last position write on every path to this return stores hi
	okAll := true
	found := false
	var back func(b *ssa.BasicBlock, from int, seen map[*ssa.BasicBlock]bool)
	back = func(b *ssa.BasicBlock, from int, seen map[*ssa.BasicBlock]bool) {
		for i := from; i >= 0; i-- {
			in := b.Instrs[i]
			if li.posWrite(in) {
				found = true
				st, ok := in.(*ssa.Store)
				if !ok || st.Val != hi {
					okAll = false
				}
				return
			}
			if v, ok := in.(ssa.Value); ok && v == hi {
				// reached the definition of hi without a write: then hi must be the position itself
				okAll = false
				return
			}
		}
		for _, p := range b.Preds {
			if !seen[p] {
				seen[p] = true
				back(p, len(p.Instrs)-1, seen)
			}
		}
	}
	back(ret.Block(), instrIndex(ret)-1, map[*ssa.BasicBlock]bool{ret.Block(): true})
	if found && okAll {
		return true, ""
	}
	return false, "the high bound is an earlier (or adjusted) position while l.pos has moved on: the bytes between the bound and l.pos belong to no token"
}

// reaches: instruction b is reachable from instruction a.
func reaches(a, b ssa.Instruction) bool {
	if a.Block() == b.Block() && instrIndex(a) < instrIndex(b) {
		return true
	}
	seen := map[*ssa.BasicBlock]bool{}
	var walk func(x *ssa.BasicBlock) bool
	walk = func(x *ssa.BasicBlock) bool {
		for _, s := range x.Succs {
			if s == b.Block() {
				return true
			}
			if !seen[s] {
				seen[s] = true
				if walk(s) {
					return true
				}
			}
		}
		return false
	}
	return walk(a.Block())
}

func (c *Ctx) tokenConst(name string) int64 {
	k := c.Const("token", name)
	v, _ := constInt64(k)
	return v
}

type pairSet [256][256 / 64]uint64

func (p *pairSet) has(a, b int) bool { return p[a][b/64]&(1<<(uint(b)%64)) != 0 }
func (p *pairSet) set(a, b int)      { p[a][b/64] |= 1 << (uint(b) % 64) }
func (p *pairSet) union(o *pairSet) bool {
	ch := false
	for i := range p {
		for j := range p[i] {
			n := p[i][j] | o[i][j]
			if n != p[i][j] {
				p[i][j] = n
				ch = true
			}
		}
	}
	return ch
}
func (p *pairSet) empty() bool {
	for i := range p {
		for j := range p[i] {
			if p[i][j] != 0 {
				return false
			}
		}
	}
	return true
}

// checkTokenTables: forward dataflow of the possible (current byte, next byte) pairs through
// NextToken; at each unchecked table lookup all possible arguments must be registered.
func (c *Ctx) checkTokenTables(r *Report, fn *ssa.Function, li *lexerInfo, ctc, ctc2 *types.Func) {
	// tables from token.Init
	single := map[int]bool{}
	pairs := map[[2]int]bool{}
	initFn := c.SSAFn(c.Fn("token", "Init"))
	assoc := c.Fn("token", "assoc")
	assocC2 := c.Fn("token", "assocC2")
	for _, call := range callsIn(initFn, assoc) {
		if k, ok := constInt(call.Common().Args[1]); ok {
			single[int(k)] = true
		}
	}
	for _, call := range callsIn(initFn, assocC2) {
		if s, ok := constString(call.Common().Args[1]); ok && len(s) == 2 {
			pairs[[2]int{int(s[0]), int(s[1])}] = true
		}
	}
	if len(single) < 10 || len(pairs) < 5 {
		r.Undecided("token.Init: found %d single-byte and %d two-byte token registrations", len(single), len(pairs))
		return
	}
	in, chV, nxV := c.nextTokenPairSets(fn)
	if in == nil {
		r.Undecided("NextToken: current/next byte values not found")
		return
	}
	nsite := map[string]int{}
	eachInstr(fn, func(x ssa.Instruction) {
		call, ok := x.(*ssa.Call)
		if !ok || (!isCallTo(call, ctc) && !isCallTo(call, ctc2)) {
			return
		}
		// only unchecked uses: the result is returned as is
		unchecked := false
		for _, ref := range *call.Referrers() {
			if _, ok := ref.(*ssa.Return); ok {
				unchecked = true
			}
		}
		if !unchecked {
			return
		}
		s := in[call.Block()]
		if s == nil {
			return
		}
		var bad []string
		isPair := isCallTo(call, ctc2)
		args := call.Common().Args
		for a := 0; a < 256 && len(bad) < 4; a++ {
			for b := 0; b < 256 && len(bad) < 4; b++ {
				if !s.has(a, b) {
					continue
				}
				if isPair {
					if args[0] == chV && args[1] == nxV && !pairs[[2]int{a, b}] {
						bad = append(bad, fmt.Sprintf("%q", string([]byte{byte(a), byte(b)})))
					}
				} else if args[0] == chV && !single[a] {
					bad = append(bad, fmt.Sprintf("%q", string([]byte{byte(a)})))
					break
				}
			}
		}
		kind := "ConstantTokenChar"
		if isPair {
			kind = "ConstantTokenChar2"
		}
		nsite[kind]++
		r.Check(len(bad) == 0, "C16.R2", ssaFuncName(fn), fmt.Sprintf("unchecked %s lookup #%d is reached only with registered bytes", kind, nsite[kind]), c.Pos(call.Pos()),
			"the constant-token table is indexed with unregistered bytes (e.g. "+strings.Join(bad, ", ")+") and the nil result is returned as a token")
	})
}

func init() {
	register("C16", &propDef{
		explain: "Position-accounting rules on the SSA of the lexer: for every function returning a slice of the input as token text the bounds are [token start, current position] at that return; on every path of NextToken to a constant token the position advanced by exactly the token's length; unchecked token-table lookups are reached only with registered bytes/byte pairs (the path conditions are propagated as sets over all 65,536 byte pairs, byte predicates constant-folded); identifiers go through the keyword table; the end marker requires the position to be past the input. Together these are the tiling property's mechanism, decided for all inputs rather than for strings up to a length. Also: the by-type and by-lexeme tables hold the same token instance, and nothing reachable from token production replaces, clears or deletes from the interning table. Also: the terminator search of block comments starts at token start + 2 (position followed symbolically through the entry block).",
		assume:  []string{"string/comment tokens: readString's decoded text is not compared with the bytes spanned (escape decoding is C02/C14's concern); only their position accounting is implied by R1 of the slice-returning readers", "skipWhitespace consumes only whitespace bytes (isWhiteSpace constant-folded in C08)"},
		run:     runC16,
	})
}

// nextTokenPairSets: forward dataflow of the possible (current byte, next byte) pairs through
// NextToken (branch conditions on the two bytes and on byte predicates are evaluated exactly).
func (c *Ctx) nextTokenPairSets(fn *ssa.Function) (map[*ssa.BasicBlock]*pairSet, ssa.Value, ssa.Value) {
	var chV, nxV ssa.Value
	readChar := c.Fn("lexer", "Lexer.readChar")
	peekChar := c.Fn("lexer", "Lexer.peekChar")
	for _, in := range fn.Blocks[0].Instrs {
		if isCallTo(in, readChar) && chV == nil {
			chV = in.(ssa.Value)
		}
		if isCallTo(in, peekChar) && chV != nil && nxV == nil {
			nxV = in.(ssa.Value)
		}
	}
	if chV == nil || nxV == nil {
		return nil, nil, nil
	}
	in := map[*ssa.BasicBlock]*pairSet{}
	full := &pairSet{}
	for a := 0; a < 256; a++ {
		for b := 0; b < 256; b++ {
			full.set(a, b)
		}
	}
	in[fn.Blocks[0]] = full
	work := []*ssa.BasicBlock{fn.Blocks[0]}
	filter := func(s *pairSet, cond ssa.Value, want bool) *pairSet {
		out := &pairSet{}
		pred := func(a, b int) (bool, bool) { return false, false }
		switch x := cond.(type) {
		case *ssa.BinOp:
			val := func(v ssa.Value, a, b int) (int, bool) {
				if v == chV {
					return a, true
				}
				if v == nxV {
					return b, true
				}
				if k, ok := constInt(v); ok {
					return int(k), true
				}
				return 0, false
			}
			pred = func(a, b int) (bool, bool) {
				l, ok1 := val(x.X, a, b)
				rr, ok2 := val(x.Y, a, b)
				if !ok1 || !ok2 {
					return false, false
				}
				switch x.Op {
				case token.EQL:
					return l == rr, true
				case token.NEQ:
					return l != rr, true
				case token.LSS:
					return l < rr, true
				case token.LEQ:
					return l <= rr, true
				case token.GTR:
					return l > rr, true
				case token.GEQ:
					return l >= rr, true
				}
				return false, false
			}
		case *ssa.Call:
			if obj := calleeObj(x); obj != nil && isModulePkg(obj.Pkg()) && len(x.Common().Args) == 1 {
				if set, ok := c.ByteSet(obj); ok {
					arg := x.Common().Args[0]
					pred = func(a, b int) (bool, bool) {
						if arg == chV {
							return set[a], true
						}
						if arg == nxV {
							return set[b], true
						}
						return false, false
					}
				}
			}
		}
		for a := 0; a < 256; a++ {
			for b := 0; b < 256; b++ {
				if !s.has(a, b) {
					continue
				}
				v, known := pred(a, b)
				if !known || v == want {
					out.set(a, b)
				}
			}
		}
		return out
	}
	for len(work) > 0 {
		b := work[0]
		work = work[1:]
		s := in[b]
		push := func(succ *ssa.BasicBlock, ns *pairSet) {
			if in[succ] == nil {
				in[succ] = &pairSet{}
			}
			if in[succ].union(ns) {
				work = append(work, succ)
			}
		}
		if ifi, ok := b.Instrs[len(b.Instrs)-1].(*ssa.If); ok {
			push(b.Succs[0], filter(s, ifi.Cond, true))
			push(b.Succs[1], filter(s, ifi.Cond, false))
		} else {
			for _, su := range b.Succs {
				push(su, s)
			}
		}
	}
	return in, chV, nxV
}

// checkOwnedTokenText: rule C16.R7, token text is an owned copy of the bytes it spans.
//
// lexer.NewBytes keeps the caller's slice as its input (repl.Grol.Parse hands the caller's buffer in): a
// token literal that aliases that buffer changes when the caller reuses it, and so do the keys of the
// interning table. The readers build their text with string(input[a:b]), which copies. No module package of
// the front end (lexer, token, parser, ast) imports package unsafe, the only way to make a string share
// the storage of a byte slice.
func (c *Ctx) checkOwnedTokenText(r *Report, rule string) {
	n := 0
	for _, short := range []string{"lexer", "token", "parser", "ast"} {
		p := c.Pkgs[short]
		if p == nil {
			r.Undecided("%s: package %s not loaded", rule, short)
			continue
		}
		n++
		bad := false
		for _, imp := range p.Types.Imports() {
			if imp.Path() == "unsafe" {
				bad = true
			}
		}
		r.Check(!bad, rule, short, "package "+short+" does not import unsafe", short,
			"package "+short+" imports unsafe: a string made with unsafe.String over the lexer's input aliases the caller's buffer (lexer.NewBytes keeps it), so delivered token text and the keys of the interning table change when the buffer is reused")
	}
	if n < 4 {
		r.Undecided("%s: only %d front-end packages examined", rule, n)
	}
}
