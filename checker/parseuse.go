package main

// parseuse: rule C08.R8, both verdicts of the parser are consulted before its tree is used.
//
// The parser reports trouble in two ways: the error list and the continuation request (unterminated
// block comment, open bracket at the end of the input...). C08.R1 allows a nil child exactly when one of
// the two was raised, so a consumer that looks at one of them only can evaluate or print a tree with
// missing nodes (eval("a./*") was a nil dereference). For every call of Parser.ParseProgram outside of
// the parser package: every use of the tree (argument of a call, return, store other than into a local or a field whose loads are followed) is dominated by
// the "no errors" edge of a test on Parser.Errors() of that parser (directly, len(...) compared with 0,
// or through a helper returning whether there are errors) and by the false edge of a test on
// Parser.ContinuationNeeded().

import (
	"fmt"
	"go/token"
	"go/types"
	"sort"
	"strings"

	"golang.org/x/tools/go/ssa"
)

func (c *Ctx) checkParserVerdicts(r *Report, rule string) {
	parse := c.Fn("parser", "Parser.ParseProgram")
	errsFn := c.Fn("parser", "Parser.Errors")
	contFn := c.Fn("parser", "Parser.ContinuationNeeded")
	n := 0
	for _, fn := range c.ModuleSSAFuncs() {
		if fn.Pkg == nil || shortPkg(fn.Pkg.Pkg) == "parser" {
			continue
		}
		fname := ssaFuncName(fn)
		for _, ci := range callsIn(fn, parse) {
			call, isCall := ci.(*ssa.Call)
			if !isCall {
				continue
			}
			n++
			p := call.Common().Args[0]
			// uses of the tree
			var uses []ssa.Instruction
			var follow func(v ssa.Value, depth int)
			follow = func(v ssa.Value, depth int) {
				if depth > 4 {
					return
				}
				for _, ref := range *v.Referrers() {
					switch x := ref.(type) {
					case *ssa.MakeInterface:
						follow(x, depth+1)
					case *ssa.ChangeInterface:
						follow(x, depth+1)
					case *ssa.Phi:
						follow(x, depth+1)
					case *ssa.Store:
						if al, ok := x.Addr.(*ssa.Alloc); ok && x.Val == v {
							// local variable: follow its loads
							for _, r2 := range *al.Referrers() {
								if ld, ok := r2.(*ssa.UnOp); ok && ld.Op == token.MUL {
									follow(ld, depth+1)
								}
							}
						} else if fa, ok := x.Addr.(*ssa.FieldAddr); ok && x.Val == v {
							// kept in a field: the loads of that field in this function carry the tree
							eachInstr(fn, func(in2 ssa.Instruction) {
								if ld, ok := in2.(*ssa.UnOp); ok && ld.Op == token.MUL {
									if fa2, ok := ld.X.(*ssa.FieldAddr); ok && fa2.Field == fa.Field && sameValue(fa2.X, fa.X) {
										follow(ld, depth+1)
									}
								}
							})
						} else if x.Val == v {
							uses = append(uses, x)
						}
					case *ssa.Call:
						uses = append(uses, x)
					case *ssa.Return:
						uses = append(uses, x)
					}
				}
			}
			follow(call, 0)
			// is cond a statement about p's errors? returns the edge (0/1) on which there are none
			var noErrEdge func(cond ssa.Value) (int, bool)
			noErrEdge = func(cond ssa.Value) (int, bool) {
				switch x := cond.(type) {
				case *ssa.BinOp:
					k, isK := constInt(x.Y)
					lc, isLen := x.X.(*ssa.Call)
					if !isK || k != 0 || !isLen {
						return 0, false
					}
					bi, isBi := lc.Common().Value.(*ssa.Builtin)
					if !isBi || bi.Name() != "len" {
						return 0, false
					}
					ec, ok := lc.Common().Args[0].(*ssa.Call)
					if !ok || calleeObj(ec) != errsFn || !sameValue(ec.Common().Args[0], p) {
						return 0, false
					}
					switch x.Op {
					case token.EQL:
						return 0, true
					case token.NEQ, token.GTR:
						return 1, true
					}
				case *ssa.Call:
					// helper(p) bool: true iff there are errors (its only `return false` is under len(errs)==0)
					callee := x.Common().StaticCallee()
					if callee == nil || !isModuleSSA(callee) || len(x.Common().Args) != 1 || !sameValue(x.Common().Args[0], p) {
						return 0, false
					}
					calls := callsIn(callee, errsFn)
					if len(calls) == 0 {
						return 0, false
					}
					// every `return false` of the helper lies where a length was found to be 0: helper()==false => no errors
					okShape := true
					for _, b := range callee.Blocks {
						ret, isRet := b.Instrs[len(b.Instrs)-1].(*ssa.Return)
						if !isRet || len(ret.Results) != 1 {
							continue
						}
						k, isK := ret.Results[0].(*ssa.Const)
						if !isK {
							okShape = false
							continue
						}
						if k.Value.ExactString() != "true" {
							// return false: must be where there are no errors
							none := false
							for _, cc := range controlling(b) {
								if bin, ok := cc.Cond.(*ssa.BinOp); ok {
									if kk, isK := constInt(bin.Y); isK && kk == 0 {
										if (bin.Op == token.EQL && cc.Edge == 0) || ((bin.Op == token.NEQ || bin.Op == token.GTR) && cc.Edge == 1) {
											none = true
										}
									}
								}
							}
							if !none {
								okShape = false
							}
						}
					}
					if okShape {
						return 1, true
					}
				}
				return 0, false
			}
			for i, u := range uses {
				errOK, contOK := false, false
				for _, cc := range controlling(u.Block()) {
					if e, ok := noErrEdge(cc.Cond); ok && cc.Edge == e {
						errOK = true
					}
					if cc2, ok := cc.Cond.(*ssa.Call); ok && calleeObj(cc2) == contFn && sameValue(cc2.Common().Args[0], p) && cc.Edge == 1 {
						contOK = true
					}
				}
				desc := "use #" + itoa(i+1) + " of the parsed tree follows both verdicts"
				switch {
				case errOK && contOK:
					r.Ok(rule, fname, desc, c.Pos(instrPos(u)))
				case !errOK:
					r.Fail(rule, fname, desc, c.Pos(instrPos(u)), "the tree returned by ParseProgram is used where the parser's error list was not found empty: parse errors leave missing (nil) nodes")
				default:
					r.Fail(rule, fname, desc, c.Pos(instrPos(u)), "the tree returned by ParseProgram is used where Parser.ContinuationNeeded() was not found false: an unterminated block comment raises only the continuation request and leaves missing (nil) nodes, which the evaluator and the printers dereference")
				}
			}
			if len(uses) == 0 {
				r.Undecided("%s: no use of the tree parsed in %s was recognised", rule, fname)
			}
		}
	}
	if n < 3 {
		r.Undecided("%s: only %d calls of ParseProgram found outside of the parser (EvalString, Grol.Parse, evalOne expected)", rule, n)
	}
	r.Floor(rule, 3)
}

// checkModifyResultUse: rule C07.R15, the node ast.Modify hands back is used only when there is one.
//
// ast.Modify(node, f) returns (nil, false) when a callback gives up. Every method invoked on its first
// result, outside of package ast, lies on the true edge of its second result or on the non-nil edge of a test
// of the first (setupRegister pretty-printed it for the verbose log before looking at ok).
func (c *Ctx) checkModifyResultUse(r *Report, rule string) {
	modify := c.Fn("ast", "Modify")
	n := 0
	for _, fn := range c.ModuleSSAFuncs() {
		if fn.Pkg != nil && shortPkg(fn.Pkg.Pkg) == "ast" {
			continue
		}
		fname := ssaFuncName(fn)
		for _, ci := range callsIn(fn, modify) {
			call, ok := ci.(*ssa.Call)
			if !ok {
				continue
			}
			node, okv := extractOf(call, 0), extractOf(call, 1)
			if node == nil {
				continue
			}
			k := 0
			for _, ref := range *node.Referrers() {
				inv, ok := ref.(*ssa.Call)
				if !ok || !inv.Common().IsInvoke() || inv.Common().Value != ssa.Value(node) {
					continue
				}
				n++
				k++
				desc := "method call #" + itoa(k) + " on the result of ast.Modify is guarded"
				guarded := false
				for _, cc := range controlling(inv.Block()) {
					if okv != nil && cc.Cond == ssa.Value(okv) && cc.Edge == 0 {
						guarded = true
					}
					for _, sub := range expandCond(cc.If, cc.Cond, cc.Edge, 0) {
						if bin, ok := sub.Cond.(*ssa.BinOp); ok && bin.X == ssa.Value(node) && isNilConst(bin.Y) {
							if (bin.Op == token.NEQ && sub.Edge == 0) || (bin.Op == token.EQL && sub.Edge == 1) {
								guarded = true
							}
						}
						if okv != nil && sub.Cond == ssa.Value(okv) && sub.Edge == 0 {
							guarded = true
						}
					}
				}
				r.Check(guarded, rule, fname, desc, c.Pos(inv.Pos()),
					"a method is invoked on the node returned by ast.Modify where neither its ok result was found true nor the node non-nil: Modify returns nil when a callback gives up, so this is a nil dereference")
			}
		}
	}
	if n == 0 {
		r.OkWhy(rule, "eval", "no method is invoked on a result of ast.Modify outside of package ast", "", "nothing to guard")
	}
}

// checkOperandOmittedOnlyBeforeCloser: rule C15.R7.
//
// An infix expression without its right operand is the open-ended slice a[n:], closed by `]`. In
// parseInfixExpression every return that is not preceded by the store of Right lies on the true edge of a test
// of the next token against RBRACKET. A wider test ("the next token cannot start an expression") is also true
// of the end-of-line token of line mode, so a line ending in `:` is accepted as it is instead of asking for
// the rest (r = 0: is a prefix of r = 0:10).
func (c *Ctx) checkOperandOmittedOnlyBeforeCloser(r *Report, rule string) {
	fn := c.SSAFn(c.Fn("parser", "Parser.parseInfixExpression"))
	infixT := c.TypeNamed("ast", "InfixExpression")
	rbr, _ := constInt64(c.Const("token", "RBRACKET"))
	isRightStore := func(in ssa.Instruction) bool {
		st, ok := in.(*ssa.Store)
		return ok && isFieldAddrOf(st.Addr, infixT, "Right")
	}
	n := 0
	eachInstr(fn, func(in ssa.Instruction) {
		ret, ok := in.(*ssa.Return)
		if !ok {
			return
		}
		// is the store of Right on every path to this return?
		if mustPassFromEntryTo(fn, isRightStore, ret) {
			return
		}
		n++
		closer := false
		var seen []string
		for _, cc := range controlling(ret.Block()) {
			seen = append(seen, cc.Cond.String())
			bin, ok := cc.Cond.(*ssa.BinOp)
			if !ok || bin.Op != token.EQL || cc.Edge != 0 {
				continue
			}
			if k, ok := constInt(bin.Y); ok && k == rbr {
				closer = true
			}
		}
		desc := "the right operand is left out only before `]`"
		if n > 1 {
			desc += " #" + itoa(n)
		}
		r.Check(closer, rule, ssaFuncName(fn), desc, c.Pos(instrPos(ret)),
			fmt.Sprintf("parseInfixExpression returns an expression without a right operand where the next token was not tested against `]` (conditions: %v): the end-of-line token of line mode passes such a test too, so a line that ends right after the operator is accepted instead of asking for the rest of the expression", seen))
	})
	if n == 0 {
		r.OkWhy(rule, ssaFuncName(fn), "the right operand is always parsed", c.Pos(fn.Pos()), "no return without the store of Right")
	}
}

// mustPassFromEntryTo: every path from the entry of fn to `to` executes an instruction satisfying sat.
func mustPassFromEntryTo(fn *ssa.Function, sat func(ssa.Instruction) bool, to ssa.Instruction) bool {
	seen := map[*ssa.BasicBlock]bool{}
	var walk func(b *ssa.BasicBlock) bool // true: reached `to` without passing sat
	walk = func(b *ssa.BasicBlock) bool {
		if seen[b] {
			return false
		}
		seen[b] = true
		for _, in := range b.Instrs {
			if in == to {
				return true
			}
			if sat(in) {
				return false
			}
		}
		for _, s := range b.Succs {
			if walk(s) {
				return true
			}
		}
		return false
	}
	return !walk(fn.Blocks[0])
}

// checkSiblingWhitespaceGuards: rule C03.R8.
//
// parseExpression stops before `(` and before `[` when the lexer saw whitespace in front of them (3\n(4) is not
// a call, a [1] not an index): the two guards are siblings and what the printer writes between two statements
// has to trip both. Whatever accompanies the test of the token against LPAREN accompanies the test against
// LBRACKET: the same set of predicates (methods called, fields read). One adapted without the other means the
// printer's own output is read differently for the two (a line starting with `[` after an expression).
func (c *Ctx) checkSiblingWhitespaceGuards(r *Report, rule string) {
	entry := c.SSAFn(c.Fn("parser", "Parser.parseExpression"))
	fn := entry
	lp, _ := constInt64(c.Const("token", "LPAREN"))
	lb, _ := constInt64(c.Const("token", "LBRACKET"))
	// the guards sit in parseExpression or in the function of the package its operator loop was moved to
	for _, h := range c.localHelpers(entry, 1, c.Fn("parser", "Parser.parseExpression")) {
		has := false
		eachInstr(h, func(in ssa.Instruction) {
			if call, ok := in.(*ssa.Call); ok {
				if obj := calleeObj(call); obj != nil && obj.Name() == "HadWhitespace" {
					has = true
				}
			}
		})
		if has {
			fn = h
			break
		}
	}
	// the predicates that decide, together with `t == K`, the early return of the guard
	guard := func(k int64) (map[string]bool, bool) {
		preds := map[string]bool{}
		found := false
		for _, b := range fn.Blocks {
			ifi, ok := b.Instrs[len(b.Instrs)-1].(*ssa.If)
			if !ok {
				continue
			}
			bin, ok := ifi.Cond.(*ssa.BinOp)
			if !ok || bin.Op != token.EQL {
				continue
			}
			if kk, ok := constInt(bin.Y); !ok || kk != k {
				continue
			}
			found = true
			// follow the true edge through the tests up to the return / the rest of the loop
			seen := map[*ssa.BasicBlock]bool{}
			var walk func(x *ssa.BasicBlock, depth int)
			walk = func(x *ssa.BasicBlock, depth int) {
				if seen[x] || depth > 4 {
					return
				}
				seen[x] = true
				for _, in := range x.Instrs {
					switch y := in.(type) {
					case *ssa.Call:
						if obj := calleeObj(y); obj != nil && isModulePkg(obj.Pkg()) && obj.Type().(*types.Signature).Results().Len() == 1 {
							if bt, ok := obj.Type().(*types.Signature).Results().At(0).Type().Underlying().(*types.Basic); ok && bt.Kind() == types.Bool {
								preds[obj.Name()+"()"] = true
							}
						}
					case *ssa.UnOp:
						if fa, ok := y.X.(*ssa.FieldAddr); ok {
							if bt, ok := y.Type().Underlying().(*types.Basic); ok && bt.Kind() == types.Bool {
								if st := namedOrStruct(fa.X.Type()); st != nil {
									preds["."+st.Field(fa.Field).Name()] = true
								}
							}
						}
					}
				}
				if xi, ok := x.Instrs[len(x.Instrs)-1].(*ssa.If); ok {
					// only condition chains of this guard: stop at the next token test
					if xb, ok := xi.Cond.(*ssa.BinOp); ok && xb.Op == token.EQL {
						if _, isK := constInt(xb.Y); isK && x != b {
							return
						}
					}
					for _, s := range x.Succs {
						walk(s, depth+1)
					}
				}
			}
			walk(b.Succs[0], 0)
		}
		return preds, found
	}
	pp, ok1 := guard(lp)
	pb, ok2 := guard(lb)
	if !ok1 || !ok2 {
		r.Undecided("%s: the `(` / `[` guards of parseExpression were not found", rule)
		return
	}
	var diff []string
	for k := range pp {
		if !pb[k] {
			diff = append(diff, k+" only for `(`")
		}
	}
	for k := range pb {
		if !pp[k] {
			diff = append(diff, k+" only for `[`")
		}
	}
	sort.Strings(diff)
	r.Check(len(diff) == 0, rule, ssaFuncName(fn), "the `(` and `[` guards test the same whitespace conditions", c.Pos(fn.Pos()),
		"the guard that keeps `(` from being a call and the one that keeps `[` from being an index after whitespace look at different things ("+strings.Join(diff, "; ")+"): what separates two statements in the printer's output trips one and not the other, so a formatted line that starts with `[` (or `(`) is glued to the previous expression on the next pass")
}
