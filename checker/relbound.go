package main

// relbound: a small difference-constraint prover on top of the constant-interval prover of bounded.go.
//
// It decides goals of the form  a - b <= k  where a and b are symbols: an SSA integer value, a field of a
// struct SSA value (both immutable), or the constant zero. Every integer expression is first normalised to
// "symbol + constant":
//
//	x + k, x - k                       follow x
//	a load of field f of a local       the unique definition that reaches the load: the value of the field
//	struct variable (value receiver,   store (followed), or field f of the struct value of the whole-struct
//	struct under construction)         store; only when the variable's address goes nowhere else
//	s.f of a struct value              the symbol (s, f); through a load of a local struct as above
//
// Facts come from (1) the comparisons that control the block of the use (and, for a phi, the edge it arrives
// on), (2) the representation invariants of bounded.go for fields of struct values that are not a local
// variable under update, (3) summaries of module callees relating an integer result to a field of a struct
// parameter, unconditionally or when a boolean result has a given value (SmallMap.get: the index is <= len,
// and < len when found), derived from the callee's own code by this prover, (4) the constant prover.
// A phi is proven edge by edge with the goal itself as induction hypothesis, when the other side of the goal
// is loop invariant.
//
// It is used as a second chance by rule C07.R9 for what the constant prover cannot reach.

import (
	"go/constant"
	"go/token"
	"go/types"

	"golang.org/x/tools/go/ssa"
)

type rsym struct {
	v     ssa.Value // nil: the constant zero
	field int       // -1: the value itself, otherwise field `field` of the struct value v
}

var rzero = rsym{nil, -1}

func (s rsym) String() string {
	if s.v == nil {
		return "0"
	}
	if s.field >= 0 {
		if n := namedStruct(s.v.Type()); n != nil {
			return s.v.Name() + "." + n.Underlying().(*types.Struct).Field(s.field).Name()
		}
		return s.v.Name() + ".?"
	}
	return s.v.Name()
}

type dfact struct {
	a, b rsym
	c    int64 // a - b <= c
}

type sumFact struct {
	ret     int   // integer result index
	param   int   // index into callee.Params, -1: zero
	field   int   // field of that (struct) parameter
	c       int64 // ret - param.field <= c   (lower: param.field - ret <= c)
	lower   bool
	condRet int // -1: unconditional; otherwise holds when the boolean result condRet equals condVal
	condVal bool
}

type relProver struct {
	bp    *boundProver
	sums  map[*ssa.Function][]sumFact
	inSum map[*ssa.Function]bool
	steps int
}

func newRelProver(bp *boundProver) *relProver {
	return &relProver{bp: bp, sums: map[*ssa.Function][]sumFact{}, inSum: map[*ssa.Function]bool{}}
}

func sameWidthInt(a, b types.Type) bool {
	ba, ok1 := a.Underlying().(*types.Basic)
	bb, ok2 := b.Underlying().(*types.Basic)
	if !ok1 || !ok2 {
		return false
	}
	wide := func(k types.BasicKind) bool { return k == types.Int || k == types.Int64 }
	return wide(ba.Kind()) && wide(bb.Kind())
}

// norm: v == symbol + offset.
func (rp *relProver) norm(v ssa.Value, depth int) (rsym, int64) {
	if k, ok := constInt(v); ok {
		return rzero, k
	}
	if depth > 8 {
		return rsym{v, -1}, 0
	}
	switch x := v.(type) {
	case *ssa.Convert:
		if sameWidthInt(x.X.Type(), x.Type()) {
			return rp.norm(x.X, depth+1)
		}
	case *ssa.ChangeType:
		if isIntegerType(x.X.Type()) {
			return rp.norm(x.X, depth+1)
		}
	case *ssa.BinOp:
		switch x.Op {
		case token.ADD:
			if k, ok := constInt(x.Y); ok {
				s, o := rp.norm(x.X, depth+1)
				return s, o + k
			}
			if k, ok := constInt(x.X); ok {
				s, o := rp.norm(x.Y, depth+1)
				return s, o + k
			}
		case token.SUB:
			if k, ok := constInt(x.Y); ok {
				s, o := rp.norm(x.X, depth+1)
				return s, o - k
			}
		}
	case *ssa.UnOp:
		if x.Op != token.MUL {
			break
		}
		if fa, ok := x.X.(*ssa.FieldAddr); ok {
			if al, ok := fa.X.(*ssa.Alloc); ok {
				if s, o, ok := rp.fieldAt(al, fa.Field, x, depth+1); ok {
					return s, o
				}
			}
		}
	case *ssa.Field:
		return rp.normField(x.X, x.Field, depth+1)
	}
	return rsym{v, -1}, 0
}

func (rp *relProver) normField(sv ssa.Value, f int, depth int) (rsym, int64) {
	if ld, ok := sv.(*ssa.UnOp); ok && ld.Op == token.MUL {
		if al, ok := ld.X.(*ssa.Alloc); ok {
			if s, o, ok := rp.fieldAt(al, f, ld, depth+1); ok {
				return s, o
			}
		}
	}
	return rsym{sv, f}, 0
}

// fieldAt: the value of field f of the local struct variable al where instruction `at` executes (a load of the
// field or of the whole struct), as symbol + offset; ok is false when the variable's address is used for
// anything but field accesses, whole loads and whole stores, or when no single definition reaches `at`.
func (rp *relProver) fieldAt(al *ssa.Alloc, f int, at ssa.Instruction, depth int) (rsym, int64, bool) {
	if namedStruct(al.Type()) == nil || depth > 8 {
		return rsym{}, 0, false
	}
	type def struct {
		in    ssa.Instruction
		whole ssa.Value // struct value stored
		val   ssa.Value // field value stored
	}
	var defs []def
	for _, ref := range *al.Referrers() {
		switch y := ref.(type) {
		case *ssa.Store:
			if y.Addr != ssa.Value(al) {
				return rsym{}, 0, false // the address itself is stored
			}
			defs = append(defs, def{in: y, whole: y.Val})
		case *ssa.UnOp:
			if y.Op != token.MUL {
				return rsym{}, 0, false
			}
		case *ssa.DebugRef:
		case *ssa.FieldAddr:
			if y.Field != f {
				continue
			}
			for _, r2 := range *y.Referrers() {
				switch z := r2.(type) {
				case *ssa.Store:
					if z.Addr != ssa.Value(y) {
						return rsym{}, 0, false
					}
					defs = append(defs, def{in: z, val: z.Val})
				case *ssa.UnOp:
					if z.Op != token.MUL {
						return rsym{}, 0, false
					}
				case *ssa.DebugRef:
				default:
					return rsym{}, 0, false
				}
			}
		default:
			return rsym{}, 0, false
		}
	}
	var reach []def
	for _, d := range defs {
		if reachesInstr(d.in, at) {
			reach = append(reach, d)
		}
	}
	if len(reach) == 0 {
		return rzero, 0, true // the zero value of the variable
	}
	for _, d := range reach {
		if !instrDominates(d.in, at) {
			continue
		}
		killed := false
		for _, d2 := range reach {
			if d2.in != d.in && between(d.in, d2.in, at) {
				killed = true
				break
			}
		}
		if killed {
			continue
		}
		// a definition inside a cycle that does not contain `at` would also be the last one; a definition that
		// can run again between itself and `at` is the same definition: still the last one.
		if d.whole != nil {
			s, o := rp.normField(d.whole, f, depth+1)
			return s, o, true
		}
		s, o := rp.norm(d.val, depth+1)
		return s, o, true
	}
	return rsym{}, 0, false
}

// condFacts: what a controlling condition says, as difference facts.
func (rp *relProver) condFacts(cc ctrlCond) []dfact {
	cond, edge := cc.Cond, cc.Edge
	for {
		u, ok := cond.(*ssa.UnOp)
		if !ok || u.Op != token.NOT {
			break
		}
		cond, edge = u.X, 1-edge
	}
	switch x := cond.(type) {
	case *ssa.BinOp:
		if !isIntegerType(x.X.Type()) || !isIntegerType(x.Y.Type()) {
			return nil
		}
		op := x.Op
		if _, known := negOp[op]; !known {
			return nil
		}
		if edge == 1 {
			op = negOp[op]
		}
		sx, ox := rp.norm(x.X, 0)
		sy, oy := rp.norm(x.Y, 0)
		le := func(a rsym, oa int64, b rsym, ob int64, slack int64) dfact { // a+oa <= b+ob+slack
			return dfact{a, b, ob - oa + slack}
		}
		switch op {
		case token.LSS:
			return []dfact{le(sx, ox, sy, oy, -1)}
		case token.LEQ:
			return []dfact{le(sx, ox, sy, oy, 0)}
		case token.GTR:
			return []dfact{le(sy, oy, sx, ox, -1)}
		case token.GEQ:
			return []dfact{le(sy, oy, sx, ox, 0)}
		case token.EQL:
			return []dfact{le(sx, ox, sy, oy, 0), le(sy, oy, sx, ox, 0)}
		}
	case *ssa.Extract:
		call, ok := x.Tuple.(*ssa.Call)
		if !ok {
			return nil
		}
		return rp.callFacts(call, x.Index, edge == 0)
	}
	return nil
}

// callFacts: the summary facts of a call, instantiated at the call site: the unconditional ones
// (condRet < 0), or those that hold when boolean result condRet has value condVal.
func (rp *relProver) callFacts(call *ssa.Call, condRet int, condVal bool) []dfact {
	callee := call.Common().StaticCallee()
	if callee == nil || !isModuleSSA(callee) || len(callee.Blocks) == 0 || call.Common().IsInvoke() {
		return nil
	}
	args := call.Common().Args
	if len(args) != len(callee.Params) {
		return nil
	}
	var res []dfact
	for _, sf := range rp.summary(callee) {
		if sf.condRet != condRet || (condRet >= 0 && sf.condVal != condVal) {
			continue
		}
		rs, ok := resultValue(call, sf.ret)
		if !ok {
			continue
		}
		other, oo := rzero, int64(0)
		if sf.param >= 0 {
			other, oo = rp.normField(args[sf.param], sf.field, 0)
		}
		a, oa := rp.norm(rs, 0)
		if sf.lower {
			// other+oo - (a+oa) <= c
			res = append(res, dfact{other, a, sf.c - oo + oa})
		} else {
			res = append(res, dfact{a, other, sf.c - oa + oo})
		}
	}
	return res
}

// resultValue: the SSA value holding result i of the call (the call itself, or its Extract).
func resultValue(call *ssa.Call, i int) (ssa.Value, bool) {
	if call.Common().Signature().Results().Len() == 1 {
		return call, i == 0
	}
	for _, ref := range *call.Referrers() {
		if ex, ok := ref.(*ssa.Extract); ok && ex.Index == i {
			return ex, true
		}
	}
	return nil, false
}

// summary: relations between the integer results of a module function and the bounded fields of its struct
// parameters, proven on the callee's own returns.
func (rp *relProver) summary(callee *ssa.Function) []sumFact {
	if s, ok := rp.sums[callee]; ok {
		return s
	}
	if rp.inSum[callee] {
		return nil
	}
	rp.inSum[callee] = true
	defer delete(rp.inSum, callee)
	var out []sumFact
	results := callee.Signature.Results()
	var rets []*ssa.Return
	for _, b := range callee.Blocks {
		if ret, ok := b.Instrs[len(b.Instrs)-1].(*ssa.Return); ok && b != callee.Recover {
			rets = append(rets, ret)
		}
	}
	if len(rets) == 0 || callee.Recover != nil {
		rp.sums[callee] = nil
		return nil
	}
	type target struct {
		param, field int
		sym          rsym
	}
	targets := []target{{-1, -1, rzero}}
	for pi, p := range callee.Params {
		n, isNamed := p.Type().(*types.Named)
		if !isNamed || namedStruct(n) == nil {
			continue
		}
		for i := range rp.bp.fields {
			if rp.bp.fields[i].named.Obj() == n.Obj() {
				targets = append(targets, target{pi, rp.bp.fields[i].field, rsym{p, rp.bp.fields[i].field}})
			}
		}
	}
	holds := func(ri int, tg target, c int64, lower bool, condRet int, condVal bool) bool {
		n := 0
		for _, ret := range rets {
			if condRet >= 0 {
				if k, isK := ret.Results[condRet].(*ssa.Const); isK && k.Value != nil && k.Value.Kind() == constant.Bool {
					if constant.BoolVal(k.Value) != condVal {
						continue
					}
				}
			}
			n++
			s, o := rp.norm(ret.Results[ri], 0)
			ctx := rp.ctxFor(ret.Block(), nil)
			var ok bool
			if lower {
				ok = rp.prove(tg.sym, s, c+o, ctx, 0, nil)
			} else {
				ok = rp.prove(s, tg.sym, c-o, ctx, 0, nil)
			}
			if !ok {
				return false
			}
		}
		return n > 0
	}
	for ri := 0; ri < results.Len(); ri++ {
		if !isIntegerType(results.At(ri).Type()) {
			continue
		}
		for _, tg := range targets {
			if tg.param < 0 {
				// result >= 0
				if holds(ri, tg, 0, true, -1, false) {
					out = append(out, sumFact{ret: ri, param: -1, field: -1, c: 0, lower: true, condRet: -1})
				}
				continue
			}
			best := int64(1)
			for _, c := range []int64{-1, 0} {
				if holds(ri, tg, c, false, -1, false) {
					out = append(out, sumFact{ret: ri, param: tg.param, field: tg.field, c: c, condRet: -1})
					best = c
					break
				}
			}
			for bj := 0; bj < results.Len(); bj++ {
				if bt, ok := results.At(bj).Type().Underlying().(*types.Basic); !ok || bt.Kind() != types.Bool {
					continue
				}
				for _, cv := range []bool{true, false} {
					for _, c := range []int64{-1, 0} {
						if c >= best {
							break
						}
						if holds(ri, tg, c, false, bj, cv) {
							out = append(out, sumFact{ret: ri, param: tg.param, field: tg.field, c: c, condRet: bj, condVal: cv})
							break
						}
					}
				}
			}
		}
	}
	rp.sums[callee] = out
	return out
}

type relCtx struct {
	at    *ssa.BasicBlock
	facts []dfact
}

func (rp *relProver) ctxFor(at *ssa.BasicBlock, extra []ctrlCond) *relCtx {
	ctx := &relCtx{at: at}
	for _, cc := range controlling(at) {
		ctx.facts = append(ctx.facts, rp.condFacts(cc)...)
	}
	for _, cc := range extra {
		ctx.facts = append(ctx.facts, rp.condFacts(cc)...)
	}
	return ctx
}

// intrinsic: facts that hold for a symbol by what it is.
func (rp *relProver) intrinsic(s rsym, ctx *relCtx) []dfact {
	if s.v == nil {
		return nil
	}
	var res []dfact
	if s.field >= 0 {
		if ld, ok := s.v.(*ssa.UnOp); ok {
			if _, isLocal := ld.X.(*ssa.Alloc); isLocal {
				return nil // a local variable that may be between two updates: no invariant
			}
		}
		if n := namedStruct(s.v.Type()); n != nil {
			for i := range rp.bp.fields {
				fb := &rp.bp.fields[i]
				if fb.named.Obj() == n.Obj() && fb.field == s.field {
					res = append(res, dfact{s, rzero, fb.max}, dfact{rzero, s, 0})
				}
			}
		}
		return res
	}
	switch x := s.v.(type) {
	case *ssa.Extract:
		if call, ok := x.Tuple.(*ssa.Call); ok {
			res = append(res, rp.callFacts(call, -1, false)...)
		}
	case *ssa.Call:
		res = append(res, rp.callFacts(x, -1, false)...)
	}
	// keep only the facts about this symbol (a call has facts about each of its results)
	kept := res[:0]
	for _, f := range res {
		if f.a == s || f.b == s {
			kept = append(kept, f)
		}
	}
	res = kept
	if u := rp.bp.ub(s.v, ctx.at, 2, map[ssa.Value]bool{}); u.ok {
		res = append(res, dfact{s, rzero, u.k})
	}
	if rp.bp.nonNeg(s.v, ctx.at, 2, map[ssa.Value]bool{}) {
		res = append(res, dfact{rzero, s, 0})
	}
	return res
}

// invariantFor: the symbol has one value for all iterations of the loop headed by the phi's block.
func invariantFor(s rsym, phi *ssa.Phi) bool {
	if s.v == nil {
		return true
	}
	switch x := s.v.(type) {
	case *ssa.Parameter, *ssa.Const, *ssa.FreeVar:
		return true
	case ssa.Instruction:
		return x.Block() != phi.Block() && x.Block().Dominates(phi.Block())
	}
	return false
}

const maxRelDepth = 6

// prove: a - b <= k where ctx.at executes.
func (rp *relProver) prove(a, b rsym, k int64, ctx *relCtx, depth int, hyps []dfact) bool {
	rp.steps++
	if a == b {
		return 0 <= k
	}
	if depth > maxRelDepth || rp.steps > 200000 {
		return false
	}
	for _, h := range hyps {
		if h.a == a && h.b == b && h.c <= k {
			return true
		}
	}
	facts := append([]dfact{}, ctx.facts...)
	facts = append(facts, rp.intrinsic(a, ctx)...)
	facts = append(facts, rp.intrinsic(b, ctx)...)
	for _, f := range facts {
		if f.a == a && f.b == b && f.c <= k {
			return true
		}
	}
	for _, f := range facts {
		if f.a == a && f.b != a && f.b != b {
			if rp.prove(f.b, b, k-f.c, ctx, depth+1, hyps) {
				return true
			}
		}
		if f.b == b && f.a != b && f.a != a {
			if rp.prove(a, f.a, k-f.c, ctx, depth+1, hyps) {
				return true
			}
		}
	}
	// phis: edge by edge
	edgeCtx := func(phi *ssa.Phi, i int) *relCtx {
		pred := phi.Block().Preds[i]
		var extra []ctrlCond
		if ifi, ok := pred.Instrs[len(pred.Instrs)-1].(*ssa.If); ok && pred.Succs[0] != pred.Succs[1] {
			for ed := 0; ed < 2; ed++ {
				if pred.Succs[ed] == phi.Block() {
					extra = append(extra, expandCond(ifi, ifi.Cond, ed, 0)...)
				}
			}
		}
		return rp.ctxFor(pred, extra)
	}
	if a.v != nil && a.field < 0 {
		if phi, ok := a.v.(*ssa.Phi); ok && invariantFor(b, phi) {
			all := true
			nh := append(append([]dfact{}, hyps...), dfact{a, b, k})
			for i, e := range phi.Edges {
				s, o := rp.norm(e, 0)
				if !rp.prove(s, b, k-o, edgeCtx(phi, i), depth+1, nh) {
					all = false
					break
				}
			}
			if all {
				return true
			}
		}
	}
	if b.v != nil && b.field < 0 {
		if phi, ok := b.v.(*ssa.Phi); ok && invariantFor(a, phi) {
			all := true
			nh := append(append([]dfact{}, hyps...), dfact{a, b, k})
			for i, e := range phi.Edges {
				s, o := rp.norm(e, 0)
				if !rp.prove(a, s, k+o, edgeCtx(phi, i), depth+1, nh) {
					all = false
					break
				}
			}
			if all {
				return true
			}
		}
	}
	return false
}

// upper: v <= limit where block at executes.
func (rp *relProver) upper(v ssa.Value, at *ssa.BasicBlock, limit int64) bool {
	rp.steps = 0
	s, o := rp.norm(v, 0)
	return rp.prove(s, rzero, limit-o, rp.ctxFor(at, nil), 0, nil)
}

// lower: v >= k where block at executes.
func (rp *relProver) lower(v ssa.Value, at *ssa.BasicBlock, k int64) bool {
	rp.steps = 0
	s, o := rp.norm(v, 0)
	return rp.prove(rzero, s, o-k, rp.ctxFor(at, nil), 0, nil)
}

// fieldWithin: field f of the local struct al is within [0,max] where `at` (a load of the whole struct) executes.
func (rp *relProver) fieldWithin(al *ssa.Alloc, f int, at ssa.Instruction, max int64) bool {
	rp.steps = 0
	s, o, ok := rp.fieldAt(al, f, at, 0)
	if !ok {
		return false
	}
	ctx := rp.ctxFor(at.Block(), nil)
	return rp.prove(s, rzero, max-o, ctx, 0, nil) && rp.prove(rzero, s, o, ctx, 0, nil)
}
