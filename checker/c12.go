package main

import (
	"fmt"
	"go/constant"
	"go/token"
	"go/types"
	"sort"
	"strings"

	"golang.org/x/tools/go/ssa"
)

// evalOnCmp evaluates a boolean SSA expression built from comparisons of the value `cmpv`
// with integer constants (and !, &&-free) for cmpv = x. ok=false if the shape is not understood.
func evalOnCmp(v ssa.Value, cmpv ssa.Value, x int64) (bool, bool) {
	switch e := v.(type) {
	case *ssa.UnOp:
		if e.Op == token.NOT {
			b, ok := evalOnCmp(e.X, cmpv, x)
			return !b, ok
		}
	case *ssa.BinOp:
		var k int64
		var okK bool
		flip := false
		if e.X == cmpv {
			k, okK = constInt(e.Y)
		} else if e.Y == cmpv {
			k, okK = constInt(e.X)
			flip = true
		}
		if !okK {
			return false, false
		}
		a, b := x, k
		if flip {
			a, b = k, x
		}
		switch e.Op {
		case token.EQL:
			return a == b, true
		case token.NEQ:
			return a != b, true
		case token.LSS:
			return a < b, true
		case token.LEQ:
			return a <= b, true
		case token.GTR:
			return a > b, true
		case token.GEQ:
			return a >= b, true
		}
	}
	return false, false
}

func truthSet(v ssa.Value, cmpv ssa.Value) (string, bool) {
	var s []string
	for _, x := range []int64{-1, 0, 1} {
		b, ok := evalOnCmp(v, cmpv, x)
		if !ok {
			return "", false
		}
		if b {
			s = append(s, fmt.Sprint(x))
		}
	}
	return "{" + strings.Join(s, ",") + "}", true
}

// cmpUses: for a call to object.Cmp, the boolean values computed from its result.
func cmpUses(call *ssa.Call) []ssa.Value {
	var res []ssa.Value
	var walk func(v ssa.Value)
	walk = func(v ssa.Value) {
		for _, ref := range *v.Referrers() {
			switch x := ref.(type) {
			case *ssa.BinOp:
				if _, isBool := x.Type().Underlying().(*types.Basic); isBool && x.Type().Underlying().(*types.Basic).Kind() == types.Bool {
					res = append(res, x)
				}
			}
		}
	}
	walk(call)
	return res
}

func runC12(c *Ctx, r *Report) {
	r.Rule("C12.R7", "the type gate of == is an equivalence: object.TypeEqual, evaluated by interpreting its SSA (and IsIntType's) on every pair and triple of object.Type constants, is reflexive, symmetric and transitive")
	c.checkTypeEqualIsEquivalence(r, "C12.R7")
	r.Rule("C12.R1", "single comparator, consistent thresholds: <, <=, >, >=, min, max, sort (Less) and map key search (CompareKeys) all call object.Cmp with operands in source order and interpret its result by predicates whose truth sets on {-1,0,1} are {-1}, {-1,0}, {1}, {0,1} (strict min/max/Less: {-1}/{1}/{-1}); == and != go through Equals")
	r.Rule("C12.R2", "three-valued and antisymmetric by construction: every return of Cmp is a constant in {-1,0,1}, a cmp.Compare or a recursive Cmp; their first operands derive from Cmp's first parameter and second from the second; each `if L<R return -1` has the mirrored `if L>R return 1`")
	r.Rule("C12.R6", "no overflowing conversion in the comparator: a float64 -> integer conversion in Cmp or in a function whose result Cmp returns is dominated by comparisons that confine the float to [-2^63, 2^63) (the upper bound strictly)")
	r.Rule("C12.R3", "order embeddings only: no lossy numeric conversion (int64 -> float64) feeds a comparison inside the comparator")
	r.Rule("C12.R4", "totality: every explicit panic arm of Cmp is for a tag that no program-visible value can carry (no concrete type has it, or it is removed by Value()/Eval before comparison); a tag a program can construct must not panic")
	r.Rule("C12.R5", "Equals(a,b) = TypeEqual(a.Type(), b.Type()) && Cmp(a,b) == 0, with operands in order")

	cmpFn := c.Fn("object", "Cmp")
	equals := c.Fn("object", "Equals")
	names := c.objectTypeNames()
	tokNames := c.tokenTypeNames()

	// ---- R1: evalInfixExpression ----
	{
		fn := c.SSAFn(c.Fn("eval", "State.evalInfixExpression"))
		fname := ssaFuncName(fn)
		if len(fn.Params) < 4 {
			undecidedf("evalInfixExpression: unexpected signature")
		}
		op, left, right := fn.Params[1], fn.Params[2], fn.Params[3]
		want := map[string]string{"GT": "{1}", "LT": "{-1}", "GTEQ": "{0,1}", "LTEQ": "{-1,0}"}
		seen := map[string]bool{}
		for _, b := range fn.Blocks {
			ifi, ok := b.Instrs[len(b.Instrs)-1].(*ssa.If)
			if !ok {
				continue
			}
			bin, ok := ifi.Cond.(*ssa.BinOp)
			if !ok || bin.Op != token.EQL || bin.X != ssa.Value(op) {
				continue
			}
			k, ok := constInt(bin.Y)
			if !ok {
				continue
			}
			tn := tokNames[k]
			tb := b.Succs[0]
			switch tn {
			case "GT", "LT", "GTEQ", "LTEQ":
				seen[tn] = true
				desc := "operator " + tn
				call, use := c.orderingThreshold(fn, tb, op, left, right, k, cmpFn, 0)
				if call == nil {
					r.Fail("C12.R1", fname, desc+" delegates to Cmp", c.Pos(ifi.Pos()), "the comparison operator does not call object.Cmp")
					continue
				}
				a := call.Common().Args
				r.Check(c.sameArgOrigin(a[0], left, call) && c.sameArgOrigin(a[1], right, call), "C12.R1", fname, desc+" passes (left, right) in order", c.Pos(call.Pos()), "operands of Cmp are not (left, right)")
				if use == nil {
					r.Fail("C12.R1", fname, desc+" threshold", c.Pos(call.Pos()), "no single comparison of the Cmp result belongs to this operator")
					continue
				}
				ts, ok := truthSet(use, call)
				r.Check(ok && ts == want[tn], "C12.R1", fname, desc+" threshold", c.Pos(call.Pos()),
					fmt.Sprintf("the operator holds for Cmp results %s, expected %s: the four comparison operators are no longer mutually consistent", ts, want[tn]))
			case "EQ", "NOTEQ":
				seen[tn] = true
				var call *ssa.Call
				for _, in := range tb.Instrs {
					if cl, ok := in.(*ssa.Call); ok && isCallTo(cl, equals) {
						call = cl
					}
				}
				okc := call != nil && call.Common().Args[0] == ssa.Value(left) && call.Common().Args[1] == ssa.Value(right)
				if okc {
					// polarity: value passed to NativeBoolToBooleanObject
					neg := false
					for _, ref := range *call.Referrers() {
						if u, ok := ref.(*ssa.UnOp); ok && u.Op == token.NOT {
							neg = true
						}
					}
					okc = neg == (tn == "NOTEQ")
				}
				r.Check(okc, "C12.R1", fname, "operator "+tn+" is Equals(left,right) with the right polarity", c.Pos(ifi.Pos()), "== / != do not go through Equals(left, right) with the expected polarity")
			}
		}
		for _, tn := range []string{"GT", "LT", "GTEQ", "LTEQ", "EQ", "NOTEQ"} {
			if !seen[tn] {
				r.Fail("C12.R1", fname, "operator "+tn+" handled", c.Pos(fn.Pos()), "no arm for operator "+tn)
			}
		}
	}
	// other users of Cmp: classify each call site in the module
	for _, fn := range c.ModuleSSAFuncs() {
		if fn.Object() == types.Object(cmpFn) || ssaFuncName(fn) == "eval.(*State).evalInfixExpression" {
			continue
		}
		for _, ci := range callsIn(fn, cmpFn) {
			call := ci.(*ssa.Call)
			fname := ssaFuncName(fn)
			uses := cmpUses(call)
			// returned as is (CompareKeys, get switch) is fine: three-valued by R2
			if len(uses) == 0 {
				r.OkWhy("C12.R1", fname, "Cmp result used as a three-way value", c.Pos(call.Pos()), "not thresholded here")
				continue
			}
			for _, u := range uses {
				ts, ok := truthSet(u, call)
				// any proper threshold set is fine except ones that split the range inconsistently ({-1,1}, {0} used as order)
				good := ok && (ts == "{-1}" || ts == "{1}" || ts == "{0}" || ts == "{-1,0}" || ts == "{0,1}" || ts == "{-1,1}")
				r.Check(good, "C12.R1", fname, "threshold on a Cmp result "+ts, c.Pos(call.Pos()), "a Cmp result is tested by a predicate that is not a threshold on {-1,0,1}")
			}
		}
	}
	// min / max / Less: strict thresholds and operand roles
	c.checkMinMaxLess(r, cmpFn)
	r.Floor("C12.R1", 14)

	// ---- R2 ----
	cfn := c.SSAFn(cmpFn)
	cname := ssaFuncName(cfn)
	p0, p1 := cfn.Params[0], cfn.Params[1]
	valueFn := c.Fn("object", "Value")
	// derivation: which parameter a value derives from
	var deriv func(v ssa.Value, seen map[ssa.Value]bool) (from0, from1 bool)
	deriv = func(v ssa.Value, seen map[ssa.Value]bool) (bool, bool) {
		if v == nil || seen[v] {
			return false, false
		}
		seen[v] = true
		if v == ssa.Value(p0) {
			return true, false
		}
		if v == ssa.Value(p1) {
			return false, true
		}
		var a, b bool
		var ops []*ssa.Value
		if in, ok := v.(ssa.Instruction); ok {
			ops = in.Operands(nil)
		}
		for _, o := range ops {
			if *o == nil {
				continue
			}
			x, y := deriv(*o, seen)
			a, b = a || x, b || y
		}
		// loads of local allocs: look at stores
		if u, ok := v.(*ssa.UnOp); ok && u.Op == token.MUL {
			base := u.X
			for i := 0; i < 4; i++ {
				switch bx := base.(type) {
				case *ssa.FieldAddr:
					base = bx.X
				case *ssa.IndexAddr:
					x, y := deriv(bx.X, seen)
					a, b = a || x, b || y
					base = bx.X
				}
			}
			if al, ok := base.(*ssa.Alloc); ok {
				for _, ref := range *al.Referrers() {
					if st, ok := ref.(*ssa.Store); ok && st.Addr == ssa.Value(al) {
						x, y := deriv(st.Val, seen)
						a, b = a || x, b || y
					}
				}
			}
		}
		return a, b
	}
	checkPair := func(call *ssa.Call, what string) {
		args := call.Common().Args
		if len(args) < 2 {
			return
		}
		a0, a1 := deriv(args[0], map[ssa.Value]bool{})
		b0, b1 := deriv(args[1], map[ssa.Value]bool{})
		ok := a0 && !a1 && b1 && !b0
		r.Check(ok, "C12.R2", cname, what+" compares (first operand, second operand) in order", c.Pos(call.Pos()),
			fmt.Sprintf("operand roles are mixed (first arg from params {%v,%v}, second from {%v,%v}): Cmp(a,b) and Cmp(b,a) are no longer mirror images", a0, a1, b0, b1))
	}
	nret := 0
	helpers := map[*ssa.Function]bool{} // functions whose result Cmp returns (directly or negated)
	var okRet func(v ssa.Value, seen map[ssa.Value]bool) (bool, string)
	okRet = func(v ssa.Value, seen map[ssa.Value]bool) (bool, string) {
		if seen[v] {
			return true, ""
		}
		seen[v] = true
		switch x := v.(type) {
		case *ssa.Const:
			if k, ok := constInt(x); ok && k >= -1 && k <= 1 {
				return true, ""
			}
			return false, "constant " + x.String()
		case *ssa.Phi:
			for _, e := range x.Edges {
				if ok, why := okRet(e, seen); !ok {
					return false, why
				}
			}
			return true, ""
		case *ssa.Call:
			if isCallTo(x, cmpFn) {
				return true, ""
			}
			if obj := calleeObj(x); obj != nil && obj.Pkg() != nil && obj.Pkg().Path() == "cmp" && obj.Name() == "Compare" {
				return true, ""
			}
			if obj := calleeObj(x); obj != nil && obj.Pkg() != nil && obj.Pkg().Path() == "strings" && obj.Name() == "Compare" {
				return true, ""
			}
			// slices.CompareFunc(a, b, f): the first non-zero f(a[i], b[i]), else cmp.Compare of the lengths
			if obj := calleeObj(x); obj != nil && obj.Pkg() != nil && obj.Pkg().Path() == "slices" && obj.Name() == "CompareFunc" && len(x.Common().Args) == 3 {
				if f, ok := x.Common().Args[2].(*ssa.Function); ok && c.SSAFn(cmpFn) == f {
					return true, ""
				}
				return false, "result of slices.CompareFunc with another element comparator than Cmp"
			}
			// a helper of the comparator: its own returns must be three-valued
			if h := x.Common().StaticCallee(); h != nil && isModuleSSA(h) && h.Blocks != nil && len(seen) < 64 {
				helpers[h] = true
				okAll, whyAll := true, ""
				eachInstr(h, func(in ssa.Instruction) {
					if ret, isRet := in.(*ssa.Return); isRet && len(ret.Results) == 1 {
						if ok, why := okRet(retVal(ret, 0), seen); !ok {
							okAll, whyAll = false, why+" (returned by helper "+ssaFuncName(h)+")"
						}
					}
				})
				return okAll, whyAll
			}
			return false, "result of " + nameOfCallee(x)
		case *ssa.UnOp:
			if x.Op == token.SUB { // negation keeps {-1,0,1}
				return okRet(x.X, seen)
			}
		}
		return false, "value " + v.String() + " (" + typeShort(v.Type()) + ")"
	}
	eachInstr(cfn, func(in ssa.Instruction) {
		switch x := in.(type) {
		case *ssa.Return:
			nret++
			ok, why := okRet(x.Results[0], map[ssa.Value]bool{})
			r.Check(ok, "C12.R2", cname, "return value is in {-1,0,1}", c.Pos(instrPos(x)),
				"Cmp returns "+why+", which is not confined to {-1,0,1}: callers test == 1 / == -1 / switch on 0 and 1")
		case *ssa.Call:
			if isCallTo(x, cmpFn) {
				checkPair(x, "recursive Cmp")
			} else if obj := calleeObj(x); obj != nil && obj.Pkg() != nil && obj.Pkg().Path() == "cmp" && obj.Name() == "Compare" {
				checkPair(x, "cmp.Compare")
			} else if obj != nil && obj.Pkg() != nil && obj.Pkg().Path() == "slices" && obj.Name() == "CompareFunc" {
				checkPair(x, "slices.CompareFunc")
			}
		}
	})
	// helpers: the operand-role argument is made for Cmp's own body only
	for _, h := range sortedFuncs(helpers) {
		r.Abstain("C12.R2", ssaFuncName(h), "operand roles inside a comparator helper", c.Pos(h.Pos()), "the helper's results are checked to be three-valued, but which of its operands plays the first and which the second role (and the effect of negating its result) is not decided")
	}
	// ---- R6 ---- float -> integer conversions inside the comparator
	{
		scope := map[*ssa.Function]bool{cfn: true}
		for h := range helpers {
			scope[h] = true
		}
		isF2I := func(in ssa.Instruction) (*ssa.Convert, bool) {
			cv, ok := in.(*ssa.Convert)
			if !ok {
				return nil, false
			}
			from, ok1 := cv.X.Type().Underlying().(*types.Basic)
			to, ok2 := cv.Type().Underlying().(*types.Basic)
			if !ok1 || !ok2 || from.Info()&types.IsFloat == 0 || to.Info()&types.IsInteger == 0 {
				return nil, false
			}
			return cv, true
		}
		control := 0
		for _, fn := range c.ModuleSSAFuncs() {
			eachInstr(fn, func(in ssa.Instruction) {
				if _, ok := isF2I(in); ok {
					control++
				}
			})
		}
		if control == 0 {
			r.Undecided("C12.R6 control: the detector finds no float->integer conversion anywhere in the module (int(), round() are expected to have some)")
		}
		n := c.checkFloatToIntGuards(r, "C12.R6", sortedFuncs(scope), "the conversion overflows and one value sorts on the wrong side of every integer")
		r.Note("C12.R6: %d float->integer conversions inside the comparator (%d in the module)", n, control)
	}
	// Value() applied to both operands first
	nv := 0
	for _, vc := range callsIn(cfn, valueFn) {
		if vc.Block() == cfn.Blocks[0] {
			nv++
		}
	}
	r.Check(nv >= 2, "C12.R2", cname, "both operands are dereferenced by Value() first", c.Pos(cfn.Pos()), "references/registers are not dereferenced before comparison")
	// mirrored one-sided comparisons
	type cmpKey struct{ x, y ssa.Value }
	less := map[cmpKey]*ssa.If{}
	greater := map[cmpKey]*ssa.If{}
	retConst := func(b *ssa.BasicBlock) (int64, bool) {
		if ret, ok := b.Instrs[len(b.Instrs)-1].(*ssa.Return); ok && len(b.Instrs) <= 2 {
			return constInt(ret.Results[0])
		}
		return 0, false
	}
	for _, b := range cfn.Blocks {
		ifi, ok := b.Instrs[len(b.Instrs)-1].(*ssa.If)
		if !ok {
			continue
		}
		bin, ok := ifi.Cond.(*ssa.BinOp)
		if !ok {
			continue
		}
		k, isRet := retConst(b.Succs[0])
		if !isRet {
			continue
		}
		switch {
		case bin.Op == token.LSS && k == -1:
			less[cmpKey{bin.X, bin.Y}] = ifi
		case bin.Op == token.GTR && k == 1:
			greater[cmpKey{bin.X, bin.Y}] = ifi
		case bin.Op == token.LSS && k == 1:
			greater[cmpKey{bin.Y, bin.X}] = ifi
		case bin.Op == token.GTR && k == -1:
			less[cmpKey{bin.Y, bin.X}] = ifi
		case bin.Op == token.LSS || bin.Op == token.GTR:
			r.Fail("C12.R2", cname, "one-sided comparison returns a consistent sign", c.Pos(ifi.Pos()), fmt.Sprintf("`%s` returns %d", bin.Op, k))
		}
	}
	equiv := func(a, b cmpKey) bool { return sameExpr(a.x, b.x) && sameExpr(a.y, b.y) }
	for k, ifi := range less {
		found := false
		for g := range greater {
			if equiv(k, g) {
				found = true
			}
		}
		r.Check(found, "C12.R2", cname, "`if L<R return -1` has the mirrored `if L>R return 1`", c.Pos(ifi.Pos()), "a less-than arm has no mirrored greater-than arm: Cmp(a,b) = -Cmp(b,a) fails for this pair")
	}
	for g, ifi := range greater {
		found := false
		for k := range less {
			if equiv(k, g) {
				found = true
			}
		}
		r.Check(found, "C12.R2", cname, "`if L>R return 1` has the mirrored `if L<R return -1`", c.Pos(ifi.Pos()), "a greater-than arm has no mirrored less-than arm")
	}
	r.Floor("C12.R2", 20)

	// ---- R3 ----
	nconv := 0
	eachInstr(cfn, func(in ssa.Instruction) {
		cv, ok := in.(*ssa.Convert)
		if !ok {
			return
		}
		from, ok1 := cv.X.Type().Underlying().(*types.Basic)
		to, ok2 := cv.Type().Underlying().(*types.Basic)
		if !ok1 || !ok2 {
			return
		}
		if from.Info()&types.IsInteger != 0 && to.Info()&types.IsFloat != 0 {
			nconv++
			side := "first"
			if _, b := deriv(cv.X, map[ssa.Value]bool{}); b {
				side = "second"
			}
			r.Fail("C12.R3", cname, "int64 -> float64 conversion of the "+side+" operand feeds the comparison", c.Pos(cv.Pos()),
				"converting a 64-bit integer to float64 is not an order embedding beyond 2^53: 2^53+1 <= 2^53.0 <= 2^53 but not 2^53+1 <= 2^53 (transitivity fails)")
		}
	})
	if nconv == 0 {
		r.Ok("C12.R3", cname, "no lossy conversion feeds a comparison", c.Pos(cfn.Pos()))
	}

	// ---- R4 ----
	tagTypes := c.concreteTypesByTag()
	justified := map[string]string{
		"REFERENCE": "both operands go through Value(), which dereferences references (checked in R2)",
		"REGISTER":  "both operands go through Value(), which copies registers to integers (checked in R2)",
		"RETURN":    "control objects never become data: rule C01.R7 (shared below) checks that no evalInternal result is stored or passed on without a RETURN test or State.Eval",
	}
	eachInstr(cfn, func(in ssa.Instruction) {
		pn, ok := in.(*ssa.Panic)
		if !ok {
			return
		}
		// which tag tests lead here
		var tags []string
		for _, b := range cfn.Blocks {
			ifi, ok := b.Instrs[len(b.Instrs)-1].(*ssa.If)
			if !ok {
				continue
			}
			bin, ok := ifi.Cond.(*ssa.BinOp)
			if !ok || bin.Op != token.EQL {
				continue
			}
			k, ok := constInt(bin.Y)
			if !ok {
				continue
			}
			if b.Succs[0] == pn.Block() {
				tags = append(tags, names[k])
			}
		}
		sort.Strings(tags)
		if len(tags) == 0 {
			r.Fail("C12.R4", cname, "panic arm", c.Pos(pn.Pos()), "an explicit panic in Cmp is not confined to a list of tags")
		}
		for _, tg := range tags {
			var tagv int64 = -1
			for k, n := range names {
				if n == tg {
					tagv = k
				}
			}
			desc := "panic arm for tag " + tg
			if len(tagTypes[tagv]) == 0 {
				r.OkWhy("C12.R4", cname, desc, c.Pos(pn.Pos()), "no concrete type carries this tag")
				continue
			}
			if why, ok := justified[tg]; ok {
				r.OkWhy("C12.R4", cname, desc, c.Pos(pn.Pos()), why)
				continue
			}
			var ts []string
			for _, t := range tagTypes[tagv] {
				ts = append(ts, typeShort(t))
			}
			r.Fail("C12.R4", cname, desc, c.Pos(pn.Pos()), "values of type "+strings.Join(ts, ", ")+" are ordinary program values; comparing two of them (==, <, map key) panics")
		}
	})
	r.Floor("C12.R4", 5)

	// ---- R5 ----
	{
		efn := c.SSAFn(equals)
		ename := ssaFuncName(efn)
		typeEqual := c.Fn("object", "TypeEqual")
		okShape := false
		why := "Equals is not `TypeEqual(...) && Cmp(left,right)==0`"
		for _, te := range callsIn(efn, typeEqual) {
			for _, ref := range *te.(*ssa.Call).Referrers() {
				ifi, ok := ref.(*ssa.If)
				if !ok {
					continue
				}
				// false edge returns false; true edge returns Cmp(l,r)==0
				fk, fok := retBool(ifi.Block().Succs[1])
				if !fok || fk {
					continue
				}
				tb := ifi.Block().Succs[0]
				ret, ok := tb.Instrs[len(tb.Instrs)-1].(*ssa.Return)
				if !ok {
					continue
				}
				bin, ok := ret.Results[0].(*ssa.BinOp)
				if !ok || bin.Op != token.EQL {
					continue
				}
				call, ok := bin.X.(*ssa.Call)
				z, zok := constInt(bin.Y)
				if ok && zok && z == 0 && isCallTo(call, cmpFn) && call.Common().Args[0] == ssa.Value(efn.Params[0]) && call.Common().Args[1] == ssa.Value(efn.Params[1]) {
					okShape = true
				}
			}
		}
		r.Check(okShape, "C12.R5", ename, "Equals = TypeEqual && Cmp == 0", c.Pos(efn.Pos()), why)
		// TypeEqual: a == b || (IsIntType(a) && IsIntType(b)) : symmetric in its parameters by shape
		tfn := c.SSAFn(typeEqual)
		sym := false
		eachInstr(tfn, func(in ssa.Instruction) {
			if bin, ok := in.(*ssa.BinOp); ok && bin.Op == token.EQL {
				if (bin.X == ssa.Value(tfn.Params[0]) && bin.Y == ssa.Value(tfn.Params[1])) || (bin.Y == ssa.Value(tfn.Params[0]) && bin.X == ssa.Value(tfn.Params[1])) {
					sym = true
				}
			}
		})
		r.Check(sym, "C12.R5", ssaFuncName(tfn), "TypeEqual tests a == b", c.Pos(tfn.Pos()), "TypeEqual no longer contains the reflexive a == b test")
	}
	// shared C07.R11: comparing never panics inside Go's own interface equality
	r.Rule("C07.R11", "(shared) no == / != between two interface values that may both hold an uncomparable struct")
	c.checkInterfaceEquality(r, "C07.R11")
	// shared C01.R7: tag RETURN never reaches Cmp because control objects never become data
	r.Rule("C01.R7", "(shared) control objects (break/continue/return) are never stored as values, so the RETURN panic arm of Cmp is unreachable")
	c.checkControlObjects(r, "C01.R7")
	// shared C11.R2: the small map's linear search is the other user of the order
	if !r.Sub {
		r.Rule("C11.R2", "(shared) SmallMap.get compares (stored key, searched key) with Cmp on every iteration and stops on exactly 1 and 0")
		sub := NewReport("C11", r.Tier, c)
		sub.Sub = true
		runC11(c, sub)
		n := 0
		for _, o := range sub.Obls {
			if o.Rule != "C11.R2" || !strings.Contains(o.Func, "SmallMap).get") {
				continue
			}
			n++
			if o.status == FAIL {
				r.Fail(o.Rule, o.Func, o.Desc, o.Pos, o.Reason)
			} else {
				r.Ok(o.Rule, o.Func, o.Desc, o.Pos)
			}
		}
		if n < 3 {
			r.Undecided("C12: only %d shared C11.R2 obligations on SmallMap.get", n)
		}
	}
}

func retBool(b *ssa.BasicBlock) (bool, bool) {
	ret, ok := b.Instrs[len(b.Instrs)-1].(*ssa.Return)
	if !ok || len(ret.Results) != 1 {
		return false, false
	}
	k, ok := ret.Results[0].(*ssa.Const)
	if !ok || k.Value == nil || k.Value.Kind() != constant.Bool {
		return false, false
	}
	return constant.BoolVal(k.Value), true
}

// sameExpr: structurally equal pure expressions (calls to the same method on the same receiver, same values).
func sameExpr(a, b ssa.Value) bool {
	if a == b {
		return true
	}
	if ca, ok := a.(*ssa.Convert); ok {
		if cb, ok := b.(*ssa.Convert); ok && types.Identical(ca.Type(), cb.Type()) {
			return sameExpr(ca.X, cb.X)
		}
	}
	ca, ok1 := a.(*ssa.Call)
	cb, ok2 := b.(*ssa.Call)
	if ok1 && ok2 {
		if ca.Common().IsInvoke() && cb.Common().IsInvoke() && ca.Common().Method == cb.Common().Method && ca.Common().Value == cb.Common().Value && len(ca.Common().Args) == 0 {
			return true
		}
		if ca.Common().StaticCallee() != nil && ca.Common().StaticCallee() == cb.Common().StaticCallee() && len(ca.Common().Args) == len(cb.Common().Args) {
			for i := range ca.Common().Args {
				if !sameExpr(ca.Common().Args[i], cb.Common().Args[i]) {
					return false
				}
			}
			return true
		}
		if bi, ok := ca.Common().Value.(*ssa.Builtin); ok {
			if bj, ok := cb.Common().Value.(*ssa.Builtin); ok && bi.Name() == bj.Name() && len(ca.Common().Args) == 1 && len(cb.Common().Args) == 1 {
				return sameExpr(ca.Common().Args[0], cb.Common().Args[0])
			}
		}
	}
	return sameValue(a, b)
}

// checkMinMaxLess: strict thresholds with the right roles in min, max callbacks and BigArray.Less.
func (c *Ctx) checkMinMaxLess(r *Report, cmpFn *types.Func) {
	for _, reg := range c.ExtReg() {
		if len(reg.Names) != 1 || (reg.Names[0] != "min" && reg.Names[0] != "max") || reg.Callback == nil {
			continue
		}
		name := reg.Names[0]
		fn := reg.Callback
		want := "{-1}"
		if name == "max" {
			want = "{1}"
		}
		n := 0
		for _, ci := range callsIn(fn, cmpFn) {
			call := ci.(*ssa.Call)
			n++
			uses := cmpUses(call)
			ts := ""
			ok := false
			if len(uses) == 1 {
				ts, ok = truthSet(uses[0], call)
			}
			// role: first arg is the candidate element, second the running extreme (a phi)
			_, secondIsPhi := call.Common().Args[1].(*ssa.Phi)
			r.Check(ok && ts == want && secondIsPhi, "C12.R1", ssaFuncName(fn), "extension "+name+" replaces the running value when Cmp(candidate, running) is in "+want, c.Pos(call.Pos()),
				fmt.Sprintf("%s() selects on Cmp results %s with running value as second operand=%v; expected %s", name, ts, secondIsPhi, want))
		}
		// the selection loop shared with the other extreme: a helper of the package that is handed the threshold as a
		// func(int) bool and applies it to Cmp(candidate, running)
		if n == 0 {
			eachInstr(fn, func(in ssa.Instruction) {
				hc, ok := in.(*ssa.Call)
				if !ok {
					return
				}
				h := hc.Common().StaticCallee()
				if h == nil || h.Pkg != fn.Pkg && fn.Parent() == nil || len(h.Blocks) == 0 || !isModuleSSA(h) {
					return
				}
				for ai, a := range hc.Common().Args {
					var k *ssa.Function
					switch x := a.(type) {
					case *ssa.MakeClosure:
						k, _ = x.Fn.(*ssa.Function)
					case *ssa.Function:
						k = x
					}
					if k == nil || ai >= len(h.Params) || len(k.Params) != 1 {
						continue
					}
					pk := h.Params[ai]
					for _, ci := range callsIn(h, cmpFn) {
						call := ci.(*ssa.Call)
						// the comparator's result goes to the threshold function, whose answer decides the replacement
						applied := false
						for _, ref := range *call.Referrers() {
							if tc, ok := ref.(*ssa.Call); ok && tc.Common().Value == ssa.Value(pk) && len(tc.Common().Args) == 1 && tc.Common().Args[0] == ssa.Value(call) {
								applied = true
							}
						}
						if !applied {
							continue
						}
						n++
						var set []string
						okEval := true
						for _, x := range []int64{-1, 0, 1} {
							v, ok := c.ssaEval(k, []int64{x}, 0)
							if !ok {
								okEval = false
							}
							if v != 0 {
								set = append(set, fmt.Sprint(x))
							}
						}
						ts := "{" + strings.Join(set, ",") + "}"
						_, secondIsPhi := call.Common().Args[1].(*ssa.Phi)
						r.Check(okEval && ts == want && secondIsPhi, "C12.R1", ssaFuncName(fn), "extension "+name+" replaces the running value when Cmp(candidate, running) is in "+want, c.Pos(hc.Pos()),
							fmt.Sprintf("%s() selects (through %s) on Cmp results %s with running value as second operand=%v; expected %s", name, h.Name(), ts, secondIsPhi, want))
					}
				}
			})
		}
		if n == 0 {
			r.Fail("C12.R1", ssaFuncName(fn), "extension "+name+" uses Cmp", c.Pos(fn.Pos()), name+"() does not delegate to object.Cmp")
		}
		// ... and orders values through nothing else: no library ordering (slices.Min/Max, sort, math.Min/Max,
		// cmp.Compare, builtin min/max) and no </> on floats or strings in the callback or the helpers of its package
		other := ""
		for _, h := range c.localHelpers(fn, 2) {
			eachInstr(h, func(in ssa.Instruction) {
				if other != "" {
					return
				}
				switch x := in.(type) {
				case *ssa.BinOp:
					switch x.Op {
					case token.LSS, token.GTR, token.LEQ, token.GEQ:
						if b, ok := x.X.Type().Underlying().(*types.Basic); ok && b.Info()&(types.IsFloat|types.IsString) != 0 {
							other = c.Pos(x.Pos()) + ": " + x.Op.String() + " on " + b.Name()
						}
					}
				case *ssa.Call:
					if bi, ok := x.Common().Value.(*ssa.Builtin); ok && (bi.Name() == "min" || bi.Name() == "max") {
						if b, ok := x.Type().Underlying().(*types.Basic); ok && b.Info()&(types.IsFloat|types.IsString) != 0 {
							other = c.Pos(x.Pos()) + ": builtin " + bi.Name() + " on " + b.Name()
						}
						return
					}
					obj := calleeObj(x)
					if obj == nil || obj.Pkg() == nil {
						return
					}
					switch obj.Pkg().Path() {
					case "slices":
						if strings.HasPrefix(obj.Name(), "Min") || strings.HasPrefix(obj.Name(), "Max") || strings.HasPrefix(obj.Name(), "Sort") || strings.HasPrefix(obj.Name(), "Compare") || strings.HasPrefix(obj.Name(), "BinarySearch") {
							other = c.Pos(x.Pos()) + ": slices." + obj.Name()
						}
					case "sort":
						other = c.Pos(x.Pos()) + ": sort." + obj.Name()
					case "math":
						if obj.Name() == "Max" || obj.Name() == "Min" {
							other = c.Pos(x.Pos()) + ": math." + obj.Name()
						}
					case "cmp":
						other = c.Pos(x.Pos()) + ": cmp." + obj.Name()
					}
				}
			})
		}
		r.Check(other == "", "C12.R1", ssaFuncName(fn), "extension "+name+" orders values through object.Cmp only", c.Pos(fn.Pos()),
			name+"() also orders values by another primitive ("+other+"): Go's own ordering differs from Cmp's (NaN is the smallest float for Cmp, slices.Max/math.Max propagate it; integers and floats are one order for Cmp), so "+name+"() disagrees with < and > on some operands")
	}
	less := c.SSAFn(c.Fn("object", "BigArray.Less"))
	for _, ci := range callsIn(less, cmpFn) {
		call := ci.(*ssa.Call)
		uses := cmpUses(call)
		ts, ok := "", false
		if len(uses) == 1 {
			ts, ok = truthSet(uses[0], call)
		}
		// operands elements[i], elements[j] in order
		idxOf := func(v ssa.Value) ssa.Value {
			if ld, ok := v.(*ssa.UnOp); ok {
				if ia, ok := ld.X.(*ssa.IndexAddr); ok {
					return ia.Index
				}
			}
			return nil
		}
		inOrder := len(less.Params) >= 3 && idxOf(call.Common().Args[0]) == ssa.Value(less.Params[1]) && idxOf(call.Common().Args[1]) == ssa.Value(less.Params[2])
		r.Check(ok && ts == "{-1}" && inOrder, "C12.R1", ssaFuncName(less), "Less(i,j) is Cmp(e[i], e[j]) in {-1}", c.Pos(call.Pos()), "sort order is not the strict Cmp order with operands (i, j): "+ts)
	}
	ck := c.SSAFn(c.Fn("object", "CompareKeys"))
	okCK := false
	fieldOfParam := func(v ssa.Value, p *ssa.Parameter, field int) bool {
		switch x := v.(type) {
		case *ssa.Field:
			return x.Field == field && x.X == ssa.Value(p)
		case *ssa.UnOp:
			fa, ok := x.X.(*ssa.FieldAddr)
			if !ok || fa.Field != field {
				return false
			}
			al, ok := fa.X.(*ssa.Alloc)
			if !ok {
				return false
			}
			n, from := 0, false
			for _, ref := range *al.Referrers() {
				if st, ok := ref.(*ssa.Store); ok && st.Addr == ssa.Value(al) {
					n++
					from = st.Val == ssa.Value(p)
				}
			}
			return n == 1 && from
		}
		return false
	}
	nRetCK, otherRet := 0, ""
	eachInstr(ck, func(in ssa.Instruction) {
		if ret, ok := in.(*ssa.Return); ok {
			nRetCK++
			if call, ok := ret.Results[0].(*ssa.Call); ok && isCallTo(call, cmpFn) {
				if fieldOfParam(call.Common().Args[0], ck.Params[0], 0) && fieldOfParam(call.Common().Args[1], ck.Params[1], 0) {
					okCK = true
					return
				}
			}
			otherRet = c.Pos(instrPos(ret)) + ": " + ret.Results[0].String()
		}
	})
	r.Check(okCK && otherRet == "", "C12.R1", ssaFuncName(ck), "CompareKeys(a,b) = Cmp(a.Key, b.Key) on every path", c.Pos(ck.Pos()),
		"the large map's key search has a path that does not return Cmp(a.Key, b.Key) ("+otherRet+"): the large and the small representation (which calls Cmp) can then disagree on whether two keys are the same key, or on their order")
}

// tokenTypeNames maps token.Type constant values to their names.
func (c *Ctx) tokenTypeNames() map[int64]string {
	p := c.P("token")
	tt := c.TypeNamed("token", "Type")
	res := map[int64]string{}
	for _, name := range p.Types.Scope().Names() {
		k, ok := p.Types.Scope().Lookup(name).(*types.Const)
		if !ok || !types.Identical(k.Type(), tt) {
			continue
		}
		if v, ok := constant.Int64Val(k.Val()); ok {
			res[v] = name
		}
	}
	return res
}

func init() {
	register("C12", &propDef{
		explain: "Structural rules on the comparator and all its users: every operator/min/max/sort/key-search delegates to object.Cmp with operands in order and interprets the result by a predicate whose truth set on {-1,0,1} is the expected one (evaluated exhaustively on that 3-point domain); every return of Cmp is confined to {-1,0,1}; operand roles are never mixed and one-sided comparisons are mirrored (antisymmetry by construction); no lossy numeric conversion feeds a comparison; explicit panic arms are only for tags no program value can carry; Equals = TypeEqual && Cmp==0. Transitivity as such is not decided: it follows from these for every arm except the mixed int/float one, which R3 reports. Also: helpers whose result Cmp returns are followed (three-valued returns, negation accepted), and a float-to-integer conversion inside the comparator must be dominated by -2^63 <= f < 2^63 with a strict upper bound. Shares C11.R2 (SmallMap.get is the other user of the order).",
		assume:  []string{"cmp.Compare is a total order on its operand type (NaN ordered first, by its contract)", "the justification table for panic arms (REFERENCE/REGISTER via Value(), RETURN via C01.R7); a MACRO arm in the panic list is a violation: macro objects are visible as values inside macro bodies"},
		run:     runC12,
	})
}

// orderingThreshold: for the arm (block tb) that handles one ordering operator, the call of object.Cmp it
// relies on and the one comparison of its result that belongs to that operator. The arm may do both itself,
// or hand (operator, left, right) to a helper that calls Cmp once and picks the threshold by operator.
func (c *Ctx) orderingThreshold(fn *ssa.Function, tb *ssa.BasicBlock, op, left, right ssa.Value, tok int64, cmpFn *types.Func, depth int) (*ssa.Call, ssa.Value) {
	for _, in := range tb.Instrs {
		if cl, ok := in.(*ssa.Call); ok && isCallTo(cl, cmpFn) {
			uses := cmpUses(cl)
			if len(uses) == 1 {
				return cl, uses[0]
			}
			return cl, nil
		}
	}
	if depth > 1 {
		return nil, nil
	}
	// a helper
	for _, in := range tb.Instrs {
		hc, ok := in.(*ssa.Call)
		if !ok {
			continue
		}
		callee := hc.Common().StaticCallee()
		if callee == nil || !isModuleSSA(callee) || callee.Blocks == nil {
			continue
		}
		opIdx := -1
		for i, a := range hc.Common().Args {
			if a == op {
				opIdx = i
			}
		}
		if opIdx < 0 || opIdx >= len(callee.Params) {
			continue
		}
		hop := callee.Params[opIdx]
		// the helper's single Cmp call and, in the arm for this operator, the comparison of its result
		var cmpCall *ssa.Call
		for _, ci := range callsIn(callee, cmpFn) {
			if cl, ok := ci.(*ssa.Call); ok {
				cmpCall = cl
			}
		}
		if cmpCall == nil {
			continue
		}
		for _, b := range callee.Blocks {
			ifi, ok := b.Instrs[len(b.Instrs)-1].(*ssa.If)
			if !ok {
				continue
			}
			bin, ok := ifi.Cond.(*ssa.BinOp)
			if !ok || bin.Op != token.EQL || bin.X != ssa.Value(hop) {
				continue
			}
			if k, ok := constInt(bin.Y); !ok || k != tok {
				continue
			}
			arm := b.Succs[0]
			var inArm []ssa.Value
			for _, u := range cmpUses(cmpCall) {
				ub := u.(ssa.Instruction).Block()
				if ub == arm || (len(arm.Preds) == 1 && arm.Dominates(ub)) {
					inArm = append(inArm, u)
				}
			}
			if len(inArm) == 1 {
				return cmpCall, inArm[0]
			}
			return cmpCall, nil
		}
		return cmpCall, nil
	}
	return nil, nil
}

// sameArgOrigin: argument a of a Cmp call is the value want of the operator function, directly or as the
// parameter of the helper that was handed want in the same position.
func (c *Ctx) sameArgOrigin(a ssa.Value, want ssa.Value, call *ssa.Call) bool {
	if a == want {
		return true
	}
	p, ok := a.(*ssa.Parameter)
	if !ok {
		return false
	}
	sites, ok := c.argsAtCallSites(p)
	if !ok || len(sites) == 0 {
		return false
	}
	for _, s := range sites {
		if s.v != want {
			return false
		}
	}
	return true
}

// checkFloatToIntGuards: every float -> integer conversion in fns is dominated by -2^63 <= f < 2^63 (strict upper
// bound: float64(math.MaxInt64) is 2^63). Returns the number of conversions found.
func (c *Ctx) checkFloatToIntGuards(r *Report, rule string, fns []*ssa.Function, consequence string) int {
	isF2I := func(in ssa.Instruction) (*ssa.Convert, bool) {
		cv, ok := in.(*ssa.Convert)
		if !ok {
			return nil, false
		}
		from, ok1 := cv.X.Type().Underlying().(*types.Basic)
		to, ok2 := cv.Type().Underlying().(*types.Basic)
		if !ok1 || !ok2 || from.Info()&types.IsFloat == 0 || to.Info()&types.IsInteger == 0 {
			return nil, false
		}
		return cv, true
	}
	two63 := constant.MakeFloat64(9223372036854775808.0)
	n := 0
	for _, fn := range fns {
		eachInstr(fn, func(in ssa.Instruction) {
			cv, ok := isF2I(in)
			if !ok {
				return
			}
			n++
			upper, lower := false, false
			for _, cc := range controlling(cv.Block()) {
				bin, ok := cc.Cond.(*ssa.BinOp)
				if !ok {
					continue
				}
				op, x, y := bin.Op, bin.X, bin.Y
				if kx, isK := x.(*ssa.Const); isK && kx.Value != nil { // const OP v  ->  v OP' const
					x, y = y, x
					op = map[token.Token]token.Token{token.LSS: token.GTR, token.LEQ: token.GEQ, token.GTR: token.LSS, token.GEQ: token.LEQ}[op]
				}
				k, isK := y.(*ssa.Const)
				if !isK || k.Value == nil || x != cv.X {
					continue
				}
				if cc.Edge == 1 { // condition false
					op = map[token.Token]token.Token{token.LSS: token.GEQ, token.LEQ: token.GTR, token.GTR: token.LEQ, token.GEQ: token.LSS}[op]
				}
				kv := constant.ToFloat(k.Value)
				if kv.Kind() != constant.Float && kv.Kind() != constant.Int {
					continue
				}
				switch op {
				case token.LSS:
					if constant.Compare(kv, token.LEQ, two63) {
						upper = true
					}
				case token.LEQ:
					if constant.Compare(kv, token.LSS, two63) {
						upper = true
					}
				case token.GEQ, token.GTR:
					if constant.Compare(kv, token.GEQ, constant.UnaryOp(token.SUB, two63, 0)) {
						lower = true
					}
				}
			}
			r.Check(upper && lower, rule, ssaFuncName(fn), fmt.Sprintf("float -> integer conversion #%d is guarded by -2^63 <= f < 2^63", n), c.Pos(cv.Pos()),
				fmt.Sprintf("the converted float is not confined to the representable range on this path (lower bound %v, strict upper bound %v; note float64(math.MaxInt64) is 2^63, so `f <= math.MaxInt64` admits 2^63): "+consequence, lower, upper))
		})
	}
	return n
}
