package main

// regerr: rule C05.R11, no failure is specific to the register representation.
//
// A name is held in a register only as an optimisation (integer parameters and loop variables); whatever
// the program does with it must also work, or fail, the same way when it is an ordinary variable. An error
// created in an arm that is only entered for the REGISTER token or the REGISTER object tag has no
// counterpart without registers (the variable arm goes through Environment.CreateOrSet, which takes any
// value): "register assignment of non integer" for func half(n){n=n/2.0; n}; half(3).

import (
	"go/token"
	"go/types"
	"strings"

	"golang.org/x/tools/go/ssa"
)

func (c *Ctx) checkNoRegisterOnlyErrors(r *Report, rule string) {
	tokT := c.TypeNamed("token", "Type")
	objT := c.TypeNamed("object", "Type")
	tokReg, _ := constInt64(c.Const("token", "REGISTER"))
	objReg := c.tagConst("REGISTER")
	errFns := map[*types.Func]bool{
		c.Fn("eval", "State.NewError"): true,
		c.Fn("eval", "State.Errorf"):   true,
		c.Fn("eval", "State.Error"):    true,
	}
	isRegisterArm := func(cc ctrlCond) bool {
		bin, ok := cc.Cond.(*ssa.BinOp)
		if !ok || bin.Op != token.EQL || cc.Edge != 0 {
			return false
		}
		k, ok := constInt(bin.Y)
		if !ok {
			return false
		}
		return (types.Identical(bin.X.Type(), tokT) && k == tokReg) || (types.Identical(bin.X.Type(), objT) && k == objReg)
	}
	arms, n := 0, 0
	for _, fn := range c.ModuleSSAFuncs() {
		top := fn
		for top.Parent() != nil {
			top = top.Parent()
		}
		if top.Pkg == nil || shortPkg(top.Pkg.Pkg) != "eval" {
			continue
		}
		fname := ssaFuncName(fn)
		seenArm := map[*ssa.If]bool{}
		k := 0
		for _, b := range fn.Blocks {
			inArm := false
			for _, cc := range controlling(b) {
				if isRegisterArm(cc) {
					inArm = true
					if !seenArm[cc.If] {
						seenArm[cc.If] = true
						arms++
					}
				}
			}
			if !inArm {
				continue
			}
			for _, in := range b.Instrs {
				call, ok := in.(*ssa.Call)
				if !ok {
					continue
				}
				obj := calleeObj(call)
				if obj == nil || !errFns[obj] {
					continue
				}
				n++
				k++
				desc := "error created in a register-only arm"
				if k > 1 {
					desc += " #" + itoa(k)
				}
				r.Fail(rule, fname, desc, c.Pos(call.Pos()), "an error is created where only the REGISTER representation of a name leads: the same program without registers (or with a ninth integer parameter) does not fail here, so the optimisation is observable")
			}
		}
	}
	if arms < 5 {
		r.Undecided("%s: only %d arms selected by the REGISTER token / tag found in package eval", rule, arms)
	}
	if n == 0 {
		r.Ok(rule, "eval", "no error is created in a register-only arm", "")
	}
	r.Note("%s: %d register-only arms examined", rule, arms)
}

// checkRegisterArmBindsNothing: rule C05.R14.
//
// Once a name has a register, the body reads the register: in evalAssignment's REGISTER arm (the left side is
// the *Register node) the value goes into the register and nowhere else. A binding call there (`:=` "creating
// the variable too") writes a shadow variable that nothing reads, and the register keeps the old value:
// func f(n){ n := n + 1; n } is 1 with registers and 2 without.
func (c *Ctx) checkRegisterArmBindsNothing(r *Report, rule string) {
	fn := c.SSAFn(c.Fn("eval", "State.evalAssignment"))
	regK, _ := constInt64(c.Const("token", "REGISTER"))
	binders := []*types.Func{c.Fn("object", "Environment.CreateOrSet"), c.Fn("object", "Environment.Set"), c.Fn("object", "Environment.SetNoChecks")}
	inArm := func(b *ssa.BasicBlock) bool {
		for _, cc := range controlling(b) {
			bin, ok := cc.Cond.(*ssa.BinOp)
			if !ok || bin.Op != token.EQL || cc.Edge != 0 {
				continue
			}
			if k, ok := constInt(bin.Y); ok && k == regK {
				return true
			}
		}
		return false
	}
	arm := 0
	var bad []string
	for _, b := range fn.Blocks {
		if !inArm(b) {
			continue
		}
		arm++
		for _, in := range b.Instrs {
			if isCallTo(in, binders...) {
				bad = append(bad, c.Pos(in.Pos()))
			}
		}
	}
	if arm == 0 {
		r.Undecided("%s: the REGISTER arm of evalAssignment was not found", rule)
		return
	}
	r.Check(len(bad) == 0, rule, ssaFuncName(fn), "the REGISTER arm of an assignment binds no variable", c.Pos(fn.Pos()),
		"an assignment whose left side is a register also makes a binding call ("+strings.Join(bad, ", ")+"): the body was rewritten to read the register, so the new variable is never read and the register keeps its old value (func f(n){ n := n + 1; n }; f(1) is 1 with registers, 2 without)")
}

// checkNoRegisterForRefusedNames: rule C05.R15.
//
// CreateOrSet refuses two kinds of names: constants that are bound (C19) and the names of extension functions.
// A name that gets a register never reaches CreateOrSet, so the refusal would depend on the register mode:
// every call of setupRegister / MakeRegister outside the wrapper is on the false edge of
// object.IsExtraFunction(name) as well (C19.R4 checks the Constant(name) half).
func (c *Ctx) checkNoRegisterForRefusedNames(r *Report, rule string) {
	makeReg := c.Fn("object", "Environment.MakeRegister")
	setup := c.Fn("eval", "setupRegister")
	isExtra := c.Fn("object", "IsExtraFunction")
	n := 0
	for _, fn := range c.ModuleSSAFuncs() {
		for _, call := range callsIn(fn, setup, makeReg) {
			if fn.Object() == types.Object(setup) {
				continue // the wrapper: its callers are checked
			}
			n++
			nameArg := call.Common().Args[1]
			ok := c.testedFalse(controlling(call.Block()), isExtra, nameArg)
			r.Check(ok, rule, ssaFuncName(fn), "register bound to a name only if !IsExtraFunction(name)", c.Pos(call.Pos()),
				"an integer parameter or loop variable named like an extension function becomes a register without the test CreateOrSet makes: func f(sin){1}; f(3) is 1 with registers and `attempt to change internal function sin` without")
		}
	}
	if n < 2 {
		r.Undecided("%s: only %d register set-ups found", rule, n)
	}
}
