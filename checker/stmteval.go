package main

// stmteval: evaluates the body of a `for i, v := range s` loop whose statements are only
// if / continue / return <const> over comparisons of i and v with constants, for concrete
// (i, v). Used to decide character-class predicates written as loops (object.Constant).

import (
	"go/ast"
	"go/constant"
	"go/token"
	"go/types"
)

type loopOutcome int

const (
	loFall loopOutcome = iota - 1 // statement list ended without continue/return
	loNext                        // continue: character accepted
	loRetTrue
	loRetFalse
	loUnknown
)

func evalLoopBody(info *types.Info, stmts []ast.Stmt, env map[types.Object]int64) loopOutcome {
	for _, s := range stmts {
		switch x := s.(type) {
		case *ast.IfStmt:
			if x.Init != nil || x.Else != nil {
				return loUnknown
			}
			v, ok := evalIntBool(info, x.Cond, env)
			if !ok {
				return loUnknown
			}
			if v {
				o := evalLoopBody(info, x.Body.List, env)
				if o != loFall {
					return o
				}
				// body fell through without continue/return: go on after the if
			}
		case *ast.BranchStmt:
			if x.Tok == token.CONTINUE {
				return loNext
			}
			return loUnknown
		case *ast.ReturnStmt:
			if len(x.Results) != 1 {
				return loUnknown
			}
			tv, ok := info.Types[x.Results[0]]
			if !ok || tv.Value == nil || tv.Value.Kind() != constant.Bool {
				return loUnknown
			}
			if constant.BoolVal(tv.Value) {
				return loRetTrue
			}
			return loRetFalse
		default:
			return loUnknown
		}
	}
	return loFall
}

func evalIntBool(info *types.Info, e ast.Expr, env map[types.Object]int64) (bool, bool) {
	switch x := e.(type) {
	case *ast.ParenExpr:
		return evalIntBool(info, x.X, env)
	case *ast.UnaryExpr:
		if x.Op == token.NOT {
			v, ok := evalIntBool(info, x.X, env)
			return !v, ok
		}
	case *ast.BinaryExpr:
		switch x.Op {
		case token.LAND:
			l, ok := evalIntBool(info, x.X, env)
			if !ok {
				return false, false
			}
			if !l {
				return false, true
			}
			return evalIntBool(info, x.Y, env)
		case token.LOR:
			l, ok := evalIntBool(info, x.X, env)
			if !ok {
				return false, false
			}
			if l {
				return true, true
			}
			return evalIntBool(info, x.Y, env)
		}
		l, ok1 := evalIntVal(info, x.X, env)
		r, ok2 := evalIntVal(info, x.Y, env)
		if !ok1 || !ok2 {
			return false, false
		}
		switch x.Op {
		case token.EQL:
			return l == r, true
		case token.NEQ:
			return l != r, true
		case token.LSS:
			return l < r, true
		case token.LEQ:
			return l <= r, true
		case token.GTR:
			return l > r, true
		case token.GEQ:
			return l >= r, true
		}
	}
	return false, false
}

func evalIntVal(info *types.Info, e ast.Expr, env map[types.Object]int64) (int64, bool) {
	if tv, ok := info.Types[e]; ok && tv.Value != nil && tv.Value.Kind() == constant.Int {
		return constant.Int64Val(tv.Value)
	}
	switch x := e.(type) {
	case *ast.ParenExpr:
		return evalIntVal(info, x.X, env)
	case *ast.Ident:
		if obj := info.Uses[x]; obj != nil {
			v, ok := env[obj]
			return v, ok
		}
	case *ast.BinaryExpr:
		l, ok1 := evalIntVal(info, x.X, env)
		r, ok2 := evalIntVal(info, x.Y, env)
		if !ok1 || !ok2 {
			return 0, false
		}
		switch x.Op {
		case token.ADD:
			return l + r, true
		case token.SUB:
			return l - r, true
		}
	case *ast.CallExpr:
		// len(<string parameter>): the length is kept in env under the parameter's object, negated space
		if id, ok := x.Fun.(*ast.Ident); ok && id.Name == "len" && len(x.Args) == 1 {
			if _, isBuiltin := info.Uses[id].(*types.Builtin); isBuiltin {
				if arg, ok := x.Args[0].(*ast.Ident); ok {
					if obj := info.Uses[arg]; obj != nil {
						if v, ok := env[lenKey{obj}]; ok {
							return v, true
						}
					}
				}
			}
		}
	}
	return 0, false
}

// lenKey: env key under which the length of a string parameter is kept.
type lenKey struct{ types.Object }

func (lenKey) Exported() bool { return false }

// evalStringPred: runs a predicate func(name string) bool on a concrete ASCII string. The body may be
//
//	x := <int expr over len(name) and constants> ...   (any number)
//	for i, v := range name { if / continue / return <bool const> }
//	return <bool const>
func (c *Ctx) evalStringPred(f *types.Func, str string) (res bool, ok bool) {
	fd := c.Decl(f)
	if fd == nil || fd.Body == nil || fd.Type.Params == nil || fd.Type.Params.NumFields() != 1 || len(fd.Type.Params.List[0].Names) != 1 {
		return false, false
	}
	info := c.InfoFor(fd)
	param := info.Defs[fd.Type.Params.List[0].Names[0]]
	env := map[types.Object]int64{lenKey{param}: int64(len(str))}
	for _, st := range fd.Body.List {
		switch x := st.(type) {
		case *ast.AssignStmt:
			if x.Tok != token.DEFINE || len(x.Lhs) != 1 || len(x.Rhs) != 1 {
				return false, false
			}
			id, isID := x.Lhs[0].(*ast.Ident)
			if !isID {
				return false, false
			}
			v, okv := evalIntVal(info, x.Rhs[0], env)
			if !okv {
				return false, false
			}
			env[info.Defs[id]] = v
		case *ast.RangeStmt:
			if id, isID := x.X.(*ast.Ident); !isID || info.Uses[id] != param {
				return false, false
			}
			var kobj, vobj types.Object
			if ki, ok := x.Key.(*ast.Ident); ok && ki.Name != "_" {
				kobj = info.Defs[ki]
			}
			if x.Value != nil {
				if vi, ok := x.Value.(*ast.Ident); ok && vi.Name != "_" {
					vobj = info.Defs[vi]
				}
			}
			for i := 0; i < len(str); i++ {
				if str[i] >= 0x80 {
					return false, false // ASCII only: bytes and runes coincide
				}
				if kobj != nil {
					env[kobj] = int64(i)
				}
				if vobj != nil {
					env[vobj] = int64(str[i])
				}
				switch evalLoopBody(info, x.Body.List, env) {
				case loNext, loFall:
				case loRetTrue:
					return true, true
				case loRetFalse:
					return false, true
				default:
					return false, false
				}
			}
		case *ast.ReturnStmt:
			if len(x.Results) != 1 {
				return false, false
			}
			tv, okk := info.Types[x.Results[0]]
			if !okk || tv.Value == nil || tv.Value.Kind() != constant.Bool {
				return false, false
			}
			return constant.BoolVal(tv.Value), true
		default:
			return false, false
		}
	}
	return false, false
}

// rangeLoopClasses: for a function whose body is `for i, v := range <param> { ... } return true`,
// the set of (position class, rune) pairs that are accepted (do not make the function return false).
// posClass 0 = first character, 1 = later character.
func (c *Ctx) rangeLoopAccepts(f *types.Func) (acc [2][128]bool, ok bool) {
	fd := c.Decl(f)
	if fd == nil || fd.Body == nil || len(fd.Body.List) != 2 {
		return acc, false
	}
	rs, isRange := fd.Body.List[0].(*ast.RangeStmt)
	ret, isRet := fd.Body.List[1].(*ast.ReturnStmt)
	if !isRange || !isRet || len(ret.Results) != 1 {
		return acc, false
	}
	info := c.InfoFor(fd)
	if tv, okk := info.Types[ret.Results[0]]; !okk || tv.Value == nil || !constant.BoolVal(tv.Value) {
		return acc, false
	}
	ki, ok1 := rs.Key.(*ast.Ident)
	vi, ok2 := rs.Value.(*ast.Ident)
	if !ok1 || !ok2 {
		return acc, false
	}
	kobj, vobj := info.Defs[ki], info.Defs[vi]
	for pos := 0; pos < 2; pos++ {
		for r := 0; r < 128; r++ {
			o := evalLoopBody(info, rs.Body.List, map[types.Object]int64{kobj: int64(pos), vobj: int64(r)})
			switch o {
			case loNext, loFall:
				acc[pos][r] = true
			case loRetFalse:
				acc[pos][r] = false
			default:
				return acc, false
			}
		}
	}
	return acc, true
}
