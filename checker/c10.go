package main

import (
	"fmt"
	"go/types"
	"sort"
	"strings"

	"golang.org/x/tools/go/ssa"
)

func runC10(c *Ctx, r *Report) {
	r.Rule("C10.R1", "transient state is restored on the panic path: every field of eval.State that some function overwrites, re-enters the evaluator, and writes again (a swap around evaluation: scope, output writer, depth, pipe value) is reset by State.Reset, by EvalOne's recover block, or restored by a defer in that function")
	r.Rule("C10.R2", "transient state is restored on the error path: from the first write of such a field every path to a return passes the restoring write")
	r.Rule("C10.R4", "a reset is independent of what it discards: the value State.Reset writes into a field is not computed from any field that Reset itself rewrites (the session scope comes from a field set at creation, not from the current scope)")
	r.Rule("C10.R5", "recovery touches nothing else: every field State.Reset writes is one of the transient fields derived for R1 (swapped around evaluation); session state (macro store, cache, extensions, limits) is not reset by a failed input")
	r.Rule("C10.R7", "the running scope is put back: a method of the running State (Reset excepted) that stores into its env stores into it again on every path to a return")
	c.checkScopeWritesAreRestored(r, "C10.R7")
	r.Rule("C10.R6", "a timeout leaves nothing behind: the arm of evalInternal taken when the input's context has expired, and the functions of package eval it calls, store into no field of the State")
	c.checkExpiredContextWritesNothing(r, "C10.R6")
	r.Rule("C10.R3", "fresh context per input: EvalOne installs a new context and defers its cancel before evaluating (shared with C09.R5)")
	r.Rule("C04.R1", "(shared) failed calls leave nothing in the function cache: Cache.Set is confined to non-error results")
	r.Rule("C05.R1", "(shared) registers acquired on the session environment are released on every exit, including panics (defer)")

	stateT := c.TypeNamed("eval", "State")
	st := stateT.Underlying().(*types.Struct)
	evalI := c.Fn("eval", "State.evalInternal")
	evalE := c.Fn("eval", "State.Eval")
	// functions that (transitively, static calls) re-enter the evaluator
	reenters := map[*ssa.Function]bool{c.SSAFn(evalI): true, c.SSAFn(evalE): true}
	funcs := c.ModuleSSAFuncs()
	for changed := true; changed; {
		changed = false
		for _, fn := range funcs {
			if reenters[fn] {
				continue
			}
			eachInstr(fn, func(in ssa.Instruction) {
				if call, ok := in.(ssa.CallInstruction); ok {
					if sc := call.Common().StaticCallee(); sc != nil && reenters[sc] && !reenters[fn] {
						reenters[fn] = true
						changed = true
					}
				}
			})
		}
	}
	isReentry := func(in ssa.Instruction) bool {
		call, ok := in.(ssa.CallInstruction)
		if !ok {
			return false
		}
		sc := call.Common().StaticCallee()
		return sc != nil && reenters[sc]
	}
	// fields assigned by Reset / EvalOne's recover closure
	resetFields := map[string]string{}
	collect := func(fn *ssa.Function, where string) {
		eachInstr(fn, func(in ssa.Instruction) {
			if s, ok := in.(*ssa.Store); ok {
				if fa, ok := s.Addr.(*ssa.FieldAddr); ok {
					if n := namedStruct(fa.X.Type()); n != nil && n.Obj() == stateT.Obj() {
						resetFields[st.Field(fa.Field).Name()] = where
					}
				}
			}
		})
	}
	for _, rf := range c.resetFunctions() {
		collect(rf, "State.Reset")
	}
	evalOne := c.SSAFn(c.Fn("repl", "EvalOne"))
	eachInstr(evalOne, func(in ssa.Instruction) {
		if d, ok := in.(*ssa.Defer); ok {
			if mc, ok := d.Call.Value.(*ssa.MakeClosure); ok {
				if f, ok := mc.Fn.(*ssa.Function); ok {
					hasRecover := false
					eachInstr(f, func(x ssa.Instruction) {
						if call, ok := x.(*ssa.Call); ok {
							if bi, ok := call.Common().Value.(*ssa.Builtin); ok && bi.Name() == "recover" {
								hasRecover = true
							}
						}
					})
					if hasRecover {
						collect(f, "EvalOne recover block")
					}
				}
			}
		}
	})
	// R4: what a reset writes does not depend on the transient state it is discarding
	{
		resetFns := c.resetFunctions()
		nR4 := 0
		for _, rf := range resetFns {
			written := map[int]bool{}
			eachInstr(rf, func(in ssa.Instruction) {
				if s, ok := in.(*ssa.Store); ok {
					if fa, ok := s.Addr.(*ssa.FieldAddr); ok {
						if n := namedStruct(fa.X.Type()); n != nil && n.Obj() == stateT.Obj() {
							written[fa.Field] = true
						}
					}
				}
			})
			eachInstr(rf, func(in ssa.Instruction) {
				s, ok := in.(*ssa.Store)
				if !ok {
					return
				}
				fa, ok := s.Addr.(*ssa.FieldAddr)
				if !ok {
					return
				}
				if n := namedStruct(fa.X.Type()); n == nil || n.Obj() != stateT.Obj() {
					return
				}
				nR4++
				// backward slice of the stored value
				var dep []string
				seen := map[ssa.Value]bool{}
				var walk func(v ssa.Value)
				walk = func(v ssa.Value) {
					if v == nil || seen[v] {
						return
					}
					seen[v] = true
					if ld, ok := v.(*ssa.UnOp); ok {
						if lfa, ok := ld.X.(*ssa.FieldAddr); ok {
							if n := namedStruct(lfa.X.Type()); n != nil && n.Obj() == stateT.Obj() && written[lfa.Field] {
								dep = append(dep, st.Field(lfa.Field).Name())
							}
						}
					}
					if x, ok := v.(ssa.Instruction); ok {
						for _, op := range x.Operands(nil) {
							if *op != nil {
								walk(*op)
							}
						}
					}
				}
				walk(s.Val)
				sort.Strings(dep)
				r.Check(len(dep) == 0, "C10.R4", ssaFuncName(rf), "reset value of "+st.Field(fa.Field).Name()+" is independent of the discarded state", c.Pos(s.Pos()),
					fmt.Sprintf("the value written to %s is computed from %v, fields this very reset discards: after a panic they describe the failed evaluation (a scope deep inside a library function, whose chain of enclosing scopes need not end at the session's), so the failure leaves a trace", st.Field(fa.Field).Name(), dep))
			})
		}
		if nR4 < 3 {
			r.Undecided("C10.R4: only %d field writes found in State.Reset", nR4)
		}
	}
	// SetContext (called at the start of every input) re-initialises these
	collect(c.SSAFn(c.Fn("eval", "State.SetContext")), "SetContext (every input)")

	n := 0
	for _, fn := range funcs {
		if fn.Pkg == nil && fn.Parent() == nil {
			continue
		}
		top := fn
		for top.Parent() != nil {
			top = top.Parent()
		}
		if top.Pkg == nil {
			continue
		}
		pk := shortPkg(top.Pkg.Pkg)
		if pk != "eval" && pk != "extensions" {
			continue
		}
		// stores per field
		stores := map[int][]*ssa.Store{}
		eachInstr(fn, func(in ssa.Instruction) {
			if s, ok := in.(*ssa.Store); ok {
				if fa, ok := s.Addr.(*ssa.FieldAddr); ok {
					if nn := namedStruct(fa.X.Type()); nn != nil && nn.Obj() == stateT.Obj() {
						stores[fa.Field] = append(stores[fa.Field], s)
					}
				}
			}
		})
		var fields []int
		for f := range stores {
			fields = append(fields, f)
		}
		sort.Ints(fields)
		for _, f := range fields {
			ss := stores[f]
			if len(ss) < 2 {
				continue
			}
			// a swap: store A dominates a re-entry which dominates store B
			var first, second *ssa.Store
			for _, a := range ss {
				for _, b := range ss {
					if a == b {
						continue
					}
					eachInstr(fn, func(in ssa.Instruction) {
						if isReentry(in) && instrDominates(a, in) && instrDominates(in, b) {
							first, second = a, b
						}
					})
				}
			}
			if first == nil {
				continue
			}
			n++
			fname := st.Field(f).Name()
			desc := "State." + fname + " is swapped around evaluation"
			where, ok := resetFields[fname]
			// or the restore is deferred
			if !ok {
				eachInstr(fn, func(in ssa.Instruction) {
					if d, isD := in.(*ssa.Defer); isD {
						if mc, isMC := d.Call.Value.(*ssa.MakeClosure); isMC {
							if cf, isF := mc.Fn.(*ssa.Function); isF {
								eachInstr(cf, func(x ssa.Instruction) {
									if s2, isS := x.(*ssa.Store); isS {
										if fa, isFA := s2.Addr.(*ssa.FieldAddr); isFA && fa.Field == f {
											ok, where = true, "deferred restore"
										}
									}
								})
							}
						}
					}
				})
			}
			if ok {
				r.OkWhy("C10.R1", ssaFuncName(fn), desc+" and restored after a panic", c.Pos(first.Pos()), "restored by "+where)
			} else {
				r.Fail("C10.R1", ssaFuncName(fn), desc+" and restored after a panic", c.Pos(first.Pos()),
					"if evaluation panics (depth or memory guard, runtime error) between the two writes, nothing puts State."+fname+" back: the session keeps the inner value (e.g. output goes to a dropped buffer) for every later input")
			}
			// R2
			bad := mustPassBeforeExit(first, func(in ssa.Instruction) bool {
				s2, isS := in.(*ssa.Store)
				if !isS || s2 == first {
					return false
				}
				fa, isFA := s2.Addr.(*ssa.FieldAddr)
				return isFA && fa.Field == f && namedStruct(fa.X.Type()) != nil && namedStruct(fa.X.Type()).Obj() == stateT.Obj()
			})
			if bad != nil {
				r.Fail("C10.R2", ssaFuncName(fn), "State."+fname+" is restored on every return path", c.Pos(first.Pos()),
					"a return between the swap and the restore leaves State."+fname+" changed after an ordinary error", c.tracePath(bad)...)
			} else {
				r.Ok("C10.R2", ssaFuncName(fn), "State."+fname+" is restored on every return path", c.Pos(first.Pos()))
			}
			_ = second
		}
	}
	if n < 3 {
		r.Undecided("C10.R1: only %d swap-around-evaluation patterns found (expected env, Out, depth, PipeVal)", n)
	}
	// R5: recovery puts the transient fields back and touches nothing else
	{
		transient := map[string]bool{}
		for _, o := range r.Obls {
			if o.Rule == "C10.R1" && strings.HasPrefix(o.Desc, "State.") {
				transient[strings.TrimPrefix(strings.SplitN(o.Desc, " ", 2)[0], "State.")] = true
			}
		}
		n5 := 0
		for _, rf := range c.resetFunctions() {
			eachInstr(rf, func(in ssa.Instruction) {
				s, ok := in.(*ssa.Store)
				if !ok {
					return
				}
				fa, ok := s.Addr.(*ssa.FieldAddr)
				if !ok {
					return
				}
				if nn := namedStruct(fa.X.Type()); nn == nil || nn.Obj() != stateT.Obj() {
					return
				}
				n5++
				fname := st.Field(fa.Field).Name()
				r.Check(transient[fname], "C10.R5", ssaFuncName(rf), "Reset writes the transient field "+fname+" only", c.Pos(s.Pos()),
					"State.Reset (run after every recovered panic) overwrites State."+fname+", which no evaluator function swaps around evaluation: it is session state (definitions, macros, caches, configuration), and a failed input then erases it for every later input")
			})
		}
		if n5 < 3 {
			r.Undecided("C10.R5: only %d field writes in State.Reset", n5)
		}
	}

	// R3 (shared with C09.R5)
	{
		sub := NewReport("C09", r.Tier, c)
		sub.Sub = true
		runC09(c, sub)
		for _, o := range sub.Obls {
			if o.Rule != "C09.R5" {
				continue
			}
			if o.status == FAIL {
				r.Fail("C10.R3", o.Func, o.Desc, o.Pos, o.Reason)
			} else {
				r.Ok("C10.R3", o.Func, o.Desc, o.Pos)
			}
		}
	}
	// shared rules
	for _, sh := range []struct {
		prop, rule string
		run        func(*Ctx, *Report)
	}{{"C04", "C04.R1", runC04}, {"C05", "C05.R1", runC05}} {
		sub := NewReport(sh.prop, r.Tier, c)
		sub.Sub = true
		sh.run(c, sub)
		for _, o := range sub.Obls {
			if o.Rule != sh.rule {
				continue
			}
			if o.status == FAIL {
				r.Fail(sh.rule, o.Func, o.Desc, o.Pos, o.Reason, o.Path...)
			} else {
				r.Ok(sh.rule, o.Func, o.Desc, o.Pos)
			}
		}
	}
	r.Floor("C04.R1", 5)
	r.Floor("C05.R1", 2)
	_ = fmt.Sprint
}

func init() {
	register("C10", &propDef{
		explain: "Restoration rules for session state, decided on code shape: the fields of eval.State that are swapped around a re-entry into the evaluator are derived (scope, output writer, depth, pipe value) and each must be reset by State.Reset / EvalOne's recover block / a defer (panic path) and restored on every return path (error path); registers on the session environment are released on all exits including panics; failed calls are never stored in the function cache; every input gets a fresh context whose cancel is deferred. Equality of later outputs with a history in which the failing input never happened is not decided. Also: State.Reset writes transient fields only, and what it writes is not computed from the fields it discards.",
		assume:  []string{"side effects completed before the failure (assignments to globals, files) are outside the property by its own wording", "extension callbacks that replace s.Context/s.Cancel (read, run) are re-initialised by SetContext at the next input"},
		run:     runC10,
	})
}

// resetFunctions: State.Reset and the methods of *State it calls (statically, transitively): the field writes
// of a reset may be spread over helpers.
func (c *Ctx) resetFunctions() []*ssa.Function {
	stateT := c.TypeNamed("eval", "State")
	root := c.SSAFn(c.Fn("eval", "State.Reset"))
	seen := map[*ssa.Function]bool{root: true}
	res := []*ssa.Function{root}
	for i := 0; i < len(res); i++ {
		eachInstr(res[i], func(in ssa.Instruction) {
			call, ok := in.(ssa.CallInstruction)
			if !ok {
				return
			}
			sc := call.Common().StaticCallee()
			if sc == nil || seen[sc] || sc.Signature.Recv() == nil || sc.Blocks == nil {
				return
			}
			if n := namedStruct(sc.Signature.Recv().Type()); n == nil || n.Obj() != stateT.Obj() {
				return
			}
			// only helpers called on the same receiver
			if len(call.Common().Args) == 0 || call.Common().Args[0] != ssa.Value(res[i].Params[0]) {
				return
			}
			seen[sc] = true
			res = append(res, sc)
		})
	}
	return res
}

// checkExpiredContextWritesNothing: rule C10.R6.
//
// A timeout must not leave anything behind for the next input. In evalInternal the arm taken when the input's
// context has expired (the true edge of `s.Context.Err() != nil`) builds the error and returns: neither that arm
// nor the functions of package eval it calls (transitively, three levels) store into a field of the State. A
// value remembered there (an error built once and reused) is what a later, different, timeout would report.
func (c *Ctx) checkExpiredContextWritesNothing(r *Report, rule string) {
	stateT := c.TypeNamed("eval", "State")
	ev := c.SSAFn(c.Fn("eval", "State.evalInternal"))
	arm, _ := c.expiredContextArm(ev)
	if arm == nil {
		r.Undecided("%s: the expired-context test of evalInternal was not found", rule)
		return
	}
	inArm := func(b *ssa.BasicBlock) bool { return b == arm || (len(arm.Preds) == 1 && arm.Dominates(b)) }
	stateStore := func(in ssa.Instruction) string {
		st, ok := in.(*ssa.Store)
		if !ok {
			return ""
		}
		fa, ok := st.Addr.(*ssa.FieldAddr)
		if !ok {
			return ""
		}
		if n := namedStruct(fa.X.Type()); n != nil && n.Obj() == stateT.Obj() {
			return n.Underlying().(*types.Struct).Field(fa.Field).Name()
		}
		return ""
	}
	var writes []string
	seen := map[*ssa.Function]bool{}
	var visit func(fn *ssa.Function, depth int)
	visit = func(fn *ssa.Function, depth int) {
		if seen[fn] || depth > 3 {
			return
		}
		seen[fn] = true
		eachInstr(fn, func(in ssa.Instruction) {
			if f := stateStore(in); f != "" {
				writes = append(writes, c.Pos(in.Pos())+": "+ssaFuncName(fn)+" writes State."+f)
			}
			if call, ok := in.(ssa.CallInstruction); ok {
				if h := call.Common().StaticCallee(); h != nil && h.Pkg == ev.Pkg && len(h.Blocks) > 0 {
					visit(h, depth+1)
				}
			}
		})
	}
	for _, b := range ev.Blocks {
		if !inArm(b) {
			continue
		}
		for _, in := range b.Instrs {
			if f := stateStore(in); f != "" {
				writes = append(writes, c.Pos(in.Pos())+": evalInternal writes State."+f)
			}
			if call, ok := in.(ssa.CallInstruction); ok {
				if h := call.Common().StaticCallee(); h != nil && h.Pkg == ev.Pkg && len(h.Blocks) > 0 {
					visit(h, 1)
				}
			}
		}
	}
	sort.Strings(writes)
	r.Check(len(writes) == 0, rule, ssaFuncName(ev), "the expired-context arm stores nothing in the State", c.Pos(arm.Instrs[0].Pos()),
		"reporting a timeout writes a field of the long-lived State ("+strings.Join(writes, "; ")+"): what one failing input leaves there is read by the next one (an error built once is what every later timeout reports, stack included)")
}

// checkScopeWritesAreRestored: rule C10.R7.
//
// The running scope (State.env) is session state: an input that fails must leave it where it was. A method of
// the running State that stores into its own env (applyFunction entering the callee's frame) stores into it
// again on every path to a return; Reset (the recovery itself) and stores into a state created in the same
// function (the macro state) are not concerned. A store "for the error message" on an error path that returns
// without a restore leaves the session inside the callee's frame, whatever the caller was about to save.
func (c *Ctx) checkScopeWritesAreRestored(r *Report, rule string) {
	stateT := c.TypeNamed("eval", "State")
	resets := map[*ssa.Function]bool{}
	for _, f := range c.resetFunctions() {
		resets[f] = true
	}
	n := 0
	for _, fn := range c.ModuleSSAFuncs() {
		if fn.Pkg == nil || shortPkg(fn.Pkg.Pkg) != "eval" || resets[fn] || fn.Signature.Recv() == nil || len(fn.Params) == 0 {
			continue
		}
		isEnvStore := func(in ssa.Instruction) bool {
			st, ok := in.(*ssa.Store)
			if !ok || !isFieldAddrOf(st.Addr, stateT, "env") {
				return false
			}
			return st.Addr.(*ssa.FieldAddr).X == ssa.Value(fn.Params[0]) // the running state itself
		}
		k := 0
		eachInstr(fn, func(in ssa.Instruction) {
			if !isEnvStore(in) {
				return
			}
			// a restoring store has nothing to be restored after it: only stores that some later store can follow, or
			// that reach a return without one, matter. Check: from this store, every path to a return passes another env store,
			// unless this store itself is preceded by one on every path from entry (it is the restore).
			if mustPassFromEntryTo(fn, func(x ssa.Instruction) bool { return x != in && isEnvStore(x) }, in) {
				return // the restore of an earlier write
			}
			n++
			k++
			bad := mustPassBeforeExit(in, func(x ssa.Instruction) bool { return x != in && isEnvStore(x) })
			desc := "a write of the running scope is followed by its restore on every path"
			if k > 1 {
				desc += " #" + itoa(k)
			}
			if bad != nil {
				r.Fail(rule, ssaFuncName(fn), desc, c.Pos(in.Pos()), "State.env is overwritten and a path returns without writing it again: a failing input (an error return is enough, no panic needed) leaves the session inside another frame - `self`, info.stack and the scope new globals land in differ for every later input", c.tracePath(bad)...)
			} else {
				r.Ok(rule, ssaFuncName(fn), desc, c.Pos(in.Pos()))
			}
		})
	}
	if n == 0 {
		r.Undecided("%s: no write of State.env by a method of the running state found (applyFunction expected)", rule)
	}
}
