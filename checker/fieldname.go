package main

import (
	"fmt"
	"go/ast"
	"go/token"
	"go/types"
	"sort"
	"strings"
)

// checkFieldNameTests: rule C05.R16. The name after a dot (m.i) is a field name, not a variable, but
// the register pass rewrites every identifier node that is named like a register-held parameter or
// loop variable, field names included, so the node arrives as IDENT without registers and as
// REGISTER with them. Every test that accepts a field name - recognised as a test of one token type
// against both STRING and IDENT, as a conjunction of !=, a disjunction of == or a case list - must
// therefore accept REGISTER as well, or `m.i`/`del(m.i)` fail only when registers are on.
func (c *Ctx) checkFieldNameTests(r *Report, rule string) {
	tokPkg := c.P("token").Types
	constName := func(info *types.Info, e ast.Expr) string {
		var id *ast.Ident
		switch x := ast.Unparen(e).(type) {
		case *ast.Ident:
			id = x
		case *ast.SelectorExpr:
			id = x.Sel
		default:
			return ""
		}
		if k, ok := info.Uses[id].(*types.Const); ok && k.Pkg() == tokPkg {
			return k.Name()
		}
		return ""
	}
	for _, p := range c.Mod {
		if p.Types == tokPkg || p.Types == c.P("parser").Types || p.Types == c.P("lexer").Types {
			continue // the front end runs before the register pass: its nodes are never REGISTER
		}
		info := p.TypesInfo
		for _, file := range p.Syntax {
			for _, d := range file.Decls {
				fd, ok := d.(*ast.FuncDecl)
				if !ok || fd.Body == nil {
					continue
				}
				fname := fd.Name.Name
				if f, ok := info.Defs[fd.Name].(*types.Func); ok {
					fname = funcName(f)
				}
				seen := map[ast.Node]bool{}
				k := 0
				verdict := func(set map[string]bool, pos token.Pos, form string) {
					if !set["STRING"] || !set["IDENT"] {
						return
					}
					var names []string
					for n := range set {
						names = append(names, n)
					}
					sort.Strings(names)
					k++
					r.Check(set["REGISTER"], rule, fname, fmt.Sprintf("field-name test #%d (%s)", k, form), c.Pos(pos),
						"a field name is accepted as "+strings.Join(names, "/")+" but not as REGISTER: with registers on, a field named like a register-held parameter or loop variable is a REGISTER node and this test rejects it, without registers it is an IDENT and passes")
				}
				ast.Inspect(fd.Body, func(n ast.Node) bool {
					switch x := n.(type) {
					case *ast.BinaryExpr:
						if seen[x] || (x.Op != token.LAND && x.Op != token.LOR) {
							return true
						}
						want := token.NEQ
						if x.Op == token.LOR {
							want = token.EQL
						}
						set := map[string]bool{}
						var flat func(e ast.Expr)
						flat = func(e ast.Expr) {
							if b, ok := ast.Unparen(e).(*ast.BinaryExpr); ok {
								if b.Op == x.Op {
									seen[b] = true
									flat(b.X)
									flat(b.Y)
									return
								}
								if b.Op == want {
									if nm := constName(info, b.Y); nm != "" {
										set[nm] = true
									} else if nm := constName(info, b.X); nm != "" {
										set[nm] = true
									}
								}
							}
						}
						flat(x)
						verdict(set, x.Pos(), "chain of "+want.String())
					case *ast.CaseClause:
						set := map[string]bool{}
						for _, e := range x.List {
							if nm := constName(info, e); nm != "" {
								set[nm] = true
							}
						}
						verdict(set, x.Pos(), "case list")
					}
					return true
				})
			}
		}
	}
}
