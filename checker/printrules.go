package main

// printrules: two rules on ast.InfixExpression.PrettyPrint.
//
//	C02.R9  the parser is left associative (C01.R2: the right operand is parsed at the operator's own
//	        precedence), so the printer has to print the right operand under a strictly higher ambient
//	        precedence than the left one: some path from the print of Left to the print of Right raises
//	        PrintState.ExpressionPrecedence. With the same threshold for both operands a-(b-c) prints as
//	        a-b-c. (The raise is conditional: the same associative operator, 1+(2+3), keeps the plain form
//	        the pinned parser tests expect; that case changes the tree, not the meaning.)
//	C02.R10 an operand the parser may leave out (Right is nil for the open ended slice a[1:]) prints as
//	        nothing: on the edge where Right was found nil nothing is printed before the edges join.

import (
	"go/token"
	"strings"

	"golang.org/x/tools/go/ssa"
)

func (c *Ctx) checkInfixPrinter(r *Report) {
	infixT := c.TypeNamed("ast", "InfixExpression")
	psT := c.TypeNamed("ast", "PrintState")
	precIdx := fieldIndex(psT, "ExpressionPrecedence")
	leftIdx, rightIdx := fieldIndex(infixT, "Left"), fieldIndex(infixT, "Right")
	fn := c.SSAFn(c.Fn("ast", "InfixExpression.PrettyPrint"))
	if fn == nil || precIdx < 0 || leftIdx < 0 || rightIdx < 0 {
		r.Undecided("C02.R9: InfixExpression.PrettyPrint / Left / Right / ExpressionPrecedence not found")
		return
	}
	fname := ssaFuncName(fn)
	// loads of the receiver's Left / Right
	fieldOf := func(v ssa.Value) int {
		switch x := v.(type) {
		case *ssa.Field:
			if n := namedStruct(x.X.Type()); n != nil && n.Obj() == infixT.Obj() {
				return x.Field
			}
		case *ssa.UnOp:
			if fa, ok := x.X.(*ssa.FieldAddr); ok && x.Op == token.MUL {
				if n := namedStruct(fa.X.Type()); n != nil && n.Obj() == infixT.Obj() {
					return fa.Field
				}
			}
		}
		return -1
	}
	var leftPrint, rightPrint *ssa.Call
	eachInstr(fn, func(in ssa.Instruction) {
		call, ok := in.(*ssa.Call)
		if !ok || !call.Common().IsInvoke() || call.Common().Method.Name() != "PrettyPrint" {
			return
		}
		switch fieldOf(call.Common().Value) {
		case leftIdx:
			leftPrint = call
		case rightIdx:
			rightPrint = call
		}
	})
	if leftPrint == nil || rightPrint == nil {
		r.Undecided("C02.R9: the prints of Left and Right were not found in %s", fname)
		return
	}
	raised := false
	eachInstr(fn, func(in ssa.Instruction) {
		st, ok := in.(*ssa.Store)
		if !ok {
			return
		}
		fa, ok := st.Addr.(*ssa.FieldAddr)
		if !ok || fa.Field != precIdx || namedStruct(fa.X.Type()) == nil || namedStruct(fa.X.Type()).Obj() != psT.Obj() {
			return
		}
		add, ok := st.Val.(*ssa.BinOp)
		if !ok || add.Op != token.ADD {
			return
		}
		if k, ok := constInt(add.Y); !ok || k <= 0 {
			return
		}
		if reachesInstr(leftPrint, st) && reachesInstr(st, rightPrint) {
			raised = true
		}
	})
	r.Check(raised, "C02.R9", fname, "the right operand is printed under a higher ambient precedence than the left one", c.Pos(rightPrint.Pos()),
		"no path from the print of Left to the print of Right raises ExpressionPrecedence: both operands get parentheses under the same condition although the parser is left associative, so a-(b-c) is printed a-b-c and parses back as (a-b)-c")

	// R10: nothing printed on the Right == nil edge
	printFn := c.Fn("ast", "PrintState.Print")
	n := 0
	for _, b := range fn.Blocks {
		ifi, ok := b.Instrs[len(b.Instrs)-1].(*ssa.If)
		if !ok {
			continue
		}
		bin, ok := ifi.Cond.(*ssa.BinOp)
		if !ok || (bin.Op != token.EQL && bin.Op != token.NEQ) || !isNilConst(bin.Y) || fieldOf(bin.X) != rightIdx {
			continue
		}
		n++
		nilEdge := 0
		if bin.Op == token.NEQ {
			nilEdge = 1
		}
		succ := b.Succs[nilEdge]
		bad := ""
		for _, blk := range fn.Blocks {
			if !(len(succ.Preds) == 1 && (blk == succ || succ.Dominates(blk))) {
				continue
			}
			for _, in := range blk.Instrs {
				if call, ok := in.(*ssa.Call); ok && calleeObj(call) == printFn {
					bad = c.Pos(call.Pos())
				}
			}
		}
		r.Check(bad == "", "C02.R10", fname, "a missing right operand prints as nothing", c.Pos(ifi.Pos()),
			"something is printed where Right is nil ("+bad+"): the open ended slice a[1:] comes out as a[1:nil], which is another program (range index not integer)")
	}
	if n == 0 {
		r.Undecided("C02.R10: no nil test on InfixExpression.Right found in %s (the parser leaves it nil for a[1:])", fname)
	}
}

// checkSingleStatementAccess: rule C02.R11.
//
// A printer that takes one element of a statement list (the `else if` folding prints Alternative.Statements[0]
// instead of the block, the lambda printer looks at Body.Statements[0] to drop the braces) stands for the
// whole list only when the list has exactly that one element: in packages ast and object every
// constant-index access k into the Statements slice of an ast.Statements lies on the edge where
// len(of that slice) == k+1. With "non-empty" instead of "exactly one", everything after the first statement
// is silently dropped from the formatted program (else { if b {2}; c } printed as else if b {2}).
func (c *Ctx) checkSingleStatementAccess(r *Report, rule string) {
	stmtsT := c.TypeNamed("ast", "Statements")
	fidx := fieldIndex(stmtsT, "Statements")
	if fidx < 0 {
		r.Undecided("%s: ast.Statements.Statements not found", rule)
		return
	}
	isStmtsSlice := func(v ssa.Value) bool {
		switch x := v.(type) {
		case *ssa.UnOp:
			if fa, ok := x.X.(*ssa.FieldAddr); ok && x.Op == token.MUL {
				n := namedStruct(fa.X.Type())
				return n != nil && n.Obj() == stmtsT.Obj() && fa.Field == fidx
			}
		case *ssa.Field:
			n := namedStruct(x.X.Type())
			return n != nil && n.Obj() == stmtsT.Obj() && x.Field == fidx
		}
		return false
	}
	n := 0
	for _, fn := range c.ModuleSSAFuncs() {
		if fn.Pkg == nil {
			continue
		}
		if pk := shortPkg(fn.Pkg.Pkg); pk != "ast" && pk != "object" {
			continue
		}
		fname := ssaFuncName(fn)
		k := 0
		eachInstr(fn, func(in ssa.Instruction) {
			ia, ok := in.(*ssa.IndexAddr)
			if !ok || !isStmtsSlice(ia.X) {
				return
			}
			idx, isK := constInt(ia.Index)
			if !isK {
				return
			}
			n++
			k++
			desc := "constant-index statement access #" + itoa(k) + " is on the exact-length edge"
			exact := false
			exactLen := func(cond ssa.Value, edge int, slice ssa.Value) bool {
				bin, ok := cond.(*ssa.BinOp)
				if !ok {
					return false
				}
				kk, isK := constInt(bin.Y)
				lc, isLen := bin.X.(*ssa.Call)
				if !isK || !isLen || kk != idx+1 {
					return false
				}
				bi, isBi := lc.Common().Value.(*ssa.Builtin)
				if !isBi || bi.Name() != "len" {
					return false
				}
				arg := lc.Common().Args[0]
				if !(arg == slice || (isStmtsSlice(arg) && isStmtsSlice(slice) && sameStmtsOwner(arg, slice))) {
					return false
				}
				return (bin.Op == token.EQL && edge == 0) || (bin.Op == token.NEQ && edge == 1)
			}
			// a named predicate on the statement list: true only when the list has exactly idx+1 elements
			for _, cc := range controlling(ia.Block()) {
				cond, edge := cc.Cond, cc.Edge
				if u, ok := cond.(*ssa.UnOp); ok && u.Op == token.NOT {
					cond, edge = u.X, 1-edge
				}
				call, ok := cond.(*ssa.Call)
				if !ok || edge != 0 {
					continue
				}
				p := call.Common().StaticCallee()
				if p == nil || len(p.Blocks) == 0 || p.Pkg != fn.Pkg {
					continue
				}
				for ai, a := range call.Common().Args {
					ld, isLd := ia.X.(*ssa.UnOp)
					if !isLd || ai >= len(p.Params) {
						continue
					}
					fa, isFA := ld.X.(*ssa.FieldAddr)
					if !isFA || !(fa.X == a || sameValue(fa.X, a)) {
						continue
					}
					// inside the predicate: every return that can be true lies under the exact-length test on that parameter
					param := p.Params[ai]
					implies := true
					sliceOf := func(b *ssa.BasicBlock, conds []ctrlCond) bool {
						for _, pc := range conds {
							bin, ok := pc.Cond.(*ssa.BinOp)
							if !ok {
								continue
							}
							if lc, ok := bin.X.(*ssa.Call); ok && len(lc.Common().Args) == 1 {
								if ld2, ok := lc.Common().Args[0].(*ssa.UnOp); ok {
									if fa2, ok := ld2.X.(*ssa.FieldAddr); ok && fa2.X == ssa.Value(param) && fa2.Field == fidx {
										if exactLen(pc.Cond, pc.Edge, lc.Common().Args[0]) {
											return true
										}
									}
								}
							}
						}
						return false
					}
					eachInstr(p, func(pin ssa.Instruction) {
						ret, ok := pin.(*ssa.Return)
						if !ok || len(ret.Results) != 1 {
							return
						}
						var mayBeTrue func(v ssa.Value, b *ssa.BasicBlock, conds []ctrlCond) bool
						mayBeTrue = func(v ssa.Value, b *ssa.BasicBlock, conds []ctrlCond) bool {
							if k, ok := v.(*ssa.Const); ok {
								bv, isB := constBool(k)
								return !isB || bv
							}
							if phi, ok := v.(*ssa.Phi); ok {
								for e, ev := range phi.Edges {
									pred := phi.Block().Preds[e]
									if mayBeTrue(ev, pred, edgeConds(pred, phi.Block())) && !sliceOf(pred, edgeConds(pred, phi.Block())) {
										return true
									}
								}
								return false
							}
							return !sliceOf(b, conds)
						}
						if mayBeTrue(retVal(ret, 0), ret.Block(), controlling(ret.Block())) {
							implies = false
						}
					})
					if implies {
						exact = true
					}
				}
			}
			for _, cc := range controlling(ia.Block()) {
				bin, ok := cc.Cond.(*ssa.BinOp)
				if !ok {
					continue
				}
				kk, isK := constInt(bin.Y)
				lc, isLen := bin.X.(*ssa.Call)
				if !isK || !isLen || kk != idx+1 {
					continue
				}
				bi, isBi := lc.Common().Value.(*ssa.Builtin)
				if !isBi || bi.Name() != "len" {
					continue
				}
				arg := lc.Common().Args[0]
				if !(arg == ia.X || (isStmtsSlice(arg) && sameStmtsOwner(arg, ia.X))) {
					continue
				}
				if (bin.Op == token.EQL && cc.Edge == 0) || (bin.Op == token.NEQ && cc.Edge == 1) {
					exact = true
				}
			}
			r.Check(exact, rule, fname, desc, c.Pos(ia.Pos()),
				"element "+itoa(int(idx))+" of a statement list is taken where the list is not known to have exactly "+itoa(int(idx)+1)+" element(s): a printer that prints this element in place of the block drops every statement after it")
		})
	}
	if n < 3 {
		r.Undecided("%s: only %d constant-index statement accesses found (printElse and lambdaPrint expected)", rule, n)
	}
	r.Floor(rule, 3)
}

// sameStmtsOwner: two loads of the Statements field of the same ast.Statements value.
func sameStmtsOwner(a, b ssa.Value) bool {
	owner := func(v ssa.Value) ssa.Value {
		switch x := v.(type) {
		case *ssa.UnOp:
			if fa, ok := x.X.(*ssa.FieldAddr); ok {
				return fa.X
			}
		case *ssa.Field:
			return x.X
		}
		return nil
	}
	oa, ob := owner(a), owner(b)
	return oa != nil && ob != nil && (oa == ob || sameValue(oa, ob))
}

// checkLiteralsPrintedVerbatim: rule C03.R6.
//
// Formatting is a fixpoint only if what the printer writes for a token is read back as the same token
// text. The printers of package ast write Literal() as it is (strings go through strconv.Quote, which the
// lexer undoes: C02.R4). A printer that rewrites the literal - re-indenting the lines of a block comment,
// trimming, changing case - produces text whose literal is the rewritten one, and the next pass rewrites it
// again. In package ast no result of a Literal() method reaches a text-transforming function of package
// strings (Replace*, Trim*, To*, Map, Title, Fields, Split*, Join) or fmt.Sprintf.
func (c *Ctx) checkLiteralsPrintedVerbatim(r *Report, rule string) {
	transforming := func(name string) bool {
		if name == "fmt.Sprintf" || name == "fmt.Sprint" {
			return true
		}
		if !strings.HasPrefix(name, "strings.") {
			return false
		}
		n := strings.TrimPrefix(name, "strings.")
		for _, p := range []string{"Replace", "Trim", "To", "Map", "Title", "Fields", "Split", "Join"} {
			if strings.HasPrefix(n, p) {
				return true
			}
		}
		return false
	}
	var fromLiteral func(v ssa.Value, depth int) bool
	fromLiteral = func(v ssa.Value, depth int) bool {
		if depth > 5 {
			return false
		}
		switch x := v.(type) {
		case *ssa.Call:
			if callee := x.Common().StaticCallee(); callee != nil && callee.Name() == "Literal" {
				return true
			}
			if x.Common().IsInvoke() && x.Common().Method.Name() == "Literal" {
				return true
			}
		case *ssa.Phi:
			for _, e := range x.Edges {
				if fromLiteral(e, depth+1) {
					return true
				}
			}
		case *ssa.BinOp:
			return fromLiteral(x.X, depth+1) || fromLiteral(x.Y, depth+1)
		case *ssa.UnOp:
			if al, ok := x.X.(*ssa.Alloc); ok {
				for _, ref := range *al.Referrers() {
					if st, ok := ref.(*ssa.Store); ok && st.Addr == ssa.Value(al) && fromLiteral(st.Val, depth+1) {
						return true
					}
				}
			}
		case *ssa.MakeInterface:
			return fromLiteral(x.X, depth+1)
		case *ssa.Slice:
			return fromLiteral(x.X, depth+1)
		}
		return false
	}
	nLit, bad := 0, 0
	for _, fn := range c.ModuleSSAFuncs() {
		if fn.Pkg == nil || shortPkg(fn.Pkg.Pkg) != "ast" {
			continue
		}
		eachInstr(fn, func(in ssa.Instruction) {
			call, ok := in.(*ssa.Call)
			if !ok {
				return
			}
			if callee := call.Common().StaticCallee(); callee != nil && callee.Name() == "Literal" {
				nLit++
			}
			name := stdName(call)
			if !transforming(name) {
				return
			}
			for _, a := range call.Common().Args {
				// variadic arguments are packed in a slice of a local array
				derived := fromLiteral(a, 0)
				if sl, ok := a.(*ssa.Slice); ok && !derived {
					if al, ok := sl.X.(*ssa.Alloc); ok {
						for _, ref := range *al.Referrers() {
							if ia, ok := ref.(*ssa.IndexAddr); ok {
								for _, r2 := range *ia.Referrers() {
									if st, ok := r2.(*ssa.Store); ok && fromLiteral(st.Val, 0) {
										derived = true
									}
								}
							}
						}
					}
				}
				if derived {
					bad++
					r.Fail(rule, ssaFuncName(fn), "token text is not rewritten by "+name, c.Pos(call.Pos()),
						"the text of a token (Literal()) goes through "+name+" before it is printed: the output is read back as a token with the rewritten text and rewritten again on the next pass, so formatting formatted text changes it (a re-indented block comment gains tabs on every pass)")
				}
			}
		})
	}
	if bad == 0 {
		r.Ok(rule, "ast", "no Literal() result reaches a text-transforming function", "")
	}
	if nLit < 10 {
		r.Undecided("%s: only %d Literal() calls found in package ast", rule, nLit)
	}
}

// checkElseIfParsedAsIf: rule C03.R7.
//
// The printer folds `else { if ... }` into `else if ...` whenever the alternative is a lone if expression
// (printElse). The parser has to read that text back as exactly that: in parseIfExpression, on the edge where
// the token after `else` is `if`, the node put into the alternative is the result of parseIfExpression
// itself. A wider parser (parseStatement, parseExpression) also takes what follows the chain's closing brace
// (`... else if b {2} else {3} + 1`) into the alternative, and a second formatting pass prints another program.
func (c *Ctx) checkElseIfParsedAsIf(r *Report, rule string) {
	pif := c.Fn("parser", "Parser.parseIfExpression")
	fn := c.SSAFn(pif)
	peekIs := c.Fn("parser", "Parser.peekTokenIs")
	ifTokC, _ := constInt64(c.Const("token", "IF"))
	ifTok := ifTokC
	n := 0
	for _, b := range fn.Blocks {
		ifi, ok := b.Instrs[len(b.Instrs)-1].(*ssa.If)
		if !ok {
			continue
		}
		call, ok := ifi.Cond.(*ssa.Call)
		if !ok || !isCallTo(call, peekIs) || len(call.Common().Args) < 2 {
			continue
		}
		if k, ok := constInt(call.Common().Args[1]); !ok || k != ifTok {
			continue
		}
		arm := b.Succs[0]
		// the parse calls of the arm (blocks it dominates)
		var parsers []string
		good := false
		for _, ab := range fn.Blocks {
			if !(ab == arm || (len(arm.Preds) == 1 && arm.Dominates(ab))) {
				continue
			}
			for _, in := range ab.Instrs {
				pc, ok := in.(*ssa.Call)
				if !ok {
					continue
				}
				callee := pc.Common().StaticCallee()
				if callee == nil || callee.Pkg != fn.Pkg || !strings.HasPrefix(callee.Name(), "parse") {
					continue
				}
				if isCallTo(pc, pif) {
					parsers = append(parsers, callee.Name())
					good = true
					continue
				}
				// a helper of the arm counts for the parsers it calls
				inner := 0
				eachInstr(callee, func(hin ssa.Instruction) {
					hc, ok := hin.(*ssa.Call)
					if !ok {
						return
					}
					if g := hc.Common().StaticCallee(); g != nil && g.Pkg == fn.Pkg && strings.HasPrefix(g.Name(), "parse") {
						inner++
						parsers = append(parsers, g.Name())
						if isCallTo(hc, pif) {
							good = true
						}
					}
				})
				if inner == 0 {
					parsers = append(parsers, callee.Name())
				}
			}
		}
		n++
		onlyIf := good
		for _, p := range parsers {
			if p != fn.Name() {
				onlyIf = false
			}
		}
		r.Check(onlyIf, rule, ssaFuncName(fn), "the alternative of `else if` is parsed by parseIfExpression", c.Pos(ifi.Pos()),
			"after `else`, an `if` is read by "+strings.Join(parsers, ", ")+" instead of parseIfExpression alone: a wider parser takes what follows the chain's closing brace into the alternative, so the text the printer folds into `else if` (an alternative that is a lone if expression) reads back as another program and formatting is not idempotent")
	}
	if n == 0 {
		r.Undecided("%s: no `peek is IF` test found in parseIfExpression", rule)
	}
}

// checkStringsPrintedQuoted: rule C02.R12.
//
// A string literal is read back by the lexer's escape decoder, so what the printer writes between the quotes
// has to be the strconv.Quote form on every path (C02.R4 proves the decoder undoes exactly that form). In
// StringLiteral.PrettyPrint the token text reaches the output only as the result of strconv.Quote: a raw copy
// "for literals with nothing to escape" writes bytes the lexer does not read back (NUL ends its input).
func (c *Ctx) checkStringsPrintedQuoted(r *Report, rule string) {
	fn := c.SSAFn(c.Fn("ast", "StringLiteral.PrettyPrint"))
	if fn == nil {
		r.Undecided("%s: ast.StringLiteral.PrettyPrint not found", rule)
		return
	}
	// values that are the literal itself (not its quoted form)
	raw := map[ssa.Value]bool{}
	eachInstr(fn, func(in ssa.Instruction) {
		call, ok := in.(*ssa.Call)
		if !ok {
			return
		}
		if call.Common().IsInvoke() && call.Common().Method.Name() == "Literal" {
			raw[call] = true
			return
		}
		if obj := calleeObj(call); obj != nil && obj.Name() == "Literal" {
			raw[call] = true
		}
	})
	for changed := true; changed; {
		changed = false
		eachInstr(fn, func(in ssa.Instruction) {
			v, ok := in.(ssa.Value)
			if !ok || raw[v] {
				return
			}
			switch x := in.(type) {
			case *ssa.MakeInterface:
				if raw[x.X] {
					raw[v], changed = true, true
				}
			case *ssa.Phi:
				for _, e := range x.Edges {
					if raw[e] {
						raw[v], changed = true, true
					}
				}
			case *ssa.BinOp:
				if x.Op == token.ADD && (raw[x.X] || raw[x.Y]) {
					raw[v], changed = true, true
				}
			case *ssa.Slice:
				if raw[x.X] {
					raw[v], changed = true, true
				}
			}
		})
	}
	n, quoted := 0, 0
	bad := ""
	eachInstr(fn, func(in ssa.Instruction) {
		switch x := in.(type) {
		case *ssa.Store:
			// into the argument list of a print call
			if raw[x.Val] {
				if _, isIA := x.Addr.(*ssa.IndexAddr); isIA {
					n++
					bad = c.Pos(x.Pos())
				}
			}
		case *ssa.Call:
			if obj := calleeObj(x); obj != nil && obj.Pkg() != nil && obj.Pkg().Path() == "strconv" && obj.Name() == "Quote" {
				quoted++
			}
			for _, a := range x.Common().Args {
				if raw[a] {
					if obj := calleeObj(x); obj != nil && obj.Pkg() != nil && (obj.Pkg().Path() == "strconv" || obj.Pkg().Path() == "strings") {
						continue // quoting it, or only looking at it
					}
					n++
					bad = c.Pos(x.Pos())
				}
			}
		}
	})
	r.Check(n == 0 && quoted > 0, rule, ssaFuncName(fn), "the text of a string literal is printed through strconv.Quote only", c.Pos(fn.Pos()),
		"the token text of a string literal reaches the output without strconv.Quote ("+bad+"): a raw NUL, or any byte the lexer treats specially inside a string, is written between the quotes and the formatted program does not parse back to the same tree")
}
