package main

import (
	"fmt"
	"go/token"
	"go/types"

	"golang.org/x/tools/go/ssa"
)

// intTaintSpec: integers that come from program values (Integer.Value, registers, Int64Value).
func (c *Ctx) intTaintSpec() TaintSpec {
	intT := c.TypeNamed("object", "Integer")
	regInt64 := c.Fn("object", "Register.Int64")
	return TaintSpec{
		Name: "program integer",
		Source: func(v ssa.Value) bool {
			switch x := v.(type) {
			case *ssa.Field:
				if n, ok := x.X.Type().(*types.Named); ok && n.Obj() == intT.Obj() {
					return true
				}
			case *ssa.UnOp:
				if fa, ok := x.X.(*ssa.FieldAddr); ok {
					if n := namedStruct(fa.X.Type()); n != nil && n.Obj() == intT.Obj() {
						return true
					}
				}
			case *ssa.Call:
				return isCallTo(x, regInt64)
			}
			return false
		},
		Sanitizer:     func(*types.Func) bool { return false },
		StorageStruct: func(*types.Named) bool { return true }, // struct fields (lengths, counters) are internal invariants, not program values
		Carrier: func(t types.Type) bool {
			b, ok := t.Underlying().(*types.Basic)
			return ok && b.Info()&types.IsInteger != 0
		},
		RawSink: func(ssa.Instruction) (ssa.Value, string) { return nil, "" },
	}
}

type relFact struct {
	op    token.Token // v op other
	other ssa.Value
}

var negOp = map[token.Token]token.Token{token.EQL: token.NEQ, token.NEQ: token.EQL, token.LSS: token.GEQ, token.GEQ: token.LSS, token.GTR: token.LEQ, token.LEQ: token.GTR}
var flipOp = map[token.Token]token.Token{token.EQL: token.EQL, token.NEQ: token.NEQ, token.LSS: token.GTR, token.GTR: token.LSS, token.LEQ: token.GEQ, token.GEQ: token.LEQ}

// relFactsOnEdge: facts about v that hold when control flows from pred to succ.
func relFactsOnEdge(v ssa.Value, pred, succ *ssa.BasicBlock) []relFact {
	res := relFactsAt(v, pred)
	if ifi, ok := pred.Instrs[len(pred.Instrs)-1].(*ssa.If); ok && pred.Succs[0] != pred.Succs[1] {
		for e := 0; e < 2; e++ {
			if pred.Succs[e] == succ {
				for _, cc := range expandCond(ifi, ifi.Cond, e, 0) {
					res = append(res, factFromCond(v, cc)...)
				}
			}
		}
	}
	return res
}

func factFromCond(v ssa.Value, cc ctrlCond) []relFact {
	bin, ok := cc.Cond.(*ssa.BinOp)
	if !ok {
		return nil
	}
	op := bin.Op
	if _, known := negOp[op]; !known {
		return nil
	}
	var other ssa.Value
	switch {
	case bin.X == v:
		other = bin.Y
	case bin.Y == v:
		other = bin.X
		op = flipOp[op]
	default:
		return nil
	}
	if cc.Edge == 1 {
		op = negOp[op]
	}
	return []relFact{{op, other}}
}

func relFactsAt(v ssa.Value, b *ssa.BasicBlock) []relFact {
	var res []relFact
	for _, cc := range controlling(b) {
		bin, ok := cc.Cond.(*ssa.BinOp)
		if !ok {
			continue
		}
		op := bin.Op
		if _, known := negOp[op]; !known {
			continue
		}
		var other ssa.Value
		switch {
		case bin.X == v:
			other = bin.Y
		case bin.Y == v:
			other = bin.X
			op = flipOp[op]
		default:
			continue
		}
		if cc.Edge == 1 {
			op = negOp[op]
		}
		res = append(res, relFact{op, other})
	}
	return res
}

// lengthLike: v is a length of something (len, Len, .Len(), cap) possibly converted or minus/plus a constant.
func lengthLike(v ssa.Value, depth int) (offset int64, ok bool) {
	if depth > 4 {
		return 0, false
	}
	switch x := v.(type) {
	case *ssa.Convert:
		return lengthLike(x.X, depth+1)
	case *ssa.Call:
		if bi, isB := x.Common().Value.(*ssa.Builtin); isB && (bi.Name() == "len" || bi.Name() == "cap") {
			return 0, true
		}
		if obj := calleeObj(x); obj != nil && (obj.Name() == "Len" || obj.Name() == "len") {
			return 0, true
		}
	case *ssa.BinOp:
		if k, isK := constInt(x.Y); isK {
			if off, ok := lengthLike(x.X, depth+1); ok {
				switch x.Op {
				case token.SUB:
					return off - k, true
				case token.ADD:
					return off + k, true
				}
			}
		}
	case *ssa.UnOp: // load of a len field (sa.len)
		if fa, isFA := x.X.(*ssa.FieldAddr); isFA {
			if n := namedStruct(fa.X.Type()); n != nil {
				if n.Underlying().(*types.Struct).Field(fa.Field).Name() == "len" {
					return 0, true
				}
			}
		}
	case *ssa.Field:
		if st, isS := x.X.Type().Underlying().(*types.Struct); isS && st.Field(x.Field).Name() == "len" {
			return 0, true
		}
	}
	return 0, false
}

func lowerBoundOK(v ssa.Value, b *ssa.BasicBlock, depth int) bool {
	return lowerBoundWith(v, b, relFactsAt(v, b), depth)
}

func lowerBoundWith(v ssa.Value, b *ssa.BasicBlock, facts []relFact, depth int) bool {
	if k, ok := constInt(v); ok {
		return k >= 0
	}
	if depth > 3 {
		return false
	}
	for _, f := range facts {
		if k, ok := constInt(f.other); ok {
			switch {
			case f.op == token.GEQ && k >= 0, f.op == token.GTR && k >= -1, f.op == token.EQL && k >= 0:
				return true
			}
		}
	}
	switch x := v.(type) {
	case *ssa.Call:
		if bi, ok := x.Common().Value.(*ssa.Builtin); ok && bi.Name() == "max" {
			for _, a := range x.Common().Args {
				if lowerBoundOK(a, b, depth+1) {
					return true
				}
			}
		}
		if bi, ok := x.Common().Value.(*ssa.Builtin); ok && bi.Name() == "min" {
			all := true
			for _, a := range x.Common().Args {
				if _, isLen := lengthLike(a, 0); isLen {
					continue
				}
				if !lowerBoundOK(a, b, depth+1) {
					all = false
				}
			}
			return all
		}
		if _, ok := lengthLike(x, 0); ok {
			return true
		}
	case *ssa.Convert:
		return lowerBoundOK(x.X, x.Block(), depth+1) || lowerBoundOK(x.X, b, depth+1)
	case *ssa.Phi:
		for i, e := range x.Edges {
			pred := x.Block().Preds[i]
			if !lowerBoundWith(e, pred, relFactsOnEdge(e, pred, x.Block()), depth+1) {
				return false
			}
		}
		return true
	}
	return false
}

// upperBoundOK: v < L (strict) or v <= L for some length-like L.
func upperBoundOK(v ssa.Value, b *ssa.BasicBlock, strict bool, depth int) bool {
	if depth > 3 {
		return false
	}
	for _, f := range relFactsAt(v, b) {
		off, isLen := lengthLike(f.other, 0)
		if !isLen {
			continue
		}
		// v op (len + off)
		switch f.op {
		case token.LSS:
			if off <= 0 || (!strict && off <= 1) {
				return true
			}
		case token.LEQ:
			if off < 0 || (!strict && off <= 0) {
				return true
			}
		}
	}
	// the value is itself a length (minus something): x[:len(x)], x[len(x)-1]
	if off, isLen := lengthLike(v, 0); isLen && (off < 0 || (!strict && off == 0)) {
		return true
	}
	switch x := v.(type) {
	case *ssa.Call:
		if bi, ok := x.Common().Value.(*ssa.Builtin); ok && bi.Name() == "min" && !strict {
			for _, a := range x.Common().Args {
				if off, isLen := lengthLike(a, 0); isLen && off <= 0 {
					return true
				}
			}
		}
	case *ssa.Convert:
		return upperBoundOK(x.X, x.Block(), strict, depth+1) || upperBoundOK(x.X, b, strict, depth+1)
	case *ssa.Phi:
		for i, e := range x.Edges {
			if !upperBoundOK(e, x.Block().Preds[i], strict, depth+1) {
				return false
			}
		}
		return true
	}
	return false
}

// argsAtCallSites: for a parameter of fn, the argument values (with their call-site block) at every call site.
func (c *Ctx) argsAtCallSites(p *ssa.Parameter) (res []struct {
	v ssa.Value
	b *ssa.BasicBlock
}, ok bool) {
	fn := p.Parent()
	idx := -1
	for i, q := range fn.Params {
		if q == p {
			idx = i
		}
	}
	node := c.CG().g.Nodes[fn]
	if node == nil || idx < 0 {
		return nil, false
	}
	for _, e := range node.In {
		if e.Site == nil || !isModuleSSA(e.Caller.Func) {
			continue
		}
		if e.Caller.Func.Synthetic != "" && len(e.Caller.In) == 0 {
			continue // pointer wrapper of a value method that nothing calls
		}
		cc := e.Site.Common()
		args := cc.Args
		ai := idx
		if cc.IsInvoke() {
			ai = idx - 1
		} else if cc.StaticCallee() != fn {
			continue // call through a function value: not a call of this function by name
		}
		if ai < 0 || ai >= len(args) {
			return nil, false
		}
		res = append(res, struct {
			v ssa.Value
			b *ssa.BasicBlock
		}{args[ai], e.Site.Block()})
	}
	return res, len(res) > 0
}

func stripConvert(v ssa.Value) ssa.Value {
	for {
		cv, ok := v.(*ssa.Convert)
		if !ok {
			return v
		}
		v = cv.X
	}
}

func (c *Ctx) proveLo(v ssa.Value, b *ssa.BasicBlock, depth int) bool {
	if lowerBoundOK(v, b, 0) {
		return true
	}
	if p, ok := stripConvert(v).(*ssa.Parameter); ok && depth < 3 {
		if sites, ok := c.argsAtCallSites(p); ok {
			for _, s := range sites {
				if !c.proveLo(s.v, s.b, depth+1) {
					return false
				}
			}
			return true
		}
	}
	return false
}

// arrayLen: the length of the fixed array an index/slice instruction operates on (0 if it is a slice).
func arrayLen(in ssa.Instruction) int64 {
	var t types.Type
	switch x := in.(type) {
	case *ssa.IndexAddr:
		t = x.X.Type()
	case *ssa.Slice:
		t = x.X.Type()
	case *ssa.Index:
		t = x.X.Type()
	}
	if t == nil {
		return 0
	}
	if p, ok := t.Underlying().(*types.Pointer); ok {
		t = p.Elem()
	}
	if a, ok := t.Underlying().(*types.Array); ok {
		return a.Len()
	}
	return 0
}

// constUpper: v <= k (or < k) for a constant k follows from the controlling conditions.
func constUpper(v ssa.Value, b *ssa.BasicBlock, limit int64, strict bool) bool {
	v = stripConvert(v)
	for _, f := range relFactsAt(v, b) {
		k, ok := constInt(f.other)
		if !ok {
			continue
		}
		switch f.op {
		case token.LEQ:
			if (strict && k < limit) || (!strict && k <= limit) {
				return true
			}
		case token.LSS:
			if (strict && k <= limit) || (!strict && k <= limit+1) {
				return true
			}
		}
	}
	return false
}

func (c *Ctx) proveHi(v ssa.Value, b *ssa.BasicBlock, strict bool, depth int) bool {
	if upperBoundOK(v, b, strict, 0) {
		return true
	}
	if p, ok := stripConvert(v).(*ssa.Parameter); ok && depth < 3 {
		if sites, ok := c.argsAtCallSites(p); ok {
			for _, s := range sites {
				if !c.proveHi(s.v, s.b, strict, depth+1) {
					return false
				}
			}
			return true
		}
	}
	return false
}

// proveLE: low <= high at block b, locally or at every call site when both are parameters.
func (c *Ctx) proveLE(low, high ssa.Value, b *ssa.BasicBlock, depth int) bool {
	if high == nil {
		return true
	}
	for _, f := range relFactsAt(low, b) {
		if (f.op == token.LEQ || f.op == token.LSS) && (f.other == high || sameValue(f.other, high)) {
			return true
		}
	}
	for _, f := range relFactsAt(high, b) {
		if (f.op == token.GEQ || f.op == token.GTR) && f.other == low {
			return true
		}
	}
	if clampPair(low, high) {
		return true
	}
	if k, ok := constInt(low); ok && c.constLE(k, high, b) {
		return true
	}
	pl, ok1 := stripConvert(low).(*ssa.Parameter)
	ph, ok2 := stripConvert(high).(*ssa.Parameter)
	if ok1 && ok2 && pl.Parent() == ph.Parent() && depth < 3 {
		sl, okl := c.argsAtCallSites(pl)
		sh, okh := c.argsAtCallSites(ph)
		if okl && okh && len(sl) == len(sh) {
			for i := range sl {
				if !c.proveLE(sl[i].v, sh[i].v, sl[i].b, depth+1) {
					return false
				}
			}
			return true
		}
	}
	return false
}

func (c *Ctx) checkProgramBounds(r *Report, reach map[*ssa.Function]bool) {
	t := NewTaint(c, c.intTaintSpec())
	n := 0
	for _, fn := range sortedFuncs(reach) {
		if fn.Pkg != nil && shortPkg(fn.Pkg.Pkg) == "extensions" {
			// image coordinates etc. are checked by the image package; only the interpreter core here
		}
		counts := map[string]int{}
		eachInstr(fn, func(in ssa.Instruction) {
			fname := ssaFuncName(fn)
			check := func(kind string, idx ssa.Value, strict bool, what string) {
				if idx == nil || !t.May(idx) {
					return
				}
				if _, isConst := idx.(*ssa.Const); isConst {
					return
				}
				n++
				counts[kind]++
				desc := fmt.Sprintf("%s #%d with a program-controlled %s", kind, counts[kind], what)
				lo := c.proveLo(idx, in.Block(), 0)
				hi := c.proveHi(idx, in.Block(), strict, 0)
				why := ""
				if !lo {
					why = "no dominating test establishes that the " + what + " is >= 0"
				}
				if !hi {
					if why != "" {
						why += "; "
					}
					why += "no dominating test bounds the " + what + " by a length"
				}
				r.Check(lo && hi, "C07.R4", fname, desc, c.Pos(in.Pos()), why+": a program value reaches an index/slice operation unchecked (index or slice bounds out of range)")
			}
			switch x := in.(type) {
			case *ssa.IndexAddr:
				if _, isArr := x.X.Type().Underlying().(*types.Pointer); isArr {
					// fixed arrays (registers, smallKV): still a bound
				}
				check("index", x.Index, true, "index")
			case *ssa.Index:
				check("index", x.Index, true, "index")
			case *ssa.Lookup:
				if _, isStr := x.X.Type().Underlying().(*types.Basic); isStr {
					check("string index", x.Index, true, "index")
				}
			case *ssa.Slice:
				if x.Low != nil && t.May(x.Low) {
					n++
					counts["slice"]++
					desc := fmt.Sprintf("slice #%d with a program-controlled low bound", counts["slice"])
					lo := c.proveLo(x.Low, in.Block(), 0)
					le := c.proveLE(x.Low, x.High, in.Block(), 0)
					why := ""
					if !lo {
						why = "the low bound is not proven >= 0"
					}
					if !le {
						if why != "" {
							why += "; "
						}
						why += "low <= high is not established"
					}
					r.Check(lo && le, "C07.R4", fname, desc, c.Pos(in.Pos()), why+": slice bounds out of range for some program values")
				}
				if x.High != nil && t.May(x.High) {
					n++
					counts["sliceh"]++
					desc := fmt.Sprintf("slice #%d with a program-controlled high bound", counts["sliceh"])
					hi := c.proveHi(x.High, in.Block(), false, 0)
					if n := arrayLen(in); !hi && n > 0 {
						hi = constUpper(x.High, in.Block(), n, false)
					}
					r.Check(hi, "C07.R4", fname, desc, c.Pos(in.Pos()), "the high bound is not bounded by the length: slice bounds out of range")
				}
			}
		})
	}
	if n < 8 {
		r.Undecided("C07.R4: only %d program-controlled index/slice sites found", n)
	}
}

// clampPair: low = min(l, n), high = min(r, n) with l <= r established where the mins are computed.
func clampPair(low, high ssa.Value) bool {
	lc, ok1 := low.(*ssa.Call)
	hc, ok2 := high.(*ssa.Call)
	if !ok1 || !ok2 {
		return false
	}
	lb, ok1 := lc.Common().Value.(*ssa.Builtin)
	hb, ok2 := hc.Common().Value.(*ssa.Builtin)
	if !ok1 || !ok2 || lb.Name() != "min" || hb.Name() != "min" {
		return false
	}
	l, r := lc.Common().Args[0], hc.Common().Args[0]
	if !sameValue(lc.Common().Args[1], hc.Common().Args[1]) && !sameExpr(lc.Common().Args[1], hc.Common().Args[1]) {
		return false
	}
	for _, f := range relFactsAt(l, lc.Block()) {
		if (f.op == token.LEQ || f.op == token.LSS) && f.other == r {
			return true
		}
	}
	return false
}

// checkInterfaceEquality: rule C07.R11. `a == b` on two interface values compares the dynamic values when
// their dynamic types are equal, and panics at run time when that type is not comparable (a struct holding
// a slice, map or function: SmallMap, BigArray, Function...). It is safe when one side is known to be a
// boxed value of a comparable type: different dynamic types compare false without looking inside.
func (c *Ctx) checkInterfaceEquality(r *Report, rule string) {
	var comparableDeep func(t types.Type, depth int) bool
	comparableDeep = func(t types.Type, depth int) bool {
		if depth > 6 {
			return false
		}
		switch u := t.Underlying().(type) {
		case *types.Basic:
			return true
		case *types.Pointer, *types.Chan:
			return true
		case *types.Struct:
			for i := 0; i < u.NumFields(); i++ {
				if !comparableDeep(u.Field(i).Type(), depth+1) {
					return false
				}
			}
			return true
		case *types.Array:
			return comparableDeep(u.Elem(), depth+1)
		case *types.Interface:
			return false // may hold anything
		}
		return false
	}
	var safeSideD func(v ssa.Value, depth int) bool
	safeSideD = func(v ssa.Value, depth int) bool {
		if depth > 3 {
			return false
		}
		switch x := v.(type) {
		case *ssa.MakeInterface:
			return comparableDeep(x.X.Type(), 0)
		case *ssa.Const:
			return true
		case *ssa.UnOp:
			// a variable captured by reference and written once where it is declared (a parameter of the enclosing function)
			if fv, ok := x.X.(*ssa.FreeVar); ok && x.Op == token.MUL {
				fn := fv.Parent()
				idx := -1
				for i, f := range fn.FreeVars {
					if f == fv {
						idx = i
					}
				}
				outer := fn.Parent()
				if idx < 0 || outer == nil {
					return false
				}
				found, all := false, true
				eachInstr(outer, func(in ssa.Instruction) {
					mc, ok := in.(*ssa.MakeClosure)
					if !ok || mc.Fn != ssa.Value(fn) || idx >= len(mc.Bindings) {
						return
					}
					al, ok := mc.Bindings[idx].(*ssa.Alloc)
					if !ok {
						all = false
						return
					}
					var only ssa.Value
					stores := 0
					for _, ref := range *al.Referrers() {
						if st, ok := ref.(*ssa.Store); ok && st.Addr == ssa.Value(al) {
							stores++
							only = st.Val
						}
					}
					// the closure itself must not write it
					for _, ref := range *fv.Referrers() {
						if st, ok := ref.(*ssa.Store); ok && st.Addr == ssa.Value(fv) {
							stores += 2
						}
					}
					found = true
					if stores != 1 || !safeSideD(only, depth+1) {
						all = false
					}
				})
				return found && all
			}
			// a package-level variable of interface type initialised once (object.NULL-like sentinels) is not tracked: not safe
			return false
		case *ssa.Parameter:
			// what every caller passes (the comparison moved into a helper)
			sites, ok := c.argsAtCallSites(x)
			if !ok {
				return false
			}
			for _, s := range sites {
				if !safeSideD(s.v, depth+1) {
					return false
				}
			}
			return true
		case *ssa.FreeVar:
			// a variable captured by a closure: what it is bound to where the closure is made
			fn := x.Parent()
			idx := -1
			for i, fv := range fn.FreeVars {
				if fv == x {
					idx = i
				}
			}
			outer := fn.Parent()
			if idx < 0 || outer == nil {
				return false
			}
			found, all := false, true
			eachInstr(outer, func(in ssa.Instruction) {
				mc, ok := in.(*ssa.MakeClosure)
				if !ok || mc.Fn != ssa.Value(fn) || idx >= len(mc.Bindings) {
					return
				}
				found = true
				if !safeSideD(mc.Bindings[idx], depth+1) {
					all = false
				}
			})
			return found && all
		}
		return false
	}
	safeSide := func(v ssa.Value) bool { return safeSideD(v, 0) }
	n := 0
	for _, fn := range c.ModuleSSAFuncs() {
		counts := 0
		eachInstr(fn, func(in ssa.Instruction) {
			bin, ok := in.(*ssa.BinOp)
			if !ok || (bin.Op != token.EQL && bin.Op != token.NEQ) {
				return
			}
			_, xi := bin.X.Type().Underlying().(*types.Interface)
			_, yi := bin.Y.Type().Underlying().(*types.Interface)
			if !xi || !yi || isNilConst(bin.X) || isNilConst(bin.Y) {
				return
			}
			// errors and other non-module interfaces are out of scope
			if !isModuleType(bin.X.Type()) && !isModuleType(bin.Y.Type()) {
				return
			}
			n++
			counts++
			desc := fmt.Sprintf("interface comparison #%d has a comparable boxed value on one side", counts)
			r.Check(safeSide(bin.X) || safeSide(bin.Y), rule, ssaFuncName(fn), desc, c.Pos(bin.Pos()),
				"both operands of "+bin.Op.String()+" are interface values whose dynamic type is not known to be comparable: when both hold the same struct type with a slice, map or function inside (two SmallMap values with a function or a large array in a slot, two Function values) Go panics with `comparing uncomparable type`")
		})
	}
	if n < 10 {
		r.Undecided("%s: only %d interface comparisons found in the module", rule, n)
	}
}

func isModuleType(t types.Type) bool {
	if n, ok := t.(*types.Named); ok && n.Obj().Pkg() != nil {
		return isModulePkg(n.Obj().Pkg())
	}
	return false
}

// constLE: the constant k is <= v where block b executes: v is a length (a len() whose lower bound the
// bounds prover knows there, or a length field / Len() compared with a constant by a dominating test).
func (c *Ctx) constLE(k int64, v ssa.Value, b *ssa.BasicBlock) bool {
	v = stripConvert(v)
	off, isLen := lengthLike(v, 0)
	if !isLen || off != 0 {
		return false
	}
	if k <= 0 {
		return true
	}
	if c.boundsP == nil {
		c.boundsP = c.newBoundProver()
	}
	bp := c.boundsP
	if call, ok := v.(*ssa.Call); ok {
		if bi, isB := call.Common().Value.(*ssa.Builtin); isB && bi.Name() == "len" {
			if k <= bp.lenLB(call.Common().Args[0], b, 0, map[ssa.Value]bool{}) {
				return true
			}
		}
	}
	same := func(x ssa.Value) bool {
		x = stripConvert(x)
		if x == v || bp.sameLocFrom(x, v) {
			return true
		}
		fx, ok1 := x.(*ssa.Field)
		fv, ok2 := v.(*ssa.Field)
		return ok1 && ok2 && fx.Field == fv.Field && fx.X == fv.X
	}
	for _, cc := range controlling(b) {
		bin, ok := cc.Cond.(*ssa.BinOp)
		if !ok {
			continue
		}
		op := bin.Op
		if _, known := negOp[op]; !known {
			continue
		}
		var other ssa.Value
		switch {
		case same(bin.X):
			other = bin.Y
		case same(bin.Y):
			other = bin.X
			op = flipOp[op]
		default:
			continue
		}
		if cc.Edge == 1 {
			op = negOp[op]
		}
		kk, isK := constInt(other)
		if !isK {
			continue
		}
		switch op { // v op kk
		case token.GTR:
			if kk+1 >= k {
				return true
			}
		case token.GEQ, token.EQL:
			if kk >= k {
				return true
			}
		}
	}
	return false
}

// boundsProver: the shared bounds prover (built on first use).
func (c *Ctx) boundsProver() *boundProver {
	if c.boundsP == nil {
		c.boundsP = c.newBoundProver()
	}
	return c.boundsP
}
