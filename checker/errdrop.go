package main

// errdrop: rule C18.R5, no write error is dropped on the auto-save path.
//
// AutoSave renames the temporary file over the state file when SaveGlobals returned no error (C18.R1).
// That is only as good as the error SaveGlobals returns: a write whose error result is discarded lets a
// truncated temporary file through (disk full, quota, file size limit) and the rename then replaces the
// previous good file with it. In repl.AutoSave, State.SaveGlobals, Environment.SaveGlobals and every
// module function they call with the writer, every call that takes an io.Writer (or is a method of one)
// and returns an error as its last result has that result used: tested, returned or stored.

import (
	"go/types"
	"math"

	"golang.org/x/tools/go/ssa"
)

func (c *Ctx) checkSaveErrorsUsed(r *Report, rule string) {
	errT := types.Universe.Lookup("error").Type()
	writerT := c.stdInterface("io", "Writer")
	roots := []*ssa.Function{
		c.SSAFn(c.Fn("repl", "AutoSave")),
		c.SSAFn(c.Fn("eval", "State.SaveGlobals")),
		c.SSAFn(c.Fn("object", "Environment.SaveGlobals")),
	}
	isWriterish := func(t types.Type) bool {
		if writerT == nil {
			return false
		}
		return types.Implements(t, writerT) || types.Implements(types.NewPointer(t), writerT)
	}
	seen := map[*ssa.Function]bool{}
	var fns []*ssa.Function
	var visit func(fn *ssa.Function)
	visit = func(fn *ssa.Function) {
		if fn == nil || seen[fn] || !isModuleSSA(fn) || fn.Blocks == nil {
			return
		}
		seen[fn] = true
		fns = append(fns, fn)
		eachInstr(fn, func(in ssa.Instruction) {
			if call, ok := in.(*ssa.Call); ok {
				// follow module callees that receive a writer
				if callee := call.Common().StaticCallee(); callee != nil {
					for _, a := range call.Common().Args {
						if isWriterish(a.Type()) {
							visit(callee)
						}
					}
				}
			}
		})
	}
	for _, f := range roots {
		visit(f)
	}
	n := 0
	for _, fn := range fns {
		fname := ssaFuncName(fn)
		k := 0
		eachInstr(fn, func(in ssa.Instruction) {
			call, ok := in.(*ssa.Call)
			if !ok {
				return
			}
			sig := call.Common().Signature()
			res := sig.Results()
			if res.Len() == 0 || !types.Identical(res.At(res.Len()-1).Type(), errT) {
				return
			}
			// does it write? a writer among the arguments / the receiver
			writes := false
			for _, a := range call.Common().Args {
				if isWriterish(a.Type()) {
					writes = true
				}
			}
			if call.Common().IsInvoke() && isWriterish(call.Common().Value.Type()) {
				writes = true
			}
			if !writes {
				return
			}
			n++
			k++
			desc := "the error of a write is used"
			if k > 1 {
				desc += " #" + itoa(k)
			}
			used := false
			var errVals []ssa.Value
			if res.Len() == 1 {
				errVals = append(errVals, call)
			} else {
				for _, ref := range *call.Referrers() {
					if ex, ok := ref.(*ssa.Extract); ok && ex.Index == res.Len()-1 {
						errVals = append(errVals, ex)
					}
				}
			}
			for _, ev := range errVals {
				for _, ref := range *ev.Referrers() {
					if _, isDbg := ref.(*ssa.DebugRef); !isDbg {
						used = true
					}
				}
			}
			what := "call"
			if callee := call.Common().StaticCallee(); callee != nil {
				what = callee.Name()
			} else if call.Common().IsInvoke() {
				what = call.Common().Method.Name()
			}
			r.Check(used, rule, fname, desc, c.Pos(call.Pos()),
				"the error returned by "+what+" on the save path is discarded: when the write fails (disk full, quota, file size limit) SaveGlobals still reports success and AutoSave renames the truncated temporary file over the previous state file")
		})
	}
	if n < 3 {
		r.Undecided("%s: only %d writes found on the auto-save path (the two Fprintf of SaveGlobals and the SaveGlobals calls expected)", rule, n)
	}
	r.Floor(rule, 3)
}

// stdInterface: a named interface type of a standard package, if loaded.
func (c *Ctx) stdInterface(pkgPath, name string) *types.Interface {
	for _, p := range c.SSA().AllPackages() {
		if p.Pkg.Path() == pkgPath {
			if tn, ok := p.Pkg.Scope().Lookup(name).(*types.TypeName); ok {
				if it, ok := tn.Type().Underlying().(*types.Interface); ok {
					return it
				}
			}
		}
	}
	return nil
}

// checkAutoLoadReadsWholeLines: rule C18.R6 (shared with C14).
//
// The state file has one binding per line and SaveGlobals writes named functions whatever their length (the
// length limit is for name=value lines, and the file may have been written under another limit), so the reader
// cannot assume a maximum: the bufio.Scanner of repl.AutoLoad gets its buffer limit from Buffer(_, math.MaxInt)
// on every path. With a smaller limit the scanner stops at the first longer line and every binding after it is
// silently dropped; the next auto-save then writes that truncated state over the file.
func (c *Ctx) checkAutoLoadReadsWholeLines(r *Report, rule string) {
	fn := c.SSAFn(c.Fn("repl", "AutoLoad"))
	n := 0
	scans := 0
	eachInstr(fn, func(in ssa.Instruction) {
		call, ok := in.(*ssa.Call)
		if !ok {
			return
		}
		obj := calleeObj(call)
		if obj == nil || obj.Pkg() == nil || obj.Pkg().Path() != "bufio" {
			return
		}
		switch obj.Name() {
		case "Scan":
			scans++
		case "Buffer":
			n++
			args := call.Common().Args
			k, isK := constInt(args[len(args)-1])
			r.Check(isK && k == math.MaxInt, rule, ssaFuncName(fn), "the line reader has no length limit", c.Pos(call.Pos()),
				"the scanner that reads the state file line by line is given a finite line limit (or one computed at run time): a saved function or value longer than it ends the scan, the bindings after it are not restored, and the next auto-save replaces the file with that partial state")
		}
	})
	if scans > 0 && n == 0 {
		r.Fail(rule, ssaFuncName(fn), "the line reader has no length limit", c.Pos(fn.Pos()), "AutoLoad scans the state file with the default 64 KiB line limit of bufio.Scanner: a longer saved line ends the scan and the bindings after it are lost")
	}
	if scans == 0 {
		r.OkWhy(rule, ssaFuncName(fn), "the state file is not read through a line scanner", c.Pos(fn.Pos()), "no bufio.Scanner in AutoLoad")
	}
}
