package main

// Loading of /repo (go/packages, type-checked syntax, SSA on demand) and anchor lookup.
// Every rule works on this resolved program; nothing is executed.

import (
	"fmt"
	"go/ast"
	"go/token"
	"go/types"
	"os"
	"sort"
	"strings"

	"golang.org/x/tools/go/packages"
	"golang.org/x/tools/go/ssa"
	"golang.org/x/tools/go/ssa/ssautil"
)

const modPath = "grol.io/grol"

// undecided is panicked with when the analysis cannot reach a verdict (missing anchor, load error).
type undecided struct{ msg string }

func undecidedf(format string, args ...any) {
	panic(undecided{fmt.Sprintf(format, args...)})
}

type Ctx struct {
	boundsP *boundProver // shared bounds prover for the interprocedural helpers (constLE)
	Repo    string
	Tier    string
	Fset    *token.FileSet
	// module packages by short name ("eval", "object", ..., "main" for the root package)
	Pkgs map[string]*packages.Package
	Mod  []*packages.Package
	all  []*packages.Package // roots as loaded

	prog    *ssa.Program
	ssaPkgs []*ssa.Package

	declOf map[*types.Func]*ast.FuncDecl
	pkgOf  map[*ast.FuncDecl]*packages.Package
	litOf  map[*ast.FuncLit]*packages.Package

	cgModule *callGraph // lazily built module-local call graph
}

type LoadConfig struct {
	Repo     string
	Tags     string
	Env      []string // extra env (GOOS=js ...)
	Patterns []string
	MinPkgs  int
}

func Load(lc LoadConfig) *Ctx {
	fset := token.NewFileSet()
	cfg := &packages.Config{
		Mode: packages.LoadAllSyntax,
		Dir:  lc.Repo,
		Fset: fset,
		Env:  append(append(os.Environ(), "GOWORK=off"), lc.Env...),
	}
	if lc.Tags != "" {
		cfg.BuildFlags = []string{"-tags=" + lc.Tags}
	}
	pats := lc.Patterns
	if len(pats) == 0 {
		pats = []string{"./..."}
	}
	pkgs, err := packages.Load(cfg, pats...)
	if err != nil {
		undecidedf("loading %s: %v", lc.Repo, err)
	}
	c := &Ctx{Repo: lc.Repo, Fset: fset, Pkgs: map[string]*packages.Package{}, all: pkgs,
		declOf: map[*types.Func]*ast.FuncDecl{}, pkgOf: map[*ast.FuncDecl]*packages.Package{}}
	nerr := 0
	packages.Visit(pkgs, nil, func(p *packages.Package) {
		for _, e := range p.Errors {
			nerr++
			fmt.Fprintf(os.Stderr, "load error: %s: %v\n", p.PkgPath, e)
		}
	})
	if nerr > 0 {
		undecidedf("%d load/type errors in %s", nerr, lc.Repo)
	}
	var allPkgs []*packages.Package
	packages.Visit(pkgs, nil, func(p *packages.Package) { allPkgs = append(allPkgs, p) })
	for _, p := range allPkgs {
		if p.PkgPath != modPath && !strings.HasPrefix(p.PkgPath, modPath+"/") {
			continue
		}
		short := strings.TrimPrefix(strings.TrimPrefix(p.PkgPath, modPath), "/")
		if short == "" {
			short = "main"
		}
		c.Pkgs[short] = p
		c.Mod = append(c.Mod, p)
		for _, f := range p.Syntax {
			for _, d := range f.Decls {
				if fd, ok := d.(*ast.FuncDecl); ok {
					if obj, ok := p.TypesInfo.Defs[fd.Name].(*types.Func); ok {
						c.declOf[obj] = fd
						c.pkgOf[fd] = p
					}
				}
			}
		}
	}
	sort.Slice(c.Mod, func(i, j int) bool { return c.Mod[i].PkgPath < c.Mod[j].PkgPath })
	if len(c.Mod) < lc.MinPkgs {
		undecidedf("only %d module packages loaded from %s (want >= %d)", len(c.Mod), lc.Repo, lc.MinPkgs)
	}
	return c
}

// P returns a module package by short name or declares the run undecided.
func (c *Ctx) P(short string) *packages.Package {
	p := c.Pkgs[short]
	if p == nil {
		undecidedf("anchor package %q not found", short)
	}
	return p
}

// Fn looks up a function or method anchor: "evalInternal", "State.Eval", "Environment.MakeRegister".
func (c *Ctx) Fn(short, name string) *types.Func {
	f := c.FnOpt(short, name)
	if f == nil {
		undecidedf("anchor %s.%s not found", short, name)
	}
	return f
}

func (c *Ctx) FnOpt(short, name string) *types.Func {
	p := c.Pkgs[short]
	if p == nil {
		return nil
	}
	scope := p.Types.Scope()
	if i := strings.IndexByte(name, '.'); i >= 0 {
		tn, _ := scope.Lookup(name[:i]).(*types.TypeName)
		if tn == nil {
			return nil
		}
		obj, _, _ := types.LookupFieldOrMethod(types.NewPointer(tn.Type()), true, p.Types, name[i+1:])
		f, _ := obj.(*types.Func)
		return f
	}
	f, _ := scope.Lookup(name).(*types.Func)
	return f
}

func (c *Ctx) TypeNamed(short, name string) *types.Named {
	p := c.P(short)
	tn, _ := p.Types.Scope().Lookup(name).(*types.TypeName)
	if tn == nil {
		undecidedf("anchor type %s.%s not found", short, name)
	}
	n, _ := tn.Type().(*types.Named)
	if n == nil {
		undecidedf("anchor type %s.%s is not a named type", short, name)
	}
	return n
}

func (c *Ctx) Var(short, name string) *types.Var {
	p := c.P(short)
	v, _ := p.Types.Scope().Lookup(name).(*types.Var)
	if v == nil {
		undecidedf("anchor variable %s.%s not found", short, name)
	}
	return v
}

func (c *Ctx) Const(short, name string) *types.Const {
	p := c.P(short)
	v, _ := p.Types.Scope().Lookup(name).(*types.Const)
	if v == nil {
		undecidedf("anchor constant %s.%s not found", short, name)
	}
	return v
}

// Decl returns the syntax of a module function (nil for functions without body here).
func (c *Ctx) Decl(f *types.Func) *ast.FuncDecl {
	if f == nil {
		return nil
	}
	return c.declOf[f.Origin()]
}

func (c *Ctx) MustDecl(f *types.Func) *ast.FuncDecl {
	d := c.Decl(f)
	if d == nil || d.Body == nil {
		undecidedf("no body for anchor %s", f.FullName())
	}
	return d
}

func (c *Ctx) InfoFor(fd *ast.FuncDecl) *types.Info { return c.pkgOf[fd].TypesInfo }

// PkgOfPos finds the module package containing a position.
func (c *Ctx) PkgOfFile(file *ast.File) *packages.Package {
	for _, p := range c.Mod {
		for _, f := range p.Syntax {
			if f == file {
				return p
			}
		}
	}
	return nil
}

func (c *Ctx) Pos(p token.Pos) string {
	if !p.IsValid() {
		return "-"
	}
	pos := c.Fset.Position(p)
	fn := strings.TrimPrefix(pos.Filename, c.Repo+"/")
	return fmt.Sprintf("%s:%d", fn, pos.Line)
}

// IsModule reports whether the object belongs to grol.io/grol.
func isModulePkg(p *types.Package) bool {
	return p != nil && (p.Path() == modPath || strings.HasPrefix(p.Path(), modPath+"/"))
}

func shortPkg(p *types.Package) string {
	if p == nil {
		return ""
	}
	s := strings.TrimPrefix(strings.TrimPrefix(p.Path(), modPath), "/")
	if s == "" && p.Path() == modPath {
		return "main"
	}
	return s
}

// FuncName gives a stable, position-free name: "eval.(*State).evalInternal", "object.Cmp".
func funcName(f *types.Func) string {
	if f == nil {
		return "?"
	}
	sig, _ := f.Type().(*types.Signature)
	pk := shortPkg(f.Pkg())
	if !isModulePkg(f.Pkg()) && f.Pkg() != nil {
		pk = f.Pkg().Path()
	}
	if sig != nil && sig.Recv() != nil {
		t := sig.Recv().Type()
		ptr := ""
		if pt, ok := t.(*types.Pointer); ok {
			t = pt.Elem()
			ptr = "*"
		}
		tn := "?"
		if n, ok := t.(*types.Named); ok {
			tn = n.Obj().Name()
		}
		return fmt.Sprintf("%s.(%s%s).%s", pk, ptr, tn, f.Name())
	}
	return pk + "." + f.Name()
}

// ---------- SSA ----------

func (c *Ctx) SSA() *ssa.Program {
	if c.prog != nil {
		return c.prog
	}
	prog, pkgs := ssautil.AllPackages(c.all, ssa.InstantiateGenerics)
	prog.Build()
	c.prog = prog
	c.ssaPkgs = pkgs
	return prog
}

func (c *Ctx) SSAPkg(short string) *ssa.Package {
	prog := c.SSA()
	p := prog.Package(c.P(short).Types)
	if p == nil {
		undecidedf("no SSA package for %s", short)
	}
	return p
}

func (c *Ctx) SSAFn(f *types.Func) *ssa.Function {
	fn := c.SSA().FuncValue(f)
	if fn == nil {
		undecidedf("no SSA function for %s", f.FullName())
	}
	return fn
}

// ssaFuncName names an ssa.Function stably, including closures ("eval.setupRegister$1").
func ssaFuncName(fn *ssa.Function) string {
	if fn == nil {
		return "?"
	}
	if fn.Parent() != nil {
		// closure: parent name + $n
		name := fn.Name()
		if i := strings.LastIndexByte(name, '$'); i >= 0 {
			return ssaFuncName(fn.Parent()) + name[i:]
		}
		return ssaFuncName(fn.Parent()) + "$" + name
	}
	if obj, ok := fn.Object().(*types.Func); ok && obj != nil {
		return funcName(obj)
	}
	if fn.Pkg != nil {
		return shortPkg(fn.Pkg.Pkg) + "." + fn.Name()
	}
	return fn.String()
}

// ModuleSSAFuncs returns every function (incl. closures, methods) whose source is in the module.
func (c *Ctx) ModuleSSAFuncs() []*ssa.Function {
	prog := c.SSA()
	var res []*ssa.Function
	for fn := range ssautil.AllFunctions(prog) {
		if fn.Synthetic != "" && fn.Syntax() == nil {
			continue
		}
		if isModuleSSA(fn) && fn.Blocks != nil {
			res = append(res, fn)
		}
	}
	sort.Slice(res, func(i, j int) bool {
		a, b := ssaFuncName(res[i]), ssaFuncName(res[j])
		if a != b {
			return a < b
		}
		return res[i].Pos() < res[j].Pos()
	})
	return res
}

func isModuleSSA(fn *ssa.Function) bool {
	for f := fn; f != nil; f = f.Parent() {
		if f.Pkg != nil {
			return isModulePkg(f.Pkg.Pkg)
		}
		if obj := f.Object(); obj != nil {
			return isModulePkg(obj.Pkg())
		}
	}
	return false
}
