package main

// derefrule: a value that may be an object.Reference is not discriminated by its dynamic type.
//
// Identifiers of an outer scope evaluate to an object.Reference (Environment.Get / makeRef); evalInternal
// hands it back as is, State.Eval and object.Value dereference it. A Reference has tag REFERENCE, is no
// Integer/String/Map/..., and is not the TRUE/FALSE/NULL singleton: a type test applied to it takes the
// "not a ..." arm although the variable holds such a value (flag=true; func f(){if flag {1}}; f() is an
// error). Sites: x.Type() compared with (or switched on) the tag of a storable value, type assertions and
// type switches to the Go types of storable values, interface comparisons with TRUE, FALSE or NULL.

import (
	"fmt"
	"go/token"
	"go/types"
	"sort"

	"golang.org/x/tools/go/ssa"
)

type derefSite struct {
	fn    *ssa.Function
	at    ssa.Instruction
	v     ssa.Value
	what  string
	dirty bool
}

func (c *Ctx) derefSites(pkgs map[string]bool) (sites []derefSite) {
	spec := c.referenceSpec()
	spec.ElemMay = c.refListElems()
	t := NewTaint(c, spec)
	objT := c.TypeNamed("object", "Object")
	refT := c.TypeNamed("object", "Reference")
	mechanism := map[int64]bool{}
	for _, n := range []string{"REFERENCE", "REGISTER", "ERROR", "RETURN", "UNKNOWN"} {
		mechanism[c.tagConst(n)] = true
	}
	mechTypes := map[string]bool{"Reference": true, "Register": true, "Error": true, "ReturnValue": true}
	singleton := map[*ssa.Global]bool{}
	for _, n := range []string{"TRUE", "FALSE", "NULL"} {
		if g, ok := c.SSAPkg("object").Members[n].(*ssa.Global); ok {
			singleton[g] = true
		}
	}
	isObjIface := func(tp types.Type) bool { return types.Identical(tp, objT) }
	refTag := c.tagConst("REFERENCE")
	cleanBy := func(v ssa.Value, conds []ctrlCond) bool {
		for _, cc := range conds {
			if k, op, ok := c.tagTest(cc.Cond, v); ok {
				isEq := (op == token.EQL) == (cc.Edge == 0)
				if (k == refTag && !isEq) || (k != refTag && isEq) {
					return true
				}
			}
			if ex, ok := cc.Cond.(*ssa.Extract); ok && ex.Index == 1 && cc.Edge == 1 {
				if ta, ok := ex.Tuple.(*ssa.TypeAssert); ok && ta.CommaOk && ta.X == v && types.Identical(ta.AssertedType, refT) {
					return true
				}
			}
		}
		return false
	}
	var dirtyAt func(v ssa.Value, b *ssa.BasicBlock, extra []ctrlCond, depth int) bool
	dirtyAt = func(v ssa.Value, b *ssa.BasicBlock, extra []ctrlCond, depth int) bool {
		if !t.May(v) {
			return false
		}
		if cleanBy(v, controlling(b)) || cleanBy(v, extra) {
			return false
		}
		if phi, ok := v.(*ssa.Phi); ok && depth < 4 {
			for i, e := range phi.Edges {
				pred := phi.Block().Preds[i]
				var ec []ctrlCond
				if ifi, ok := pred.Instrs[len(pred.Instrs)-1].(*ssa.If); ok && pred.Succs[0] != pred.Succs[1] {
					for ed := 0; ed < 2; ed++ {
						if pred.Succs[ed] == phi.Block() {
							ec = append(ec, expandCond(ifi, ifi.Cond, ed, 0)...)
						}
					}
				}
				if dirtyAt(e, pred, ec, depth+1) {
					return true
				}
			}
			return false
		}
		return true
	}
	dirty := func(v ssa.Value, use ssa.Instruction) bool {
		if !isObjIface(v.Type()) {
			return false
		}
		return dirtyAt(v, use.Block(), nil, 0)
	}
	isSingleton := func(v ssa.Value) bool {
		switch x := v.(type) {
		case *ssa.UnOp:
			if g, ok := x.X.(*ssa.Global); ok && x.Op == token.MUL {
				return singleton[g]
			}
		case *ssa.MakeInterface:
			if ld, ok := x.X.(*ssa.UnOp); ok && ld.Op == token.MUL {
				if g, ok := ld.X.(*ssa.Global); ok {
					return singleton[g]
				}
			}
		}
		return false
	}
	for _, fn := range c.ModuleSSAFuncs() {
		top := fn
		for top.Parent() != nil {
			top = top.Parent()
		}
		if top.Pkg == nil || !pkgs[shortPkg(top.Pkg.Pkg)] {
			continue
		}
		eachInstr(fn, func(in ssa.Instruction) {
			switch x := in.(type) {
			case *ssa.TypeAssert:
				if !isObjIface(x.X.Type()) {
					return
				}
				at := x.AssertedType
				if p, ok := at.(*types.Pointer); ok {
					at = p.Elem()
				}
				n, ok := at.(*types.Named)
				if !ok || !isModulePkg(n.Obj().Pkg()) || mechTypes[n.Obj().Name()] {
					return
				}
				if it, isI := n.Underlying().(*types.Interface); isI && types.Implements(refT, it) {
					return
				}
				sites = append(sites, derefSite{fn, x, x.X, "type assertion to " + typeShort(x.AssertedType), dirty(x.X, x)})
			case *ssa.BinOp:
				if x.Op != token.EQL && x.Op != token.NEQ {
					return
				}
				// tag comparison
				for _, pair := range [][2]ssa.Value{{x.X, x.Y}, {x.Y, x.X}} {
					k, isK := constInt(pair[1])
					call, isCall := pair[0].(*ssa.Call)
					if isK && isCall && call.Common().IsInvoke() && call.Common().Method.Name() == "Type" && isObjIface(call.Common().Value.Type()) {
						if mechanism[k] {
							return
						}
						sites = append(sites, derefSite{fn, x, call.Common().Value, fmt.Sprintf("tag comparison with %s", c.tagName(k)), dirty(call.Common().Value, x)})
						return
					}
					if isSingleton(pair[1]) && isObjIface(pair[0].Type()) {
						sites = append(sites, derefSite{fn, x, pair[0], "comparison with the TRUE/FALSE/NULL singleton", dirty(pair[0], x)})
						return
					}
				}
			}
		})
	}
	sort.SliceStable(sites, func(i, j int) bool {
		if a, b := ssaFuncName(sites[i].fn), ssaFuncName(sites[j].fn); a != b {
			return a < b
		}
		return instrPos(sites[i].at) < instrPos(sites[j].at)
	})
	return
}

// derefExceptions: type tests on a value the engine cannot show to be dereferenced, keyed "function | test".
var derefExceptions = map[string]string{
	"eval.isMacroCall | type assertion to *object.Macro":             "the name is looked up in the macro store, a root environment: Get only builds a Reference for a name found in an outer environment, and a root has none (the engine joins all callers of Get)",
	"eval.convertObjectToASTNode | type assertion to object.Integer": "the object is the value of unquote(x) in the expansion environment; its parameters are created there (own store, returned as is), the only outer bindings are the macros themselves, and a Macro has no code form either: the same error arm is taken for the Reference and for its referent",
	"eval.convertObjectToASTNode | type assertion to object.Boolean": "same value as above (type switch)",
	"eval.convertObjectToASTNode | type assertion to object.Quote":   "same value as above (type switch)",
}

// derefFuncExceptions: whole functions, keyed by name.
var derefFuncExceptions = map[string]string{
	"object.Hashable": "deliberate: a Reference (an argument that is a variable of an outer scope) takes the default arm and is reported not hashable, so the call is not memoized on a value that can change (C04.R4 requires exactly that)",
}

// checkDerefBeforeTest: the rule.
func (c *Ctx) checkDerefBeforeTest(r *Report, rule string) {
	sites := c.derefSites(map[string]bool{"eval": true, "object": true, "extensions": true})
	counts := map[string]int{}
	for _, s := range sites {
		fname := ssaFuncName(s.fn)
		key := fname + " | " + s.what
		counts[key]++
		desc := s.what
		if counts[key] > 1 {
			desc = fmt.Sprintf("%s #%d", s.what, counts[key])
		}
		switch {
		case !s.dirty:
			r.Ok(rule, fname, desc, c.Pos(instrPos(s.at)))
		case derefExceptions[key] != "":
			r.Abstain(rule, fname, desc, c.Pos(instrPos(s.at)), derefExceptions[key])
		case derefFuncExceptions[fname] != "":
			r.Abstain(rule, fname, desc, c.Pos(instrPos(s.at)), derefFuncExceptions[fname])
		default:
			r.Fail(rule, fname, desc, c.Pos(instrPos(s.at)), "the tested value ("+s.v.Name()+") can be an object.Reference (a variable of an outer scope as evalInternal / Environment.Get hand it back, possibly as an element of an argument list that was not dereferenced: positions declared ANY or beyond the declared types of an extension) and no object.Value(), State.Eval or REFERENCE test precedes the test on this path: the test fails although the variable holds a value of the tested type (flag=true; func f(){if flag {1}}; f() is an error)")
		}
	}
	r.Note("%s: %d type tests on object.Object values examined", rule, len(sites))
	if len(sites) < 150 {
		r.Undecided("%s: only %d type tests found (about 250 expected)", rule, len(sites))
	}
	r.Floor(rule, 150)
}

func (c *Ctx) tagName(k int64) string {
	sc := c.P("object").Types.Scope()
	for _, n := range sc.Names() {
		if k2, ok := sc.Lookup(n).(*types.Const); ok && types.Identical(k2.Type(), c.TypeNamed("object", "Type")) {
			if v, ok := constInt64(k2); ok && v == k {
				return n
			}
		}
	}
	return fmt.Sprint(k)
}

func init() {
	dumpers["derefsites"] = func(c *Ctx) {
		sites := c.derefSites(map[string]bool{"eval": true, "extensions": true, "object": true})
		fmt.Println("examined", len(sites))
		for _, s := range sites {
			if !s.dirty {
				continue
			}
			fmt.Printf("%s | %s | %s | %s\n", c.Pos(instrPos(s.at)), ssaFuncName(s.fn), s.what, s.v.Name())
		}
	}
}

// refListElems: may an element read from a []Object list be a Reference?
//
//   - in an extension callback: by the registry (extreg). applyExtension dereferences the arguments whose
//     declared type is not ANY, in place, before the callback runs; positions declared ANY and positions
//     beyond the declared types (variadic callbacks) are handed over as evaluated;
//   - elsewhere: by the list analysis of reflist.go (lists filled from evalInternal results hold
//     References until a full Value() sweep).
func (c *Ctx) refListElems() func(ia *ssa.IndexAddr) bool {
	rl := c.NewRefLists()
	type cbInfo struct{ regs []*Registration }
	cbs := map[*ssa.Function]*cbInfo{}
	for _, reg := range c.ExtReg() {
		if reg.Callback == nil {
			continue
		}
		introspection := false
		for _, n := range reg.Names {
			if n == "type" {
				introspection = true // shows References on purpose
			}
		}
		if introspection {
			if cbs[reg.Callback] == nil {
				cbs[reg.Callback] = &cbInfo{}
			}
			continue
		}
		if cbs[reg.Callback] == nil {
			cbs[reg.Callback] = &cbInfo{}
		}
		cbs[reg.Callback].regs = append(cbs[reg.Callback].regs, reg)
	}
	mayAt := func(reg *Registration, i int) bool {
		if i < len(reg.ArgTypes) {
			return reg.ArgTypes[i] == "ANY"
		}
		return reg.MaxArgs == -1 || reg.MaxArgs > len(reg.ArgTypes)
	}
	mayFrom := func(reg *Registration, lo int) bool {
		for i := lo; i < len(reg.ArgTypes); i++ {
			if reg.ArgTypes[i] == "ANY" {
				return true
			}
		}
		return reg.MaxArgs == -1 || reg.MaxArgs > len(reg.ArgTypes)
	}
	// strip slices: the list v is base[lo:] (lo = -1: unknown offset)
	strip := func(v ssa.Value) (ssa.Value, int) {
		lo := 0
		for {
			sl, ok := v.(*ssa.Slice)
			if !ok {
				return v, lo
			}
			if sl.Low != nil && lo >= 0 {
				if k, isK := constInt(sl.Low); isK {
					lo += int(k)
				} else {
					lo = -1
				}
			}
			v = sl.X
		}
	}
	// argLists: the callbacks (with the offset) whose argument list a []Object value is; ok=false when it is
	// something else
	type origin struct {
		info *cbInfo
		lo   int
	}
	var argLists func(v ssa.Value, depth int) ([]origin, bool)
	argLists = func(v ssa.Value, depth int) ([]origin, bool) {
		base, lo := strip(v)
		p, ok := base.(*ssa.Parameter)
		if !ok || depth > 3 {
			return nil, false
		}
		fn := p.Parent()
		if info := cbs[fn]; info != nil && len(fn.Params) > 0 && p == fn.Params[len(fn.Params)-1] {
			return []origin{{info, lo}}, true
		}
		// a helper: every caller hands it (a slice of) a callback's argument list
		sites, ok := c.argsAtCallSites(p)
		if !ok || len(sites) == 0 {
			return nil, false
		}
		var res []origin
		for _, s := range sites {
			os, ok := argLists(s.v, depth+1)
			if !ok {
				return nil, false
			}
			for _, o := range os {
				if lo < 0 || o.lo < 0 {
					o.lo = -1
				} else {
					o.lo += lo
				}
				res = append(res, o)
			}
		}
		return res, true
	}
	return func(ia *ssa.IndexAddr) bool {
		origins, ok := argLists(ia.X, 0)
		if !ok {
			if !rl.isList(ia.X) {
				return false
			}
			return rl.rawAt(ia.X, ia, map[ssa.Value]bool{})
		}
		for _, o := range origins {
			for _, reg := range o.info.regs {
				k, isK := constInt(ia.Index)
				switch {
				case isK && o.lo >= 0:
					if mayAt(reg, o.lo+int(k)) {
						return true
					}
				case o.lo >= 0:
					if mayFrom(reg, o.lo) {
						return true
					}
				default:
					if mayFrom(reg, 0) {
						return true
					}
				}
			}
		}
		return false
	}
}
