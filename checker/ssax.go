package main

// SSA helpers shared by the rules: callee resolution, instruction-level path
// queries (must-pass-through), edge-sensitive dominance, condition decoding.

import (
	"fmt"
	"go/constant"
	"go/token"
	"go/types"
	"sort"

	"golang.org/x/tools/go/callgraph"
	"golang.org/x/tools/go/callgraph/cha"
	"golang.org/x/tools/go/ssa"
)

// calleeObj resolves the called function object of a call instruction: the static
// callee, or the interface method for an invoke. nil for calls through function values
// and builtins.
func calleeObj(call ssa.CallInstruction) *types.Func {
	cc := call.Common()
	if cc.IsInvoke() {
		return cc.Method
	}
	if sc := cc.StaticCallee(); sc != nil {
		if obj, ok := sc.Object().(*types.Func); ok && obj != nil {
			return obj.Origin()
		}
		// instantiation of a generic / wrapper: try origin
		if sc.Origin() != nil {
			if obj, ok := sc.Origin().Object().(*types.Func); ok {
				return obj
			}
		}
	}
	return nil
}

func isCallTo(instr ssa.Instruction, targets ...*types.Func) bool {
	call, ok := instr.(ssa.CallInstruction)
	if !ok {
		return false
	}
	obj := calleeObj(call)
	if obj == nil {
		return false
	}
	for _, t := range targets {
		if t != nil && obj == t.Origin() {
			return true
		}
	}
	return false
}

// isStdCall matches a call to pkgpath.name (function) or pkgpath.Type.name (method).
func isStdCall(instr ssa.Instruction, pkgPath string, names ...string) bool {
	call, ok := instr.(ssa.CallInstruction)
	if !ok {
		return false
	}
	obj := calleeObj(call)
	if obj == nil || obj.Pkg() == nil || obj.Pkg().Path() != pkgPath {
		return false
	}
	for _, n := range names {
		if obj.Name() == n {
			return true
		}
	}
	return false
}

func callsIn(fn *ssa.Function, targets ...*types.Func) []ssa.CallInstruction {
	var res []ssa.CallInstruction
	for _, b := range fn.Blocks {
		for _, in := range b.Instrs {
			if isCallTo(in, targets...) {
				res = append(res, in.(ssa.CallInstruction))
			}
		}
	}
	return res
}

func eachInstr(fn *ssa.Function, f func(ssa.Instruction)) {
	for _, b := range fn.Blocks {
		for _, in := range b.Instrs {
			f(in)
		}
	}
}

// withClosures returns fn and all anonymous functions nested in it.
func withClosures(fn *ssa.Function) []*ssa.Function {
	res := []*ssa.Function{fn}
	for _, a := range fn.AnonFuncs {
		res = append(res, withClosures(a)...)
	}
	return res
}

func instrIndex(in ssa.Instruction) int {
	for i, x := range in.Block().Instrs {
		if x == in {
			return i
		}
	}
	return -1
}

// instrDominates: a executes before b on every path reaching b.
func instrDominates(a, b ssa.Instruction) bool {
	if a.Block() == b.Block() {
		return instrIndex(a) < instrIndex(b)
	}
	return a.Block().Dominates(b.Block())
}

// onEdge reports whether block b can only be entered through the given edge of the If
// terminating block "from" (edge 0 = true, 1 = false).
func onEdge(from *ssa.BasicBlock, edge int, b *ssa.BasicBlock) bool {
	if len(from.Succs) != 2 {
		return false
	}
	s := from.Succs[edge]
	if s == from.Succs[1-edge] {
		return false
	}
	if len(s.Preds) != 1 {
		return false
	}
	return s == b || s.Dominates(b)
}

// exitKind classifies function exits.
type pathResult struct {
	exit  ssa.Instruction // offending exit (Return) reached without passing a satisfying instruction
	trace []*ssa.BasicBlock
}

// mustPassBeforeExit: starting just after 'start', does every path to a normal return
// pass an instruction for which sat() is true? Returns the first offending path if not.
// Panics (ssa.Panic) and calls for which noreturn() holds end a path harmlessly.
func mustPassBeforeExit(start ssa.Instruction, sat func(ssa.Instruction) bool) *pathResult {
	return mustPassBefore(start, sat, func(in ssa.Instruction) bool {
		_, ok := in.(*ssa.Return)
		return ok
	})
}

// mustPassBefore: every path from just after start to an instruction matching target
// passes an instruction matching sat first.
func mustPassBefore(start ssa.Instruction, sat, target func(ssa.Instruction) bool) *pathResult {
	blk := start.Block()
	idx := instrIndex(start) + 1
	visited := map[*ssa.BasicBlock]bool{}
	var trace []*ssa.BasicBlock
	var walk func(b *ssa.BasicBlock, from int) *pathResult
	walk = func(b *ssa.BasicBlock, from int) *pathResult {
		trace = append(trace, b)
		defer func() { trace = trace[:len(trace)-1] }()
		for i := from; i < len(b.Instrs); i++ {
			in := b.Instrs[i]
			if sat(in) {
				return nil
			}
			if target(in) {
				return &pathResult{exit: in, trace: append([]*ssa.BasicBlock(nil), trace...)}
			}
			if _, ok := in.(*ssa.Panic); ok {
				return nil
			}
		}
		for _, s := range b.Succs {
			if visited[s] {
				continue
			}
			visited[s] = true
			if r := walk(s, 0); r != nil {
				return r
			}
		}
		return nil
	}
	return walk(blk, idx)
}

// mustPassFromEntry: every path from function entry to an instruction matching target
// passes an instruction matching sat first.
func mustPassFromEntry(fn *ssa.Function, sat, target func(ssa.Instruction) bool) *pathResult {
	if len(fn.Blocks) == 0 {
		return nil
	}
	visited := map[*ssa.BasicBlock]bool{fn.Blocks[0]: true}
	var trace []*ssa.BasicBlock
	var walk func(b *ssa.BasicBlock) *pathResult
	walk = func(b *ssa.BasicBlock) *pathResult {
		trace = append(trace, b)
		defer func() { trace = trace[:len(trace)-1] }()
		for _, in := range b.Instrs {
			if sat(in) {
				return nil
			}
			if target(in) {
				return &pathResult{exit: in, trace: append([]*ssa.BasicBlock(nil), trace...)}
			}
			if _, ok := in.(*ssa.Panic); ok {
				return nil
			}
		}
		for _, s := range b.Succs {
			if !visited[s] {
				visited[s] = true
				if r := walk(s); r != nil {
					return r
				}
			}
		}
		return nil
	}
	return walk(fn.Blocks[0])
}

func (c *Ctx) tracePath(pr *pathResult) []string {
	var res []string
	for _, b := range pr.trace {
		pos := token.NoPos
		for _, in := range b.Instrs {
			if in.Pos().IsValid() {
				pos = in.Pos()
				break
			}
		}
		res = append(res, fmt.Sprintf("block %d (%s) %s", b.Index, b.Comment, c.Pos(pos)))
	}
	if pr.exit != nil {
		res = append(res, fmt.Sprintf("exit: %s at %s", pr.exit.String(), c.Pos(instrPos(pr.exit))))
	}
	return res
}

// instrPos gives the best available source position of an instruction.
func instrPos(in ssa.Instruction) token.Pos {
	if in.Pos().IsValid() {
		return in.Pos()
	}
	if r, ok := in.(*ssa.Return); ok {
		for _, v := range r.Results {
			if p := valuePos(v); p.IsValid() {
				return p
			}
		}
	}
	// fall back on neighbours in the block
	b := in.Block()
	idx := instrIndex(in)
	for i := idx - 1; i >= 0; i-- {
		if b.Instrs[i].Pos().IsValid() {
			return b.Instrs[i].Pos()
		}
	}
	for i := idx + 1; i < len(b.Instrs); i++ {
		if b.Instrs[i].Pos().IsValid() {
			return b.Instrs[i].Pos()
		}
	}
	if in.Parent() != nil {
		return in.Parent().Pos()
	}
	return token.NoPos
}

func valuePos(v ssa.Value) token.Pos {
	if in, ok := v.(ssa.Instruction); ok {
		return in.Pos()
	}
	return v.Pos()
}

// constInt returns the integer constant value of v if it is one.
func constInt(v ssa.Value) (int64, bool) {
	if c, ok := v.(*ssa.Const); ok && c.Value != nil && c.Value.Kind() == constant.Int {
		i, ok := constant.Int64Val(c.Value)
		return i, ok
	}
	return 0, false
}

func constString(v ssa.Value) (string, bool) {
	if c, ok := v.(*ssa.Const); ok && c.Value != nil && c.Value.Kind() == constant.String {
		return constant.StringVal(c.Value), true
	}
	return "", false
}

// stripConv looks through conversions / ChangeType / MakeInterface wrappers.
func stripConv(v ssa.Value) ssa.Value {
	for {
		switch x := v.(type) {
		case *ssa.Convert:
			v = x.X
		case *ssa.ChangeType:
			v = x.X
		case *ssa.ChangeInterface:
			v = x.X
		default:
			return v
		}
	}
}

// ---------- call graph (CHA, module-restricted views) ----------

type callGraph struct {
	g *callgraph.Graph
}

func (c *Ctx) CG() *callGraph {
	if c.cgModule == nil {
		g := cha.CallGraph(c.SSA())
		c.cgModule = &callGraph{g: g}
	}
	return c.cgModule
}

type edgeFilter func(e *callgraph.Edge) bool

// staticOrInvoke keeps edges from static calls and interface-method invokes only
// (drops calls through function values, which CHA resolves by signature).
func staticOrInvoke(e *callgraph.Edge) bool {
	if e.Site == nil {
		return true
	}
	cc := e.Site.Common()
	if cc.IsInvoke() {
		return true
	}
	return cc.StaticCallee() != nil
}

// Reach computes the set of module functions reachable from roots, following edges that
// pass keep (nil = all) and not entering functions for which cut() is true.
func (cg *callGraph) Reach(roots []*ssa.Function, keep edgeFilter, cut func(*ssa.Function) bool) map[*ssa.Function]bool {
	seen := map[*ssa.Function]bool{}
	var work []*ssa.Function
	push := func(f *ssa.Function) {
		if f == nil || seen[f] {
			return
		}
		if cut != nil && cut(f) {
			return
		}
		seen[f] = true
		work = append(work, f)
	}
	for _, r := range roots {
		push(r)
	}
	for len(work) > 0 {
		f := work[len(work)-1]
		work = work[:len(work)-1]
		n := cg.g.Nodes[f]
		if n != nil {
			for _, e := range n.Out {
				if keep != nil && !keep(e) {
					continue
				}
				push(e.Callee.Func)
			}
		}
		// closures created by f are considered reachable with f
		for _, a := range f.AnonFuncs {
			push(a)
		}
	}
	return seen
}

func sortedFuncs(m map[*ssa.Function]bool) []*ssa.Function {
	res := make([]*ssa.Function, 0, len(m))
	for f := range m {
		res = append(res, f)
	}
	sort.Slice(res, func(i, j int) bool {
		a, b := ssaFuncName(res[i]), ssaFuncName(res[j])
		if a != b {
			return a < b
		}
		return res[i].Pos() < res[j].Pos()
	})
	return res
}

// ---------- phi-sensitive path search ----------

// nonNilValue: v is obviously non-nil (address-of, allocation, or a call whose every return is such; depth 2).
func nonNilValue(v ssa.Value, depth int) bool {
	switch x := v.(type) {
	case *ssa.Alloc, *ssa.FieldAddr, *ssa.IndexAddr, *ssa.MakeInterface, *ssa.MakeClosure, *ssa.MakeMap, *ssa.MakeSlice, *ssa.MakeChan, *ssa.Function, *ssa.Global:
		return true
	case *ssa.Call:
		if depth > 2 {
			return false
		}
		sc := x.Common().StaticCallee()
		if sc == nil || sc.Blocks == nil {
			return false
		}
		ok := true
		n := 0
		eachInstr(sc, func(in ssa.Instruction) {
			if r, isRet := in.(*ssa.Return); isRet && len(r.Results) == 1 {
				n++
				if !nonNilValue(r.Results[0], depth+1) {
					ok = false
				}
			}
		})
		return ok && n > 0
	}
	return false
}

// pathSearch walks forward from just after start, choosing for "flag-like" phis (those with a
// nil or boolean constant edge) the edge actually taken, and pruning branches whose condition
// is decided by such a phi. It returns a path to an instruction matching target that does not
// pass one matching sat, or nil. Paths ending in panic are ignored.
func pathSearch(start ssa.Instruction, sat, target func(ssa.Instruction) bool) *pathResult {
	type state struct {
		b   *ssa.BasicBlock
		asg string
	}
	flagPhi := func(p *ssa.Phi) bool {
		for _, e := range p.Edges {
			if k, ok := e.(*ssa.Const); ok && (k.Value == nil || k.Value.Kind() == constant.Bool) {
				return true
			}
		}
		return false
	}
	asgKey := func(m map[*ssa.Phi]ssa.Value) string {
		var ks []string
		for p, v := range m {
			ks = append(ks, p.Name()+"="+v.Name()+v.String())
		}
		sort.Strings(ks)
		return fmt.Sprint(ks)
	}
	seen := map[state]bool{}
	var trace []*ssa.BasicBlock
	// decide evaluates an If condition under the assignment: 1 true, 0 false, -1 unknown
	var valueOf func(v ssa.Value, asg map[*ssa.Phi]ssa.Value) ssa.Value
	valueOf = func(v ssa.Value, asg map[*ssa.Phi]ssa.Value) ssa.Value {
		for i := 0; i < 4; i++ {
			p, ok := v.(*ssa.Phi)
			if !ok {
				return v
			}
			nv, ok := asg[p]
			if !ok {
				return v
			}
			v = nv
		}
		return v
	}
	decide := func(cond ssa.Value, asg map[*ssa.Phi]ssa.Value) int {
		cond = valueOf(cond, asg)
		if k, ok := cond.(*ssa.Const); ok && k.Value != nil && k.Value.Kind() == constant.Bool {
			if constant.BoolVal(k.Value) {
				return 1
			}
			return 0
		}
		if bin, ok := cond.(*ssa.BinOp); ok && (bin.Op == token.EQL || bin.Op == token.NEQ) {
			x, y := valueOf(bin.X, asg), valueOf(bin.Y, asg)
			if isNilConst(y) {
				x, y = y, x
			}
			if isNilConst(x) {
				res := -1
				if isNilConst(y) {
					res = 1
				} else if nonNilValue(y, 0) {
					res = 0
				}
				if res >= 0 {
					if bin.Op == token.NEQ {
						res = 1 - res
					}
					return res
				}
			}
		}
		return -1
	}
	var walk func(b *ssa.BasicBlock, from int, pred *ssa.BasicBlock, asg map[*ssa.Phi]ssa.Value) *pathResult
	walk = func(b *ssa.BasicBlock, from int, pred *ssa.BasicBlock, asg map[*ssa.Phi]ssa.Value) *pathResult {
		// bind phis of this block according to pred
		if pred != nil {
			idx := -1
			for i, p := range b.Preds {
				if p == pred {
					idx = i
				}
			}
			changed := false
			for _, in := range b.Instrs {
				p, ok := in.(*ssa.Phi)
				if !ok {
					break
				}
				if flagPhi(p) && idx >= 0 {
					if !changed {
						n := map[*ssa.Phi]ssa.Value{}
						for k, v := range asg {
							n[k] = v
						}
						asg = n
						changed = true
					}
					asg[p] = valueOf(p.Edges[idx], asg)
				}
			}
		}
		st := state{b, asgKey(asg)}
		if from == 0 {
			if seen[st] {
				return nil
			}
			seen[st] = true
		}
		trace = append(trace, b)
		defer func() { trace = trace[:len(trace)-1] }()
		for i := from; i < len(b.Instrs); i++ {
			in := b.Instrs[i]
			if sat(in) {
				return nil
			}
			if target(in) {
				return &pathResult{exit: in, trace: append([]*ssa.BasicBlock(nil), trace...)}
			}
			if _, ok := in.(*ssa.Panic); ok {
				return nil
			}
		}
		if ifi, ok := b.Instrs[len(b.Instrs)-1].(*ssa.If); ok {
			switch decide(ifi.Cond, asg) {
			case 1:
				return walk(b.Succs[0], 0, b, asg)
			case 0:
				return walk(b.Succs[1], 0, b, asg)
			}
		}
		for _, s := range b.Succs {
			if r := walk(s, 0, b, asg); r != nil {
				return r
			}
		}
		return nil
	}
	return walk(start.Block(), instrIndex(start)+1, nil, map[*ssa.Phi]ssa.Value{})
}

func isReturn(in ssa.Instruction) bool { _, ok := in.(*ssa.Return); return ok }

// retVal returns the i-th result of a return, looking through the spill that go/ssa inserts
// in functions with defers (*result = v; rundefers; t = *result; return t).
func retVal(ret *ssa.Return, i int) ssa.Value {
	v := ret.Results[i]
	ld, ok := v.(*ssa.UnOp)
	if !ok || ld.Op != token.MUL {
		return v
	}
	al, ok := ld.X.(*ssa.Alloc)
	if !ok {
		return v
	}
	b := ret.Block()
	for j := instrIndex(ld) - 1; j >= 0; j-- {
		if st, ok := b.Instrs[j].(*ssa.Store); ok && st.Addr == al {
			return st.Val
		}
	}
	return v
}

func allInstrs(fn *ssa.Function) []ssa.Instruction {
	var res []ssa.Instruction
	for _, b := range fn.Blocks {
		res = append(res, b.Instrs...)
	}
	return res
}

var addrTakenCache = map[*Ctx]map[*ssa.Function]bool{}

// AddressTaken: module functions used as values somewhere in the module (only those can be the target
// of a call through a function value; CHA alone matches every function of the same signature).
func (c *Ctx) AddressTaken() map[*ssa.Function]bool {
	if m, ok := addrTakenCache[c]; ok {
		return m
	}
	taken := map[*ssa.Function]bool{}
	fns := c.ModuleSSAFuncs()
	for _, p := range c.Mod {
		if sp := c.SSA().Package(p.Types); sp != nil {
			if ini := sp.Func("init"); ini != nil && ini.Blocks != nil {
				fns = append(fns, ini)
			}
		}
	}
	for _, fn := range fns {
		eachInstr(fn, func(in ssa.Instruction) {
			var ops []*ssa.Value
			ops = in.Operands(ops)
			for i, op := range ops {
				if *op == nil {
					continue
				}
				f, ok := (*op).(*ssa.Function)
				if !ok {
					continue
				}
				if call, isCall := in.(ssa.CallInstruction); isCall && i == 0 && call.Common().Value == *op {
					continue // call position
				}
				taken[f] = true
			}
		})
	}
	addrTakenCache[c] = taken
	return taken
}
