package main

import (
	"fmt"
	"go/token"
	"go/types"
	"strings"

	"golang.org/x/tools/go/ssa"
)

// grolConstantName mirrors the documented definition of a constant identifier (all upper case,
// digits and _ allowed after the first character); used only to evaluate constant *arguments*
// of SetNoChecks at analysis time.
func grolConstantName(name string) bool {
	for i, v := range name {
		if i != 0 && (v == '_' || (v >= '0' && v <= '9')) {
			continue
		}
		if v < 'A' || v > 'Z' {
			return false
		}
	}
	return true
}

func runC19(c *Ctx, r *Report) {
	r.Rule("C19.R1", "who may write bindings: stores into / deletes from Environment.store occur only in create, update, SetNoChecks, makeRef and Delete; create/update are called only from SetNoChecks; SetNoChecks is called only from CreateOrSet or with a constant name that is not a constant identifier")
	r.Rule("C19.R2", "every path of CreateOrSet to SetNoChecks tests Constant(name), and once the name is found bound no path reaches SetNoChecks at all (it returns an Error or the existing value: an Equal value is not an identical one)")
	r.Rule("C06.R1", "check precedes mutation: (shared with C06) in-place writes to the storage of a looked-up binding happen before any constant check, so a constant holding a large array or map is modified although an error is returned")
	r.Rule("C05.R3", "(shared with C05) no object that may be a live *Register reaches a binding store or container storage (which a constant can then be bound to) without object.Value/CopyRegister")
	r.Rule("C19.R5", "object.Constant implements the documented predicate: evaluated on every ASCII character at the first and at a later position, evaluated (AST interpretation) on every ASCII name of length 1 and 2 and on representative names of length 3 and 4, it accepts exactly [A-Z][A-Z0-9_]*")
	r.Rule("C19.R4", "register path: a register is bound to a name (setupRegister/MakeRegister) only where the name is known not to be a constant identifier")

	envT := c.TypeNamed("object", "Environment")
	storeIdx := fieldIndex(envT, "store")
	allowedWriters := map[string]bool{
		"object.(*Environment).create": true, "object.(*Environment).update": true, "object.(*Environment).SetNoChecks": true,
		"object.(*Environment).makeRef": true, "object.(*Environment).Delete": true,
	}
	// a helper that only the allowed writers call (a branch of SetNoChecks moved into its own function) writes on
	// their behalf: fixpoint over the static callers, functions used as values excluded
	partOf := map[*ssa.Function]string{} // helper -> the allowed writer it belongs to
	for changed := true; changed; {
		changed = false
		for _, fn := range c.ModuleSSAFuncs() {
			name := ssaFuncName(fn)
			if allowedWriters[name] || fn.Pkg == nil || shortPkg(fn.Pkg.Pkg) != "object" || fn.Parent() != nil {
				continue
			}
			sites := c.staticCallSites(fn)
			if len(sites) == 0 {
				continue
			}
			all, owner := true, ""
			for _, site := range sites {
				cn := ssaFuncName(site.Parent())
				if !allowedWriters[cn] {
					all = false
				}
				owner = cn
				if o, ok := partOf[site.Parent()]; ok {
					owner = o
				}
			}
			if all {
				allowedWriters[name] = true
				partOf[fn] = owner
				changed = true
			}
		}
	}
	isStoreMap := func(v ssa.Value) bool {
		ld, ok := v.(*ssa.UnOp)
		if !ok {
			return false
		}
		fa, ok := ld.X.(*ssa.FieldAddr)
		return ok && fa.Field == storeIdx && namedStruct(fa.X.Type()) != nil && namedStruct(fa.X.Type()).Obj() == envT.Obj()
	}
	nw := 0
	for _, fn := range c.ModuleSSAFuncs() {
		eachInstr(fn, func(in ssa.Instruction) {
			what := ""
			switch x := in.(type) {
			case *ssa.MapUpdate:
				if isStoreMap(x.Map) {
					what = "binding store"
				}
			case *ssa.Call:
				if bi, ok := x.Common().Value.(*ssa.Builtin); ok && bi.Name() == "delete" && isStoreMap(x.Common().Args[0]) {
					what = "binding delete"
				}
			}
			if what == "" {
				return
			}
			nw++
			r.Check(allowedWriters[ssaFuncName(fn)], "C19.R1", ssaFuncName(fn), what, c.Pos(in.Pos()),
				"a function outside {create, update, SetNoChecks, makeRef, Delete} writes Environment.store directly, bypassing the constant check")
		})
	}
	// makeRef stores only a Reference
	{
		fn := c.SSAFn(c.Fn("object", "Environment.makeRef"))
		eachInstr(fn, func(in ssa.Instruction) {
			mu, ok := in.(*ssa.MapUpdate)
			if !ok || !isStoreMap(mu.Map) {
				return
			}
			mi, ok := mu.Value.(*ssa.MakeInterface)
			isRef := ok && typeShort(mi.X.Type()) == "object.Reference"
			r.Check(isRef, "C19.R1", ssaFuncName(fn), "makeRef stores a Reference only", c.Pos(in.Pos()), "makeRef writes something other than a Reference into the local scope")
		})
	}
	create := c.Fn("object", "Environment.create")
	update := c.FnOpt("object", "Environment.update") // optional: may have been inlined into SetNoChecks
	setNoChecks := c.Fn("object", "Environment.SetNoChecks")
	createOrSet := c.Fn("object", "Environment.CreateOrSet")
	constantFn := c.Fn("object", "Constant")
	for _, fn := range c.ModuleSSAFuncs() {
		for _, call := range callsIn(fn, create, update) {
			r.Check(fn.Object() == types.Object(setNoChecks) || partOf[fn] == ssaFuncName(c.SSAFn(setNoChecks)), "C19.R1", ssaFuncName(fn), "call of "+calleeObj(call).Name(), c.Pos(call.Pos()), "create/update called from outside SetNoChecks")
		}
		for _, call := range callsIn(fn, setNoChecks) {
			if fn.Object() == types.Object(createOrSet) {
				r.Ok("C19.R1", ssaFuncName(fn), "SetNoChecks called after the checks", c.Pos(call.Pos()))
				continue
			}
			name, isConst := constString(call.Common().Args[1])
			desc := "SetNoChecks called directly"
			if isConst {
				desc = fmt.Sprintf("SetNoChecks called directly with name %q", name)
			}
			r.Check(isConst && !grolConstantName(name), "C19.R1", ssaFuncName(fn), desc, c.Pos(call.Pos()),
				"SetNoChecks is called outside CreateOrSet with a name that is not a fixed non-constant identifier: a constant could be rebound without the check")
		}
	}
	r.Floor("C19.R1", 8)

	// R2
	{
		fn := c.SSAFn(createOrSet)
		fname := ssaFuncName(fn)
		// the Constant(name) test dominates SetNoChecks' block's predecessors: SetNoChecks not reachable when check is skipped
		for _, sc := range callsIn(fn, setNoChecks) {
			bad := mustPassFromEntry(fn, func(in ssa.Instruction) bool {
				if isCallTo(in, constantFn) {
					return true
				}
				// a helper that answers "is an already bound constant" and tests Constant(name) on every path
				if hc, ok := in.(*ssa.Call); ok {
					return c.boundConstantGuard(hc, fn.Params[1], constantFn, c.Fn("object", "Environment.Get"))
				}
				return false
			}, func(in ssa.Instruction) bool { return in == sc.(ssa.Instruction) })
			if bad != nil {
				r.Fail("C19.R2", fname, "every path to SetNoChecks tests Constant(name)", c.Pos(sc.Pos()), "SetNoChecks is reachable without the constant test", c.tracePath(bad)...)
			} else {
				r.Ok("C19.R2", fname, "every path to SetNoChecks tests Constant(name)", c.Pos(sc.Pos()))
			}
		}
	}
	// an existing constant is left alone: Equals is coarser than identity ([1] equals [1.0], two closures with
	// the same text are equal), so rebinding to an "equal" value still changes what the name evaluates to.
	// Every path to SetNoChecks leaves through "not a constant name" or "not bound yet".
	{
		fn := c.SSAFn(createOrSet)
		fname := ssaFuncName(fn)
		getFn := c.Fn("object", "Environment.Get")
		isFoundFlag := func(v ssa.Value) bool {
			ex, ok := v.(*ssa.Extract)
			if !ok || ex.Index != 1 {
				return false
			}
			gcall, ok := ex.Tuple.(*ssa.Call)
			return ok && isCallTo(gcall, getFn) && len(gcall.Common().Args) >= 2 && gcall.Common().Args[1] == ssa.Value(fn.Params[1])
		}
		for _, sc := range callsIn(fn, setNoChecks) {
			target := sc.(ssa.Instruction)
			seen := map[*ssa.BasicBlock]bool{}
			var bad []*ssa.BasicBlock
			var walk func(b *ssa.BasicBlock, trail []*ssa.BasicBlock)
			walk = func(b *ssa.BasicBlock, trail []*ssa.BasicBlock) {
				if seen[b] || bad != nil {
					return
				}
				seen[b] = true
				trail = append(trail, b)
				for _, in := range b.Instrs {
					if in == target {
						bad = append([]*ssa.BasicBlock{}, trail...)
						return
					}
				}
				if ifi, ok := b.Instrs[len(b.Instrs)-1].(*ssa.If); ok {
					cond, tEdge, fEdge := ifi.Cond, 0, 1
					if u, ok := cond.(*ssa.UnOp); ok && u.Op == token.NOT {
						cond, tEdge, fEdge = u.X, 1, 0
					}
					_ = tEdge
					if call, isCall := cond.(*ssa.Call); isCall && isCallTo(call, constantFn) && call.Common().Args[0] == ssa.Value(fn.Params[1]) {
						walk(b.Succs[tEdge], trail) // constant name: keep looking; the other edge is a legitimate way to the setter
						return
					}
					if isFoundFlag(cond) {
						walk(b.Succs[tEdge], trail) // found bound; "not bound yet" is the legitimate way
						_ = fEdge
						return
					}
					// the boolean result of a helper that is true exactly on "constant name and bound"
					if ex, ok := cond.(*ssa.Extract); ok {
						if hc, ok := ex.Tuple.(*ssa.Call); ok && c.boundConstantGuard(hc, fn.Params[1], constantFn, getFn) {
							if bt, ok := ex.Type().Underlying().(*types.Basic); ok && bt.Kind() == types.Bool {
								walk(b.Succs[tEdge], trail)
								return
							}
						}
					}
				}
				for _, s := range b.Succs {
					walk(s, trail)
				}
			}
			walk(fn.Blocks[0], nil)
			desc := "SetNoChecks is reached only for a name that is not a constant or not bound yet"
			if bad != nil {
				r.Fail("C19.R2", fname, desc, c.Pos(sc.Pos()), "a path on which the name is a constant (or was not tested) and is already bound (or was not looked up) reaches the setter: the constant is overwritten; note that an Equals test is not enough, Equals ignores the integer/float distinction inside containers and compares functions by text (A=[1]; A=[1.0] and F=mk(1); F=mk(2))", c.tracePath(&pathResult{exit: target, trace: bad})...)
			} else {
				r.Ok("C19.R2", fname, desc, c.Pos(sc.Pos()))
			}
		}
	}
	r.Floor("C19.R2", 2)

	// R5: the predicate itself, evaluated on concrete names
	{
		want := func(name string) bool {
			for i := 0; i < len(name); i++ {
				ch := name[i]
				if ch >= 'A' && ch <= 'Z' {
					continue
				}
				if i > 0 && (ch == '_' || (ch >= '0' && ch <= '9')) {
					continue
				}
				return false
			}
			return true
		}
		var bad []string
		undecided := false
		n := 0
		try := func(name string) {
			if undecided {
				return
			}
			got, ok := c.evalStringPred(constantFn, name)
			if !ok {
				undecided = true
				return
			}
			n++
			if got != want(name) && len(bad) < 6 {
				bad = append(bad, fmt.Sprintf("%q: Constant=%v", name, got))
			}
		}
		for a := 0; a < 128; a++ {
			try(string(rune(a)))
			for b := 0; b < 128; b++ {
				try(string([]byte{byte(a), byte(b)}))
			}
		}
		reps := []byte{'A', 'M', 'Z', 'a', 'z', '0', '5', '9', '_', '@', '[', '/', ':', ' ', 0x7f}
		for _, a := range reps {
			for _, b := range reps {
				for _, d := range reps {
					try(string([]byte{a, b, d}))
					try(string([]byte{'A', a, b, d}))
				}
			}
		}
		if undecided {
			r.Undecided("object.Constant: body is not (definitions; a range loop of if/continue/return over the character and its index; return) and could not be evaluated")
		} else {
			r.Check(len(bad) == 0, "C19.R5", funcName(constantFn), fmt.Sprintf("Constant accepts exactly [A-Z][A-Z0-9_]* (evaluated on %d ASCII names of length 1 to 4)", n), c.Pos(c.SSAFn(constantFn).Pos()),
				"the constant-identifier predicate differs from the documented one ("+strings.Join(bad, "; ")+"): names that should be protected are not (or ordinary variables become unassignable)")
		}
	}

	// R3 (shared rule id C06.R1): in-place writers on bindings obtained from the environment
	f := c.containerFresh()
	finds, _ := f.Findings()
	n3 := 0
	for _, w := range finds {
		if !strings.Contains(w.Root.why, "Environment).Get") && !strings.Contains(w.Root.why, "object.Value") && !strings.Contains(w.Root.why, "object.Elements") {
			continue
		}
		if strings.HasPrefix(ssaFuncName(w.Fn), "object.") {
			continue
		}
		n3++
		r.Fail("C06.R1", ssaFuncName(w.Fn), w.Desc, c.Pos(instrPos(w.At)),
			"the storage of a looked-up binding is written in place before Environment.Set performs the constant check: a constant bound to a large array/map is modified even though an error is returned ("+w.Root.why+")")
	}
	if n3 == 0 {
		r.Ok("C06.R1", "eval", "no in-place write to looked-up bindings", "-")
	}

	// shared C05.R3: a binding never holds a live register (the name would follow the loop/parameter slot)
	{
		t := NewTaint(c, c.registerSpec())
		finds, checked := t.Findings()
		nb := 0
		for _, f := range finds {
			if _, ok := registerEscapeExceptions[ssaFuncName(f.Fn)+" | "+f.Desc]; ok {
				continue
			}
			// (a binding store, or container storage: what is stored in an array or a map can be bound to a constant next,
			// K = [10] + i)
			nb++
			r.Fail("C05.R3", ssaFuncName(f.Fn), f.Desc, c.Pos(instrPos(f.At)),
				"an object that may be a *Register is bound to a name, or stored in a container that can be, without object.Value: a constant bound this way (LIMIT := i, K = [10] + i) changes whenever the register slot is rewritten, with registers on only; reached: "+strings.Join(f.Sinks, "; "))
		}
		if nb == 0 {
			r.Ok("C05.R3", "eval", fmt.Sprintf("no binding store of a possibly-live register (%d sinks and storing call sites examined)", checked), "-")
		}
		if checked < 50 {
			r.Undecided("C05.R3 (shared): only %d sinks examined", checked)
		}
	}

	// R4 register path
	makeReg := c.Fn("object", "Environment.MakeRegister")
	setup := c.Fn("eval", "setupRegister")
	for _, fn := range c.ModuleSSAFuncs() {
		for _, call := range callsIn(fn, setup, makeReg) {
			if fn.Object() == types.Object(setup) {
				continue // the wrapper: its callers are checked
			}
			nameArg := call.Common().Args[1]
			ok := c.testedFalse(controlling(call.Block()), constantFn, nameArg)
			r.Check(ok, "C19.R4", ssaFuncName(fn), "register bound to a name only if !Constant(name)", c.Pos(call.Pos()),
				"a loop variable or integer parameter with an all-upper-case name becomes a register without the constant check: inside the body the constant evaluates to the register's value (and registers on/off disagree)")
		}
	}
	r.Floor("C19.R4", 2)
}

func init() {
	register("C19", &propDef{
		explain: "Who-may-write and dominance rules for bindings: only five functions of package object write Environment.store, create/update are reachable only through SetNoChecks, SetNoChecks only through CreateOrSet or with a fixed lower-case name; CreateOrSet returns an Error for a constant bound to a different value on a path that cannot reach SetNoChecks, and every path to SetNoChecks tests Constant(name); registers are bound to names only under !Constant(name); in-place writes to looked-up bindings before the check are reported (shared rule with C06, known finding for large containers). Decides every syntactic route to a binding at once. CreateOrSet is checked as a path rule: SetNoChecks is reached only for a name that is not a constant or not bound yet (a bound constant is never written again, whatever Equals says); object.Constant is evaluated on every ASCII character and position; shares C05.R3 (no live register in a binding). object.Constant is interpreted on every ASCII name of length 1 and 2 and on representative names of length 3 and 4.",
		assume:  []string{"object.Constant implements the documented all-upper-case definition (its body is not re-verified beyond being the function tested)", "deleting a constant with del() is allowed by the property"},
		run:     runC19,
	})
}

// boundConstantGuard: hc calls a module helper with the name and the helper's boolean result is false only
// where Constant(name) was found false or the lookup of the name found nothing (so: true whenever the name is
// a constant that is already bound); the helper tests Constant(name) on every path.
func (c *Ctx) boundConstantGuard(hc *ssa.Call, name ssa.Value, constantFn, getFn *types.Func) bool {
	callee := hc.Common().StaticCallee()
	if callee == nil || !isModuleSSA(callee) || callee.Blocks == nil {
		return false
	}
	pi := -1
	for i, a := range hc.Common().Args {
		if a == name && i < len(callee.Params) {
			pi = i
		}
	}
	if pi < 0 {
		return false
	}
	p := callee.Params[pi]
	res := callee.Signature.Results()
	bi := -1
	for i := 0; i < res.Len(); i++ {
		if bt, ok := res.At(i).Type().Underlying().(*types.Basic); ok && bt.Kind() == types.Bool {
			bi = i
		}
	}
	if bi < 0 {
		return false
	}
	if mustPassFromEntry(callee, func(in ssa.Instruction) bool {
		call, ok := in.(*ssa.Call)
		return ok && isCallTo(call, constantFn) && call.Common().Args[0] == ssa.Value(p)
	}, isReturn) != nil {
		return false
	}
	for _, b := range callee.Blocks {
		ret, ok := b.Instrs[len(b.Instrs)-1].(*ssa.Return)
		if !ok {
			continue
		}
		k, isK := ret.Results[bi].(*ssa.Const)
		if !isK || k.Value == nil {
			return false
		}
		if k.Value.ExactString() == "true" {
			continue
		}
		// a `false` return: on the not-a-constant edge or on the not-found edge
		okEdge := false
		for _, cc := range controlling(b) {
			cond, edge := cc.Cond, cc.Edge
			if u, ok := cond.(*ssa.UnOp); ok && u.Op == token.NOT {
				cond, edge = u.X, 1-edge
			}
			if call, ok := cond.(*ssa.Call); ok && isCallTo(call, constantFn) && call.Common().Args[0] == ssa.Value(p) && edge == 1 {
				okEdge = true
			}
			if ex, ok := cond.(*ssa.Extract); ok && ex.Index == 1 && edge == 1 {
				if gc, ok := ex.Tuple.(*ssa.Call); ok && isCallTo(gc, getFn) && len(gc.Common().Args) >= 2 && gc.Common().Args[1] == ssa.Value(p) {
					okEdge = true
				}
			}
		}
		if !okEdge {
			return false
		}
	}
	return true
}
