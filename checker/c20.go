package main

import (
	"fmt"
	"go/token"
	"go/types"

	"golang.org/x/tools/go/ssa"
)

func runC20(c *Ctx, r *Report) {
	r.Rule("C20.R9", "completion keeps what follows the cursor: on every successful return of the completion callback the new line is a concatenation ending in line[pos:]")
	c.checkCompletionKeepsTail(r, "C20.R9")
	r.Rule("C20.R8", "every definition reaches the index: every path through object.record either takes the `ids == nil` edge or calls Trie.Insert with the key parameter itself, and Environment.create calls record")
	c.checkRecordInserts(r, "C20.R8")
	r.Rule("C20.R1", "terminal marking: on every path through one iteration of Insert's byte loop on which the byte is the last of the word, the child reached is marked as a word: the shared end marker is stored, a node is created with valid=true, or valid=true is stored on the existing node")
	r.Rule("C20.R2", "validity survives the end-marker upgrade and is not invented: a node created in Insert gets valid=true exactly on the path where the replaced child was the end marker (the flag is a per-byte value: true from the end-marker arm, false from the nil arm, never carried over from an earlier byte)")
	r.Rule("C20.R6", "the enumeration (AllBytes) returns before its child scan only under a condition that means the node has no children: nil receiver, the leaf flag of the shared end marker, or min > max")
	r.Rule("C20.R7", "the REPL completion callback queries the trie with exactly line[:pos] (it returns the common prefix as the whole new line)")
	r.Rule("C20.R3", "every store of a child pointer in Insert is followed, on all paths to the end of the iteration, by the min and max comparisons that widen [min,max]")
	r.Rule("C20.R4", "enumeration loops over a byte range (i <= max with a uint8 counter) leave through an explicit i == 255 exit before the increment wraps")
	r.Rule("C20.R5", "Contains is Prefix(word).IsValid(), IsValid/IsLeaf test nil first, and the shared end marker is valid and a leaf")

	trieT := c.TypeNamed("trie", "Trie")
	insert := c.SSAFn(c.Fn("trie", "Trie.Insert"))
	fname := ssaFuncName(insert)
	endMarker := c.SSAPkg("trie").Members["endMarker"]
	if endMarker == nil {
		undecidedf("trie.endMarker not found")
	}
	isEndMarkerLoad := func(v ssa.Value) bool {
		u, ok := v.(*ssa.UnOp)
		return ok && u.X == ssa.Value(endMarker.(*ssa.Global))
	}
	childrenIdx := fieldIndex(trieT, "children")
	validIdx := fieldIndex(trieT, "valid")
	isChildStore := func(in ssa.Instruction) (*ssa.Store, bool) {
		st, ok := in.(*ssa.Store)
		if !ok {
			return nil, false
		}
		ia, ok := st.Addr.(*ssa.IndexAddr)
		if !ok {
			return nil, false
		}
		fa, ok := ia.X.(*ssa.FieldAddr)
		if !ok || fa.Field != childrenIdx || namedStruct(fa.X.Type()) == nil || namedStruct(fa.X.Type()).Obj() != trieT.Obj() {
			return nil, false
		}
		return st, true
	}
	// the loop: header/body block containing the phi of the iteration counter and the byte load
	var body *ssa.BasicBlock
	var latchIf *ssa.If
	for _, b := range insert.Blocks {
		for _, p := range b.Preds {
			if b.Dominates(p) && body == nil {
				body = b
				latchIf, _ = p.Instrs[len(p.Instrs)-1].(*ssa.If)
			}
		}
	}
	if body == nil {
		r.Undecided("trie.Insert: byte loop not found")
		return
	}
	// "last byte" tests: i == len-1
	isLastTest := func(cond ssa.Value) bool {
		bin, ok := cond.(*ssa.BinOp)
		if !ok || bin.Op != token.EQL {
			return false
		}
		isLenMinus1 := func(v ssa.Value) bool {
			sub, ok := v.(*ssa.BinOp)
			if !ok || sub.Op != token.SUB {
				return false
			}
			one, ok := constInt(sub.Y)
			if !ok || one != 1 {
				return false
			}
			call, ok := sub.X.(*ssa.Call)
			if !ok {
				return false
			}
			bi, ok := call.Common().Value.(*ssa.Builtin)
			return ok && bi.Name() == "len"
		}
		return isLenMinus1(bin.X) || isLenMinus1(bin.Y)
	}
	// R1: enumerate paths through one iteration (body -> latch block), assuming "last byte"
	marks := func(in ssa.Instruction) bool {
		if st, ok := isChildStore(in); ok {
			if isEndMarkerLoad(st.Val) {
				return true
			}
		}
		if st, ok := in.(*ssa.Store); ok {
			if fa, ok := st.Addr.(*ssa.FieldAddr); ok && fa.Field == validIdx && namedStruct(fa.X.Type()) != nil && namedStruct(fa.X.Type()).Obj() == trieT.Obj() {
				if k, ok := st.Val.(*ssa.Const); ok && k.Value != nil && k.Value.ExactString() == "true" {
					// only counts when it targets an existing child, not a freshly allocated node (that case is a child store of the new node)
					return true
				}
			}
		}
		return false
	}
	var latch *ssa.BasicBlock
	if latchIf != nil {
		latch = latchIf.Block()
	}
	type pstate struct {
		b      *ssa.BasicBlock
		marked bool
	}
	seen := map[pstate]bool{}
	var badPath []int
	var walk func(b *ssa.BasicBlock, marked bool, trail []int)
	walk = func(b *ssa.BasicBlock, marked bool, trail []int) {
		if badPath != nil || seen[pstate{b, marked}] {
			return
		}
		seen[pstate{b, marked}] = true
		trail = append(trail, b.Index)
		for _, in := range b.Instrs {
			if marks(in) {
				marked = true
			}
		}
		if b == latch {
			if !marked {
				badPath = append([]int(nil), trail...)
			}
			return
		}
		if ifi, ok := b.Instrs[len(b.Instrs)-1].(*ssa.If); ok && isLastTest(ifi.Cond) {
			walk(b.Succs[0], marked, trail) // last byte: only the true edge
			return
		}
		for _, s := range b.Succs {
			if s == body {
				continue
			}
			walk(s, marked, trail)
		}
	}
	if latch != nil {
		walk(body, false, nil)
		if badPath != nil {
			r.Fail("C20.R1", fname, "last byte marks the reached child as a word on every path", c.Pos(insert.Pos()),
				fmt.Sprintf("a path through the iteration for the last byte (blocks %v) neither stores the end marker nor sets valid=true: inserting a word that is a prefix of an existing longer word leaves it absent", badPath))
		} else {
			r.Ok("C20.R1", fname, "last byte marks the reached child as a word on every path", c.Pos(insert.Pos()))
		}
	} else {
		r.Undecided("trie.Insert: loop latch not found")
	}
	// R2: new nodes' valid flag
	nNew := 0
	eachInstr(insert, func(in ssa.Instruction) {
		st, ok := in.(*ssa.Store)
		if !ok {
			return
		}
		fa, ok := st.Addr.(*ssa.FieldAddr)
		if !ok || fa.Field != validIdx {
			return
		}
		if _, isAlloc := fa.X.(*ssa.Alloc); !isAlloc {
			return
		}
		nNew++
		okFlag := false
		why := "the valid flag of a created node is not a per-byte phi of {true on the end-marker arm, false otherwise}"
		if phi, ok := st.Val.(*ssa.Phi); ok && body.Dominates(phi.Block()) && phi.Block() != body {
			okFlag = true
			for i, e := range phi.Edges {
				k, isK := e.(*ssa.Const)
				if !isK || k.Value == nil {
					okFlag = false
					why = "the valid flag of a created node can carry over a value from an earlier byte of the same insertion"
					continue
				}
				pred := phi.Block().Preds[i]
				// edge true must come from the end-marker comparison's true side
				fromEnd := false
				for _, cc := range controlling(pred) {
					if bin, ok := cc.Cond.(*ssa.BinOp); ok && bin.Op == token.EQL && cc.Edge == 0 && (isEndMarkerLoad(bin.X) || isEndMarkerLoad(bin.Y)) {
						fromEnd = true
					}
				}
				if (k.Value.ExactString() == "true") != fromEnd {
					okFlag = false
					why = "the valid flag of a created node does not match 'the replaced child was the end marker'"
				}
			}
		}
		// or the flag is the comparison itself: `valid: child == endMarker` with the child read in this iteration
		if bin, ok := st.Val.(*ssa.BinOp); ok && bin.Op == token.EQL {
			other := bin.X
			if isEndMarkerLoad(bin.X) {
				other = bin.Y
			}
			if (isEndMarkerLoad(bin.X) || isEndMarkerLoad(bin.Y)) && !isEndMarkerLoad(other) {
				if oi, ok := other.(ssa.Instruction); ok && (oi.Block() == body || body.Dominates(oi.Block())) {
					okFlag = true
				}
			}
		}
		r.Check(okFlag, "C20.R2", fname, "valid flag of a node created in Insert", c.Pos(st.Pos()), why)
	})
	if nNew == 0 {
		r.Undecided("trie.Insert: no node creation found")
	}
	// R3: min/max after each child store
	minIdx, maxIdx := fieldIndex(trieT, "min"), fieldIndex(trieT, "max")
	var isBoundCmp func(in ssa.Instruction, op token.Token, field int) bool
	isBoundCmp = func(in ssa.Instruction, op token.Token, field int) bool {
		// a helper method of the trie that does the comparison on every path (t.widenRange(char))
		if hc, ok := in.(*ssa.Call); ok {
			callee := hc.Common().StaticCallee()
			if callee == nil || callee == insert || !isModuleSSA(callee) || callee.Blocks == nil || callee.Pkg == nil || shortPkg(callee.Pkg.Pkg) != "trie" {
				return false
			}
			return mustPassFromEntry(callee, func(x ssa.Instruction) bool { return isBoundCmp(x, op, field) }, isReturn) == nil
		}
		// builtin form: t.min = min(t.min, char) / t.max = max(t.max, char)
		if st, ok := in.(*ssa.Store); ok {
			fa, ok := st.Addr.(*ssa.FieldAddr)
			call, ok2 := st.Val.(*ssa.Call)
			if !ok || !ok2 || fa.Field != field {
				return false
			}
			bi, ok := call.Common().Value.(*ssa.Builtin)
			want := map[token.Token]string{token.LSS: "min", token.GTR: "max"}[op]
			if !ok || bi.Name() != want || len(call.Common().Args) != 2 {
				return false
			}
			nField, nOther := 0, 0
			for _, a := range call.Common().Args {
				if ld, ok := a.(*ssa.UnOp); ok && ld.Op == token.MUL {
					if fa2, ok := ld.X.(*ssa.FieldAddr); ok && fa2.Field == field && fa2.X == fa.X {
						nField++
						continue
					}
				}
				nOther++
			}
			return nField == 1 && nOther == 1
		}
		ifi, ok := in.(*ssa.If)
		if !ok {
			return false
		}
		bin, ok := ifi.Cond.(*ssa.BinOp)
		if !ok || bin.Op != op {
			return false
		}
		ld, ok := bin.Y.(*ssa.UnOp)
		if !ok {
			return false
		}
		fa, ok := ld.X.(*ssa.FieldAddr)
		if !ok || fa.Field != field {
			return false
		}
		// true edge stores the byte into the field
		tb := ifi.Block().Succs[0]
		for _, x := range tb.Instrs {
			if st, ok := x.(*ssa.Store); ok {
				if fa2, ok := st.Addr.(*ssa.FieldAddr); ok && fa2.Field == field && st.Val == bin.X {
					return true
				}
			}
		}
		return false
	}
	eachInstr(insert, func(in ssa.Instruction) {
		st, ok := isChildStore(in)
		if !ok {
			return
		}
		for _, bound := range []struct {
			name  string
			op    token.Token
			field int
		}{{"min", token.LSS, minIdx}, {"max", token.GTR, maxIdx}} {
			bad := mustPassBefore(st, func(x ssa.Instruction) bool { return isBoundCmp(x, bound.op, bound.field) }, func(x ssa.Instruction) bool {
				return x.Block() == latch && x == latch.Instrs[len(latch.Instrs)-1] || isReturn(x)
			})
			desc := fmt.Sprintf("child store (%s) followed by the %s update", describeChildVal(st.Val, isEndMarkerLoad), bound.name)
			if bad != nil {
				r.Fail("C20.R3", fname, desc, c.Pos(st.Pos()), "a child is stored without widening "+bound.name+": enumeration (AllBytes) skips it", c.tracePath(bad)...)
			} else {
				r.Ok("C20.R3", fname, desc, c.Pos(st.Pos()))
			}
		}
	})
	r.Floor("C20.R3", 4)
	// R4: byte loops
	nLoops := 0
	for _, fn := range c.ModuleSSAFuncs() {
		if fn.Pkg == nil || shortPkg(fn.Pkg.Pkg) != "trie" {
			continue
		}
		for _, b := range fn.Blocks {
			ifi, ok := b.Instrs[len(b.Instrs)-1].(*ssa.If)
			if !ok {
				continue
			}
			bin, ok := ifi.Cond.(*ssa.BinOp)
			if !ok || bin.Op != token.LEQ {
				continue
			}
			phi, ok := bin.X.(*ssa.Phi)
			if !ok {
				continue
			}
			bt, ok := phi.Type().Underlying().(*types.Basic)
			if !ok || bt.Kind() != types.Uint8 {
				continue
			}
			nLoops++
			// find the increment edge value: phi edge that is phi+1; require on every path from loop body to that increment an If (phi == 255) true edge leaving the loop
			okExit := false
			for _, ib := range fn.Blocks {
				ii, ok := ib.Instrs[len(ib.Instrs)-1].(*ssa.If)
				if !ok {
					continue
				}
				cmp, ok := ii.Cond.(*ssa.BinOp)
				if !ok || cmp.Op != token.EQL || cmp.X != ssa.Value(phi) {
					continue
				}
				if k, ok := constInt(cmp.Y); ok && k == 255 {
					// the increment block must only be reachable through the false edge
					for i, e := range phi.Edges {
						if add, ok := e.(*ssa.BinOp); ok && add.Op == token.ADD && add.X == ssa.Value(phi) {
							incBlock := phi.Block().Preds[i]
							_ = add
							if onEdge(ib, 1, incBlock) || ib.Succs[1] == incBlock {
								okExit = true
							}
						}
					}
				}
			}
			r.Check(okExit, "C20.R4", ssaFuncName(fn), "uint8 loop `i <= max` has an i==255 exit before the increment", c.Pos(ifi.Pos()),
				"a byte-range loop with an inclusive upper bound wraps around at 255 and never terminates when max is 255")
		}
	}
	if nLoops == 0 {
		r.Undecided("no uint8 `i <= max` loop found in package trie")
	}
	// R6: enumeration leaves a node before scanning its children only when it has none
	{
		ab := c.SSAFn(c.Fn("trie", "Trie.AllBytes"))
		abName := ssaFuncName(ab)
		leafIdx := fieldIndex(trieT, "leaf")
		// the child scan: the uint8 loop found for R4 in AllBytes (its header has the phi)
		var scan *ssa.BasicBlock
		for _, b := range ab.Blocks {
			for _, in := range b.Instrs {
				if phi, ok := in.(*ssa.Phi); ok {
					if bt, ok := phi.Type().Underlying().(*types.Basic); ok && bt.Kind() == types.Uint8 {
						scan = b
					}
				}
			}
		}
		if scan == nil {
			r.Undecided("C20.R6: child scan loop of AllBytes not found")
		} else {
			n6 := 0
			for _, b := range ab.Blocks {
				ret, ok := b.Instrs[len(b.Instrs)-1].(*ssa.Return)
				if !ok || scan.Dominates(b) || b == ab.Recover {
					continue
				}
				// can the scan still be reached from here? no: it is an early return. Which conditions select it?
				n6++
				okGuard := false
				var seenConds []string
				conds := controlling(b)
				// `a || b` before the return: the block has one predecessor edge per disjunct; every one of them
				// must be an accepted condition taken on its true edge
				if len(b.Preds) > 1 {
					all := true
					var extra []ctrlCond
					for _, p := range b.Preds {
						ifi, ok := p.Instrs[len(p.Instrs)-1].(*ssa.If)
						if !ok || p.Succs[0] != b || p.Succs[1] == b {
							all = false
							break
						}
						extra = append(extra, ctrlCond{If: ifi, Cond: ifi.Cond, Edge: 0})
					}
					if all && len(extra) > 0 {
						nOK := 0
						for _, cc := range extra {
							if c.noChildrenCond(cc, ab, minIdx, maxIdx, leafIdx) {
								nOK++
							}
							seenConds = append(seenConds, cc.Cond.String())
						}
						if nOK == len(extra) {
							okGuard = true
						}
					}
				}
				for _, cc := range conds {
					if c.noChildrenCond(cc, ab, minIdx, maxIdx, leafIdx) {
						okGuard = true
					}
				}
				for _, cc := range conds[:0] {
					switch x := cc.Cond.(type) {
					case *ssa.BinOp:
						// t == nil
						if x.Op == token.EQL && cc.Edge == 0 && x.X == ssa.Value(ab.Params[0]) && isNilConst(x.Y) {
							okGuard = true
						}
						// min > max: no child was ever stored (the constructor starts with min 255, max 0 and Insert only widens)
						lx, ok1 := x.X.(*ssa.UnOp)
						ly, ok2 := x.Y.(*ssa.UnOp)
						if ok1 && ok2 {
							fx, ok3 := lx.X.(*ssa.FieldAddr)
							fy, ok4 := ly.X.(*ssa.FieldAddr)
							if ok3 && ok4 {
								op := x.Op
								if cc.Edge == 1 {
									op = negOp[op]
								}
								if (op == token.GTR && fx.Field == minIdx && fy.Field == maxIdx) || (op == token.LSS && fx.Field == maxIdx && fy.Field == minIdx) {
									okGuard = true
								}
							}
						}
						seenConds = append(seenConds, x.String())
					case *ssa.UnOp:
						if fa, ok := x.X.(*ssa.FieldAddr); ok && fa.Field == leafIdx && cc.Edge == 0 && leafIdx >= 0 {
							okGuard = true // the shared end marker: Insert never stores children into it (R1/R3 work on nodes it allocates)
						}
						seenConds = append(seenConds, x.String())
					}
				}
				r.Check(okGuard, "C20.R6", abName, fmt.Sprintf("early return #%d of the enumeration is taken only for a node without children", n6), c.Pos(instrPos(ret)),
					fmt.Sprintf("AllBytes returns before scanning the children under a condition that does not mean `no children` (conditions: %v; accepted: nil receiver, the leaf flag of the shared end marker, min > max): a node whose only child is byte 0 has max == 0 too, and the words below it disappear from the enumeration while Contains still finds them", seenConds))
			}
			if n6 == 0 {
				r.OkWhy("C20.R6", abName, "no early return in the enumeration", c.Pos(ab.Pos()), "every return follows the child scan")
			}
		}
	}
	// R6 (wrappers): the other methods that hand out words (PrefixAll, All) return what the enumeration returned,
	// or return something of their own only for a node without children
	{
		strs := types.NewSlice(types.Typ[types.String])
		enumCall := func(v ssa.Value) bool {
			ex, ok := v.(*ssa.Extract)
			if !ok {
				return false
			}
			call, ok := ex.Tuple.(*ssa.Call)
			if !ok {
				return false
			}
			callee := call.Common().StaticCallee()
			return callee != nil && callee.Pkg != nil && shortPkg(callee.Pkg.Pkg) == "trie" && callee.Signature.Recv() != nil
		}
		leafIdx := fieldIndex(trieT, "leaf")
		nw := 0
		for _, fn := range c.ModuleSSAFuncs() {
			if fn.Pkg == nil || shortPkg(fn.Pkg.Pkg) != "trie" || fn.Signature.Recv() == nil || fn.Name() == "AllBytes" || len(fn.Blocks) == 0 {
				continue
			}
			res := fn.Signature.Results()
			idx := -1
			for i := 0; i < res.Len(); i++ {
				if types.Identical(res.At(i).Type(), strs) {
					idx = i
				}
			}
			if idx < 0 {
				continue
			}
			k := 0
			eachInstr(fn, func(in ssa.Instruction) {
				ret, ok := in.(*ssa.Return)
				if !ok || len(ret.Results) <= idx {
					return
				}
				nw++
				k++
				good := enumCall(retVal(ret, idx))
				if !good {
					for _, cc := range controlling(ret.Block()) {
						if c.noChildrenCond(cc, fn, minIdx, maxIdx, leafIdx) {
							good = true
						}
					}
				}
				r.Check(good, "C20.R6", ssaFuncName(fn), fmt.Sprintf("return #%d hands out the enumeration's words", k), c.Pos(instrPos(ret)),
					"a method that hands out the words below a node returns a list of its own making under a condition that does not mean `no children` (accepted: nil receiver, the leaf flag of the shared end marker, min > max): a node with one child byte has min == max, and the words below it disappear from the completion while Contains still finds them")
			})
		}
		if nw < 2 {
			r.Undecided("C20.R6: only %d returns of word lists found outside AllBytes (PrefixAll, All expected)", nw)
		}
	}
	r.Rule("C20.R10", "Prefix answers nil only for a missing child: every `return nil` of Trie.Prefix is under a nil test of a node or a condition that means `no children` (nil receiver, leaf flag, min > max)")
	c.checkPrefixGivesUpOnlyOnMissingChild(r, "C20.R10", minIdx, maxIdx)
	// R7: the completion callback asks the trie about exactly the text before the cursor
	{
		prefixAll := c.Fn("trie", "Trie.PrefixAll")
		cb, _, _ := c.completionCallback()
		n7 := 0
		for _, call := range callsIn(cb, prefixAll) {
			n7++
			arg := call.Common().Args[1]
			okQ := false
			if sl, ok := arg.(*ssa.Slice); ok && sl.Low == nil && sl.High != nil {
				_, xIsParam := sl.X.(*ssa.Parameter)
				_, hIsParam := sl.High.(*ssa.Parameter)
				okQ = xIsParam && hIsParam
			}
			r.Check(okQ, "C20.R7", ssaFuncName(cb), "the trie is queried with line[:pos]", c.Pos(call.Pos()),
				"the completion callback returns the common prefix found as the whole new line, so the query has to be the whole text before the cursor; a transformed query ("+arg.String()+") makes the returned line lose what was cut off (the indentation of a continuation line)")
		}
		if n7 == 0 {
			r.Undecided("C20.R7: no call to Trie.PrefixAll in the completion callback")
		}
	}
	// R5
	{
		contains := c.SSAFn(c.Fn("trie", "Trie.Contains"))
		prefix := c.Fn("trie", "Trie.Prefix")
		isValid := c.Fn("trie", "Trie.IsValid")
		// validityOf: every return of fn yields "node is not nil and node.valid": the load of node.valid where the node
		// is known non-nil, or the constant false where it is nil (either polarity of the nil test, early return or &&)
		validityOf := func(fn *ssa.Function, node ssa.Value) bool {
			nonNilAt := func(conds []ctrlCond) (nonNil, isNil bool) {
				for _, cc := range conds {
					bin, isBin := cc.Cond.(*ssa.BinOp)
					if !isBin || !(isNilConst(bin.X) || isNilConst(bin.Y)) {
						continue
					}
					other := bin.X
					if isNilConst(bin.X) {
						other = bin.Y
					}
					if other != node {
						continue
					}
					neq := (bin.Op == token.NEQ) == (cc.Edge == 0)
					if neq {
						nonNil = true
					} else {
						isNil = true
					}
				}
				return
			}
			var okVal func(v ssa.Value, conds []ctrlCond, depth int) bool
			okVal = func(v ssa.Value, conds []ctrlCond, depth int) bool {
				if depth > 4 {
					return false
				}
				nn, isN := nonNilAt(conds)
				switch x := v.(type) {
				case *ssa.Const:
					bv, isB := constBool(x)
					return isB && !bv && isN
				case *ssa.UnOp:
					fa, isFa := x.X.(*ssa.FieldAddr)
					return isFa && fa.Field == validIdx && fa.X == node && (nn || func() bool { n2, _ := nonNilAt(controlling(x.Block())); return n2 }())
				case *ssa.Phi:
					for e, ev := range x.Edges {
						pred := x.Block().Preds[e]
						if !okVal(ev, edgeConds(pred, x.Block()), depth+1) {
							return false
						}
					}
					return len(x.Edges) > 0
				}
				return false
			}
			n, all := 0, true
			eachInstr(fn, func(in ssa.Instruction) {
				if ret, isRet := in.(*ssa.Return); isRet && len(ret.Results) == 1 {
					n++
					if !okVal(retVal(ret, 0), controlling(ret.Block()), 0) {
						all = false
					}
				}
			})
			return n > 0 && all
		}
		iv := c.SSAFn(isValid)
		okv := validityOf(iv, iv.Params[0])
		ok := false
		eachInstr(contains, func(in ssa.Instruction) {
			pc, isCall := in.(*ssa.Call)
			if !isCall || !isCallTo(pc, prefix) || len(pc.Common().Args) != 2 || pc.Common().Args[1] != ssa.Value(contains.Params[1]) || pc.Common().Args[0] != ssa.Value(contains.Params[0]) {
				return
			}
			// the node reached by the whole word: IsValid() of it is returned, or its validity computed in place
			direct := false
			for _, ref := range *pc.Referrers() {
				if vc, isCall := ref.(*ssa.Call); isCall && isCallTo(vc, isValid) {
					for _, r2 := range *vc.Referrers() {
						if _, isRet := r2.(*ssa.Return); isRet {
							direct = true
						}
					}
				}
			}
			if (direct && okv) || validityOf(contains, pc) {
				ok = true
			}
		})
		r.Check(ok, "C20.R5", ssaFuncName(contains), "Contains(word) = Prefix(word).IsValid()", c.Pos(contains.Pos()), "membership is not the validity of the node reached by the whole word")
		r.Check(okv, "C20.R5", ssaFuncName(iv), "IsValid reads valid under a nil test", c.Pos(iv.Pos()), "IsValid does not return the node's valid flag guarded by t != nil")
		// endMarker initial value
		initFn := c.SSAPkg("trie").Func("init")
		okEM := false
		if initFn != nil {
			eachInstr(initFn, func(in ssa.Instruction) {
				st, isSt := in.(*ssa.Store)
				if !isSt || st.Addr != ssa.Value(endMarker.(*ssa.Global)) {
					return
				}
				if al, isAl := st.Val.(*ssa.Alloc); isAl {
					v, l := false, false
					for _, ref := range *al.Referrers() {
						if fa, isFa := ref.(*ssa.FieldAddr); isFa {
							for _, r2 := range *fa.Referrers() {
								if s2, isS := r2.(*ssa.Store); isS && s2.Addr == ssa.Value(fa) {
									if k, isK := s2.Val.(*ssa.Const); isK && k.Value != nil && k.Value.ExactString() == "true" {
										if fa.Field == validIdx {
											v = true
										}
										if fa.Field == fieldIndex(trieT, "leaf") {
											l = true
										}
									}
								}
							}
						}
					}
					okEM = v && l
				}
			})
		}
		r.Check(okEM, "C20.R5", "trie.init", "the shared end marker is valid and a leaf", c.Pos(insert.Pos()), "endMarker is not initialised with valid=true and leaf=true")
	}
	r.Floor("C20.R5", 3)
}

func describeChildVal(v ssa.Value, isEnd func(ssa.Value) bool) string {
	if isEnd(v) {
		return "end marker"
	}
	if _, ok := v.(*ssa.Alloc); ok {
		return "new node"
	}
	return "other"
}

func init() {
	register("C20", &propDef{
		explain: "Path rules on the SSA of trie.Insert and the enumeration loops: every path of one byte-iteration taken for the last byte of a word marks the reached child as a word (end marker stored, node created valid, or valid set on the existing node); the valid flag of created nodes is a per-byte value that is true exactly when the replaced child was the end marker; every child store is followed by both bound updates; inclusive uint8 loops have the 255 exit; Contains/IsValid/end-marker shape. Decides the set-membership mechanism for all insertion orders; the common-prefix length arithmetic of AllBytes is a value property and is not decided. Also: the enumeration returns before its child scan only for a node without children (nil, leaf flag, min > max).",
		assume:  []string{"the trie is only mutated through Insert (checked: children/valid/min/max have no other writers in the module is part of R3/R2 scope: package trie)"},
		run:     runC20,
	})
}

// noChildrenCond: the controlling condition means the trie node has no children: nil receiver, the leaf flag
// of the shared end marker, or min > max (the constructor starts with min 255, max 0 and Insert only widens).
func (c *Ctx) noChildrenCond(cc ctrlCond, ab *ssa.Function, minIdx, maxIdx, leafIdx int) bool {
	switch x := cc.Cond.(type) {
	case *ssa.BinOp:
		if x.Op == token.EQL && cc.Edge == 0 && x.X == ssa.Value(ab.Params[0]) && isNilConst(x.Y) {
			return true
		}
		lx, ok1 := x.X.(*ssa.UnOp)
		ly, ok2 := x.Y.(*ssa.UnOp)
		if ok1 && ok2 {
			fx, ok3 := lx.X.(*ssa.FieldAddr)
			fy, ok4 := ly.X.(*ssa.FieldAddr)
			if ok3 && ok4 {
				op := x.Op
				if cc.Edge == 1 {
					op = negOp[op]
				}
				if (op == token.GTR && fx.Field == minIdx && fy.Field == maxIdx) || (op == token.LSS && fx.Field == maxIdx && fy.Field == minIdx) {
					return true
				}
			}
		}
	case *ssa.UnOp:
		if fa, ok := x.X.(*ssa.FieldAddr); ok && fa.Field == leafIdx && cc.Edge == 0 && leafIdx >= 0 {
			return true
		}
	}
	return false
}

// checkRecordInserts: rule C20.R8, every definition reaches the index.
//
// object.record is the only feeder of the completion index for top level names (create() calls it for every
// new global, RegisterTrie for the existing ones). Every path from its entry to a return either takes the
// `ids == nil` edge (no index registered) or inserts the name itself: a call of Trie.Insert whose argument
// is the key parameter unchanged. A further condition in front of the insertion (e.g. "already a prefix of
// something known") makes membership depend on the order of definitions.
func (c *Ctx) checkRecordInserts(r *Report, rule string) {
	fn := c.SSAFn(c.Fn("object", "record"))
	insert := c.Fn("trie", "Trie.Insert")
	if fn == nil || len(fn.Params) < 2 {
		r.Undecided("%s: object.record(ids, key, ...) not found", rule)
		return
	}
	ids, key := fn.Params[0], fn.Params[1]
	isInsertOfKey := func(in ssa.Instruction) bool {
		call, ok := in.(*ssa.Call)
		if !ok || calleeObj(call) != insert {
			return false
		}
		args := call.Common().Args
		return len(args) == 2 && args[0] == ssa.Value(ids) && args[1] == ssa.Value(key)
	}
	// walk: paths that avoid the insertion and do not take the ids == nil edge
	var bad *ssa.Return
	seen := map[*ssa.BasicBlock]bool{}
	var walk func(b *ssa.BasicBlock)
	walk = func(b *ssa.BasicBlock) {
		if bad != nil || seen[b] {
			return
		}
		seen[b] = true
		for _, in := range b.Instrs {
			if isInsertOfKey(in) {
				return
			}
			if ret, ok := in.(*ssa.Return); ok {
				bad = ret
				return
			}
		}
		if ifi, ok := b.Instrs[len(b.Instrs)-1].(*ssa.If); ok {
			if bin, ok := ifi.Cond.(*ssa.BinOp); ok && bin.X == ssa.Value(ids) && isNilConst(bin.Y) {
				// the nil edge needs nothing
				nilEdge := 0
				if bin.Op == token.NEQ {
					nilEdge = 1
				}
				walk(b.Succs[1-nilEdge])
				return
			}
		}
		for _, s := range b.Succs {
			walk(s)
		}
	}
	walk(fn.Blocks[0])
	pos := c.Pos(fn.Pos())
	if bad != nil {
		pos = c.Pos(bad.Pos())
	}
	r.Check(bad == nil, rule, ssaFuncName(fn), "every path with an index inserts the name", pos,
		"a path through record() returns without Trie.Insert(key) although an index is registered: whether a defined name can be completed then depends on something else than its definition (e.g. on the names defined before it)")
	// and create() feeds it
	create := c.SSAFn(c.Fn("object", "Environment.create"))
	r.Check(len(callsIn(create, c.Fn("object", "record"))) > 0, rule, ssaFuncName(create), "new top level names are recorded", c.Pos(create.Pos()),
		"Environment.create no longer calls record(): new globals never reach the completion index")
}

// checkCompletionKeepsTail: rule C20.R9, completion extends what was typed and keeps the rest.
//
// The callback's first result replaces the whole line. On every return with ok == true that result is a
// concatenation whose last operand is line[pos:] (the text after the cursor), line and pos being the
// callback's own parameters.
func (c *Ctx) checkCompletionKeepsTail(r *Report, rule string) {
	fn, line, pos := c.completionCallback()
	if fn == nil || line == nil || pos == nil {
		r.Undecided("%s: the completion callback (the function of package repl that queries Trie.PrefixAll) was not found", rule)
		return
	}
	n := 0
	for _, b := range fn.Blocks {
		ret, ok := b.Instrs[len(b.Instrs)-1].(*ssa.Return)
		if !ok || len(ret.Results) != 3 {
			continue
		}
		if k, isK := ret.Results[2].(*ssa.Const); isK && k.Value != nil && k.Value.ExactString() == "false" {
			continue
		}
		n++
		good := false
		if add, ok := ret.Results[0].(*ssa.BinOp); ok && add.Op == token.ADD {
			if sl, ok := add.Y.(*ssa.Slice); ok && sl.X == ssa.Value(line) && sl.Low == ssa.Value(pos) && sl.High == nil {
				good = true
			}
		}
		r.Check(good, rule, ssaFuncName(fn), "the completed line #"+itoa(n)+" ends with the text after the cursor", c.Pos(ret.Pos()),
			"the new line returned with ok == true is not `... + line[pos:]`: the terminal replaces the whole line with it, so what the user had typed after the cursor is deleted by the completion")
	}
	if n == 0 {
		r.Undecided("%s: no successful return found in the completion callback", rule)
	}
}

// completionCallback: the function of package repl (a method or a closure) that queries Trie.PrefixAll, with
// its line (string) and cursor position (int) parameters. Located by what it does, not by its name.
func (c *Ctx) completionCallback() (*ssa.Function, *ssa.Parameter, *ssa.Parameter) {
	prefixAll := c.Fn("trie", "Trie.PrefixAll")
	for _, fn := range c.ModuleSSAFuncs() {
		top := fn
		for top.Parent() != nil {
			top = top.Parent()
		}
		if top.Pkg == nil || shortPkg(top.Pkg.Pkg) != "repl" || len(callsIn(fn, prefixAll)) == 0 {
			continue
		}
		var line, pos *ssa.Parameter
		for _, p := range fn.Params {
			if bt, ok := p.Type().Underlying().(*types.Basic); ok {
				if bt.Kind() == types.String && line == nil {
					line = p
				}
				if bt.Kind() == types.Int && pos == nil {
					pos = p
				}
			}
		}
		return fn, line, pos
	}
	return nil, nil, nil
}

// checkPrefixGivesUpOnlyOnMissingChild: rule C20.R10.
//
// Prefix walks the word byte by byte; it may answer "nothing here" (nil) only where the child for the current
// byte is missing (a nil test of a node), or under a condition that means the node has no children at all (nil
// receiver, the leaf flag of the shared end marker, min > max). Any other shortcut (max == 0: a node whose only
// child is byte 0 has that too) hides words that Insert stored.
func (c *Ctx) checkPrefixGivesUpOnlyOnMissingChild(r *Report, rule string, minIdx, maxIdx int) {
	trieT := c.TypeNamed("trie", "Trie")
	fn := c.SSAFn(c.Fn("trie", "Trie.Prefix"))
	leafIdx := fieldIndex(trieT, "leaf")
	n := 0
	eachInstr(fn, func(in ssa.Instruction) {
		ret, ok := in.(*ssa.Return)
		if !ok || len(ret.Results) != 1 || !isNilConst(retVal(ret, 0)) {
			return
		}
		n++
		good := false
		var seen []string
		for _, cc := range controlling(ret.Block()) {
			if bin, ok := cc.Cond.(*ssa.BinOp); ok && (isNilConst(bin.X) || isNilConst(bin.Y)) {
				if (bin.Op == token.EQL && cc.Edge == 0) || (bin.Op == token.NEQ && cc.Edge == 1) {
					good = true
				}
			}
			if c.noChildrenCond(cc, fn, minIdx, maxIdx, leafIdx) {
				good = true
			}
			seen = append(seen, cc.Cond.String())
		}
		desc := "Prefix answers nil only for a missing child"
		if n > 1 {
			desc += " #" + itoa(n)
		}
		r.Check(good, rule, ssaFuncName(fn), desc, c.Pos(instrPos(ret)),
			fmt.Sprintf("Prefix returns nil under a condition that is neither a nil child nor `no children` (conditions: %v): a node whose only child is byte 0 has max == 0 too, so Contains and the prefix query lose words that were inserted", seen))
	})
	if n == 0 {
		r.OkWhy(rule, ssaFuncName(fn), "Prefix never answers nil by itself", c.Pos(fn.Pos()), "the walk ends on the node reached (nil when a child is missing)")
	}
}
