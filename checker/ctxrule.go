package main

// ctxrule: rule C07.R13, a state's context is never nil.
//
// Extensions hand State.Context to the standard library (terminal.SleepWithContext,
// exec.CommandContext), which dereferences it. Inductive invariant on the field: (1) every function that
// builds a State value (a local or heap allocation of the struct whose fields it stores) stores Context;
// (2) every store to State.Context writes a value that is never nil: the result of context.Background /
// TODO / WithCancel / WithTimeout / WithDeadline / WithValue, of Term.Resume, a load of State.Context
// (the invariant itself), a value on the true edge of `v != nil`, or a phi of such.

import (
	"go/token"
	"go/types"

	"golang.org/x/tools/go/ssa"
)

func (c *Ctx) checkContextNeverNil(r *Report, rule string) {
	stateT := c.TypeNamed("eval", "State")
	ctxIdx := fieldIndex(stateT, "Context")
	if ctxIdx < 0 {
		r.Undecided("%s: eval.State.Context not found", rule)
		return
	}
	isCtxAddr := func(v ssa.Value) bool {
		fa, ok := v.(*ssa.FieldAddr)
		return ok && fa.Field == ctxIdx && namedStruct(fa.X.Type()) != nil && namedStruct(fa.X.Type()).Obj() == stateT.Obj()
	}
	var nonNil func(v ssa.Value, at *ssa.BasicBlock, depth int) bool
	nonNil = func(v ssa.Value, at *ssa.BasicBlock, depth int) bool {
		if depth > 5 {
			return false
		}
		for _, cc := range controlling(at) {
			if bin, ok := cc.Cond.(*ssa.BinOp); ok && isNilConst(bin.Y) && bin.X == v {
				if (bin.Op == token.NEQ && cc.Edge == 0) || (bin.Op == token.EQL && cc.Edge == 1) {
					return true
				}
			}
		}
		switch x := v.(type) {
		case *ssa.Call:
			switch stdName(x) {
			case "context.Background", "context.TODO":
				return true
			}
		case *ssa.Extract:
			if call, ok := x.Tuple.(*ssa.Call); ok && x.Index == 0 {
				switch stdName(call) {
				case "context.WithCancel", "context.WithTimeout", "context.WithDeadline":
					return true
				}
				if callee := call.Common().StaticCallee(); callee != nil && callee.Name() == "Resume" {
					return true // fortio terminal: returns a context made by context.WithCancel
				}
			}
		case *ssa.UnOp:
			if x.Op == token.MUL && isCtxAddr(x.X) {
				return true
			}
		case *ssa.Phi:
			for i, e := range x.Edges {
				if !nonNil(e, x.Block().Preds[i], depth+1) {
					return false
				}
			}
			return true
		case *ssa.MakeInterface:
			return true
		}
		return false
	}
	nStores, nCtors := 0, 0
	for _, fn := range c.ModuleSSAFuncs() {
		fname := ssaFuncName(fn)
		k := 0
		eachInstr(fn, func(in ssa.Instruction) {
			switch x := in.(type) {
			case *ssa.Store:
				if !isCtxAddr(x.Addr) {
					return
				}
				nStores++
				k++
				desc := "store to State.Context is never nil"
				if k > 1 {
					desc += " #" + itoa(k)
				}
				r.Check(nonNil(x.Val, x.Block(), 0), rule, fname, desc, c.Pos(x.Pos()),
					"the value stored into State.Context ("+x.Val.String()+") is not proven non-nil: sleep() and exec() hand the context to the standard library, which dereferences it (nil pointer dereference, outside of any recover when auto-load runs the line)")
			case *ssa.Alloc:
				n, ok := x.Type().(*types.Pointer)
				if !ok {
					return
				}
				nn, ok := n.Elem().(*types.Named)
				if !ok || nn.Obj() != stateT.Obj() {
					return
				}
				// a constructor: the function stores fields of this allocation
				stores, sets := 0, false
				for _, ref := range *x.Referrers() {
					if fa, ok := ref.(*ssa.FieldAddr); ok {
						for _, r2 := range *fa.Referrers() {
							if st, ok := r2.(*ssa.Store); ok && st.Addr == ssa.Value(fa) {
								stores++
								if fa.Field == ctxIdx {
									sets = true
								}
							}
						}
					}
					// a copy of another state (*t = *s) brings its context
					if st, ok := ref.(*ssa.Store); ok && st.Addr == ssa.Value(x) {
						sets = true
					}
				}
				if stores == 0 {
					return
				}
				nCtors++
				r.Check(sets, rule, fname, "a State built here gets a Context", c.Pos(x.Pos()),
					"a State value is built field by field and its Context is left nil: extensions hand it to the standard library, which dereferences it")
			}
		})
	}
	if nStores < 6 || nCtors < 2 {
		r.Undecided("%s: only %d stores to State.Context and %d constructors found", rule, nStores, nCtors)
	}
	r.Floor(rule, 8)
}
