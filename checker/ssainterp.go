package main

// ssainterp: a tiny interpreter for pure integer/boolean SSA functions (predicates over tags, bytes and
// small integers): constants, comparisons, arithmetic, !, conversions, phis (resolved by the edge taken),
// if / jump / return, and calls of other module functions of the same kind. Anything else makes the run
// undetermined. Used to evaluate predicates such as object.TypeEqual on their whole (finite) domain.

import (
	"go/constant"
	"go/token"

	"golang.org/x/tools/go/ssa"
)

func (c *Ctx) ssaEval(fn *ssa.Function, args []int64, depth int) (int64, bool) {
	if fn == nil || len(fn.Blocks) == 0 || len(args) != len(fn.Params) || depth > 6 {
		return 0, false
	}
	env := map[ssa.Value]int64{}
	for i, p := range fn.Params {
		env[p] = args[i]
	}
	var val func(v ssa.Value) (int64, bool)
	val = func(v ssa.Value) (int64, bool) {
		if x, ok := env[v]; ok {
			return x, true
		}
		if k, ok := v.(*ssa.Const); ok && k.Value != nil {
			switch k.Value.Kind() {
			case constant.Bool:
				if constant.BoolVal(k.Value) {
					return 1, true
				}
				return 0, true
			case constant.Int:
				return constant.Int64Val(k.Value)
			}
		}
		return 0, false
	}
	blk, prev := fn.Blocks[0], (*ssa.BasicBlock)(nil)
	for steps := 0; steps < 10000; steps++ {
		for _, in := range blk.Instrs {
			switch x := in.(type) {
			case *ssa.Phi:
				for i, p := range blk.Preds {
					if p == prev {
						if v, ok := val(x.Edges[i]); ok {
							env[x] = v
						} else {
							return 0, false
						}
					}
				}
			case *ssa.BinOp:
				l, ok1 := val(x.X)
				r, ok2 := val(x.Y)
				if !ok1 || !ok2 {
					return 0, false
				}
				b := func(t bool) int64 {
					if t {
						return 1
					}
					return 0
				}
				switch x.Op {
				case token.EQL:
					env[x] = b(l == r)
				case token.NEQ:
					env[x] = b(l != r)
				case token.LSS:
					env[x] = b(l < r)
				case token.LEQ:
					env[x] = b(l <= r)
				case token.GTR:
					env[x] = b(l > r)
				case token.GEQ:
					env[x] = b(l >= r)
				case token.ADD:
					env[x] = l + r
				case token.SUB:
					env[x] = l - r
				case token.AND:
					env[x] = l & r
				case token.OR:
					env[x] = l | r
				default:
					return 0, false
				}
			case *ssa.UnOp:
				if x.Op != token.NOT {
					return 0, false
				}
				a, ok := val(x.X)
				if !ok {
					return 0, false
				}
				env[x] = 1 - a
			case *ssa.Convert:
				a, ok := val(x.X)
				if !ok {
					return 0, false
				}
				env[x] = a
			case *ssa.ChangeType:
				a, ok := val(x.X)
				if !ok {
					return 0, false
				}
				env[x] = a
			case *ssa.Call:
				callee := x.Common().StaticCallee()
				if callee == nil || !isModuleSSA(callee) {
					return 0, false
				}
				var as []int64
				for _, a := range x.Common().Args {
					v, ok := val(a)
					if !ok {
						return 0, false
					}
					as = append(as, v)
				}
				res, ok := c.ssaEval(callee, as, depth+1)
				if !ok {
					return 0, false
				}
				env[x] = res
			case *ssa.DebugRef:
			case *ssa.If:
				cv, ok := val(x.Cond)
				if !ok {
					return 0, false
				}
				prev = blk
				if cv != 0 {
					blk = blk.Succs[0]
				} else {
					blk = blk.Succs[1]
				}
			case *ssa.Jump:
				prev = blk
				blk = blk.Succs[0]
			case *ssa.Return:
				if len(x.Results) != 1 {
					return 0, false
				}
				return val(x.Results[0])
			default:
				return 0, false
			}
		}
	}
	return 0, false
}

// checkTypeEqualIsEquivalence: rule C12.R7.
func (c *Ctx) checkTypeEqualIsEquivalence(r *Report, rule string) {
	fn := c.SSAFn(c.Fn("object", "TypeEqual"))
	fname := ssaFuncName(fn)
	names := c.objectTypeNames()
	var tags []int64
	for k := range names {
		tags = append(tags, k)
	}
	if len(tags) < 10 {
		r.Undecided("%s: only %d object.Type constants found", rule, len(tags))
		return
	}
	rel := map[[2]int64]bool{}
	for _, a := range tags {
		for _, b := range tags {
			v, ok := c.ssaEval(fn, []int64{a, b}, 0)
			if !ok {
				r.Undecided("%s: TypeEqual(%s, %s) could not be evaluated", rule, names[a], names[b])
				return
			}
			rel[[2]int64{a, b}] = v != 0
		}
	}
	refl, sym, trans := "", "", ""
	for _, a := range tags {
		if !rel[[2]int64{a, a}] {
			refl = names[a]
		}
		for _, b := range tags {
			if rel[[2]int64{a, b}] != rel[[2]int64{b, a}] {
				sym = names[a] + ", " + names[b]
			}
			for _, d := range tags {
				if rel[[2]int64{a, b}] && rel[[2]int64{b, d}] && !rel[[2]int64{a, d}] {
					trans = names[a] + ", " + names[b] + ", " + names[d]
				}
			}
		}
	}
	pos := c.Pos(fn.Pos())
	r.Check(refl == "", rule, fname, "TypeEqual is reflexive on all type tags", pos, "TypeEqual("+refl+", "+refl+") is false: a value does not equal itself")
	r.Check(sym == "", rule, fname, "TypeEqual is symmetric on all pairs of type tags", pos, "TypeEqual disagrees with itself on ("+sym+") and the swapped pair: a == b and b == a differ when one side is held in a register (3 == n false, n == 3 true)")
	r.Check(trans == "", rule, fname, "TypeEqual is transitive on all triples of type tags", pos, "TypeEqual is not transitive on ("+trans+")")
}
