package main

import (
	"go/token"
	"go/types"

	"golang.org/x/tools/go/ssa"
)

// fieldRead: v reads the field `name` of a struct (value Field, or a load through FieldAddr).
func fieldRead(v ssa.Value, name string) bool {
	fieldName := func(t types.Type, i int) string {
		if p, ok := t.Underlying().(*types.Pointer); ok {
			t = p.Elem()
		}
		if st, ok := t.Underlying().(*types.Struct); ok && i < st.NumFields() {
			return st.Field(i).Name()
		}
		return ""
	}
	switch x := v.(type) {
	case *ssa.Field:
		return fieldName(x.X.Type(), x.Field) == name
	case *ssa.UnOp:
		if fa, ok := x.X.(*ssa.FieldAddr); ok && x.Op == token.MUL {
			return fieldName(fa.X.Type(), fa.Field) == name
		}
	}
	return false
}

// lengthOf: l is the length of list on every path: len(list) itself, or both are phis of one block
// whose incoming values correspond edge by edge.
func lengthOf(l, list ssa.Value, d int) bool {
	if d > 4 {
		return false
	}
	if call, ok := l.(*ssa.Call); ok {
		if b, ok := call.Common().Value.(*ssa.Builtin); ok && b.Name() == "len" {
			a := call.Common().Args[0]
			return a == list || sameExpr(a, list)
		}
	}
	lp, ok1 := l.(*ssa.Phi)
	ap, ok2 := list.(*ssa.Phi)
	if ok1 && ok2 && lp.Block() == ap.Block() {
		for i := range lp.Edges {
			if !lengthOf(lp.Edges[i], ap.Edges[i], d+1) {
				return false
			}
		}
		return true
	}
	return false
}

// checkArgCountTestedOnTheListHandedOver: rule C07.R17. Every extension callback indexes its argument
// list up to the MinArgs it is registered with (C07.R2 / C07.R10 take that minimum as given). The
// one place that establishes it is the evaluator's call of Extension.Callback: the call must lie on
// the `length >= MinArgs` edge of a test whose length is the length of the very list handed to the
// callback - not of the list as it was before a trailing array was expanded into it.
func (c *Ctx) checkArgCountTestedOnTheListHandedOver(r *Report, rule string) {
	n := 0
	for _, fn := range c.ModuleSSAFuncs() {
		if fn.Pkg == nil || shortPkg(fn.Pkg.Pkg) != "eval" {
			continue
		}
		eachInstr(fn, func(in ssa.Instruction) {
			call, ok := in.(*ssa.Call)
			if !ok || call.Common().IsInvoke() || !fieldRead(call.Common().Value, "Callback") {
				return
			}
			var list ssa.Value
			for _, a := range call.Common().Args {
				if _, ok := a.Type().Underlying().(*types.Slice); ok {
					list = a
				}
			}
			if list == nil {
				return
			}
			n++
			ok = false
			for _, b := range fn.Blocks {
				if len(b.Instrs) == 0 {
					continue
				}
				iff, isIf := b.Instrs[len(b.Instrs)-1].(*ssa.If)
				if !isIf {
					continue
				}
				cond, flip := iff.Cond, false
				for {
					u, isNot := cond.(*ssa.UnOp)
					if !isNot || u.Op != token.NOT {
						break
					}
					cond, flip = u.X, !flip
				}
				var l ssa.Value
				edge := -1
				switch x := cond.(type) {
				case *ssa.BinOp:
					l, edge = minArgsTest(x)
				case *ssa.Call:
					// a predicate of this module: wrongArgCount(fn, n) / enoughArgs(fn, n)
					callee := x.Common().StaticCallee()
					if callee == nil || callee.Blocks == nil || callee.Pkg != fn.Pkg {
						break
					}
					for _, pb := range callee.Blocks {
						pif, ok := pb.Instrs[len(pb.Instrs)-1].(*ssa.If)
						if !ok {
							continue
						}
						pbin, ok := pif.Cond.(*ssa.BinOp)
						if !ok {
							continue
						}
						pl, pedge := minArgsTest(pbin)
						par, isPar := pl.(*ssa.Parameter)
						if pedge < 0 || !isPar {
							continue
						}
						// what the predicate answers when the count is below the minimum
						bad := pb.Succs[1-pedge]
						if len(bad.Instrs) == 0 {
							continue
						}
						ret, ok := bad.Instrs[len(bad.Instrs)-1].(*ssa.Return)
						if !ok || len(ret.Results) != 1 {
							continue
						}
						res := ret.Results[0]
						if phi, ok := res.(*ssa.Phi); ok && phi.Block() == bad {
							for i, pred := range bad.Preds {
								if pred == pb {
									res = phi.Edges[i]
								}
							}
						}
						k, ok := res.(*ssa.Const)
						if !ok || k.Value == nil || !types.Identical(k.Type().Underlying(), types.Typ[types.Bool]) {
							continue
						}
						for i, fp := range callee.Params {
							if fp == par && i < len(x.Common().Args) {
								l = x.Common().Args[i]
								if k.Value.String() == "true" {
									edge = 1 // true means too few: the callback belongs on the false edge
								} else {
									edge = 0
								}
							}
						}
					}
				}
				if edge >= 0 && flip {
					edge = 1 - edge
				}
				if edge >= 0 && l != nil && onEdge(b, edge, call.Block()) && lengthOf(l, list, 0) {
					ok = true
				}
			}
			r.Check(ok, rule, ssaFuncName(fn), "Extension.Callback is called on the `len(list) >= MinArgs` edge of a test on the list it is handed", c.Pos(call.Pos()),
				"the argument count compared with MinArgs is not the length of the list handed to the callback on every path (a trailing array is expanded into the list after the count was taken, or no such test dominates the call): a callback registered with MinArgs n reads args[n-1] of a shorter list - index out of range")
		})
	}
	if n == 0 {
		r.Undecided("%s: no call of Extension.Callback found in package eval", rule)
	}
}

// minArgsTest: bin compares a count with the MinArgs field; returns the count and the edge (0 true,
// 1 false) of an If on bin on which count >= MinArgs holds; edge -1 when bin is no such test.
func minArgsTest(bin *ssa.BinOp) (ssa.Value, int) {
	l, m, op := bin.X, bin.Y, bin.Op
	if fieldRead(l, "MinArgs") {
		l, m = m, l
		switch op {
		case token.LSS:
			op = token.GTR
		case token.GTR:
			op = token.LSS
		case token.LEQ:
			op = token.GEQ
		case token.GEQ:
			op = token.LEQ
		}
	}
	if !fieldRead(m, "MinArgs") {
		return nil, -1
	}
	switch op {
	case token.LSS:
		return l, 1
	case token.GEQ:
		return l, 0
	}
	return nil, -1
}
