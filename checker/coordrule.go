package main

// coordrule: rule C07.R14, rasterizer coordinates are bounded.
//
// golang.org/x/image/vector's fixed point rasterizer divides by zero for coordinates beyond 2^22 and for
// NaN/Inf (image.line_to("a",4194304,1) was a run-time panic). Every call of
// Rasterizer.MoveTo/LineTo/QuadTo/CubeTo in module code lies on the "no error" edge of a call of a
// validating helper on (a slice of) the callback's argument list, and that helper (1) compares a float64
// taken from the elements of its parameter with a lower and an upper constant within (-2^22, 2^22) in
// the form that is false for NaN (v > lo, v < hi), (2) returns a non-nil error from inside its loop and
// (3) returns nil only outside of the loop.

import (
	"go/constant"
	"go/token"

	"golang.org/x/tools/go/ssa"
)

func (c *Ctx) checkRasterizerCoords(r *Report, rule string) {
	const limit = 1 << 22
	methods := map[string]bool{"MoveTo": true, "LineTo": true, "QuadTo": true, "CubeTo": true}
	floatConst := func(v ssa.Value) (float64, bool) {
		k, ok := v.(*ssa.Const)
		if !ok || k.Value == nil {
			return 0, false
		}
		fv := constant.ToFloat(k.Value)
		if fv.Kind() != constant.Float {
			return 0, false
		}
		f, _ := constant.Float64Val(fv)
		return f, true
	}
	validates := func(fn *ssa.Function) (bool, string) {
		if fn == nil || !isModuleSSA(fn) || len(fn.Params) != 1 {
			return false, "not a one-parameter module function"
		}
		lo, hi := map[ssa.Value]bool{}, map[ssa.Value]bool{}
		eachInstr(fn, func(in ssa.Instruction) {
			bin, ok := in.(*ssa.BinOp)
			if !ok {
				return
			}
			if k, ok := floatConst(bin.Y); ok {
				if (bin.Op == token.GTR || bin.Op == token.GEQ) && k >= -limit {
					lo[bin.X] = true
				}
				if (bin.Op == token.LSS || bin.Op == token.LEQ) && k <= limit {
					hi[bin.X] = true
				}
			}
		})
		both := false
		for v := range lo {
			if hi[v] {
				both = true
			}
		}
		if !both {
			return false, "no float value is compared with both a lower and an upper constant within (-2^22, 2^22) in the NaN-rejecting form"
		}
		// the comparisons found above
		isCmp := map[ssa.Value]bool{}
		eachInstr(fn, func(in ssa.Instruction) {
			if bin, ok := in.(*ssa.BinOp); ok {
				if _, isF := floatConst(bin.Y); isF && (lo[bin.X] || hi[bin.X]) {
					isCmp[bin] = true
				}
			}
		})
		errInLoop, nilInLoop, nilOutside := false, false, false
		for _, b := range fn.Blocks {
			ret, ok := b.Instrs[len(b.Instrs)-1].(*ssa.Return)
			if !ok || len(ret.Results) != 1 {
				continue
			}
			// does the return follow one of the comparisons directly?
			fromCmp := false
			for _, p := range b.Preds {
				if ifi, ok := p.Instrs[len(p.Instrs)-1].(*ssa.If); ok && isCmp[ifi.Cond] {
					fromCmp = true
				}
			}
			if isNilConst(ret.Results[0]) {
				if fromCmp {
					nilInLoop = true
				} else {
					nilOutside = true
				}
			} else if fromCmp {
				errInLoop = true
			}
		}
		switch {
		case !errInLoop:
			return false, "no error is returned right after a failed comparison"
		case nilInLoop:
			return false, "nil is returned right after a comparison (before every element was looked at)"
		case !nilOutside:
			return false, "no nil return away from the comparisons"
		}
		return true, ""
	}
	n := 0
	for _, fn := range c.ModuleSSAFuncs() {
		fname := ssaFuncName(fn)
		k := 0
		eachInstr(fn, func(in ssa.Instruction) {
			call, ok := in.(*ssa.Call)
			if !ok {
				return
			}
			callee := call.Common().StaticCallee()
			if callee == nil || callee.Pkg == nil || callee.Pkg.Pkg.Path() != "golang.org/x/image/vector" || !methods[callee.Name()] {
				return
			}
			n++
			k++
			desc := "the coordinates of " + callee.Name() + " were range checked"
			if k > 1 {
				desc += " #" + itoa(k)
			}
			good, why := false, "no validating call on the argument list controls this call"
			for _, cc := range controlling(call.Block()) {
				bin, ok := cc.Cond.(*ssa.BinOp)
				if !ok || !isNilConst(bin.Y) {
					continue
				}
				if !((bin.Op == token.EQL && cc.Edge == 0) || (bin.Op == token.NEQ && cc.Edge == 1)) {
					continue
				}
				hc, ok := bin.X.(*ssa.Call)
				if !ok || len(hc.Common().Args) != 1 {
					continue
				}
				// the argument is (a slice of) this callback's argument list
				base := hc.Common().Args[0]
				for {
					sl, ok := base.(*ssa.Slice)
					if !ok {
						break
					}
					base = sl.X
				}
				p, isParam := base.(*ssa.Parameter)
				if !isParam || len(fn.Params) == 0 || p != fn.Params[len(fn.Params)-1] {
					why = "the validating call is not applied to the callback's argument list"
					continue
				}
				if ok2, w := validates(hc.Common().StaticCallee()); ok2 {
					good = true
				} else {
					why = "the helper does not validate: " + w
				}
			}
			r.Check(good, rule, fname, desc, c.Pos(call.Pos()), why+": the rasterizer of golang.org/x/image/vector divides by zero for coordinates beyond 2^22 and for NaN/Inf (run-time panic)")
		})
	}
	if n < 4 {
		r.Undecided("%s: only %d calls of the vector path methods found (move_to, line_to, quad_to, cube_to expected)", rule, n)
	}
	r.Floor(rule, 4)
}
