package main

import (
	"fmt"
	"go/token"
	"go/types"
	"sort"
	"strings"

	"golang.org/x/tools/go/callgraph"
	"golang.org/x/tools/go/ssa"
)

// programReach: module functions reachable from program text: repl.EvalOne (parse, print,
// macros, eval) and every registered extension callback. All CHA edges are followed
// (including calls through function values: the parser's registries, Modify callbacks).
func (c *Ctx) programReach() map[*ssa.Function]bool {
	roots := []*ssa.Function{c.SSAFn(c.Fn("repl", "EvalOne")), c.SSAFn(c.Fn("eval", "EvalString"))}
	for _, reg := range c.ExtReg() {
		if reg.Callback != nil {
			roots = append(roots, reg.Callback)
		}
	}
	initInternal := c.SSAFn(c.Fn("extensions", "initInternal"))
	// functions used as values somewhere in the module: only those can be the target of a call
	// through a function value (CHA alone matches every function of the same signature)
	taken := map[*ssa.Function]bool{}
	for _, fn := range c.ModuleSSAFuncs() {
		eachInstr(fn, func(in ssa.Instruction) {
			var ops []*ssa.Value
			ops = in.Operands(ops)
			for i, op := range ops {
				if *op == nil {
					continue
				}
				f, ok := (*op).(*ssa.Function)
				if !ok {
					continue
				}
				if call, isCall := in.(ssa.CallInstruction); isCall && i == 0 && call.Common().Value == *op {
					continue // call position
				}
				taken[f] = true
			}
		})
	}
	return c.CG().Reach(roots, func(e *callgraph.Edge) bool {
		if e.Site == nil {
			return true
		}
		cc := e.Site.Common()
		if cc.IsInvoke() || cc.StaticCallee() != nil {
			return true
		}
		return taken[e.Callee.Func]
	}, func(f *ssa.Function) bool {
		if !isModuleSSA(f) {
			return true
		}
		// initialisation code is not driven by program text
		return f == initInternal || f.Name() == "init" || (f.Pkg != nil && shortPkg(f.Pkg.Pkg) == "token" && f.Name() == "Init")
	})
}

func panicMessage(p *ssa.Panic) string {
	v := p.X
	if mi, ok := v.(*ssa.MakeInterface); ok {
		v = mi.X
	}
	if s, ok := constString(v); ok {
		return s
	}
	// "literal" + x or fmt.Sprintf("literal", ...)
	var find func(v ssa.Value, d int) string
	find = func(v ssa.Value, d int) string {
		if d > 4 {
			return ""
		}
		switch x := v.(type) {
		case *ssa.BinOp:
			if s := find(x.X, d+1); s != "" {
				return s
			}
			return find(x.Y, d+1)
		case *ssa.Call:
			for _, a := range x.Common().Args {
				if s, ok := constString(a); ok {
					return s
				}
			}
		case *ssa.Const:
			if s, ok := constString(x); ok {
				return s
			}
		}
		return ""
	}
	if s := find(v, 0); s != "" {
		return s
	}
	return typeShort(v.Type())
}

// panicTable: explicit panics reachable from program text, each with the invariant that
// makes it a documented guard or unreachable. Keyed by function | message prefix.
var panicTable = map[string]string{
	"eval.(*State).Eval | max depth %d reached":                                                        "GUARD: documented recursion-depth guard, recovered in repl.EvalOne",
	"object.MustBeOk | would exceed memory requesting %d objects, %d free":                             "GUARD: documented memory-budget guard, recovered in repl.EvalOne",
	"object.(*Environment).MakeRegister | No more registers available for %s (%d) have %v":             "unreachable: setupRegister, its only caller, tests HasRegisters() first (C05.R2)",
	"object.(*Environment).ReleaseRegister | Releasing non last register %s %d != %d":                  "unreachable: registers are released by a defer placed right after the acquire, hence in LIFO order (C05.R1), and only a register that was acquired is released (C05.R8)",
	"object.Cmp | Unexpected type in Cmp: ":                                                            "unreachable: REFERENCE/REGISTER are removed by Value() before the tags are read (C12.R4)",
	"object.Cmp | Unexpected type in Cmp: %s":                                                          "unreachable for program values: RETURN/MACRO/UNKNOWN/ANY (C12.R4)",
	"object.Value | Too many references":                                                               "unreachable: makeRef stores the original reference, never a reference to a reference, so chains have length 1",
	"object.(Reference).ObjValue | Self reference":                                                     "unreachable: makeRef binds a Reference in scope e to a binding of an outer scope (RefEnv = e.outer...), never to itself",
	"lexer.(*Lexer).peekChar | Lexer position is negative":                                             "unreachable: the position starts at 0 and only l.pos-- after a readChar (readBlockComment) or a rewind to an earlier position decreases it",
	"parser.(*Parser).parseComment | parseComment for line comment: same line as next and not EOL/EOF": "unreachable: readLineComment consumes up to the newline or NUL, and NUL lexes as the end marker, so the token after a line comment is on another line or is EOL/EOF",
	"ast.(*PrintState).needParen | precedence not found for ":                                          "unreachable: every token carried by an operator node has a Precedences entry (C02.R3)",
	"ast.Modify | key %v not in pairs for map %v":                                                      "unreachable: MapLiteral.Order lists exactly the keys inserted in Pairs by parseMapLiteral and by Modify itself",
	"eval.(*State).DefineMacros | interface conversion":                                                "n/a",
}

func runC07(c *Ctx, r *Report) {
	r.Rule("C07.R1", "explicit panics reachable from program text (repl.EvalOne, eval.EvalString, every extension callback) are the two documented guards or are listed with the invariant that makes them unreachable; any other reachable panic is a violation")
	r.Rule("C07.R3", "integer division and remainder have a divisor proven non-zero, shifts a count proven non-negative (constant, unsigned, or dominated by a test)")
	r.Rule("C07.R5", "interface inhabitants: no producer boxes a form (T vs *T) of an object or syntax-node type that no consumer matches (such values fall through every switch arm or fail an unchecked assertion)")
	r.Rule("C07.R6", "dangling bindings: a one-value lookup in Environment.store whose result is dereferenced or returned is guarded (comma-ok or nil test): del() can remove a binding that live references still name")
	r.Rule("C07.R7", "evaluator states are fully initialised: an eval.State built outside the constructors sets the fields evaluation dereferences (cache map, output writers, MaxDepth)")
	r.Rule("C07.R4", "bounds: an index or slice bound that derives from a program integer (Integer.Value, register, Int64Value; interprocedural) is dominated by tests establishing 0 <= index < length (index) or 0 <= low <= high <= length (slice), min()/max() clamps included")
	r.Rule("C07.R8", "scope depth invariant: an Environment that links an outer scope is built with depth = outer.depth + 1 (Environment.Info indexes by depth along the outer chain)")
	r.Rule("C07.R2", "one-value type assertions in reachable code are justified: by a dominating Type()/token tag test whose tag maps to exactly the asserted type, by a comma-ok test of the same value, by the extension registry (ArgTypes/MinArgs/ClientData) for callback arguments, or by every caller for parameters")
	r.Rule("C04.R4", "(shared) Hashable checks every component: an unhashable value inside an accepted composite panics in the Go map used as cache")

	reach := c.programReach()
	funcs := sortedFuncs(reach)
	r.Note("C07: %d module functions reachable from program text", len(funcs))
	if len(funcs) < 300 {
		r.Undecided("C07: only %d functions reachable from the roots (expected > 300)", len(funcs))
	}

	// ---- R1 ----
	for _, fn := range funcs {
		eachInstr(fn, func(in ssa.Instruction) {
			p, ok := in.(*ssa.Panic)
			if !ok {
				return
			}
			msg := panicMessage(p)
			key := ssaFuncName(fn) + " | " + msg
			if why, ok := panicTable[key]; ok {
				r.OkWhy("C07.R1", ssaFuncName(fn), "panic: "+msg, c.Pos(p.Pos()), why)
				return
			}
			// the same panic (same message) moved to another function of the same package: the invariant that
			// makes it unreachable is about the message's condition, not about where the code sits
			if fn.Pkg != nil {
				pk := shortPkg(fn.Pkg.Pkg) + "."
				for k, why := range panicTable {
					if i := strings.Index(k, " | "); i > 0 && strings.HasPrefix(k, pk) && k[i+3:] == msg && msg != "" {
						r.OkWhy("C07.R1", ssaFuncName(fn), "panic: "+msg, c.Pos(p.Pos()), why+" (listed for "+k[:i]+")")
						return
					}
				}
			}
			r.Fail("C07.R1", ssaFuncName(fn), "panic: "+msg, c.Pos(p.Pos()), "an explicit panic is reachable from program text and is neither a documented resource guard nor listed with an invariant that makes it unreachable")
		})
	}
	r.Floor("C07.R1", 8)

	// ---- R3 ----
	for _, fn := range funcs {
		eachInstr(fn, func(in ssa.Instruction) {
			bin, ok := in.(*ssa.BinOp)
			if !ok {
				return
			}
			bt, ok := bin.X.Type().Underlying().(*types.Basic)
			if !ok || bt.Info()&types.IsInteger == 0 {
				return
			}
			switch bin.Op {
			case token.QUO, token.REM:
				if k, ok := constInt(bin.Y); ok && k != 0 {
					return
				}
				okz := nonZeroAt(bin.Y, bin.Block())
				r.Check(okz, "C07.R3", ssaFuncName(fn), fmt.Sprintf("integer %s by %s", bin.Op, describeOperand(bin.Y)), c.Pos(bin.Pos()),
					"integer division/remainder by a value not proven non-zero: a zero divisor panics with 'integer divide by zero'")
			case token.SHL, token.SHR:
				yt, _ := bin.Y.Type().Underlying().(*types.Basic)
				if yt != nil && yt.Info()&types.IsUnsigned != 0 {
					return
				}
				if k, ok := constInt(bin.Y); ok && k >= 0 {
					return
				}
				okn := nonNegativeAt(bin.Y, bin.Block())
				r.Check(okn, "C07.R3", ssaFuncName(fn), fmt.Sprintf("shift %s by %s", bin.Op, describeOperand(bin.Y)), c.Pos(bin.Pos()),
					"shift by a signed count not proven non-negative: a negative count panics with 'negative shift amount'")
			}
		})
	}

	// ---- R5 ----
	c.reportInhab(r, "C07.R5", func(string) bool { return true })
	// nil returned as ast.Node by converters whose result is used unchecked
	c.checkNilNodeConverters(r)

	// ---- R6 ----
	envT := c.TypeNamed("object", "Environment")
	storeIdx := fieldIndex(envT, "store")
	for _, fn := range funcs {
		eachInstr(fn, func(in ssa.Instruction) {
			lk, ok := in.(*ssa.Lookup)
			if !ok || lk.CommaOk {
				return
			}
			ld, ok := lk.X.(*ssa.UnOp)
			if !ok {
				return
			}
			fa, ok := ld.X.(*ssa.FieldAddr)
			if !ok || fa.Field != storeIdx || namedStruct(fa.X.Type()) == nil || namedStruct(fa.X.Type()).Obj() != envT.Obj() {
				return
			}
			// uses: returned or method invoked without a nil test
			risky := false
			for _, ref := range *lk.Referrers() {
				switch x := ref.(type) {
				case *ssa.Return:
					risky = true
				case *ssa.Call:
					if x.Common().IsInvoke() && x.Common().Value == ssa.Value(lk) {
						// logging under a debug flag excluded? still a deref
						risky = true
					}
				case *ssa.Store, *ssa.Phi:
					risky = true
				}
			}
			if !risky {
				return
			}
			guarded := false
			for _, ref := range *lk.Referrers() {
				if bin, ok := ref.(*ssa.BinOp); ok && (bin.Op == token.EQL || bin.Op == token.NEQ) && (isNilConst(bin.X) || isNilConst(bin.Y)) {
					guarded = true
				}
			}
			// keys taken from a range over the same map are present
			if rng := keyFromRangeOver(lk.Index, lk.X); rng {
				guarded = true
			}
			r.Check(guarded, "C07.R6", ssaFuncName(fn), "one-value lookup in Environment.store", c.Pos(lk.Pos()),
				"the binding may have been deleted (del) while a Reference still names it: the nil result is returned/dereferenced and the evaluator crashes with a nil pointer dereference")
		})
	}

	// ---- R7 ----
	stateT := c.TypeNamed("eval", "State")
	need := []string{"cache", "Out", "LogOut", "MaxDepth", "macroState", "env"}
	for _, fn := range c.ModuleSSAFuncs() {
		eachInstr(fn, func(in ssa.Instruction) {
			al, ok := in.(*ssa.Alloc)
			if !ok {
				return
			}
			n := namedStruct(al.Type())
			if n == nil || n.Obj() != stateT.Obj() {
				return
			}
			// composite literal &State{...}: fields stored
			set := map[string]bool{}
			isLit := false
			for _, ref := range *al.Referrers() {
				if fa, ok := ref.(*ssa.FieldAddr); ok {
					for _, r2 := range *fa.Referrers() {
						if st, ok := r2.(*ssa.Store); ok && st.Addr == ssa.Value(fa) {
							set[n.Underlying().(*types.Struct).Field(fa.Field).Name()] = true
							isLit = true
						}
					}
				}
			}
			for _, ref := range *al.Referrers() {
				if st, ok := ref.(*ssa.Store); ok && st.Addr == ssa.Value(al) {
					return // a copy of an existing state (by-value parameter), not a new one
				}
			}
			if !isLit && !al.Heap {
				return
			}
			var missing []string
			for _, f := range need {
				if !set[f] {
					missing = append(missing, f)
				}
			}
			r.Check(len(missing) == 0, "C07.R7", ssaFuncName(fn), "eval.State literal", c.Pos(al.Pos()),
				"an evaluator state is built without "+strings.Join(missing, ", ")+": evaluating with it panics (nil cache map on a function call, nil writer on print) or hits 'max depth 0 reached' on the first nested expression")
		})
	}
	r.Floor("C07.R7", 2)

	// ---- R2 ----
	c.checkAssertions(r, reach)
	c.checkCallbackArgIndexing(r)
	r.Floor("C07.R2", 200)

	// ---- R4 ----
	c.checkProgramBounds(r, reach)

	// ---- R8 ----
	c.checkEnvDepthInvariant(r)

	// ---- R11 ----
	r.Rule("C07.R11", "interface equality: every == / != between two interface values of module types has, on one side, a boxed value of a deeply comparable concrete type (Boolean, Null, a pointer, Reference): Go panics when both sides hold the same uncomparable struct type")
	c.checkInterfaceEquality(r, "C07.R11")

	// shared C01.R7
	r.Rule("C01.R7", "(shared) control objects are never stored as values (a control object in a container panics in Cmp)")
	c.checkControlObjects(r, "C01.R7")

	r.Rule("C07.R13", "a state's context is never nil: every function that builds a State field by field stores Context, and every store to State.Context writes the result of context.Background/WithCancel/WithTimeout/..., of Term.Resume, another state's Context, or a value tested != nil on that edge")
	c.checkContextNeverNil(r, "C07.R13")

	r.Rule("C07.R14", "rasterizer coordinates are bounded: every call of vector.Rasterizer.MoveTo/LineTo/QuadTo/CubeTo lies on the no-error edge of a validating helper applied to the callback's argument list; the helper compares each element's float with a lower and an upper constant within (-2^22, 2^22) in the NaN-rejecting form, returns an error from inside its loop and nil only after it")
	c.checkRasterizerCoords(r, "C07.R14")

	r.Rule("C07.R15", "the node ast.Modify hands back is used only when there is one: outside of package ast every method invoked on its first result lies on the true edge of its ok result or on the non-nil edge of a test of the node")
	c.checkModifyResultUse(r, "C07.R15")

	// shared C08.R8
	r.Rule("C08.R8", "(shared) a parsed tree is evaluated only after both parser verdicts (errors, continuation request) were found clear: a tree with missing nodes is a nil dereference in the evaluator")
	c.checkParserVerdicts(r, "C08.R8")

	// ---- R9 ----
	r.Rule("C07.R9", "fixed-capacity containers: the length fields of SmallArray, SmallMap and the register file (and Register.Idx) stay within the capacity of the array they index (every store through a pointer is proven within the limit; a local copy may exceed it transiently but not where the value leaves the function), and every index and slice bound into a fixed-size array of packages object and eval is proven within the array from those invariants, dominating comparisons, loop-edge facts, callers' arguments and callees' results, with a difference-constraint prover (relbound.go) for what needs a relation between two values; 3 sites in SmallMap.Range are named abstentions")
	c.checkBoundedContainers(r, "C07.R9", map[string]bool{"eval": true, "object": true})

	// ---- R10 ----
	r.Rule("C07.R10", "index inventory: every index and slice bound applied to a slice or string in packages eval, object and extensions is proven within the length of the very operand it is applied to (dominating comparisons with len of the same value, range loops over it, make() with that length, constants below a proven minimum length, callers' arguments), belongs to the callback-argument rule C07.R2, or is one of the 40 named sites whose argument was read off the code (binary-search results, sort.Interface callbacks, Len()/Elements() agreement, registry minimums); anything else is reported")
	r.Rule("C07.R16", "vacated cells are not zeroed: no slices.Delete / DeleteFunc / Compact / CompactFunc / clear on the storage field of a container of package object (Rest, Range and iteration hand out values sharing the backing array with their own length)")
	c.checkNoClearingOfSharedStorage(r, "C07.R16")
	r.Rule("C07.R17", "the minimum the callbacks rely on is established where they are called: every call of Extension.Callback in package eval lies on the length >= MinArgs edge of a test whose length is the length of the very list handed to the callback (edge by edge through phis)")
	c.checkArgCountTestedOnTheListHandedOver(r, "C07.R17")
	r.Floor("C07.R17", 1)
	c.checkSliceBounds(r, "C07.R10", map[string]bool{"eval": true, "object": true, "extensions": true})

	// shared: the register typestate rules the panic table relies on for MakeRegister / ReleaseRegister
	r.Rule("C05.R1", "(shared) every acquired register is released on every exit (defer right after the acquire: LIFO order)")
	r.Rule("C05.R2", "(shared) MakeRegister only under HasRegisters()")
	r.Rule("C05.R8", "(shared) ReleaseRegister only receives a register that was acquired")
	{
		sub := NewReport("C05", r.Tier, c)
		sub.Sub = true
		runC05(c, sub)
		for _, o := range sub.Obls {
			if o.Rule != "C05.R1" && o.Rule != "C05.R2" && o.Rule != "C05.R8" {
				continue
			}
			if o.status == FAIL {
				r.Fail(o.Rule, o.Func, o.Desc, o.Pos, o.Reason, o.Path...)
			} else {
				r.Ok(o.Rule, o.Func, o.Desc, o.Pos)
			}
		}
		r.Floor("C05.R1", 2)
		r.Floor("C05.R2", 1)
		r.Floor("C05.R8", 1)
	}
	r.Rule("C05.R4", "(shared) assertions inside ast.Modify on rewriter results")
	c.checkModifyAssertions(r, "C05.R4")
	// shared: Hashable
	sub := NewReport("C04", r.Tier, c)
	sub.Sub = true
	c.checkHashable(sub)
	for _, o := range sub.Obls {
		if o.status == FAIL {
			r.Fail("C04.R4", o.Func, o.Desc, o.Pos, o.Reason)
		} else {
			r.Ok("C04.R4", o.Func, o.Desc, o.Pos)
		}
	}
}

func describeOperand(v ssa.Value) string {
	switch x := v.(type) {
	case *ssa.Parameter:
		return "parameter " + x.Name()
	case *ssa.Const:
		return "constant"
	}
	return "a computed value"
}

// factsAbout: comparison facts (op, constant) that hold for v at block b from controlling conditions.
func cmpFactsAt(v ssa.Value, b *ssa.BasicBlock) []struct {
	op token.Token
	k  int64
} {
	var res []struct {
		op token.Token
		k  int64
	}
	neg := map[token.Token]token.Token{token.EQL: token.NEQ, token.NEQ: token.EQL, token.LSS: token.GEQ, token.GEQ: token.LSS, token.GTR: token.LEQ, token.LEQ: token.GTR}
	flip := map[token.Token]token.Token{token.EQL: token.EQL, token.NEQ: token.NEQ, token.LSS: token.GTR, token.GTR: token.LSS, token.LEQ: token.GEQ, token.GEQ: token.LEQ}
	for _, cc := range controlling(b) {
		bin, ok := cc.Cond.(*ssa.BinOp)
		if !ok {
			continue
		}
		op := bin.Op
		var k int64
		var okK bool
		if bin.X == v || pureSame(bin.X, v) {
			k, okK = constInt(bin.Y)
		} else if bin.Y == v || pureSame(bin.Y, v) {
			k, okK = constInt(bin.X)
			op = flip[op]
		}
		if !okK {
			continue
		}
		if _, known := neg[op]; !known {
			continue
		}
		if cc.Edge == 1 {
			op = neg[op]
		}
		res = append(res, struct {
			op token.Token
			k  int64
		}{op, k})
	}
	return res
}

func nonZeroAt(v ssa.Value, b *ssa.BasicBlock) bool {
	for _, f := range cmpFactsAt(v, b) {
		switch {
		case f.op == token.NEQ && f.k == 0, f.op == token.GTR && f.k >= 0, f.op == token.GEQ && f.k > 0, f.op == token.LSS && f.k <= 0, f.op == token.LEQ && f.k < 0:
			return true
		}
	}
	return false
}

func nonNegativeAt(v ssa.Value, b *ssa.BasicBlock) bool {
	for _, f := range cmpFactsAt(v, b) {
		switch {
		case f.op == token.GEQ && f.k >= 0, f.op == token.GTR && f.k >= -1, f.op == token.EQL && f.k >= 0:
			return true
		}
	}
	return false
}

// keyFromRangeOver: key is produced by ranging over the same map (or a key slice collected from it).
func keyFromRangeOver(key ssa.Value, m ssa.Value) bool {
	// pattern: keys := collected from range e.store; for _, k := range keys { e.store[k] }
	// accept when the key is an element of a []string that was appended to inside a range over a map of the same field
	ld, ok := key.(*ssa.UnOp)
	if !ok {
		return false
	}
	ia, ok := ld.X.(*ssa.IndexAddr)
	if !ok {
		return false
	}
	_ = ia
	fn := ld.Parent()
	hasRange := false
	eachInstr(fn, func(in ssa.Instruction) {
		if rg, ok := in.(*ssa.Range); ok {
			if sameExpr(rg.X, m) {
				hasRange = true
			}
		}
	})
	// or the keys are slices.Sorted(maps.Keys(m)) of the same map
	if !hasRange {
		var src ssa.Value = ia.X
		for i := 0; i < 3; i++ {
			if ph, ok := src.(*ssa.Phi); ok && len(ph.Edges) > 0 {
				src = ph.Edges[0]
			}
		}
		if sc, ok := src.(*ssa.Call); ok && strings.HasPrefix(stdName(sc), "slices.Sorted") && len(sc.Common().Args) == 1 {
			if kc, ok := sc.Common().Args[0].(*ssa.Call); ok && strings.HasPrefix(stdName(kc), "maps.Keys") && len(kc.Common().Args) == 1 {
				if sameExpr(kc.Common().Args[0], m) {
					hasRange = true
				}
			}
		}
	}
	// or the keys come from a helper called on the same environment that ranges over its own store
	if !hasRange {
		var src ssa.Value = ia.X
		for i := 0; i < 3; i++ {
			if ph, ok := src.(*ssa.Phi); ok && len(ph.Edges) > 0 {
				src = ph.Edges[0]
			}
		}
		if hc, ok := src.(*ssa.Call); ok {
			if callee := hc.Common().StaticCallee(); callee != nil && isModuleSSA(callee) && len(callee.Params) > 0 && len(hc.Common().Args) > 0 {
				// same owner: the map is owner.store and the helper's receiver is that owner
				var owner ssa.Value
				if mld, ok := m.(*ssa.UnOp); ok {
					if fa, ok := mld.X.(*ssa.FieldAddr); ok {
						owner = fa.X
					}
				}
				// the helper is handed the map itself and ranges over that parameter
				for ai, a := range hc.Common().Args {
					if ai < len(callee.Params) && sameExpr(a, m) {
						eachInstr(callee, func(in ssa.Instruction) {
							if rg, ok := in.(*ssa.Range); ok && rg.X == ssa.Value(callee.Params[ai]) {
								hasRange = true
							}
						})
					}
				}
				if owner != nil && sameValue(hc.Common().Args[0], owner) {
					eachInstr(callee, func(in ssa.Instruction) {
						if rg, ok := in.(*ssa.Range); ok {
							if rld, ok := rg.X.(*ssa.UnOp); ok {
								if fa, ok := rld.X.(*ssa.FieldAddr); ok && fa.X == ssa.Value(callee.Params[0]) {
									if mld, ok := m.(*ssa.UnOp); ok {
										if mfa, ok := mld.X.(*ssa.FieldAddr); ok && mfa.Field == fa.Field {
											hasRange = true
										}
									}
								}
							}
						}
					})
				}
			}
		}
	}
	// and no delete in this function
	noDelete := true
	eachInstr(fn, func(in ssa.Instruction) {
		if call, ok := in.(*ssa.Call); ok {
			if bi, ok := call.Common().Value.(*ssa.Builtin); ok && bi.Name() == "delete" {
				noDelete = false
			}
		}
	})
	return hasRange && noDelete
}

// checkNilNodeConverters: functions returning ast.Node that return a literal nil, whose callers
// use the result without a nil test (the nil then sits in the tree).
func (c *Ctx) checkNilNodeConverters(r *Report) {
	conv := c.FnOpt("eval", "convertObjectToASTNode")
	if conv == nil {
		return
	}
	fn := c.SSAFn(conv)
	returnsNil := false
	eachInstr(fn, func(in ssa.Instruction) {
		if ret, ok := in.(*ssa.Return); ok && isNilConst(retVal(ret, 0)) {
			returnsNil = true
		}
	})
	if !returnsNil {
		r.Ok("C07.R5", ssaFuncName(fn), "never returns a nil node", c.Pos(fn.Pos()))
		return
	}
	for _, caller := range c.ModuleSSAFuncs() {
		for _, call := range callsIn(caller, conv) {
			cv := call.(*ssa.Call)
			checked := false
			for _, ref := range *cv.Referrers() {
				if bin, ok := ref.(*ssa.BinOp); ok && (isNilConst(bin.X) || isNilConst(bin.Y)) {
					checked = true
				}
			}
			r.Check(checked, "C07.R5", ssaFuncName(caller), "nil node from convertObjectToASTNode is tested", c.Pos(cv.Pos()),
				"convertObjectToASTNode returns nil for unsupported values and the caller puts it in the syntax tree: printing or evaluating the tree dereferences nil")
		}
	}
}

// ---------- R2: type assertions ----------

func (c *Ctx) checkAssertions(r *Report, reach map[*ssa.Function]bool) {
	tagTypes := c.concreteTypesByTag()
	names := c.objectTypeNames()
	objIface := c.TypeNamed("object", "Object").Underlying().(*types.Interface)
	regsByCb := map[*ssa.Function][]*Registration{}
	for _, reg := range c.ExtReg() {
		if reg.Callback != nil {
			regsByCb[reg.Callback] = append(regsByCb[reg.Callback], reg)
		}
	}
	tagOfName := map[string]int64{}
	for k, n := range names {
		tagOfName[n] = k
	}
	// justified by tags
	tagsJustify := func(tags map[int64]bool, asserted types.Type) (bool, string) {
		var bad []string
		for tg := range tags {
			cts := tagTypes[tg]
			if len(cts) == 0 {
				continue
			}
			for _, ct := range cts {
				if it, ok := asserted.Underlying().(*types.Interface); ok {
					if !types.Implements(ct, it) {
						bad = append(bad, names[tg]+" -> "+typeShort(ct))
					}
					continue
				}
				if !types.Identical(ct, asserted) {
					bad = append(bad, names[tg]+" -> "+typeShort(ct))
				}
			}
		}
		sort.Strings(bad)
		return len(bad) == 0, strings.Join(bad, ", ")
	}
	counts := map[string]int{}
	for _, fn := range sortedFuncs(reach) {
		eachInstr(fn, func(in ssa.Instruction) {
			ta, ok := in.(*ssa.TypeAssert)
			if !ok || ta.CommaOk {
				return
			}
			fname := ssaFuncName(fn)
			if fname == "ast.Modify" {
				return // assertions on rewriter results: shared rule C05.R4 below
			}
			desc := fmt.Sprintf("%s.(%s)", describeAssertOperand(ta.X), typeShort(ta.AssertedType))
			counts[fname+desc]++
			if n := counts[fname+desc]; n > 1 {
				desc = fmt.Sprintf("%s #%d", desc, n)
			}
			pos := c.Pos(ta.Pos())
			// (1) object tags
			if types.Implements(ta.X.Type(), objIface) || types.Identical(ta.X.Type().Underlying(), objIface) {
				if tags, known := c.tagsAt(ta.X, ta.Block()); known {
					ok, bad := tagsJustify(tags, ta.AssertedType)
					r.Check(ok, "C07.R2", fname, desc, pos, "the dominating Type() test admits values of another concrete type ("+bad+"): the assertion panics")
					return
				}
			}
			// (2) an earlier comma-ok assertion of the same operand to the same type dominating with ok edge
			for _, ref := range *ta.X.Referrers() {
				if t2, ok := ref.(*ssa.TypeAssert); ok && t2.CommaOk && types.Identical(t2.AssertedType, ta.AssertedType) {
					for _, r2 := range *t2.Referrers() {
						if ex, ok := r2.(*ssa.Extract); ok && ex.Index == 1 {
							for _, cc := range controlling(ta.Block()) {
								if cc.Cond == ssa.Value(ex) && cc.Edge == 0 {
									r.OkWhy("C07.R2", fname, desc, pos, "dominated by a comma-ok test of the same value")
									return
								}
							}
						}
					}
				}
			}
			// (3) extension callbacks
			if c.justifyCallbackAssertion(r, fn, ta, regsByCb, tagOfName, tagTypes, fname, desc, pos) {
				return
			}
			// (4) parameters: every caller's argument is tag-justified
			if p, ok := ta.X.(*ssa.Parameter); ok {
				if okp, why := c.paramJustified(fn, p, ta.AssertedType, tagsJustify, 0); okp {
					r.OkWhy("C07.R2", fname, desc, pos, "every caller passes a value tested for the matching tag")
					return
				} else if why != "" {
					r.Fail("C07.R2", fname, desc, pos, why)
					return
				}
			}
			// (5) syntax-node assertions justified by token tests
			if done := c.justifyNodeAssertion(r, fn, ta, fname, desc, pos); done {
				return
			}
			// (6) tag equality transfer: under !(ta < tb) && !(ta > tb) the two values have the same tag
			if tags, ok := c.tagsViaEquality(ta.X, ta.Block()); ok {
				okj, bad := tagsJustify(tags, ta.AssertedType)
				r.Check(okj, "C07.R2", fname, desc, pos, "the tags are equal to those of a tested value, which admit another concrete type ("+bad+")")
				return
			}
			// (7) a field of a syntax node holding an arbitrary expression, asserted without any test
			if ld, ok := ta.X.(*ssa.UnOp); ok {
				if fa, ok := ld.X.(*ssa.FieldAddr); ok {
					if n := namedStruct(fa.X.Type()); n != nil && shortPkg(n.Obj().Pkg()) == "ast" {
						ft := n.Underlying().(*types.Struct).Field(fa.Field)
						if typeShort(ft.Type()) == "ast.Node" {
							guarded := false
							eachInstr(fn, func(x ssa.Instruction) {
								switch y := x.(type) {
								case *ssa.TypeAssert:
									if y != ta && y.CommaOk && sameExpr(y.X, ta.X) {
										guarded = true
									}
								case *ssa.Call:
									if y.Common().IsInvoke() && y.Common().Method.Name() == "Value" && sameExpr(y.Common().Value, ta.X) {
										guarded = true // some token test exists; its adequacy is rule (5)'s business
									}
								}
							})
							if !guarded {
								r.Fail("C07.R2", fname, desc, pos, "the parser stores an arbitrary expression in "+n.Obj().Name()+"."+ft.Name()+" and nothing in this function tests it before the unchecked assertion")
								return
							}
						}
					}
				}
			}
			if why, ok := assertionExceptions[fname+" | "+desc]; ok {
				r.OkWhy("C07.R2", fname, desc, pos, "exception: "+why)
				return
			}
			r.Abstain("C07.R2", fname, desc, pos, "no discriminator recognised")
		})
	}
}

// assertionExceptions: assertions accepted with a reason (one named construct each).
var assertionExceptions = map[string]string{
	"object.Cmp | result of grol.io/grol/object.Value.(object.Float)":      "mixed arm: areIntFloat(ti,tj) holds and ti != INTEGER on this edge, so ei is the Float",
	"object.Cmp | result of grol.io/grol/object.Value.(object.Float) #2":   "mixed arm: areIntFloat(ti,tj) holds and ti == INTEGER on this edge, so ej is the Float",
	"object.Cmp | result of grol.io/grol/object.Value.(object.Integer) #2": "mixed arm: areIntFloat(ti,tj) holds and ti != INTEGER on this edge, so ej is the Integer",
}

// tagsViaEquality: v's tag equals w's tag at b (both orderings of their Type() results are
// excluded by dominating early returns) and w's tag is known at b.
func (c *Ctx) tagsViaEquality(v ssa.Value, b *ssa.BasicBlock) (map[int64]bool, bool) {
	var tv ssa.Value
	for _, t := range c.typeCallsOn(v) {
		tv = t
	}
	if tv == nil {
		return nil, false
	}
	// find w: conditions tw < tv (false) and tw > tv (false), in either operand order
	lessF, greaterF := map[ssa.Value]bool{}, map[ssa.Value]bool{}
	for _, cc := range controlling(b) {
		bin, ok := cc.Cond.(*ssa.BinOp)
		if !ok || cc.Edge != 1 {
			continue
		}
		var other ssa.Value
		op := bin.Op
		switch {
		case bin.X == tv:
			other = bin.Y
			if op == token.LSS {
				op = token.GTR
			} else if op == token.GTR {
				op = token.LSS
			}
		case bin.Y == tv:
			other = bin.X
		default:
			continue
		}
		switch op {
		case token.LSS:
			lessF[other] = true
		case token.GTR:
			greaterF[other] = true
		}
	}
	for tw := range lessF {
		if !greaterF[tw] {
			continue
		}
		call, ok := tw.(*ssa.Call)
		if !ok || !call.Common().IsInvoke() || call.Common().Method.Name() != "Type" {
			continue
		}
		if tags, known := c.tagsAt(call.Common().Value, b); known {
			return tags, true
		}
		// switch on tw itself
		var res map[int64]bool
		for _, cc := range controlling(b) {
			if bin, ok := cc.Cond.(*ssa.BinOp); ok && bin.Op == token.EQL && cc.Edge == 0 && bin.X == tw {
				if k, ok := constInt(bin.Y); ok {
					if res == nil {
						res = map[int64]bool{}
					}
					res[k] = true
				}
			}
		}
		if res != nil {
			return res, true
		}
	}
	return nil, false
}

func describeAssertOperand(v ssa.Value) string {
	switch x := v.(type) {
	case *ssa.Parameter:
		return "param " + x.Name()
	case *ssa.UnOp:
		switch a := x.X.(type) {
		case *ssa.FieldAddr:
			if n := namedStruct(a.X.Type()); n != nil {
				return "field " + n.Obj().Name() + "." + n.Underlying().(*types.Struct).Field(a.Field).Name()
			}
		case *ssa.IndexAddr:
			if k, ok := constInt(a.Index); ok {
				return fmt.Sprintf("%s[%d]", describeAssertOperand(a.X), k)
			}
			return describeAssertOperand(a.X) + "[i]"
		}
		return "load"
	case *ssa.Call:
		return "result of " + nameOfCallee(x)
	case *ssa.Extract:
		if call, ok := x.Tuple.(*ssa.Call); ok {
			return fmt.Sprintf("result %d of %s", x.Index, nameOfCallee(call))
		}
	case *ssa.Phi:
		return "variable " + x.Comment
	case *ssa.FreeVar:
		return "captured " + x.Name()
	}
	return typeShort(v.Type())
}

func (c *Ctx) paramJustified(fn *ssa.Function, p *ssa.Parameter, asserted types.Type, tagsJustify func(map[int64]bool, types.Type) (bool, string), depth int) (bool, string) {
	if depth > 2 {
		return false, ""
	}
	idx := -1
	for i, q := range fn.Params {
		if q == p {
			idx = i
		}
	}
	node := c.CG().g.Nodes[fn]
	if node == nil || idx < 0 {
		return false, ""
	}
	n := 0
	for _, e := range node.In {
		if e.Site == nil || e.Site.Common().StaticCallee() != fn {
			continue
		}
		n++
		args := e.Site.Common().Args
		if idx >= len(args) {
			return false, ""
		}
		a := args[idx]
		tags, known := c.tagsAt(a, e.Site.Block())
		if known {
			if ok, bad := tagsJustify(tags, asserted); !ok {
				return false, "caller " + ssaFuncName(e.Caller.Func) + " passes a value whose tag admits " + bad
			}
			continue
		}
		if mi, ok := a.(*ssa.MakeInterface); ok && types.Identical(mi.X.Type(), asserted) {
			continue
		}
		if q, ok := a.(*ssa.Parameter); ok {
			if okq, _ := c.paramJustified(e.Caller.Func, q, asserted, tagsJustify, depth+1); okq {
				continue
			}
		}
		return false, ""
	}
	return n > 0, ""
}

// justifyCallbackAssertion handles args[i].(T), env.(*eval.State), cdata.(ImageMap) inside extension callbacks.
func (c *Ctx) justifyCallbackAssertion(r *Report, fn *ssa.Function, ta *ssa.TypeAssert, regsByCb map[*ssa.Function][]*Registration,
	tagOfName map[string]int64, tagTypes map[int64][]types.Type, fname, desc, pos string) bool {
	// find the callback this function is (possibly the function wrapped by ShortCallback)
	regs := regsByCb[fn]
	if len(regs) == 0 {
		return false
	}
	short := regs[0].Short
	argsParam := 2
	if short {
		argsParam = 0
	}
	if len(fn.Params) <= argsParam {
		return false
	}
	// env / cdata parameter
	if !short && ta.X == ssa.Value(fn.Params[0]) {
		for _, reg := range regs {
			want := "*eval.State"
			if reg.ClientData {
				// client data type: the asserted type must be the type of the registered ClientData; we only know it is non-nil
				r.OkWhy("C07.R2", fname, desc, pos, "first callback argument is the registration's ClientData")
				return true
			}
			if typeShort(ta.AssertedType) != want {
				r.Fail("C07.R2", fname, desc, pos, "the callback is registered without ClientData, so its first argument is the *eval.State, not "+typeShort(ta.AssertedType))
				return true
			}
		}
		r.OkWhy("C07.R2", fname, desc, pos, "registered without ClientData: first argument is the *eval.State")
		return true
	}
	// args[i]
	ld, ok := ta.X.(*ssa.UnOp)
	if !ok {
		return false
	}
	ia, ok := ld.X.(*ssa.IndexAddr)
	if !ok || ia.X != ssa.Value(fn.Params[argsParam]) {
		return false
	}
	i64, ok := constInt(ia.Index)
	if !ok {
		return false
	}
	i := int(i64)
	for _, reg := range regs {
		name := reg.Key()
		if i >= len(reg.ArgTypes) {
			r.Fail("C07.R2", fname, desc, pos, fmt.Sprintf("extension %s declares %d argument types but the callback asserts the type of args[%d]: that argument is not type-checked by applyExtension", name, len(reg.ArgTypes), i))
			return true
		}
		tn := reg.ArgTypes[i]
		if tn == "ANY" {
			if tags, known := c.tagsAt(ta.X, ta.Block()); known {
				good := true
				for tg := range tags {
					for _, ct := range tagTypes[tg] {
						if !types.Identical(ct, ta.AssertedType) {
							if it, isI := ta.AssertedType.Underlying().(*types.Interface); !isI || !types.Implements(ct, it) {
								good = false
							}
						}
					}
				}
				if good {
					continue
				}
			}
			r.Fail("C07.R2", fname, desc, pos, fmt.Sprintf("extension %s declares args[%d] as ANY and nothing tests its tag before the assertion", name, i))
			return true
		}
		for _, ct := range tagTypes[tagOfName[tn]] {
			if it, isI := ta.AssertedType.Underlying().(*types.Interface); isI {
				if !types.Implements(ct, it) {
					r.Fail("C07.R2", fname, desc, pos, fmt.Sprintf("extension %s declares args[%d] as %s (%s) which does not implement %s", name, i, tn, typeShort(ct), typeShort(ta.AssertedType)))
					return true
				}
			} else if !types.Identical(ct, ta.AssertedType) {
				r.Fail("C07.R2", fname, desc, pos, fmt.Sprintf("extension %s declares args[%d] as %s (%s) but the callback asserts %s", name, i, tn, typeShort(ct), typeShort(ta.AssertedType)))
				return true
			}
		}
	}
	r.OkWhy("C07.R2", fname, desc, pos, "matches the registered ArgTypes")
	return true
}

// tokenTestsOn: token types K for which `x.Value().Type() == K` holds at block b (positive facts).
func (c *Ctx) tokenTagsAt(x ssa.Value, b *ssa.BasicBlock) (map[int64]bool, bool) {
	var res map[int64]bool
	for _, cc := range controlling(b) {
		bin, ok := cc.Cond.(*ssa.BinOp)
		if !ok || (bin.Op != token.EQL && bin.Op != token.NEQ) {
			continue
		}
		k, ok := constInt(bin.Y)
		if !ok {
			continue
		}
		tcall, ok := bin.X.(*ssa.Call)
		if !ok || calleeObj(tcall) == nil || calleeObj(tcall).Name() != "Type" || len(tcall.Common().Args) != 1 {
			continue
		}
		vcall, ok := tcall.Common().Args[0].(*ssa.Call)
		if !ok || !vcall.Common().IsInvoke() || vcall.Common().Method.Name() != "Value" {
			// node.Type() directly on an embedded Base token (node.Token.Type()) is also a token test
			continue
		}
		if !sameExpr(vcall.Common().Value, x) {
			continue
		}
		pos := (bin.Op == token.EQL) == (cc.Edge == 0)
		if pos {
			if res == nil {
				res = map[int64]bool{}
			}
			res[k] = true
		}
	}
	return res, res != nil
}

// justifyNodeAssertion: x.(*ast.T) under a token-type test of x, checked against the
// token -> node relation derived from the parser.
func (c *Ctx) justifyNodeAssertion(r *Report, fn *ssa.Function, ta *ssa.TypeAssert, fname, desc, pos string) bool {
	nodeIface := c.TypeNamed("ast", "Node").Underlying().(*types.Interface)
	if !types.Identical(ta.X.Type().Underlying(), nodeIface) {
		return false
	}
	tags, known := c.tokenTagsAt(ta.X, ta.Block())
	if !known {
		return false
	}
	tr := c.TokRel()
	names := c.tokenTypeNames()
	want := typeShort(ta.AssertedType)
	var bad []string
	for k := range tags {
		for _, tn := range tr.NodesWithToken(k) {
			if tn != want {
				bad = append(bad, names[k]+" -> "+tn)
			}
		}
	}
	sort.Strings(bad)
	r.Check(len(bad) == 0, "C07.R2", fname, desc, pos,
		"the token-type test does not determine the node type: the parser also builds "+strings.Join(bad, ", ")+"; the unchecked assertion panics on those")
	return true
}

func init() {
	register("C07", &propDef{
		explain: "Panic-site discipline over everything reachable from program text (repl.EvalOne, eval.EvalString and every registered extension callback; CHA call graph including calls through function values): explicit panics are the two documented guards or carry a stated invariant; integer / % << >> operands are proven safe by dominating tests; one-value type assertions are justified by dominating Type()/token tests checked against the tag->concrete-type map and the token->node relation derived from the parser, by comma-ok tests, by the extension registry, or by all callers; boxed forms agree with what consumers match; binding lookups that can dangle are guarded; evaluator states are fully initialised; Hashable protects the Go map key. Each is a reachable-crash condition visible in code shape, decided for all programs. Shares C05.R1/R2/R8 (the panic-table entries for MakeRegister/ReleaseRegister rest on them). Also: representation invariants of the fixed-capacity containers (length fields within the capacity of the array they index) and a complete inventory of index/slice operations in eval, object and extensions: each is proven relative to the length of its own operand by a constant-interval / relative prover (dominating comparisons with directional location equality, loop-edge facts, make-length relations, callers and callees), belongs to the callback-argument rule, or is one of 40 named sites with the argument read off the code; anything else is reported.",
		assume:  []string{"nil dereferences in general and panics inside the standard library are not covered (only the lookups of R6 and the nil-node converter)", "the invariants written in the panic table are arguments, cross-referenced to the rules that check them where one exists", "assertions whose discriminator the engine does not recognise are listed as abstained, not alarmed"},
		run:     runC07,
	})
}

// checkCallbackArgIndexing: args[i] in an extension callback needs i < MinArgs of every
// registration sharing the callback, or a dominating test of len(args).
func (c *Ctx) checkCallbackArgIndexing(r *Report) {
	regsByCb := map[*ssa.Function][]*Registration{}
	for _, reg := range c.ExtReg() {
		if reg.Callback != nil {
			regsByCb[reg.Callback] = append(regsByCb[reg.Callback], reg)
		}
	}
	var cbs []*ssa.Function
	for f := range regsByCb {
		cbs = append(cbs, f)
	}
	sort.Slice(cbs, func(i, j int) bool { return ssaFuncName(cbs[i]) < ssaFuncName(cbs[j]) })
	for _, fn := range cbs {
		regs := regsByCb[fn]
		argsParam := 2
		if regs[0].Short {
			argsParam = 0
		}
		if len(fn.Params) <= argsParam {
			continue
		}
		args := fn.Params[argsParam]
		minArgs := 1 << 30
		var names []string
		for _, reg := range regs {
			if reg.MinArgs < minArgs {
				minArgs = reg.MinArgs
			}
			names = append(names, reg.Key())
		}
		lenFacts := func(b *ssa.BasicBlock) int { // proven lower bound of len(args) at b
			lb := minArgs
			for pass := 0; pass < 3; pass++ {
				for _, cc := range controlling(b) {
					bin, ok := cc.Cond.(*ssa.BinOp)
					if !ok {
						continue
					}
					call, ok := bin.X.(*ssa.Call)
					if !ok {
						continue
					}
					bi, ok := call.Common().Value.(*ssa.Builtin)
					if !ok || bi.Name() != "len" || call.Common().Args[0] != ssa.Value(args) {
						continue
					}
					k, ok := constInt(bin.Y)
					if !ok {
						continue
					}
					op := bin.Op
					if cc.Edge == 1 {
						op = map[token.Token]token.Token{token.EQL: token.NEQ, token.NEQ: token.EQL, token.LSS: token.GEQ, token.GEQ: token.LSS, token.GTR: token.LEQ, token.LEQ: token.GTR}[op]
					}
					switch op {
					case token.EQL, token.GEQ:
						if int(k) > lb {
							lb = int(k)
						}
					case token.GTR:
						if int(k)+1 > lb {
							lb = int(k) + 1
						}
					case token.NEQ:
						if int(k) == lb {
							lb = int(k) + 1 // len >= k and len != k
						}
					}
				}
			}
			return lb
		}
		n := 0
		eachInstr(fn, func(in ssa.Instruction) {
			switch x := in.(type) {
			case *ssa.IndexAddr:
				if x.X != ssa.Value(args) {
					return
				}
				i, ok := constInt(x.Index)
				if !ok {
					return // loop indices are bounded by range
				}
				n++
				lb := lenFacts(x.Block())
				r.Check(int(i) < lb, "C07.R2", ssaFuncName(fn), fmt.Sprintf("args[%d] is within the checked argument count", i), c.Pos(x.Pos()),
					fmt.Sprintf("extension %s accepts calls with %d argument(s) (MinArgs) and nothing tests len(args) before args[%d] is read: index out of range", strings.Join(names, ","), minArgs, i))
			case *ssa.Slice:
				if x.X != ssa.Value(args) || x.Low == nil {
					return
				}
				i, ok := constInt(x.Low)
				if !ok {
					return
				}
				n++
				lb := lenFacts(x.Block())
				r.Check(int(i) <= lb, "C07.R2", ssaFuncName(fn), fmt.Sprintf("args[%d:] is within the checked argument count", i), c.Pos(x.Pos()),
					fmt.Sprintf("extension %s accepts %d argument(s) and args[%d:] is taken without a length test", strings.Join(names, ","), minArgs, i))
			}
		})
	}
}

// checkEnvDepthInvariant: Environment literals that link an outer scope must set
// depth = outer.depth + 1: Info() indexes a slice of size depth by depth-1 along the outer chain.
func (c *Ctx) checkEnvDepthInvariant(r *Report) {
	envT := c.TypeNamed("object", "Environment")
	outerIdx, depthIdx := fieldIndex(envT, "outer"), fieldIndex(envT, "depth")
	n := 0
	for _, fn := range c.ModuleSSAFuncs() {
		eachInstr(fn, func(in ssa.Instruction) {
			al, ok := in.(*ssa.Alloc)
			if !ok {
				return
			}
			nn := namedStruct(al.Type())
			if nn == nil || nn.Obj() != envT.Obj() {
				return
			}
			var outerV, depthV ssa.Value
			for _, ref := range *al.Referrers() {
				fa, ok := ref.(*ssa.FieldAddr)
				if !ok {
					continue
				}
				for _, r2 := range *fa.Referrers() {
					if st, ok := r2.(*ssa.Store); ok && st.Addr == ssa.Value(fa) {
						switch fa.Field {
						case outerIdx:
							outerV = st.Val
						case depthIdx:
							depthV = st.Val
						}
					}
				}
			}
			if depthV == nil {
				return // depth 0: root / macro / enclosed scopes; Info() does not index for depth 0
			}
			n++
			ok2 := false
			if add, ok := depthV.(*ssa.BinOp); ok && add.Op == token.ADD {
				if one, ok := constInt(add.Y); ok && one == 1 {
					if ld, ok := add.X.(*ssa.UnOp); ok {
						if fa, ok := ld.X.(*ssa.FieldAddr); ok && fa.Field == depthIdx && outerV != nil && fa.X == outerV {
							ok2 = true
						}
					}
				}
			}
			r.Check(ok2, "C07.R8", ssaFuncName(fn), "Environment literal sets depth = outer.depth + 1", c.Pos(al.Pos()),
				"a scope's depth is not its outer scope's depth plus one: Environment.Info() sizes a slice by depth and indexes it by depth-1 while walking the outer chain, so `info` inside nested calls indexes out of range or leaves nil entries that crash when inspected")
		})
	}
	if n == 0 {
		r.Undecided("C07.R8: no Environment literal with a depth found")
	}
}

// pureSame: two len()/cap() calls (possibly converted) of the same immutable value.
func pureSame(a, b ssa.Value) bool {
	ca, ok1 := stripConvert(a).(*ssa.Call)
	cb, ok2 := stripConvert(b).(*ssa.Call)
	if !ok1 || !ok2 {
		return false
	}
	ba, ok1 := ca.Common().Value.(*ssa.Builtin)
	bb, ok2 := cb.Common().Value.(*ssa.Builtin)
	if !ok1 || !ok2 || ba.Name() != bb.Name() || (ba.Name() != "len" && ba.Name() != "cap") {
		return false
	}
	// same operand, and the operand is a string or a value not reassigned (SSA value identity)
	return ca.Common().Args[0] == cb.Common().Args[0]
}
