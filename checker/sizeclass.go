package main

import (
	"fmt"
	"go/ast"
	"go/types"
)

// checkSizeClassByLength: rule C06.R5. The small/large representation of a container is chosen by
// comparing against object.MaxSmallArray / object.MaxSmallMap. The small representations are copied
// by value (which is what keeps bindings apart), the large ones keep the slice they are handed, so
// the class must be a function of the logical length: a comparison that reads cap() - directly or
// through a local defined from it - sends a short slice of a long array to the sharing
// representation although a container of the same length built otherwise is copied.
func (c *Ctx) checkSizeClassByLength(r *Report, rule string) {
	consts := map[types.Object]bool{}
	for _, n := range []string{"MaxSmallArray", "MaxSmallMap"} {
		if k := c.Const("object", n); k != nil {
			consts[k] = true
		}
	}
	if len(consts) != 2 {
		r.Undecided("%s: the thresholds object.MaxSmallArray / object.MaxSmallMap were not found", rule)
		return
	}
	for _, p := range c.Mod {
		info := p.TypesInfo
		for _, file := range p.Syntax {
			for _, d := range file.Decls {
				fd, ok := d.(*ast.FuncDecl)
				if !ok || fd.Body == nil {
					continue
				}
				fname := fd.Name.Name
				if f, ok := info.Defs[fd.Name].(*types.Func); ok {
					fname = funcName(f)
				}
				// locals defined from an expression that reads cap()
				capLocals := map[types.Object]bool{}
				readsCap := func(e ast.Expr) bool {
					found := false
					ast.Inspect(e, func(n ast.Node) bool {
						switch x := n.(type) {
						case *ast.CallExpr:
							if id, ok := ast.Unparen(x.Fun).(*ast.Ident); ok {
								if b, ok := info.Uses[id].(*types.Builtin); ok && b.Name() == "cap" {
									found = true
								}
							}
						case *ast.Ident:
							if o := info.Uses[x]; o != nil && capLocals[o] {
								found = true
							}
						}
						return !found
					})
					return found
				}
				for changed := true; changed; {
					changed = false
					ast.Inspect(fd.Body, func(n ast.Node) bool {
						as, ok := n.(*ast.AssignStmt)
						if !ok || len(as.Lhs) != len(as.Rhs) {
							return true
						}
						for i, l := range as.Lhs {
							id, ok := l.(*ast.Ident)
							if !ok {
								continue
							}
							o := info.Defs[id]
							if o == nil {
								o = info.Uses[id]
							}
							if o != nil && !capLocals[o] && readsCap(as.Rhs[i]) {
								capLocals[o] = true
								changed = true
							}
						}
						return true
					})
				}
				k := 0
				ast.Inspect(fd.Body, func(n ast.Node) bool {
					be, ok := n.(*ast.BinaryExpr)
					if !ok {
						return true
					}
					isThr := func(e ast.Expr) bool {
						switch x := ast.Unparen(e).(type) {
						case *ast.Ident:
							return consts[info.Uses[x]]
						case *ast.SelectorExpr:
							return consts[info.Uses[x.Sel]]
						}
						return false
					}
					var other ast.Expr
					switch {
					case isThr(be.Y):
						other = be.X
					case isThr(be.X):
						other = be.Y
					default:
						return true
					}
					switch be.Op.String() {
					case "<", "<=", ">", ">=", "==", "!=":
					default:
						return true
					}
					k++
					desc := fmt.Sprintf("size class test #%d: %s", k, types.ExprString(be))
					r.Check(!readsCap(other), rule, fname, desc, c.Pos(be.Pos()),
						"the small/large representation is chosen from a capacity, not from the length: a short slice of a long array (len <= threshold < cap) becomes the large representation, which keeps the slice it is handed instead of copying it, so the new value shares storage with the container it was cut from and an update through one binding shows through the other")
					return true
				})
			}
		}
	}
}
