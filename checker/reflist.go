package main

// reflist: which []Object lists may hold an object.Reference, and where such a list becomes
// container storage.
//
// Get/evalIdentifier hand out References (aliases of bindings in outer environments). They are
// legitimate in argument lists (type(x) shows them, parameters dereference them one by one) but a
// list that becomes the storage of an array must hold values. The object-level taint engine treats
// every element store as a sink, which is right for storage but wrong for argument lists, so lists
// are tracked here as values of their own:
//
//	raw(list)  = some element store into it (directly, or through the varargs array of an append)
//	             writes an object that may be a Reference
//	flows      : slicing, append (either operand), phis, local variables, returns, parameters
//	             (static callees and, for calls through function values, every CHA callee)
//	cleaned by : a full-range sweep  for i := range l { l[i] = object.Value(l[i]) }  (uses after the loop)
//	sinks      : arguments of list-storing functions (a parameter that is stored into a struct field or
//	             copied into one: object.NewArray and friends), stores of a list into a struct field,
//	             copies into a struct field.
//
// Loads from a raw list are in turn sources of may-be-Reference objects for the object-level engine;
// the two are iterated to a fixpoint.

import (
	"fmt"
	"go/constant"
	"go/token"
	"go/types"
	"os"

	"golang.org/x/tools/go/ssa"
)

type RefLists struct {
	c        *Ctx
	obj      *Taint
	spec     TaintSpec
	objT     types.Type
	rawParam map[*ssa.Parameter]bool
	rawRet   map[*ssa.Function][]bool
	funcs    []*ssa.Function
	sweeps   map[ssa.Value][]sweep
	changed  bool
	// stores: parameters (of list type) that the function keeps as, or copies into, container storage
	stores map[*ssa.Parameter]string
	// assume: values assumed for boolean parameters while a callee is re-examined for one call site
	assume map[*ssa.Parameter]bool
	// nest / asking: recursion guard of the element <-> list questions
	nest   int
	asking map[ssa.Value]bool
}

type sweep struct {
	hdr, body *ssa.BasicBlock
}

func (c *Ctx) isObjList(t types.Type, objT types.Type) bool {
	switch u := t.Underlying().(type) {
	case *types.Slice:
		return types.Identical(u.Elem(), objT)
	case *types.Array:
		return types.Identical(u.Elem(), objT)
	case *types.Pointer:
		if a, ok := u.Elem().Underlying().(*types.Array); ok {
			return types.Identical(a.Elem(), objT)
		}
	}
	return false
}

func (c *Ctx) NewRefLists() *RefLists { return c.NewRefListsFor(c.referenceSpec()) }

// NewRefListsFor: the same list analysis for another kind of object that must not sit in container storage
// (live registers).
func (c *Ctx) NewRefListsFor(base TaintSpec) *RefLists {
	rl := &RefLists{c: c, objT: c.TypeNamed("object", "Object"), rawParam: map[*ssa.Parameter]bool{}, rawRet: map[*ssa.Function][]bool{},
		sweeps: map[ssa.Value][]sweep{}, stores: map[*ssa.Parameter]string{}, asking: map[ssa.Value]bool{}}
	rl.funcs = c.ModuleSSAFuncs()
	rl.spec = base
	rl.spec.Source = func(v ssa.Value) bool {
		if base.Source(v) {
			return true
		}
		// an element read out of a list that may hold References
		if ld, ok := v.(*ssa.UnOp); ok {
			if ia, ok := ld.X.(*ssa.IndexAddr); ok && rl.isList(ia.X) {
				// (the element taint asks about the list, the list about its elements: bounded; past the bound the
				// element is taken to be raw, the safe answer)
				if rl.nest > 12 || rl.asking[ld] {
					return true
				}
				rl.nest++
				rl.asking[ld] = true
				defer func() { rl.nest--; delete(rl.asking, ld) }()
				return rl.rawAt(ia.X, ld, map[ssa.Value]bool{})
			}
		}
		return false
	}
	rl.findSweeps()
	rl.obj = NewTaint(c, base)
	rl.solve()
	for round := 0; round < 6; round++ {
		rl.obj = NewTaint(c, rl.spec)
		rl.changed = false
		rl.solve()
		if !rl.changed && round > 0 {
			break
		}
	}
	rl.solveStores()
	return rl
}

func (rl *RefLists) isList(v ssa.Value) bool { return rl.c.isObjList(v.Type(), rl.objT) }

// findSweeps: loops of the form  for i := range L { L[i] = object.Value(L[i]) }.
func (rl *RefLists) findSweeps() {
	valueFn := rl.c.Fn("object", "Value")
	for _, fn := range rl.funcs {
		eachInstr(fn, func(in ssa.Instruction) {
			st, ok := in.(*ssa.Store)
			if !ok {
				return
			}
			ia, ok := st.Addr.(*ssa.IndexAddr)
			if !ok || !rl.isList(ia.X) {
				return
			}
			call, ok := st.Val.(*ssa.Call)
			if !ok || !isCallTo(call, valueFn) {
				return
			}
			ld, ok := call.Common().Args[0].(*ssa.UnOp)
			if !ok {
				return
			}
			ia2, ok := ld.X.(*ssa.IndexAddr)
			if !ok || ia2.X != ia.X || ia2.Index != ia.Index {
				return
			}
			hdr, ok := fullRangeIndex(ia.Index, ia.X)
			if !ok {
				return
			}
			body := st.Block()
			if len(body.Succs) != 1 || body.Succs[0] != hdr {
				return // the sweep may be left early
			}
			rl.sweeps[ia.X] = append(rl.sweeps[ia.X], sweep{hdr, body})
		})
	}
}

func (rl *RefLists) sweptAt(v ssa.Value, at ssa.Instruction) bool {
	if at == nil {
		return false
	}
	b := at.Block()
	for _, sw := range rl.sweeps[v] {
		if b != sw.hdr && b != sw.body && sw.hdr.Dominates(b) {
			return true
		}
	}
	return false
}

// sweptOnEdge: v as it flows along the edge from -> to (a phi operand): also clean on the exit edge of
// the sweep loop itself.
func (rl *RefLists) sweptOnEdge(v ssa.Value, from, to *ssa.BasicBlock) bool {
	for _, sw := range rl.sweeps[v] {
		if from == sw.hdr && to != sw.body {
			return true
		}
	}
	return rl.sweptAt(v, lastInstr(from))
}

// rawAt: may list v hold a Reference where instruction `at` uses it?
func (rl *RefLists) rawAt(v ssa.Value, at ssa.Instruction, seen map[ssa.Value]bool) bool {
	if v == nil || seen[v] {
		return false
	}
	seen[v] = true
	if rl.sweptAt(v, at) {
		return false
	}
	// direct element stores into v
	if refs := v.Referrers(); refs != nil {
		for _, ref := range *refs {
			ia, ok := ref.(*ssa.IndexAddr)
			if !ok || ia.X != v {
				continue
			}
			for _, r2 := range *ia.Referrers() {
				st, ok := r2.(*ssa.Store)
				if !ok || st.Addr != ssa.Value(ia) {
					continue
				}
				if rl.mayUnder(st.Val, st, 0) {
					return true
				}
			}
		}
	}
	self, _ := v.(ssa.Instruction)
	switch x := v.(type) {
	case *ssa.Parameter:
		return rl.rawParam[x]
	case *ssa.Slice:
		return rl.rawAt(x.X, self, seen)
	case *ssa.ChangeType:
		return rl.rawAt(x.X, self, seen)
	case *ssa.Convert:
		return rl.rawAt(x.X, self, seen)
	case *ssa.Phi:
		for i, e := range x.Edges {
			if rl.sweptOnEdge(e, x.Block().Preds[i], x.Block()) {
				continue
			}
			if rl.rawAt(e, lastInstr(x.Block().Preds[i]), seen) { // the value as it leaves that predecessor
				return true
			}
		}
	case *ssa.UnOp:
		if al, ok := x.X.(*ssa.Alloc); ok {
			for _, ref := range *al.Referrers() {
				if st, ok := ref.(*ssa.Store); ok && st.Addr == ssa.Value(al) && rl.rawAt(st.Val, st, seen) {
					return true
				}
			}
		}
	case *ssa.Extract:
		if call, ok := x.Tuple.(*ssa.Call); ok {
			return rl.callRaw(call, x.Index, seen)
		}
	case *ssa.Call:
		return rl.callRaw(x, 0, seen)
	}
	return false
}

func (rl *RefLists) callRaw(call *ssa.Call, idx int, seen map[ssa.Value]bool) bool {
	cc := call.Common()
	if bi, ok := cc.Value.(*ssa.Builtin); ok {
		if bi.Name() == "append" {
			for _, a := range cc.Args {
				if rl.isList(a) && rl.rawAt(a, call, seen) {
					return true
				}
			}
		}
		return false
	}
	for _, f := range rl.calleesOf(call) {
		if r := rl.rawRet[f]; idx < len(r) && r[idx] {
			if rl.cleanForConstFlags(call, f, idx) {
				continue
			}
			return true
		}
	}
	return false
}

// mayUnder: the stored value may be a Reference, under the assumptions made about boolean parameters
// (rl.assume): a value merged from several edges counts only for the edges those assumptions leave feasible;
// CopyRegister keeps a Reference as it is.
func (rl *RefLists) mayUnder(v ssa.Value, at ssa.Instruction, depth int) bool {
	if depth > 6 {
		return rl.obj.May(v)
	}
	switch x := v.(type) {
	case *ssa.Phi:
		for i, e := range x.Edges {
			if !rl.feasible(x.Block().Preds[i], x.Block()) {
				continue
			}
			if rl.mayUnder(e, lastInstr(x.Block().Preds[i]), depth+1) {
				return true
			}
		}
		return false
	case *ssa.Call:
		if obj := calleeObj(x); obj != nil && obj.Name() == "CopyRegister" && obj.Pkg() != nil && obj.Pkg().Name() == "object" && len(x.Common().Args) == 1 {
			return rl.mayUnder(x.Common().Args[0], x, depth+1)
		}
	}
	return rl.obj.May(v) && !(rl.spec.CleanAt != nil && rl.spec.CleanAt(v, at))
}

// feasible: the edge pred -> succ is not excluded by an assumed value of a boolean parameter.
func (rl *RefLists) feasible(pred, succ *ssa.BasicBlock) bool {
	if len(rl.assume) == 0 {
		return true
	}
	for _, cc := range edgeConds(pred, succ) {
		if p, ok := cc.Cond.(*ssa.Parameter); ok {
			if want, assumed := rl.assume[p]; assumed && (cc.Edge == 0) != want {
				return false
			}
		}
	}
	return true
}

// cleanForConstFlags: the callee's list result may hold References in general, but not for the constant
// boolean arguments of this call (evalExpressions(list, true) dereferences every element as it is evaluated).
func (rl *RefLists) cleanForConstFlags(call *ssa.Call, f *ssa.Function, idx int) bool {
	if len(rl.assume) > 0 || call.Common().IsInvoke() || len(call.Common().Args) != len(f.Params) {
		return false
	}
	assume := map[*ssa.Parameter]bool{}
	for i, a := range call.Common().Args {
		k, ok := a.(*ssa.Const)
		if !ok || k.Value == nil || k.Value.Kind() != constant.Bool {
			continue
		}
		assume[f.Params[i]] = constant.BoolVal(k.Value)
	}
	if len(assume) == 0 {
		return false
	}
	rl.assume = assume
	defer func() { rl.assume = nil }()
	clean := true
	eachInstr(f, func(in ssa.Instruction) {
		ret, ok := in.(*ssa.Return)
		if !ok || idx >= len(ret.Results) || !clean {
			return
		}
		if v := retVal(ret, idx); rl.isList(v) && rl.rawAt(v, ret, map[ssa.Value]bool{}) {
			clean = false
		}
	})
	return clean
}

func (rl *RefLists) calleesOf(call ssa.CallInstruction) []*ssa.Function {
	cc := call.Common()
	if sc := cc.StaticCallee(); sc != nil {
		if isModuleSSA(sc) && sc.Blocks != nil {
			return []*ssa.Function{sc}
		}
		return nil
	}
	var res []*ssa.Function
	node := rl.c.CG().g.Nodes[call.Parent()]
	if node == nil {
		return nil
	}
	taken := rl.c.AddressTaken()
	for _, e := range node.Out {
		if e.Site == call && e.Callee.Func.Blocks != nil && isModuleSSA(e.Callee.Func) {
			if !cc.IsInvoke() && !taken[e.Callee.Func] && e.Callee.Func.Parent() == nil {
				continue // same signature, but never used as a value
			}
			res = append(res, e.Callee.Func)
		}
	}
	return res
}

func (rl *RefLists) solve() {
	for iter := 0; iter < 50; iter++ {
		ch := false
		for _, fn := range rl.funcs {
			// returns
			n := fn.Signature.Results().Len()
			if rl.rawRet[fn] == nil {
				rl.rawRet[fn] = make([]bool, n)
			}
			eachInstr(fn, func(in ssa.Instruction) {
				switch x := in.(type) {
				case *ssa.Return:
					for i := range x.Results {
						v := retVal(x, i)
						if !rl.rawRet[fn][i] && rl.isList(v) && rl.rawAt(v, x, map[ssa.Value]bool{}) {
							rl.rawRet[fn][i] = true
							ch = true
						}
					}
				case ssa.CallInstruction:
					cc := x.Common()
					if _, isBuiltin := cc.Value.(*ssa.Builtin); isBuiltin {
						return
					}
					args := cc.Args
					for _, callee := range rl.calleesOf(x) {
						params := callee.Params
						off := 0
						if cc.IsInvoke() {
							off = 1 // receiver is Params[0]
						}
						for i, a := range args {
							if i+off >= len(params) || !rl.isList(a) {
								continue
							}
							p := params[i+off]
							if !rl.rawParam[p] && rl.rawAt(a, x, map[ssa.Value]bool{}) {
								if os.Getenv("REFLIST_DEBUG") != "" {
									fmt.Fprintf(os.Stderr, "rawParam %s(%s) from %s at %s\n", ssaFuncName(callee), p.Name(), ssaFuncName(fn), rl.c.Pos(x.Pos()))
								}
								rl.rawParam[p] = true
								ch = true
							}
						}
					}
				}
			})
		}
		if !ch {
			break
		}
		rl.changed = true
	}
}

// derives: v (used at instruction `at`) is parameter p, possibly sliced / converted / merged, and not
// cleaned by a sweep in between.
func (rl *RefLists) derives(v ssa.Value, p *ssa.Parameter, at ssa.Instruction, seen map[ssa.Value]bool) bool {
	if v == nil || seen[v] {
		return false
	}
	seen[v] = true
	if rl.sweptAt(v, at) {
		return false
	}
	self, _ := v.(ssa.Instruction)
	switch x := v.(type) {
	case *ssa.Parameter:
		return x == p
	case *ssa.Slice:
		return rl.derives(x.X, p, self, seen)
	case *ssa.ChangeType:
		return rl.derives(x.X, p, self, seen)
	case *ssa.Phi:
		for i, e := range x.Edges {
			if rl.sweptOnEdge(e, x.Block().Preds[i], x.Block()) {
				continue
			}
			if rl.derives(e, p, lastInstr(x.Block().Preds[i]), seen) {
				return true
			}
		}
	}
	return false
}

func lastInstr(b *ssa.BasicBlock) ssa.Instruction { return b.Instrs[len(b.Instrs)-1] }

func underStructField(v ssa.Value) bool {
	for i := 0; i < 6; i++ {
		switch x := v.(type) {
		case *ssa.FieldAddr:
			return true
		case *ssa.Slice:
			v = x.X
		case *ssa.IndexAddr:
			v = x.X
		case *ssa.UnOp:
			v = x.X
		default:
			return false
		}
	}
	return false
}

// solveStores: which list parameters end up as (or copied into) the storage of a struct.
func (rl *RefLists) solveStores() {
	for iter := 0; iter < 10; iter++ {
		ch := false
		for _, fn := range rl.funcs {
			for _, p := range fn.Params {
				if !rl.isList(p) || rl.stores[p] != "" {
					continue
				}
				why := ""
				eachInstr(fn, func(in ssa.Instruction) {
					if why != "" {
						return
					}
					switch x := in.(type) {
					case *ssa.Store:
						if _, isField := x.Addr.(*ssa.FieldAddr); isField && rl.derives(x.Val, p, x, map[ssa.Value]bool{}) {
							why = "stored into a struct field"
						}
					case *ssa.Call:
						cc := x.Common()
						if bi, ok := cc.Value.(*ssa.Builtin); ok {
							if bi.Name() == "copy" && len(cc.Args) == 2 && rl.derives(cc.Args[1], p, x, map[ssa.Value]bool{}) && underStructField(cc.Args[0]) && !rl.keyCopyGuarded(x) {
								why = "copied into a struct field"
							}
							return
						}
						if sc := cc.StaticCallee(); sc != nil {
							for i, a := range cc.Args {
								if i < len(sc.Params) && rl.stores[sc.Params[i]] != "" && rl.derives(a, p, x, map[ssa.Value]bool{}) {
									why = "passed to " + ssaFuncName(sc) + " (" + rl.stores[sc.Params[i]] + ")"
								}
							}
						}
					}
				})
				if why != "" {
					rl.stores[p] = why
					ch = true
				}
			}
		}
		if !ch {
			break
		}
	}
}

type RefListSink struct {
	Fn   *ssa.Function
	At   ssa.Instruction
	Desc string
	Raw  bool
}

// Sinks: every place a list becomes container storage, with whether it may hold a Reference there.
func (rl *RefLists) Sinks() []RefListSink {
	var res []RefListSink
	for _, fn := range rl.funcs {
		counts := map[string]int{}
		eachInstr(fn, func(in ssa.Instruction) {
			add := func(desc string, list ssa.Value) {
				counts[desc]++
				d := desc
				if counts[desc] > 1 {
					d = desc + " #" + itoa(counts[desc])
				}
				res = append(res, RefListSink{fn, in, d, rl.rawAt(list, in, map[ssa.Value]bool{})})
			}
			switch x := in.(type) {
			case *ssa.Store:
				if _, isField := x.Addr.(*ssa.FieldAddr); isField && rl.isList(x.Val) {
					if rl.derivesFromAnyParam(x.Val, fn, x) {
						return
					}
					add("list stored into a struct field", x.Val)
				}
			case *ssa.Call:
				cc := x.Common()
				if bi, ok := cc.Value.(*ssa.Builtin); ok {
					if bi.Name() == "copy" && len(cc.Args) == 2 && rl.isList(cc.Args[1]) && underStructField(cc.Args[0]) && !rl.derivesFromAnyParam(cc.Args[1], fn, x) && !rl.keyCopyGuarded(x) {
						add("list copied into a struct field", cc.Args[1])
					}
					return
				}
				if sc := cc.StaticCallee(); sc != nil {
					for i, a := range cc.Args {
						if i < len(sc.Params) && rl.stores[sc.Params[i]] != "" && !rl.derivesFromAnyParam(a, fn, x) {
							add("list passed to "+ssaFuncName(sc)+", which keeps it as storage", a)
						}
					}
				}
			}
		})
	}
	return res
}

// derivesFromAnyParam: the list is (part of) a parameter and every caller is a static call site, where the
// obligation is then placed. Functions that are also called through function values (extension callbacks,
// closures) keep the obligation themselves, with the parameter's context-insensitive taint.
func (rl *RefLists) derivesFromAnyParam(v ssa.Value, fn *ssa.Function, at ssa.Instruction) bool {
	if rl.calledDynamically(fn) {
		return false
	}
	for _, p := range fn.Params {
		if rl.derives(v, p, at, map[ssa.Value]bool{}) {
			return true
		}
	}
	return false
}

func itoa(n int) string {
	if n == 0 {
		return "0"
	}
	s := ""
	for n > 0 {
		s = string(rune('0'+n%10)) + s
		n /= 10
	}
	return s
}

func (rl *RefLists) calledDynamically(fn *ssa.Function) bool {
	if fn.Parent() != nil {
		return true // closures are values
	}
	node := rl.c.CG().g.Nodes[fn]
	if node == nil {
		return true
	}
	if rl.c.AddressTaken()[fn] {
		return true
	}
	n := 0
	for _, e := range node.In {
		if e.Site == nil {
			continue
		}
		if e.Site.Common().StaticCallee() == fn {
			n++
		} else if e.Site.Common().IsInvoke() {
			return true // reached through an interface
		}
	}
	return n == 0 // no caller seen: exported entry point, keep the obligation here
}

// keyCopyGuarded: copy(key.Args[:], list) into a memoisation key (eval.CacheKey, not a container) where every
// element of the list was found hashable: on the false edge of slices.ContainsFunc(list, f) with f(o) being
// !object.Hashable(o). Hashable rejects references (C04.R4), which is what the storage rule is about; the
// element-by-element form of the same exception is in C06.R4 itself.
func (rl *RefLists) keyCopyGuarded(cp *ssa.Call) bool {
	c := rl.c
	dst := cp.Common().Args[0]
	isKey := false
	for v, i := dst, 0; i < 6 && !isKey; i++ {
		switch x := v.(type) {
		case *ssa.Slice:
			v = x.X
		case *ssa.IndexAddr:
			v = x.X
		case *ssa.UnOp:
			v = x.X
		case *ssa.FieldAddr:
			n := namedStruct(x.X.Type())
			isKey = n != nil && n.Obj().Name() == "CacheKey" && shortPkg(n.Obj().Pkg()) == "eval"
			v = x.X
		default:
			i = 6
		}
	}
	if !isKey {
		return false
	}
	hashable := c.Fn("object", "Hashable")
	rejectsUnhashable := func(f *ssa.Function) bool {
		if f == nil || len(f.Params) != 1 || len(f.Blocks) == 0 {
			return false
		}
		n := 0
		ok := true
		eachInstr(f, func(in ssa.Instruction) {
			ret, isRet := in.(*ssa.Return)
			if !isRet {
				return
			}
			n++
			u, isNot := retVal(ret, 0).(*ssa.UnOp)
			if !isNot || u.Op != token.NOT {
				ok = false
				return
			}
			hc, isCall := u.X.(*ssa.Call)
			if !isCall || !isCallTo(hc, hashable) || hc.Common().Args[0] != ssa.Value(f.Params[0]) {
				ok = false
			}
		})
		return ok && n > 0
	}
	for _, cc := range controlling(cp.Block()) {
		cond, edge := cc.Cond, cc.Edge
		if u, ok := cond.(*ssa.UnOp); ok && u.Op == token.NOT {
			cond, edge = u.X, 1-edge
		}
		call, ok := cond.(*ssa.Call)
		if !ok || edge != 1 || len(call.Common().Args) != 2 {
			continue
		}
		obj := calleeObj(call)
		if obj == nil || obj.Pkg() == nil || obj.Pkg().Path() != "slices" || obj.Name() != "ContainsFunc" {
			continue
		}
		if call.Common().Args[0] != cp.Common().Args[1] {
			continue
		}
		f, _ := call.Common().Args[1].(*ssa.Function)
		if rejectsUnhashable(f) {
			return true
		}
	}
	return false
}
