package main

import (
	"fmt"
	"go/token"
	"go/types"
	"sort"

	"golang.org/x/tools/go/ssa"
)

// eolState: abstract knowledge about the parser's lookahead during the end-of-line exploration.
type eolState struct {
	curEOL  int // 1 yes, 0 no, -1 unknown
	peekEOL int
	cont    bool // continuation already requested on this path
}

func runC15(c *Ctx, r *Report) {
	r.Rule("C15.R1", "end-of-file / end-of-line pairing: wherever a parser function tests the current (or next) token for EOF it also tests it for EOL, and every parser loop exits when the lookahead is stuck on EOL (shared evaluation with C08.R2)")
	r.Rule("C15.R2", "end of line is a continuation, not an error: exploring every parser function with the next token fixed to EOL (and then current = next = EOL after a shift), no error is recorded about that token before continuation is requested: peekError is unreachable while peek is EOL, noPrefixParseFnError and direct error appends are unreachable while the current token is EOL")
	r.Rule("C15.R3", "an input that ends inside a string asks for more: where readString reports a missing closing quote NextToken returns the EOL token under the lineMode test after noting the open string, ParseProgram turns Lexer.OpenString() into the continuation request, and EOLEOF returns the EOL token exactly in line mode")
	r.Rule("C15.R5", "the closed test of block comments: with the token text fixed to /*, /*/, /* a *, /* a parseComment can only reach the continuation request, with /**/, /* a */, /***/ only the return of the node (branch conditions evaluated on the concrete string)")
	c.checkClosedCommentTest(r, "C15.R5")
	r.Rule("C15.R4", "what the session remembers is not reset per input: State.cache is written only by the State constructors and ResetCache, and nothing reachable (static calls and interface invokes) from repl.EvalOne, eval.EvalString or State.Eval calls ResetCache or writes the field")
	c.checkSessionCacheKept(r, "C15.R4")
	r.Rule("C16.R5", "(shared) an unfinished token is not the end of the input: in file mode the failed-read edge of readString does not return the end marker")

	pi := c.parserInfo()
	eof, eol := c.tokenConst("EOF"), c.tokenConst("EOL")

	// ---- R1 pairing ----
	// a pure predicate method (receiver only, boolean result, no store) is part of its callers: its token tests
	// count for them, and it carries no obligation of its own
	isPredicate := func(f *ssa.Function) bool {
		if f == nil || f.Blocks == nil || len(f.Params) != 1 || f.Signature.Results().Len() != 1 {
			return false
		}
		if bt, ok := f.Signature.Results().At(0).Type().Underlying().(*types.Basic); !ok || bt.Kind() != types.Bool {
			return false
		}
		pure := true
		eachInstr(f, func(in ssa.Instruction) {
			switch in.(type) {
			case *ssa.Store, *ssa.MapUpdate, *ssa.Defer, *ssa.Panic:
				pure = false
			}
		})
		return pure
	}
	allTests := map[*ssa.Function]map[string]map[int64]ssa.Instruction{}
	for _, fn := range pi.funcs {
		tests := map[string]map[int64]ssa.Instruction{"cur": {}, "peek": {}}
		allTests[fn] = tests
		eachInstr(fn, func(in ssa.Instruction) {
			switch x := in.(type) {
			case *ssa.Call:
				var which string
				switch {
				case isCallTo(x, pi.curTokenIs):
					which = "cur"
				case isCallTo(x, pi.peekTokenIs):
					which = "peek"
				default:
					return
				}
				if k, ok := constInt(x.Common().Args[1]); ok && (k == eof || k == eol) {
					tests[which][k] = in
				}
			case *ssa.BinOp:
				if x.Op != token.EQL && x.Op != token.NEQ {
					return
				}
				k, ok := constInt(x.Y)
				if !ok || (k != eof && k != eol) {
					return
				}
				call, ok := x.X.(*ssa.Call)
				if !ok || calleeObj(call) == nil || calleeObj(call).Name() != "Type" || len(call.Common().Args) != 1 {
					return
				}
				if ld, ok := call.Common().Args[0].(*ssa.UnOp); ok {
					switch {
					case pi.isFieldAddr(ld.X, pi.curIdx):
						tests["cur"][k] = in
					case pi.isFieldAddr(ld.X, pi.peekIdx):
						tests["peek"][k] = in
					}
				}
			}
		})
	}
	for _, fn := range pi.funcs {
		if isPredicate(fn) {
			continue
		}
		tests := map[string]map[int64]ssa.Instruction{"cur": {}, "peek": {}}
		for w, m := range allTests[fn] {
			for k, in := range m {
				tests[w][k] = in
			}
		}
		eachInstr(fn, func(in ssa.Instruction) {
			if call, ok := in.(*ssa.Call); ok {
				if callee := call.Common().StaticCallee(); callee != nil && isPredicate(callee) {
					for w, m := range allTests[callee] {
						for k := range m {
							if _, has := tests[w][k]; !has {
								tests[w][k] = in
							}
						}
					}
				}
			}
		})
		for _, which := range []string{"cur", "peek"} {
			if in, has := tests[which][eof]; has {
				_, hasEOL := tests[which][eol]
				r.Check(hasEOL, "C15.R1", ssaFuncName(fn), "EOF test of the "+which+" token is paired with an EOL test", c.Pos(in.Pos()),
					"the function treats end-of-file specially for the "+which+" token but not end-of-line: in line mode (REPL) the same construct loops, errors or panics instead of ending/continuing")
			}
		}
	}
	// loops under EOL: reuse C08.R2's evaluation
	{
		sub := NewReport("C08", r.Tier, c)
		sub.Sub = true
		c.checkParserLoops(sub, pi)
		for _, o := range sub.Obls {
			if o.status == FAIL && !containsStr(o.Desc, "EOL") {
				continue
			}
			if !containsStr(o.Desc, "EOL") {
				continue
			}
			if o.status == FAIL {
				r.Fail("C15.R1", o.Func, o.Desc, o.Pos, o.Reason, o.Path...)
			} else {
				r.Ok("C15.R1", o.Func, o.Desc, o.Pos)
			}
		}
	}
	r.Floor("C15.R1", 8)

	// ---- R2 exploration ----
	shifts := c.parserShiftSummary(pi)
	tr := c.TokRel()
	nSites := 0
	for _, fn := range pi.funcs {
		if fn.Signature.Recv() == nil || len(fn.Blocks) == 0 {
			continue
		}
		type key struct {
			b *ssa.BasicBlock
			s eolState
		}
		type finding struct {
			in  ssa.Instruction
			why string
		}
		var finds []finding
		seenF := map[ssa.Instruction]bool{}
		checked := map[ssa.Instruction]bool{}
		if fn.Object() == types.Object(pi.peekError) || fn.Object() == types.Object(pi.noPrefix) {
			continue // the error helpers themselves: their call sites are the obligations
		}
		states := []eolState{{curEOL: -1, peekEOL: 1}}
		if es, ok := tr.Entry[fn]; ok && es.reached {
			if es.cur.top || es.cur.s[eol] {
				states = append(states, eolState{curEOL: 1, peekEOL: 1})
			} else {
				states[0].curEOL = 0
			}
		} else {
			states = append(states, eolState{curEOL: 1, peekEOL: 1})
		}
		for _, st0 := range states {
			seen := map[key]bool{}
			var walk func(b *ssa.BasicBlock, st eolState)
			walk = func(b *ssa.BasicBlock, st eolState) {
				if seen[key{b, st}] {
					return
				}
				seen[key{b, st}] = true
				for _, in := range b.Instrs {
					switch x := in.(type) {
					case *ssa.Store:
						if pi.isFieldAddr(x.Addr, pi.contIdx) {
							if k, ok := x.Val.(*ssa.Const); ok && k.Value != nil && k.Value.ExactString() == "true" {
								st.cont = true
							}
						}
						if pi.isFieldAddr(x.Addr, pi.errorsIdx) {
							checked[in] = true
							if st.curEOL == 1 && !st.cont && !seenF[in] {
								seenF[in] = true
								finds = append(finds, finding{in, "an error is appended while the current token is the end of line"})
							}
						}
					case *ssa.Call:
						switch {
						case isCallTo(x, pi.nextToken):
							st.curEOL, st.peekEOL = st.peekEOL, st.peekEOL // the lexer keeps returning EOL
							if st.peekEOL != 1 {
								st.peekEOL = -1
							}
						case isCallTo(x, pi.peekError):
							checked[in] = true
							if st.peekEOL == 1 && !st.cont && !seenF[in] {
								seenF[in] = true
								finds = append(finds, finding{in, "peekError is reached while the next token is the end of line"})
							}
						case isCallTo(x, pi.noPrefix):
							checked[in] = true
							if st.curEOL == 1 && !st.cont && !seenF[in] {
								seenF[in] = true
								finds = append(finds, finding{in, "noPrefixParseFnError is reached while the current token is the end of line"})
							}
						case isCallTo(x, pi.expectPeek):
							// handled at the branch; if peek is EOL it sets continuation and returns false
							if st.peekEOL == 1 {
								if k, ok := constInt(x.Common().Args[1]); !ok || k != eol {
									st.cont = true
								}
							}
						case isCallTo(x, pi.peekTokenIs, pi.curTokenIs):
						default:
							sub := false
							if sc := x.Common().StaticCallee(); sc != nil && shifts[sc] {
								sub = true // another parse function takes over; it is explored on its own
							}
							if sc := x.Common().StaticCallee(); sc == nil && !x.Common().IsInvoke() {
								if _, isB := x.Common().Value.(*ssa.Builtin); !isB {
									sub = true // registry call
								}
							}
							if sub {
								// ... and when it comes back without having asked for more input, the line ended right
								// after what it parsed: the current token is its last one, the next is the end of line
								// (if it did ask, continuation is pending and nothing recorded later matters)
								st.curEOL, st.peekEOL = 0, 1
							}
						}
					}
				}
				ifi, ok := b.Instrs[len(b.Instrs)-1].(*ssa.If)
				if !ok {
					for _, s := range b.Succs {
						walk(s, st)
					}
					return
				}
				tv, fv := evalEOLCond(pi, ifi.Cond, st, eol)
				if tv {
					walk(b.Succs[0], refineEOL(pi, ifi.Cond, st, true, eol))
				}
				if fv {
					walk(b.Succs[1], refineEOL(pi, ifi.Cond, st, false, eol))
				}
			}
			walk(fn.Blocks[0], st0)
		}
		for _, f := range finds {
			r.Fail("C15.R2", ssaFuncName(fn), describeErrorSite(f.in), c.Pos(f.in.Pos()),
				f.why+" and no continuation was requested: a prefix that ends inside this construct reports a parse error in line mode instead of asking for more input")
		}
		var ins []ssa.Instruction
		for in := range checked {
			if !seenF[in] {
				ins = append(ins, in)
			}
		}
		sort.Slice(ins, func(i, j int) bool { return ins[i].Pos() < ins[j].Pos() })
		cnt := map[string]int{}
		for _, in := range ins {
			nSites++
			d := describeErrorSite(in)
			cnt[d]++
			if cnt[d] > 1 {
				d = fmt.Sprintf("%s #%d", d, cnt[d])
			}
			r.Ok("C15.R2", ssaFuncName(fn), d, c.Pos(in.Pos()))
		}
		nSites += len(finds)
	}
	if nSites < 3 {
		r.Undecided("C15.R2: only %d error-recording sites explored", nSites)
	}

	// ---- R3 ----
	{
		nextToken := c.SSAFn(c.Fn("lexer", "Lexer.NextToken"))
		readString := c.Fn("lexer", "Lexer.readString")
		eoleofFn := c.Fn("lexer", "Lexer.EOLEOF")
		lexT := c.TypeNamed("lexer", "Lexer")
		eolT := c.SSAPkg("token").Members["EOLT"]
		eofT := c.SSAPkg("token").Members["EOFT"]
		isLoadOf := func(v ssa.Value, g ssa.Member) bool {
			ld, ok := v.(*ssa.UnOp)
			return ok && g != nil && ld.X == g.(ssa.Value)
		}
		// NextToken itself, or the method whose token NextToken returns as is (the string case moved out)
		holders := []*ssa.Function{nextToken}
		eachInstr(nextToken, func(in ssa.Instruction) {
			call, ok := in.(*ssa.Call)
			if !ok {
				return
			}
			h := call.Common().StaticCallee()
			if h == nil || h.Pkg != nextToken.Pkg || len(h.Blocks) == 0 || len(callsIn(h, readString)) == 0 {
				return
			}
			for _, ref := range *call.Referrers() {
				if _, isRet := ref.(*ssa.Return); isRet {
					holders = append(holders, h)
					return
				}
			}
		})
		for _, nextToken := range holders {
			for _, rc := range callsIn(nextToken, readString) {
				okv := extractOf(rc.(*ssa.Call), 1)
				good := false
				endInFileMode := ""
				if okv != nil {
					for _, ref := range *okv.Referrers() {
						ifi, ok := ref.(*ssa.If)
						if !ok {
							continue
						}
						fb := ifi.Block().Succs[1]
						// the returns of the failed-read region
						for _, b := range nextToken.Blocks {
							if !(b == fb || (len(fb.Preds) == 1 && fb.Dominates(b))) {
								continue
							}
							ret, ok := b.Instrs[len(b.Instrs)-1].(*ssa.Return)
							if !ok {
								continue
							}
							v := retVal(ret, 0)
							if call, ok := v.(*ssa.Call); ok && isCallTo(call, eoleofFn) {
								// the old form: end marker in both modes
								good = true
								endInFileMode = c.Pos(ret.Pos())
								continue
							}
							if isLoadOf(v, eofT) {
								endInFileMode = c.Pos(ret.Pos())
								continue
							}
							if isLoadOf(v, eolT) {
								// only in line mode, and the open string is remembered for the parser
								inLine := false
								for _, cc := range controlling(b) {
									if ld, ok := cc.Cond.(*ssa.UnOp); ok && isFieldAddrOf(ld.X, lexT, "lineMode") && cc.Edge == 0 {
										inLine = true
									}
								}
								noted := false
								for _, in := range b.Instrs {
									if st, ok := in.(*ssa.Store); ok && isFieldAddrOf(st.Addr, lexT, "openString") {
										if k, ok := st.Val.(*ssa.Const); ok && k.Value != nil && k.Value.ExactString() == "true" {
											noted = true
										}
									}
								}
								if inLine && noted {
									good = true
								}
							}
						}
					}
				}
				r.Check(endInFileMode == "", "C16.R5", ssaFuncName(nextToken), "an unterminated string is not the end marker in file mode", c.Pos(rc.Pos()),
					"where readString reports a missing closing quote NextToken returns the end-of-file marker ("+endInFileMode+"): the rest of the script is silently dropped, no error, exit 0")
				r.Check(good, "C15.R3", ssaFuncName(nextToken), "in line mode an unterminated string yields EOL and is remembered", c.Pos(rc.Pos()), "where readString reports a missing closing quote NextToken does not return the EOL token under the lineMode test after noting the open string (or the end marker in both modes): line mode cannot ask for the rest of the string")
				// the parser turns the open string into a continuation request
				{
					pp := c.SSAFn(c.Fn("parser", "Parser.ParseProgram"))
					open := c.FnOpt("lexer", "Lexer.OpenString")
					parT := c.TypeNamed("parser", "Parser")
					asks := false
					if open != nil {
						for _, oc := range callsIn(pp, open) {
							ocv, ok := oc.(*ssa.Call)
							if !ok {
								continue
							}
							for _, ref := range *ocv.Referrers() {
								if ifi, ok := ref.(*ssa.If); ok {
									for _, in := range ifi.Block().Succs[0].Instrs {
										if st, ok := in.(*ssa.Store); ok && isFieldAddrOf(st.Addr, parT, "continuationNeeded") {
											asks = true
										}
									}
								}
							}
						}
					}
					r.Check(asks || endInFileMode != "", "C15.R3", ssaFuncName(pp), "an input that ends inside a string asks for more", c.Pos(pp.Pos()),
						"ParseProgram does not turn Lexer.OpenString() into a continuation request: a statement that starts with an unterminated string is silently accepted in line mode")
				}
			}
		}
		ef := c.SSAFn(eoleofFn)
		good := false
		for _, b := range ef.Blocks {
			ifi, ok := b.Instrs[len(b.Instrs)-1].(*ssa.If)
			if !ok {
				continue
			}
			ld, ok := ifi.Cond.(*ssa.UnOp)
			if !ok || !isFieldAddrOf(ld.X, lexT, "lineMode") {
				continue
			}
			tg, fg := globalReturned(b.Succs[0]), globalReturned(b.Succs[1])
			good = tg == "EOLT" && fg == "EOFT"
		}
		r.Check(good, "C15.R3", ssaFuncName(ef), "EOLEOF returns EOLT in line mode and EOFT otherwise", c.Pos(ef.Pos()), "the end marker does not depend on the lexer mode as documented")
	}
	// the open string is asked about after the last token was read: from every token shift / statement parse of
	// ParseProgram every path to a return passes the OpenString() call (the lexer only knows about the open
	// string once it got there; two tokens are read when ParseProgram starts)
	if open := c.FnOpt("lexer", "Lexer.OpenString"); open != nil {
		pp := c.SSAFn(c.Fn("parser", "Parser.ParseProgram"))
		shifts := callsIn(pp, c.Fn("parser", "Parser.nextToken"), c.Fn("parser", "Parser.parseStatement"))
		for i, sh := range shifts {
			// (a return on the `statement == nil` edge is the error / continuation path: something was reported)
			failed := func(b *ssa.BasicBlock) bool {
				for _, cc := range controlling(b) {
					bin, ok := cc.Cond.(*ssa.BinOp)
					if !ok || !isNilConst(bin.Y) {
						continue
					}
					if call, ok := bin.X.(*ssa.Call); ok && isCallTo(call, c.Fn("parser", "Parser.parseStatement")) {
						if (bin.Op == token.EQL && cc.Edge == 0) || (bin.Op == token.NEQ && cc.Edge == 1) {
							return true
						}
					}
				}
				return false
			}
			bad := mustPassBefore(sh.(ssa.Instruction), func(x ssa.Instruction) bool { return isCallTo(x, open) }, func(x ssa.Instruction) bool {
				_, isRet := x.(*ssa.Return)
				return isRet && !failed(x.Block())
			})
			desc := "the open string is asked about after the last token read"
			if i > 0 {
				desc += " #" + itoa(i+1)
			}
			if bad != nil {
				r.Fail("C15.R3", ssaFuncName(pp), desc, c.Pos(sh.Pos()), "ParseProgram can read tokens and return without asking the lexer whether the input ended inside a string afterwards: an unterminated string that is not among the first two tokens of the input (x = 1; \"abc) is silently accepted in line mode instead of asking for the rest", c.tracePath(bad)...)
			} else {
				r.Ok("C15.R3", ssaFuncName(pp), desc, c.Pos(sh.Pos()))
			}
		}
		if len(shifts) == 0 {
			r.Undecided("C15.R3: no token shift found in ParseProgram")
		}
	}
	r.Floor("C15.R3", 2)
	// R6: `()` at the end of a line is the start of a lambda: where parseGroupedExpression finds `)` right after `(`
	// and the line ends there, it asks for more (continuationNeeded = true) instead of parsing `)` as an expression
	r.Rule("C15.R7", "an operand is left out only before its closer: every return of parseInfixExpression that is not preceded by the store of Right lies on the true edge of a test of the next token against RBRACKET")
	c.checkOperandOmittedOnlyBeforeCloser(r, "C15.R7")
	r.Rule("C15.R6", "an empty parameter list that ends the line asks for the rest: parseGroupedExpression has a block under curTokenIs(RPAREN) and peekTokenIs(EOL) that sets continuationNeeded")
	{
		fn := c.SSAFn(c.Fn("parser", "Parser.parseGroupedExpression"))
		curIs, peekIs := c.Fn("parser", "Parser.curTokenIs"), c.Fn("parser", "Parser.peekTokenIs")
		rparen, _ := constInt64(c.Const("token", "RPAREN"))
		eol, _ := constInt64(c.Const("token", "EOL"))
		parT := c.TypeNamed("parser", "Parser")
		isTest := func(v ssa.Value, f *types.Func, k int64) bool {
			call, ok := v.(*ssa.Call)
			if !ok || !isCallTo(call, f) || len(call.Common().Args) < 2 {
				return false
			}
			kk, ok := constInt(call.Common().Args[1])
			return ok && kk == k
		}
		asks := false
		eachInstr(fn, func(in ssa.Instruction) {
			st, ok := in.(*ssa.Store)
			if !ok || !isFieldAddrOf(st.Addr, parT, "continuationNeeded") {
				return
			}
			hasCur, hasPeek := false, false
			for _, cc := range controlling(st.Block()) {
				if cc.Edge == 0 && isTest(cc.Cond, curIs, rparen) {
					hasCur = true
				}
				if cc.Edge == 0 && isTest(cc.Cond, peekIs, eol) {
					hasPeek = true
				}
			}
			if hasCur && hasPeek {
				asks = true
			}
		})
		r.Check(asks, "C15.R6", ssaFuncName(fn), "`()` at the end of a line asks for the rest of the lambda", c.Pos(fn.Pos()),
			"when a line ends right after an empty `()` the parser goes on to parse `)` as an expression and reports `no prefix parse function`: f(() is rejected in line mode although it is a prefix of f(() => 1), so a program typed line by line fails where the same text at once is accepted")
	}

	// shared C09.R7: each input's macro bodies are evaluated under that input's context
	if !r.Sub {
		r.Rule("C09.R7", "(shared) the state that evaluates macro bodies gets the running state's Context on every call")
		sub9 := NewReport("C09", r.Tier, c)
		sub9.Sub = true
		runC09(c, sub9)
		n9 := 0
		for _, o := range sub9.Obls {
			if o.Rule != "C09.R7" {
				continue
			}
			n9++
			if o.status == FAIL {
				r.Fail(o.Rule, o.Func, o.Desc, o.Pos, o.Reason, o.Path...)
			} else {
				r.Ok(o.Rule, o.Func, o.Desc, o.Pos)
			}
		}
		if n9 < 3 {
			r.Undecided("C15: only %d shared C09.R7 obligations", n9)
		}
	}
	// shared C13.R7: a script evaluated whole and the same script fed statement by statement agree only if the
	// definition sweep over a whole program looks at every statement
	if !r.Sub {
		r.Rule("C13.R7", "(shared) the macro-definition sweep over a whole program examines every statement (no index skip after a removal)")
		sub := NewReport("C13", r.Tier, c)
		sub.Sub = true
		c.checkDeleteWhileIterating(sub, "C13.R7", c.SSAFn(c.Fn("eval", "State.DefineMacros")))
		for _, o := range sub.Obls {
			switch o.status {
			case FAIL:
				r.Fail(o.Rule, o.Func, o.Desc, o.Pos, o.Reason, o.Path...)
			case ABSTAIN:
				r.Abstain(o.Rule, o.Func, o.Desc, o.Pos, o.Reason)
			default:
				r.Ok(o.Rule, o.Func, o.Desc, o.Pos)
			}
		}
		r.Floor("C13.R7", 1)
	}
}

func globalReturned(b *ssa.BasicBlock) string {
	ret, ok := b.Instrs[len(b.Instrs)-1].(*ssa.Return)
	if !ok || len(ret.Results) != 1 {
		return ""
	}
	if ld, ok := ret.Results[0].(*ssa.UnOp); ok {
		if g, ok := ld.X.(*ssa.Global); ok {
			return g.Name()
		}
	}
	return ""
}

func containsStr(s, sub string) bool {
	for i := 0; i+len(sub) <= len(s); i++ {
		if s[i:i+len(sub)] == sub {
			return true
		}
	}
	return false
}

func describeErrorSite(in ssa.Instruction) string {
	switch x := in.(type) {
	case *ssa.Call:
		return "call " + calleeObj(x).Name()
	case *ssa.Store:
		return "append to p.errors"
	}
	return "error site"
}

// evalEOLCond: which branches are feasible under the state.
func evalEOLCond(pi *parserInfo, cond ssa.Value, st eolState, eol int64) (canTrue, canFalse bool) {
	v := evalEOLValue(pi, cond, st, eol, 0)
	switch v {
	case 1:
		return true, false
	case 0:
		return false, true
	}
	return true, true
}

func evalEOLValue(pi *parserInfo, cond ssa.Value, st eolState, eol int64, depth int) int {
	if depth > 6 {
		return -1
	}
	switch x := cond.(type) {
	case *ssa.Const:
		if x.Value != nil && x.Value.ExactString() == "true" {
			return 1
		}
		if x.Value != nil && x.Value.ExactString() == "false" {
			return 0
		}
	case *ssa.UnOp:
		if x.Op == token.NOT {
			v := evalEOLValue(pi, x.X, st, eol, depth+1)
			if v < 0 {
				return -1
			}
			return 1 - v
		}
		if pi.isFieldAddr(x.X, pi.contIdx) && st.cont {
			return 1
		}
	case *ssa.Call:
		k, ok := int64(0), false
		if len(x.Common().Args) >= 2 {
			k, ok = constInt(x.Common().Args[1])
		}
		switch {
		case isCallTo(x, pi.peekTokenIs) && ok:
			if st.peekEOL == 1 {
				return b2i(k == eol)
			}
			if st.peekEOL == 0 && k == eol {
				return 0
			}
		case isCallTo(x, pi.curTokenIs) && ok:
			if st.curEOL == 1 {
				return b2i(k == eol)
			}
			if st.curEOL == 0 && k == eol {
				return 0
			}
		case isCallTo(x, pi.expectPeek) && ok:
			if st.peekEOL == 1 {
				return b2i(k == eol)
			}
		}
	case *ssa.BinOp:
		if x.Op == token.EQL || x.Op == token.NEQ {
			if k, ok := constInt(x.Y); ok {
				if call, ok := x.X.(*ssa.Call); ok && calleeObj(call) != nil && calleeObj(call).Name() == "Type" && len(call.Common().Args) == 1 {
					if ld, ok := call.Common().Args[0].(*ssa.UnOp); ok {
						known := -1
						switch {
						case pi.isFieldAddr(ld.X, pi.curIdx) && st.curEOL == 1:
							known = b2i(k == eol)
						case pi.isFieldAddr(ld.X, pi.peekIdx) && st.peekEOL == 1:
							known = b2i(k == eol)
						}
						if known >= 0 {
							if x.Op == token.NEQ {
								return 1 - known
							}
							return known
						}
					}
				}
			}
		}
	case *ssa.Phi:
		res := -2
		for _, e := range x.Edges {
			v := evalEOLValue(pi, e, st, eol, depth+1)
			if v < 0 {
				return -1
			}
			if res == -2 {
				res = v
			} else if res != v {
				return -1
			}
		}
		if res >= 0 {
			return res
		}
	}
	return -1
}

func b2i(b bool) int {
	if b {
		return 1
	}
	return 0
}

// refineEOL: state after taking a branch.
func refineEOL(pi *parserInfo, cond ssa.Value, st eolState, taken bool, eol int64) eolState {
	if call, ok := cond.(*ssa.Call); ok && len(call.Common().Args) >= 2 {
		if k, ok := constInt(call.Common().Args[1]); ok {
			switch {
			case isCallTo(call, pi.peekTokenIs):
				if k == eol {
					st.peekEOL = b2i(taken)
				} else if taken {
					st.peekEOL = 0
				}
			case isCallTo(call, pi.curTokenIs):
				if k == eol {
					st.curEOL = b2i(taken)
				} else if taken {
					st.curEOL = 0
				}
			case isCallTo(call, pi.expectPeek):
				if taken { // shifted: cur = K, peek unknown (EOL if it was the last token)
					st.curEOL = b2i(k == eol)
					st.peekEOL = -1
				}
			}
		}
	}
	return st
}

// parserShiftSummary: parser functions that may consume tokens (transitively).
func (c *Ctx) parserShiftSummary(pi *parserInfo) map[*ssa.Function]bool {
	shifts := map[*ssa.Function]bool{c.SSAFn(pi.nextToken): true}
	for changed := true; changed; {
		changed = false
		for _, fn := range pi.funcs {
			if shifts[fn] || fn.Signature.Recv() == nil {
				continue
			}
			s := false
			eachInstr(fn, func(in ssa.Instruction) {
				call, ok := in.(ssa.CallInstruction)
				if !ok {
					return
				}
				if sc := call.Common().StaticCallee(); sc != nil {
					if shifts[sc] {
						s = true
					}
				} else if !call.Common().IsInvoke() {
					if _, isB := call.Common().Value.(*ssa.Builtin); !isB {
						s = true
					}
				}
			})
			if s {
				shifts[fn] = true
				changed = true
			}
		}
	}
	// the helpers that the exploration interprets itself
	delete(shifts, c.SSAFn(pi.expectPeek))
	_ = types.Typ
	return shifts
}

func init() {
	register("C15", &propDef{
		explain: "Line mode is file mode with EOL instead of EOF; the necessary structural conditions are decided by partially evaluating the parser with the lookahead fixed to EOL: every EOF test is paired with an EOL test, every loop exits on EOL, and no error about the end-of-line token (peekError while peek is EOL; noPrefixParseFnError or a direct error append while the current token is EOL) is reachable before continuation is requested, in any parser function entered with next = EOL or current = next = EOL; the lexer returns the mode's end marker for unterminated strings. Tree equality between the two modes and equivalence of chunk-wise sessions are not decided. The exploration continues after a sub-parse returns (current token = its last token, next = end of line). Shares C13.R7: whole-script evaluation sweeps every statement for macro definitions.",
		assume:  []string{"paths are explored inside one parser function at a time: after a call that may consume tokens the path is left to that callee's own exploration", "errors that do not concern the offending token (number conversion) are classified by the current-token state only"},
		run:     runC15,
	})
}
