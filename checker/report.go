package main

// Obligations, findings, known-findings matching, evidence and replay files.

import (
	"encoding/json"
	"fmt"
	"os"
	"path/filepath"
	"sort"
	"strings"
	"time"
)

type Status int

const (
	OK Status = iota
	FAIL
	ABSTAIN
)

// Obl is one rule instance decided on the current tree.
type Obl struct {
	Rule   string   `json:"rule"`      // e.g. "C05.R1"
	Func   string   `json:"func"`      // stable function name
	Desc   string   `json:"construct"` // position-free construct descriptor
	Pos    string   `json:"pos"`       // file:line at the time of the run (informational)
	Status string   `json:"verdict"`   // ok | violation | known | abstain
	Reason string   `json:"reason,omitempty"`
	Path   []string `json:"path,omitempty"` // for path rules: entry -> offending exit
	status Status
}

func (o *Obl) Key() string { return o.Rule + " | " + o.Func + " | " + o.Desc }

type Report struct {
	Sub     bool // a sub-report whose obligations are copied into another property's report
	Prop    string
	Tier    string
	Obls    []*Obl
	Undec   []string
	Notes   []string
	Funcs   map[string]bool // functions analysed
	Floors  map[string]int  // rule -> minimal number of instances
	RuleDoc map[string]string
	c       *Ctx
}

func NewReport(prop, tier string, c *Ctx) *Report {
	return &Report{Prop: prop, Tier: tier, Funcs: map[string]bool{}, Floors: map[string]int{}, RuleDoc: map[string]string{}, c: c}
}

func (r *Report) Rule(id, doc string) { r.RuleDoc[id] = doc }

func (r *Report) add(st Status, rule, fn, desc, pos, reason string, path []string) *Obl {
	o := &Obl{Rule: rule, Func: fn, Desc: desc, Pos: pos, Reason: reason, Path: path, status: st}
	r.Obls = append(r.Obls, o)
	if fn != "" {
		r.Funcs[fn] = true
	}
	return o
}

func (r *Report) Ok(rule, fn, desc, pos string)         { r.add(OK, rule, fn, desc, pos, "", nil) }
func (r *Report) OkWhy(rule, fn, desc, pos, why string) { r.add(OK, rule, fn, desc, pos, why, nil) }
func (r *Report) Fail(rule, fn, desc, pos, reason string, path ...string) {
	r.add(FAIL, rule, fn, desc, pos, reason, path)
}
func (r *Report) Abstain(rule, fn, desc, pos, reason string) {
	r.add(ABSTAIN, rule, fn, desc, pos, reason, nil)
}

// Check records ok or fail depending on cond.
func (r *Report) Check(cond bool, rule, fn, desc, pos, reason string) bool {
	if cond {
		r.Ok(rule, fn, desc, pos)
	} else {
		r.Fail(rule, fn, desc, pos, reason)
	}
	return cond
}

func (r *Report) Undecided(format string, args ...any) {
	r.Undec = append(r.Undec, fmt.Sprintf(format, args...))
}

// Floor: the rule must have matched at least n instances (ok+fail), else undecided.
func (r *Report) Floor(rule string, n int) { r.Floors[rule] = n }

func (r *Report) Count(rule string) int {
	n := 0
	for _, o := range r.Obls {
		if o.Rule == rule && o.status != ABSTAIN {
			n++
		}
	}
	return n
}

func (r *Report) Note(format string, args ...any) {
	r.Notes = append(r.Notes, fmt.Sprintf(format, args...))
}

// ---- known findings ----

type KnownFinding struct {
	Properties []string `json:"properties"`
	Key        string   `json:"key"`   // rule | func | construct
	What       string   `json:"what"`  // what fails
	Input      string   `json:"input"` // failing grol input / history reproduced on the real binary
	Defect     string   `json:"defect,omitempty"`
}

type KnownFile struct {
	Comment string         `json:"comment"`
	Known   []KnownFinding `json:"known_findings"`
	Fixed   []string       `json:"fixed"`
}

func loadKnown(path string) *KnownFile {
	kf := &KnownFile{}
	b, err := os.ReadFile(path)
	if err != nil {
		return kf
	}
	if err := json.Unmarshal(b, kf); err != nil {
		undecidedf("known findings file %s: %v", path, err)
	}
	return kf
}

func (kf *KnownFile) match(prop, key string) *KnownFinding {
	for i := range kf.Known {
		k := &kf.Known[i]
		if k.Key != key {
			continue
		}
		for _, p := range k.Properties {
			if p == prop {
				return k
			}
		}
	}
	return nil
}

// ---- finishing: verdict, evidence, replay ----

type finishOpts struct {
	verifDir string
	seed     int
	start    time.Time
	explain  string
	assume   []string
	selftest map[string]any
}

func sanitize(s string) string {
	var b strings.Builder
	for _, r := range s {
		switch {
		case r >= 'a' && r <= 'z', r >= 'A' && r <= 'Z', r >= '0' && r <= '9', r == '.', r == '-':
			b.WriteRune(r)
		default:
			b.WriteByte('_')
		}
	}
	out := b.String()
	if len(out) > 120 {
		out = out[:120]
	}
	return out
}

// Finish prints the verdict lines, writes evidence (and replay files) and returns the exit code.
func (r *Report) Finish(fo finishOpts) int {
	kf := loadKnown(knownPath)
	sort.SliceStable(r.Obls, func(i, j int) bool {
		if r.Obls[i].Rule != r.Obls[j].Rule {
			return r.Obls[i].Rule < r.Obls[j].Rule
		}
		return r.Obls[i].Key() < r.Obls[j].Key()
	})
	// floors
	for rule, n := range r.Floors {
		if got := r.Count(rule); got < n {
			r.Undecided("rule %s matched %d instances, floor is %d (a rule matching too few sites would pass vacuously)", rule, got, n)
		}
	}
	sort.Strings(r.Undec)
	nviol, nknown, nok, nabst := 0, 0, 0, 0
	seenKnown := map[string]bool{}
	seenViol := map[string]bool{}
	var lines []string
	for _, o := range r.Obls {
		switch o.status {
		case OK:
			o.Status = "ok"
			nok++
		case ABSTAIN:
			o.Status = "abstain"
			nabst++
		case FAIL:
			if k := kf.match(r.Prop, o.Key()); k != nil {
				o.Status = "known"
				nknown++
				if !seenKnown[o.Key()] {
					seenKnown[o.Key()] = true
					lines = append(lines, fmt.Sprintf("KNOWN-FINDING: property=%s %s [%s] at %s: %s", r.Prop, k.What, o.Key(), o.Pos, o.Reason))
				}
				continue
			}
			o.Status = "violation"
			nviol++
			if seenViol[o.Key()] {
				continue
			}
			seenViol[o.Key()] = true
			rp := filepath.Join(fo.verifDir, "replay", r.Prop+"-"+sanitize(o.Key())+".json")
			_ = os.MkdirAll(filepath.Dir(rp), 0o755)
			b, _ := json.MarshalIndent(map[string]any{
				"property": r.Prop, "rule": o.Rule, "rule_doc": r.RuleDoc[o.Rule], "function": o.Func, "construct": o.Desc,
				"position": o.Pos, "reason": o.Reason, "path": o.Path, "key": o.Key(),
				"replay": fmt.Sprintf("/verif/run.sh %s %s --only '%s'", r.Prop, r.Tier, o.Rule),
			}, "", " ")
			_ = os.WriteFile(rp, append(b, '\n'), 0o644)
			fmt.Printf("violation: %s at %s: %s\n", o.Key(), o.Pos, o.Reason)
			for _, p := range o.Path {
				fmt.Printf("    path: %s\n", p)
			}
			lines = append(lines, fmt.Sprintf("VIOLATION property=%s replay=%s", r.Prop, rp))
		}
	}
	for _, l := range lines {
		fmt.Println(l)
	}
	for _, u := range r.Undec {
		fmt.Printf("UNDECIDED property=%s %s\n", r.Prop, u)
	}
	// evidence
	perRule := map[string]map[string]int{}
	for _, o := range r.Obls {
		m := perRule[o.Rule]
		if m == nil {
			m = map[string]int{}
			perRule[o.Rule] = m
		}
		m[o.Status]++
	}
	var samples []any
	perRuleSample := map[string]int{}
	for _, o := range r.Obls {
		lim := 6
		if o.status == FAIL || o.status == ABSTAIN {
			lim = 1000
		}
		if perRuleSample[o.Rule+o.Status] >= lim {
			continue
		}
		perRuleSample[o.Rule+o.Status]++
		samples = append(samples, o)
	}
	funcs := make([]string, 0, len(r.Funcs))
	for f := range r.Funcs {
		funcs = append(funcs, f)
	}
	sort.Strings(funcs)
	rules := map[string]any{}
	for id, doc := range r.RuleDoc {
		rules[id] = map[string]any{"rule": doc, "instances": perRule[id], "floor": r.Floors[id]}
	}
	distinct := map[string]bool{}
	for _, o := range r.Obls {
		if o.status != ABSTAIN {
			distinct[o.Key()] = true
		}
	}
	cov := map[string]any{
		"explanation":            fo.explain,
		"obligations":            nok + nknown + nviol,
		"discharged":             nok,
		"known_findings_matched": nknown,
		"violations":             nviol,
		"abstained":              nabst,
		"evaluations":            len(r.Obls),
		"distinct_nontrivial":    len(distinct),
		"rule":                   "one evaluation = one rule instance (rule, function, construct) decided on the current /repo tree; distinct = distinct keys, abstentions excluded",
		"rules":                  rules,
		"functions_analysed":     funcs,
		"samples":                samples,
		"undecided":              r.Undec,
		"notes":                  r.Notes,
		"checker_cmd":            fmt.Sprintf("/verif/run.sh %s %s", r.Prop, r.Tier),
		"trusted_base":           []string{"go/types", "golang.org/x/tools/go/ssa", "golang.org/x/tools/go/packages", "the rule tables in /verif/checker"},
		"exhaustive":             true,
	}
	if fo.selftest != nil {
		cov["selftest"] = fo.selftest
	}
	ev := map[string]any{
		"property_id": r.Prop,
		"tier":        r.Tier,
		"seed":        fo.seed,
		"level":       "other",
		"coverage":    cov,
		"assumptions": fo.assume,
		"wall_s":      time.Since(fo.start).Seconds(),
		"violations":  nviol,
	}
	b, _ := json.MarshalIndent(ev, "", " ")
	_ = os.MkdirAll(filepath.Join(fo.verifDir, "evidence"), 0o755)
	if err := os.WriteFile(filepath.Join(fo.verifDir, "evidence", r.Prop+".json"), append(b, '\n'), 0o644); err != nil {
		fmt.Fprintf(os.Stderr, "cannot write evidence: %v\n", err)
		return 2
	}
	fmt.Printf("%s %s: %d obligations: %d ok, %d known findings, %d violations, %d abstained, %d undecided (%.1fs)\n",
		r.Prop, r.Tier, nok+nknown+nviol, nok, nknown, nviol, nabst, len(r.Undec), time.Since(fo.start).Seconds())
	if nviol > 0 {
		return 1
	}
	if len(r.Undec) > 0 {
		return 2
	}
	return 0
}
