package main

import (
	"sort"
	"strings"

	"golang.org/x/tools/go/callgraph"
	"golang.org/x/tools/go/ssa"
)

// recursiveSCCs: strongly connected components (size > 1 or self-loop) of the call graph
// restricted to the given functions and to edges accepted by keep.
func (c *Ctx) recursiveSCCs(funcs map[*ssa.Function]bool, keep func(*callgraph.Edge) bool) [][]*ssa.Function {
	g := c.CG().g
	index := map[*ssa.Function]int{}
	low := map[*ssa.Function]int{}
	onStack := map[*ssa.Function]bool{}
	var stack []*ssa.Function
	var res [][]*ssa.Function
	idx := 0
	succs := func(f *ssa.Function) []*ssa.Function {
		var out []*ssa.Function
		n := g.Nodes[f]
		if n == nil {
			return nil
		}
		for _, e := range n.Out {
			if !funcs[e.Callee.Func] || (keep != nil && !keep(e)) {
				continue
			}
			out = append(out, e.Callee.Func)
		}
		return out
	}
	var strong func(v *ssa.Function)
	strong = func(v *ssa.Function) {
		index[v] = idx
		low[v] = idx
		idx++
		stack = append(stack, v)
		onStack[v] = true
		self := false
		for _, w := range succs(v) {
			if w == v {
				self = true
			}
			if _, seen := index[w]; !seen {
				strong(w)
				if low[w] < low[v] {
					low[v] = low[w]
				}
			} else if onStack[w] && index[w] < low[v] {
				low[v] = index[w]
			}
		}
		if low[v] == index[v] {
			var comp []*ssa.Function
			for {
				w := stack[len(stack)-1]
				stack = stack[:len(stack)-1]
				onStack[w] = false
				comp = append(comp, w)
				if w == v {
					break
				}
			}
			if len(comp) > 1 || self {
				sort.Slice(comp, func(i, j int) bool { return ssaFuncName(comp[i]) < ssaFuncName(comp[j]) })
				res = append(res, comp)
			}
		}
	}
	for _, f := range sortedFuncs(funcs) {
		if _, seen := index[f]; !seen {
			strong(f)
		}
	}
	sort.Slice(res, func(i, j int) bool { return ssaFuncName(res[i][0]) < ssaFuncName(res[j][0]) })
	return res
}

func sccName(comp []*ssa.Function) string {
	var names []string
	for _, f := range comp {
		names = append(names, ssaFuncName(f))
	}
	return strings.Join(names, " <-> ")
}
