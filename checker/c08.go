package main

import (
	"fmt"
	"go/ast"
	"go/constant"
	"go/token"
	"go/types"
	"sort"
	"strings"

	"golang.org/x/tools/go/ssa"
)

type parserInfo struct {
	c                                   *Ctx
	parserT                             *types.Named
	errorsIdx, contIdx, curIdx, peekIdx int
	peekError, noPrefix, expectPeek     *types.Func
	peekTokenIs, curTokenIs, nextToken  *types.Func
	funcs                               []*ssa.Function
}

func (c *Ctx) parserInfo() *parserInfo {
	pi := &parserInfo{c: c, parserT: c.TypeNamed("parser", "Parser")}
	pi.errorsIdx = fieldIndex(pi.parserT, "errors")
	pi.contIdx = fieldIndex(pi.parserT, "continuationNeeded")
	pi.curIdx = fieldIndex(pi.parserT, "curToken")
	pi.peekIdx = fieldIndex(pi.parserT, "peekToken")
	if pi.errorsIdx < 0 || pi.contIdx < 0 || pi.curIdx < 0 || pi.peekIdx < 0 {
		undecidedf("parser.Parser: errors/continuationNeeded/curToken/peekToken fields not found")
	}
	pi.peekError = c.Fn("parser", "Parser.peekError")
	pi.noPrefix = c.Fn("parser", "Parser.noPrefixParseFnError")
	pi.expectPeek = c.Fn("parser", "Parser.expectPeek")
	pi.peekTokenIs = c.Fn("parser", "Parser.peekTokenIs")
	pi.curTokenIs = c.Fn("parser", "Parser.curTokenIs")
	pi.nextToken = c.Fn("parser", "Parser.nextToken")
	for _, fn := range c.ModuleSSAFuncs() {
		if fn.Pkg != nil && shortPkg(fn.Pkg.Pkg) == "parser" {
			pi.funcs = append(pi.funcs, fn)
		}
	}
	return pi
}

func (pi *parserInfo) isFieldAddr(v ssa.Value, idx int) bool {
	fa, ok := v.(*ssa.FieldAddr)
	if !ok || fa.Field != idx {
		return false
	}
	n := namedStruct(fa.X.Type())
	return n != nil && n.Obj() == pi.parserT.Obj()
}

// justifies: the instruction records an error or requests continuation.
func (pi *parserInfo) justifies(in ssa.Instruction) bool {
	if isCallTo(in, pi.peekError, pi.noPrefix) {
		return true
	}
	if st, ok := in.(*ssa.Store); ok {
		if pi.isFieldAddr(st.Addr, pi.errorsIdx) {
			return true
		}
		if pi.isFieldAddr(st.Addr, pi.contIdx) {
			if k, ok := st.Val.(*ssa.Const); ok && k.Value != nil && k.Value.ExactString() == "true" {
				return true
			}
		}
	}
	return false
}

// nilableResult: the function's first result is a syntax node, a block or a node list.
func nilableResult(fn *ssa.Function) bool {
	res := fn.Signature.Results()
	if res.Len() == 0 {
		return false
	}
	switch typeShort(res.At(0).Type()) {
	case "ast.Node", "*ast.Statements", "[]ast.Node":
		return true
	}
	return false
}

func runC08(c *Ctx, r *Report) {

	if !r.Sub {
		r.Rule("C16.R5", "(shared with C15) an unfinished token is not the end of the input: in file mode the failed-read edge of readString does not return the end marker")
		sub := NewReport("C15", r.Tier, c)
		sub.Sub = true
		runC15(c, sub)
		for _, o := range sub.Obls {
			if o.Rule != "C16.R5" {
				continue
			}
			if o.status == FAIL {
				r.Fail(o.Rule, o.Func, o.Desc, o.Pos, o.Reason)
			} else {
				r.Ok(o.Rule, o.Func, o.Desc, o.Pos)
			}
		}
	}
	// shared C02.R11: "can be printed in every mode without panicking": a printer that takes element k of a
	// statement list does so where the list is known to have it
	r.Rule("C02.R11", "(shared with C02) a printer takes a constant-index element of a statement list only on the edge where the list has exactly that many elements (else { } has none)")
	c.checkSingleStatementAccess(r, "C02.R11")
	r.Rule("C08.R1", "nil discipline: in every parser function returning a node, block or node list, every path to `return nil` passes an error append, a continuationNeeded=true, the false edge of expectPeek, the true edge of a continuationNeeded test, or the nil edge of a result of another parser function that obeys this rule (one named exception: parseExpression when the peek token is =>)")
	r.Rule("C08.R2", "progress: every loop of the lexer advances the position on every cycle and has an exit that is taken on byte 0 (predicates evaluated at 0); every loop of the parser shifts a token on every cycle and, evaluated with cur=peek=end-of-file (and end-of-line), cannot complete a cycle")
	r.Rule("C08.R3", "clamped error rendering: every strings.Repeat count in the front end is proven non-negative (max(0,..) or a dominating test); CurrentLine slices the input with clamped bounds")
	r.Rule("C08.R4", "optional children: a child field that some parse path leaves nil in a returned node is tested for nil before the printers dereference it")
	r.Rule("C08.R5", "possibly-nil nodes inside the parser: a method is invoked on an element of a parsed list or on a parse result only after a nil test")
	r.Rule("C08.R6", "comment terminators agree with the tokenizer: every byte on which readLineComment stops (notEOL false) is either a newline that skipWhitespace records, or makes NextToken return the end marker on every path; otherwise the parser's line-comment assertion (next token is on another line or is the end marker) is reachable")
	r.Rule("C08.R7", "fixed-length operands: an index or slice bound applied to an operand whose length is a compile-time constant (array, pointer to array, string constant, package-level slice/string initialised once from a literal) is bounded by that length: by its type (a byte indexes 256 entries), or by a dominating comparison with a constant; generated files (stringer) are skipped")
	r.Rule("C08.R9", "token.ByType is defined for what the front end asks: every constant token type passed to Parser.expectPeek / peekError / token.ByType is among the types registered through a function that stores tToT[its parameter]")
	c.checkByTypeTotal(r, "C08.R9")
	r.Rule("C08.R8", "both verdicts are consulted: outside of the parser, every use of a tree returned by Parser.ParseProgram (argument, field store, return) lies on the no-error edge of a test on that parser's Errors() and on the false edge of a test on its ContinuationNeeded()")
	c.checkParserVerdicts(r, "C08.R8")
	r.Rule("C16.R4", "(shared) the end marker is sticky")

	pi := c.parserInfo()

	// ---- R1 ----
	// expectPeek itself: every `return false` is justified
	obeys := map[*ssa.Function]bool{}
	for iter := 0; iter < 5; iter++ {
		for _, fn := range pi.funcs {
			if !nilableResult(fn) && fn.Object() != types.Object(pi.expectPeek) {
				continue
			}
			ok := true
			eachInstr(fn, func(in ssa.Instruction) {
				ret, isRet := in.(*ssa.Return)
				if !isRet || len(ret.Results) == 0 {
					return
				}
				if !isFailValue(ret.Results[0]) {
					return
				}
				if bad := pi.unjustifiedPath(fn, ret, obeys); bad != nil {
					ok = false
				}
			})
			obeys[fn] = ok
		}
	}
	n1 := 0
	for _, fn := range pi.funcs {
		if !nilableResult(fn) && fn.Object() != types.Object(pi.expectPeek) {
			continue
		}
		k := 0
		eachInstr(fn, func(in ssa.Instruction) {
			ret, isRet := in.(*ssa.Return)
			if !isRet || len(ret.Results) == 0 || !isFailValue(ret.Results[0]) {
				return
			}
			k++
			n1++
			desc := fmt.Sprintf("return nil #%d", k)
			if fn.Object() == types.Object(pi.expectPeek) {
				desc = fmt.Sprintf("return false #%d", k)
			}
			bad := pi.unjustifiedPath(fn, ret, obeys)
			if bad != nil {
				r.Fail("C08.R1", ssaFuncName(fn), desc, c.Pos(instrPos(ret)),
					"a path reaches this return without recording an error or requesting more input: the caller gets no tree, no error and no continuation request (or a tree with a missing child)", blockTrail(c, bad)...)
			} else {
				r.Ok("C08.R1", ssaFuncName(fn), desc, c.Pos(instrPos(ret)))
			}
		})
	}
	r.Floor("C08.R1", 25)

	// ---- R5 ----
	c.checkParserNilDerefs(r, pi)

	// ---- R2 lexer ----
	li := c.lexerInfo()
	nl := 0
	for _, fn := range c.ModuleSSAFuncs() {
		if fn.Pkg == nil || shortPkg(fn.Pkg.Pkg) != "lexer" {
			continue
		}
		for _, h := range loopHeaders(fn) {
			nl++
			desc := fmt.Sprintf("loop at block %s", h.Comment)
			// (a) every cycle advances the position
			if cyc := cycleAvoiding(h, func(in ssa.Instruction) bool {
				if !li.posWrite(in) {
					return false
				}
				d, ok := li.posDelta(in)
				return !ok || d > 0
			}); cyc != nil {
				r.Fail("C08.R2", ssaFuncName(fn), desc+" advances the position on every cycle", c.Pos(firstPos(h)), "a cycle through the loop does not advance the lexer position: the lexer can spin forever on some input", blockTrail(c, cyc)...)
			} else {
				r.Ok("C08.R2", ssaFuncName(fn), desc+" advances the position on every cycle", c.Pos(firstPos(h)))
			}
			// (b) exit on byte 0
			okExit, why := c.loopExitsOnZero(fn, h, li)
			r.Check(okExit, "C08.R2", ssaFuncName(fn), desc+" exits when the byte read is 0 (end of input)", c.Pos(firstPos(h)), why)
		}
	}
	if nl < 8 {
		r.Undecided("C08.R2: only %d lexer loops found", nl)
	}
	// ---- R2 parser ----
	c.checkParserLoops(r, pi)

	// ---- R3 ----
	frontEnd := map[string]bool{"lexer": true, "parser": true, "ast": true}
	for _, fn := range c.ModuleSSAFuncs() {
		if fn.Pkg == nil || !frontEnd[shortPkg(fn.Pkg.Pkg)] {
			continue
		}
		eachInstr(fn, func(in ssa.Instruction) {
			call, ok := in.(*ssa.Call)
			if !ok || stdName(call) != "strings.Repeat" {
				return
			}
			cnt := call.Common().Args[1]
			r.Check(lowerBoundOK(cnt, call.Block(), 0) || lowerViaMinusConst(cnt, call.Block()), "C08.R3", ssaFuncName(fn), "strings.Repeat count is non-negative", c.Pos(call.Pos()),
				"strings.Repeat panics on a negative count and nothing clamps it (max(0, ..) or a dominating test)")
		})
	}
	{
		fn := c.SSAFn(c.Fn("lexer", "Lexer.CurrentLine"))
		eachInstr(fn, func(in ssa.Instruction) {
			sl, ok := in.(*ssa.Slice)
			if !ok {
				return
			}
			if _, isStr := sl.X.Type().Underlying().(*types.Slice); !isStr {
				return
			}
			desc := "input slice in CurrentLine"
			if sl.Low != nil {
				okLow := clampedByLen(sl.Low) || li.isFieldLoad(sl.Low, "lastNewLine")
				r.Check(okLow, "C08.R3", ssaFuncName(fn), desc+": low bound clamped", c.Pos(sl.Pos()), "the low bound is neither min(pos, len(input)) nor the recorded line start")
			}
			if sl.High != nil {
				// p + distance to newline within input[p:]
				okHigh := false
				if add, ok := sl.High.(*ssa.BinOp); ok && add.Op == token.ADD && clampedByLen(add.X) {
					okHigh = true
				}
				r.Check(okHigh, "C08.R3", ssaFuncName(fn), desc+": high bound is the clamped position plus an in-range distance", c.Pos(sl.Pos()), "the high bound is not derived from the clamped position")
			}
		})
	}
	r.Floor("C08.R3", 4)

	// ---- R4 ----
	c.checkOptionalChildren(r, pi)

	// ---- R6 ----
	{
		notEOL := c.Fn("lexer", "notEOL")
		isWS := c.Fn("lexer", "isWhiteSpace")
		nextToken := c.SSAFn(c.Fn("lexer", "Lexer.NextToken"))
		eoleof := c.Fn("lexer", "Lexer.EOLEOF")
		stop, ok1 := c.ByteSet(notEOL)
		ws, ok2 := c.ByteSet(isWS)
		sets, chV, _ := c.nextTokenPairSets(nextToken)
		if !ok1 || !ok2 || sets == nil {
			r.Undecided("C08.R6: cannot constant-fold notEOL/isWhiteSpace or analyse NextToken")
		} else {
			_ = chV
			for b := 0; b < 256; b++ {
				if stop[b] {
					continue
				}
				desc := fmt.Sprintf("line comment stops on byte %q", rune(b))
				if b == '\n' && ws[b] {
					r.OkWhy("C08.R6", "lexer.(*Lexer).readLineComment", desc, c.Pos(nextToken.Pos()), "newline: skipWhitespace records it, so the next token is on another line")
					continue
				}
				if ws[b] {
					r.Fail("C08.R6", "lexer.(*Lexer).readLineComment", desc, c.Pos(nextToken.Pos()), "the comment stops on a whitespace byte that is not a newline: the next token is on the same line")
					continue
				}
				// every return of NextToken reachable with current byte b must be the end marker
				var bad []string
				eachInstr(nextToken, func(in ssa.Instruction) {
					ret, ok := in.(*ssa.Return)
					if !ok {
						return
					}
					set := sets[ret.Block()]
					if set == nil {
						return
					}
					has := false
					for nx := 0; nx < 256; nx++ {
						if set.has(b, nx) {
							has = true
						}
					}
					if !has {
						return
					}
					v := retVal(ret, 0)
					if call, ok := v.(*ssa.Call); ok && isCallTo(call, eoleof) {
						return
					}
					bad = append(bad, c.Pos(instrPos(ret)))
				})
				r.Check(len(bad) == 0, "C08.R6", "lexer.(*Lexer).NextToken", desc+" and NextToken returns the end marker for it", c.Pos(nextToken.Pos()),
					"a line comment ends at this byte but NextToken can return a regular token for it ("+strings.Join(bad, ", ")+"): the token follows the comment on the same line and parseComment panics")
			}
		}
	}

	// ---- R7 ----
	c.checkFixedLengthOperands(r, "C08.R7", map[string]bool{"ast": true, "lexer": true, "parser": true, "token": true, "trie": true})

	// shared: sticky end marker
	sub := NewReport("C16", r.Tier, c)
	sub.Sub = true
	runC16(c, sub)
	for _, o := range sub.Obls {
		if o.Rule != "C16.R4" {
			continue
		}
		if o.status == FAIL {
			r.Fail("C16.R4", o.Func, o.Desc, o.Pos, o.Reason)
		} else {
			r.Ok("C16.R4", o.Func, o.Desc, o.Pos)
		}
	}
}

func (li *lexerInfo) isFieldLoad(v ssa.Value, name string) bool {
	ld, ok := v.(*ssa.UnOp)
	if !ok {
		return false
	}
	fa, ok := ld.X.(*ssa.FieldAddr)
	return ok && fa.Field == fieldIndex(li.lexT, name) && namedStruct(fa.X.Type()) != nil && namedStruct(fa.X.Type()).Obj() == li.lexT.Obj()
}

func clampedByLen(v ssa.Value) bool {
	call, ok := v.(*ssa.Call)
	if !ok {
		return false
	}
	bi, ok := call.Common().Value.(*ssa.Builtin)
	if !ok || bi.Name() != "min" {
		return false
	}
	for _, a := range call.Common().Args {
		if _, isLen := lengthLike(a, 0); isLen {
			return true
		}
	}
	return false
}

// lowerViaMinusConst: v = x - k with a dominating test x > k' (k' >= k-... ) e.g. IndentLevel-1 under IndentLevel > 1.
func lowerViaMinusConst(v ssa.Value, b *ssa.BasicBlock) bool {
	sub, ok := v.(*ssa.BinOp)
	if !ok || sub.Op != token.SUB {
		return false
	}
	k, ok := constInt(sub.Y)
	if !ok {
		return false
	}
	// facts about another load of the same field
	for _, cc := range controlling(b) {
		bin, ok := cc.Cond.(*ssa.BinOp)
		if !ok {
			continue
		}
		if !sameValue(bin.X, sub.X) && !sameExpr(bin.X, sub.X) {
			continue
		}
		kk, ok := constInt(bin.Y)
		if !ok {
			continue
		}
		op := bin.Op
		if cc.Edge == 1 {
			op = negOp[op]
		}
		switch op {
		case token.GTR:
			if kk+1 >= k {
				return true
			}
		case token.GEQ:
			if kk >= k {
				return true
			}
		}
	}
	return false
}

func isFailValue(v ssa.Value) bool {
	k, ok := v.(*ssa.Const)
	if !ok {
		return false
	}
	if k.Value == nil {
		return true
	}
	return k.Value.ExactString() == "false"
}

func firstPos(b *ssa.BasicBlock) token.Pos {
	for _, in := range b.Instrs {
		if in.Pos().IsValid() {
			return in.Pos()
		}
	}
	return b.Parent().Pos()
}

func blockTrail(c *Ctx, bs []*ssa.BasicBlock) []string {
	var res []string
	for _, b := range bs {
		res = append(res, fmt.Sprintf("block %d (%s) %s", b.Index, b.Comment, c.Pos(firstPos(b))))
	}
	return res
}

// unjustifiedPath: a path entry -> ret that passes no justifier (instruction or edge).
func (pi *parserInfo) unjustifiedPath(fn *ssa.Function, ret *ssa.Return, obeys map[*ssa.Function]bool) []*ssa.BasicBlock {
	// (an earlier version accepted "the next token is =>" in parseExpression as a justifier for the nil of
	// `() => ...`: that was the defect D70 itself - any token was dropped silently before =>)
	edgeJustified := func(b *ssa.BasicBlock, e int) bool {
		ifi, ok := b.Instrs[len(b.Instrs)-1].(*ssa.If)
		if !ok {
			return false
		}
		for _, cc := range expandCond(ifi, ifi.Cond, e, 0) {
			switch x := cc.Cond.(type) {
			case *ssa.Call:
				if isCallTo(x, pi.expectPeek) && cc.Edge == 1 {
					return true
				}
			case *ssa.UnOp:
				if pi.isFieldAddr(x.X, pi.contIdx) && cc.Edge == 0 {
					return true
				}
			case *ssa.BinOp:
				if (x.Op == token.EQL && cc.Edge == 0) || (x.Op == token.NEQ && cc.Edge == 1) {
					var other ssa.Value
					if isNilConst(x.Y) {
						other = x.X
					} else if isNilConst(x.X) {
						other = x.Y
					}
					if other != nil && pi.nilFromObeying(other, obeys) {
						return true
					}
				}
			case *ssa.Extract:
				// !ok of a comma-ok assertion on a parse result: the nil case of an obeying callee is inside it,
				// but a non-nil node of another type is not an error by itself: not a justifier
			}
		}
		return false
	}
	seen := map[*ssa.BasicBlock]bool{}
	var trail []*ssa.BasicBlock
	var walk func(b *ssa.BasicBlock) []*ssa.BasicBlock
	walk = func(b *ssa.BasicBlock) []*ssa.BasicBlock {
		if seen[b] {
			return nil
		}
		seen[b] = true
		trail = append(trail, b)
		defer func() { trail = trail[:len(trail)-1] }()
		for _, in := range b.Instrs {
			if pi.justifies(in) {
				return nil
			}
			if in == ssa.Instruction(ret) {
				return append([]*ssa.BasicBlock(nil), trail...)
			}
		}
		for e, s := range b.Succs {
			if len(b.Succs) == 2 && edgeJustified(b, e) {
				continue
			}
			if p := walk(s); p != nil {
				return p
			}
		}
		return nil
	}
	return walk(fn.Blocks[0])
}

// nilFromObeying: v is the (possibly phi-merged / extracted) result of a parser function that obeys R1.
func (pi *parserInfo) nilFromObeying(v ssa.Value, obeys map[*ssa.Function]bool) bool {
	switch x := v.(type) {
	case *ssa.Call:
		if sc := x.Common().StaticCallee(); sc != nil {
			if ok, known := obeys[sc]; known {
				return ok
			}
			return false
		}
		// call through the registries: every registered parse function must obey
		if !x.Common().IsInvoke() {
			tr := pi.c.TokRel()
			all := true
			for fn := range tr.Keys {
				if ok, known := obeys[fn]; known && !ok {
					all = false
				}
			}
			return all
		}
	case *ssa.Extract:
		if call, ok := x.Tuple.(*ssa.Call); ok {
			return pi.nilFromObeying(call, obeys)
		}
	}
	return false
}

// loopHeaders: blocks that are the target of a back edge.
func loopHeaders(fn *ssa.Function) []*ssa.BasicBlock {
	var res []*ssa.BasicBlock
	for _, b := range fn.Blocks {
		for _, p := range b.Preds {
			if b.Dominates(p) {
				res = append(res, b)
				break
			}
		}
	}
	return res
}

// loopBlocks: the natural loop of header h.
func loopBlocks(h *ssa.BasicBlock) map[*ssa.BasicBlock]bool {
	in := map[*ssa.BasicBlock]bool{h: true}
	var stack []*ssa.BasicBlock
	for _, p := range h.Preds {
		if h.Dominates(p) && !in[p] {
			in[p] = true
			stack = append(stack, p)
		}
	}
	for len(stack) > 0 {
		b := stack[len(stack)-1]
		stack = stack[:len(stack)-1]
		for _, p := range b.Preds {
			if !in[p] {
				in[p] = true
				stack = append(stack, p)
			}
		}
	}
	return in
}

// cycleAvoiding: a cycle h -> ... -> h inside the loop that passes no instruction matching progress.
func cycleAvoiding(h *ssa.BasicBlock, progress func(ssa.Instruction) bool) []*ssa.BasicBlock {
	body := loopBlocks(h)
	seen := map[*ssa.BasicBlock]bool{}
	var trail []*ssa.BasicBlock
	var walk func(b *ssa.BasicBlock, first bool) []*ssa.BasicBlock
	walk = func(b *ssa.BasicBlock, first bool) []*ssa.BasicBlock {
		if b == h && !first {
			return append(append([]*ssa.BasicBlock(nil), trail...), h)
		}
		if seen[b] || !body[b] {
			return nil
		}
		seen[b] = true
		trail = append(trail, b)
		defer func() { trail = trail[:len(trail)-1] }()
		for _, in := range b.Instrs {
			if progress(in) {
				return nil
			}
		}
		for _, s := range b.Succs {
			if p := walk(s, false); p != nil {
				return p
			}
		}
		return nil
	}
	return walk(h, true)
}

// loopExitsOnZero: the loop has an exit edge taken when the byte under test is 0.
func (c *Ctx) loopExitsOnZero(fn *ssa.Function, h *ssa.BasicBlock, li *lexerInfo) (bool, string) {
	body := loopBlocks(h)
	peekChar := c.Fn("lexer", "Lexer.peekChar")
	readChar := c.Fn("lexer", "Lexer.readChar")
	isByteSource := func(v ssa.Value) bool {
		call, ok := v.(*ssa.Call)
		if ok && isCallTo(call, peekChar, readChar) {
			return true
		}
		if phi, ok := v.(*ssa.Phi); ok {
			for _, e := range phi.Edges {
				if ec, ok := e.(*ssa.Call); !ok || !isCallTo(ec, peekChar, readChar) {
					return false
				}
			}
			return true
		}
		return false
	}
	for b := range body {
		ifi, ok := b.Instrs[len(b.Instrs)-1].(*ssa.If)
		if !ok {
			continue
		}
		for e := 0; e < 2; e++ {
			if body[b.Succs[e]] {
				continue // not an exit edge
			}
			// is this exit edge taken when the byte is 0?
			for _, cc := range expandCond(ifi, ifi.Cond, e, 0) {
				switch x := cc.Cond.(type) {
				case *ssa.Call:
					obj := calleeObj(x)
					if obj != nil && isModulePkg(obj.Pkg()) && len(x.Common().Args) == 1 && isByteSource(x.Common().Args[0]) {
						if v, ok := c.evalBytePred(obj, 0, 0); ok && v == (cc.Edge == 0) {
							return true, ""
						}
					}
					// the predicate is handed in as a function (one reader for several digit classes): every function
					// passed at the call sites answers the same at byte 0
					if p, isParam := x.Common().Value.(*ssa.Parameter); isParam && len(x.Common().Args) == 1 && isByteSource(x.Common().Args[0]) {
						if sites, ok := c.argsAtCallSites(p); ok && len(sites) > 0 {
							all := true
							for _, st := range sites {
								pf, isFn := st.v.(*ssa.Function)
								if !isFn || pf.Object() == nil {
									all = false
									break
								}
								tf, _ := pf.Object().(*types.Func)
								if v, ok := c.evalBytePred(tf, 0, 0); tf == nil || !ok || v != (cc.Edge == 0) {
									all = false
									break
								}
							}
							if all {
								return true, ""
							}
						}
					}
				case *ssa.BinOp:
					var bv ssa.Value
					var k int64
					var okk bool
					if isByteSource(x.X) {
						bv = x.X
						k, okk = constInt(x.Y)
					} else if isByteSource(x.Y) {
						bv = x.Y
						k, okk = constInt(x.X)
					}
					if bv == nil || !okk {
						continue
					}
					// evaluate (0 op k)
					var val bool
					switch x.Op {
					case token.EQL:
						val = 0 == k
					case token.NEQ:
						val = 0 != k
					default:
						continue
					}
					if val == (cc.Edge == 0) {
						return true, ""
					}
				}
			}
		}
	}
	// range loops over fixed data terminate by construction
	for _, in := range h.Instrs {
		if phi, ok := in.(*ssa.Phi); ok && strings.HasPrefix(phi.Comment, "range") {
			return true, ""
		}
	}
	return false, "no exit of this loop is taken when the byte under test is 0: at end of input (peekChar returns 0 forever) the loop does not terminate"
}

// ---- parser loops ----

type eofEval struct {
	pi   *parserInfo
	tr   *TokRel
	tok  int64 // the end token type cur and peek are fixed to
	keys map[string]map[int64]bool
}

// evalCond: 1 true, 0 false, -1 unknown, under cur=peek=tok.
func (ev *eofEval) evalCond(v ssa.Value, depth int) int {
	if depth > 6 {
		return -1
	}
	switch x := v.(type) {
	case *ssa.Const:
		if x.Value != nil && x.Value.ExactString() == "true" {
			return 1
		}
		if x.Value != nil && x.Value.ExactString() == "false" {
			return 0
		}
	case *ssa.UnOp:
		if x.Op == token.NOT {
			r := ev.evalCond(x.X, depth+1)
			if r < 0 {
				return -1
			}
			return 1 - r
		}
	case *ssa.Call:
		obj := calleeObj(x)
		if obj == nil {
			return -1
		}
		switch obj {
		case ev.pi.peekTokenIs, ev.pi.curTokenIs, ev.pi.expectPeek:
			if k, ok := constInt(x.Common().Args[1]); ok {
				if k == ev.tok {
					return 1
				}
				return 0
			}
		}
		// a predicate method of the parser (receiver only, boolean result, nothing but token tests): run it
		if callee := x.Common().StaticCallee(); callee != nil && isModuleSSA(callee) && len(x.Common().Args) == 1 && depth < 4 {
			if r := ev.evalPredicate(callee, depth); r >= 0 {
				return r
			}
		}
	case *ssa.BinOp:
		if x.Op == token.EQL || x.Op == token.NEQ {
			eq := -1
			// tokenType == K
			if k, ok := constInt(x.Y); ok {
				if ev.isTokType(x.X) {
					if k == ev.tok {
						eq = 1
					} else {
						eq = 0
					}
				}
			}
			// registry lookup == nil
			if isNilConst(x.Y) || isNilConst(x.X) {
				other := x.X
				if isNilConst(x.X) {
					other = x.Y
				}
				if ev.isNilRegistryLookup(other) {
					eq = 1
				}
			}
			if eq < 0 {
				return -1
			}
			if x.Op == token.NEQ {
				return 1 - eq
			}
			return eq
		}
	case *ssa.Phi:
		// short-circuit phi: all edges must agree
		res := -2
		for _, e := range x.Edges {
			r := ev.evalCond(e, depth+1)
			if r < 0 {
				return -1
			}
			if res == -2 {
				res = r
			} else if res != r {
				return -1
			}
		}
		if res >= 0 {
			return res
		}
	}
	return -1
}

// evalPredicate: the result of a side-effect-free boolean method under cur=peek=tok (-1: undetermined). The
// function is executed block by block; phis are resolved by the edge taken.
func (ev *eofEval) evalPredicate(fn *ssa.Function, depth int) int {
	if fn.Blocks == nil || fn.Signature.Results().Len() != 1 {
		return -1
	}
	// only calls and control flow: no store, no map update
	pure := true
	eachInstr(fn, func(in ssa.Instruction) {
		switch in.(type) {
		case *ssa.Store, *ssa.MapUpdate, *ssa.Send, *ssa.Go, *ssa.Defer, *ssa.Panic:
			pure = false
		}
	})
	if !pure {
		return -1
	}
	blk, prev := fn.Blocks[0], (*ssa.BasicBlock)(nil)
	resolve := func(v ssa.Value) ssa.Value {
		if phi, ok := v.(*ssa.Phi); ok && phi.Block() == blk && prev != nil {
			for i, p := range blk.Preds {
				if p == prev {
					return phi.Edges[i]
				}
			}
		}
		return v
	}
	for steps := 0; steps < 100; steps++ {
		last := blk.Instrs[len(blk.Instrs)-1]
		switch x := last.(type) {
		case *ssa.If:
			r := ev.evalCond(resolve(x.Cond), depth+1)
			if r < 0 {
				return -1
			}
			prev = blk
			if r == 1 {
				blk = blk.Succs[0]
			} else {
				blk = blk.Succs[1]
			}
		case *ssa.Jump:
			prev = blk
			blk = blk.Succs[0]
		case *ssa.Return:
			return ev.evalCond(resolve(x.Results[0]), depth+1)
		default:
			return -1
		}
	}
	return -1
}

// isTokType: v is p.curToken.Type() or p.peekToken.Type() (or a local copy of it).
func (ev *eofEval) isTokType(v ssa.Value) bool {
	call, ok := v.(*ssa.Call)
	if !ok || calleeObj(call) == nil || calleeObj(call).Name() != "Type" || len(call.Common().Args) != 1 {
		return false
	}
	ld, ok := call.Common().Args[0].(*ssa.UnOp)
	if !ok {
		return false
	}
	return ev.pi.isFieldAddr(ld.X, ev.pi.curIdx) || ev.pi.isFieldAddr(ld.X, ev.pi.peekIdx)
}

// isNilRegistryLookup: v = p.<registry>[tokenType] where the end token is not a key of that registry.
func (ev *eofEval) isNilRegistryLookup(v ssa.Value) bool {
	lk, ok := v.(*ssa.Lookup)
	if !ok {
		if ex, ok := v.(*ssa.Extract); ok {
			lk, _ = ex.Tuple.(*ssa.Lookup)
		}
	}
	if lk == nil {
		return false
	}
	ld, ok := lk.X.(*ssa.UnOp)
	if !ok {
		return false
	}
	fa, ok := ld.X.(*ssa.FieldAddr)
	if !ok {
		return false
	}
	n := namedStruct(fa.X.Type())
	if n == nil || n.Obj() != ev.pi.parserT.Obj() {
		return false
	}
	fname := n.Underlying().(*types.Struct).Field(fa.Field).Name()
	reg := map[string]string{"prefixParseFns": "registerPrefix", "infixParseFns": "registerInfix", "postfixParseFns": "registerPostfix"}[fname]
	if reg == "" {
		return false
	}
	// the key must be a token type of cur/peek (possibly via a local)
	if !ev.isTokType(lk.Index) {
		return false
	}
	return !ev.keys[reg][ev.tok]
}

func (c *Ctx) checkParserLoops(r *Report, pi *parserInfo) {
	tr := c.TokRel()
	keys := map[string]map[int64]bool{}
	for _, regs := range tr.Keys {
		for reg, ks := range regs {
			if keys[reg] == nil {
				keys[reg] = map[int64]bool{}
			}
			for k := range ks {
				keys[reg][k] = true
			}
		}
	}
	// functions that shift a token on every normal-return path
	mustShift := map[*ssa.Function]bool{c.SSAFn(pi.nextToken): true}
	shiftsOrReturns := func(in ssa.Instruction) bool {
		if call, ok := in.(ssa.CallInstruction); ok {
			if sc := call.Common().StaticCallee(); sc != nil && mustShift[sc] {
				return true
			}
		}
		return false
	}
	names := c.tokenTypeNames()
	n := 0
	for _, fn := range pi.funcs {
		for _, h := range loopHeaders(fn) {
			isRange := false
			for _, in := range h.Instrs {
				if phi, ok := in.(*ssa.Phi); ok && strings.HasPrefix(phi.Comment, "range") {
					isRange = true
				}
			}
			if isRange {
				continue // bounded by the length of an existing slice
			}
			n++
			desc := fmt.Sprintf("loop %s", h.Comment)
			if cyc := cycleAvoiding(h, shiftsOrReturns); cyc != nil {
				r.Fail("C08.R2", ssaFuncName(fn), desc+" consumes a token on every cycle", c.Pos(firstPos(h)), "a cycle through the loop consumes no token: the parser can spin (and allocate) forever", blockTrail(c, cyc)...)
			} else {
				r.Ok("C08.R2", ssaFuncName(fn), desc+" consumes a token on every cycle", c.Pos(firstPos(h)))
			}
			for _, end := range []string{"EOF", "EOL"} {
				ev := &eofEval{pi: pi, tr: tr, tok: c.tokenConst(end), keys: keys}
				body := loopBlocks(h)
				seen := map[*ssa.BasicBlock]bool{}
				var trail []*ssa.BasicBlock
				var walk func(b *ssa.BasicBlock, first bool) []*ssa.BasicBlock
				walk = func(b *ssa.BasicBlock, first bool) []*ssa.BasicBlock {
					if b == h && !first {
						return append(append([]*ssa.BasicBlock(nil), trail...), h)
					}
					if seen[b] || !body[b] {
						return nil
					}
					seen[b] = true
					trail = append(trail, b)
					defer func() { trail = trail[:len(trail)-1] }()
					if ifi, ok := b.Instrs[len(b.Instrs)-1].(*ssa.If); ok {
						switch ev.evalCond(ifi.Cond, 0) {
						case 1:
							return walk(b.Succs[0], false)
						case 0:
							return walk(b.Succs[1], false)
						}
					}
					for _, s := range b.Succs {
						if p := walk(s, false); p != nil {
							return p
						}
					}
					return nil
				}
				cyc := walk(h, true)
				d := fmt.Sprintf("%s cannot complete a cycle when the current and next tokens are %s", desc, names[ev.tok])
				if cyc != nil {
					r.Fail("C08.R2", ssaFuncName(fn), d, c.Pos(firstPos(h)), "with the lexer stuck on "+end+" (it returns the end marker forever) the loop can go round: the parser does not terminate on truncated input", blockTrail(c, cyc)...)
				} else {
					r.Ok("C08.R2", ssaFuncName(fn), d, c.Pos(firstPos(h)))
				}
			}
		}
	}
	if n < 5 {
		r.Undecided("C08.R2: only %d parser loops found", n)
	}
}

// ---- R5: nil derefs inside the parser ----

func (c *Ctx) checkParserNilDerefs(r *Report, pi *parserInfo) {
	nodeT := c.TypeNamed("ast", "Node")
	n := 0
	for _, fn := range pi.funcs {
		eachInstr(fn, func(in ssa.Instruction) {
			call, ok := in.(*ssa.Call)
			if !ok || !call.Common().IsInvoke() {
				return
			}
			recv := call.Common().Value
			if !types.Identical(recv.Type(), nodeT) {
				return
			}
			// possibly nil: element of a []ast.Node (parsed list) or a direct parse result
			src := ""
			switch x := recv.(type) {
			case *ssa.UnOp:
				if ia, ok := x.X.(*ssa.IndexAddr); ok {
					if sl, ok := ia.X.Type().Underlying().(*types.Slice); ok && types.Identical(sl.Elem(), nodeT) {
						src = "element of a node list"
					}
				}
			case *ssa.Call:
				if sc := x.Common().StaticCallee(); sc != nil && nilableResult(sc) && isModuleSSA(sc) {
					src = "result of " + sc.Name()
				}
			}
			if src == "" {
				return
			}
			n++
			guarded := false
			for _, cc := range controlling(call.Block()) {
				if bin, ok := cc.Cond.(*ssa.BinOp); ok && (isNilConst(bin.X) || isNilConst(bin.Y)) {
					o := bin.X
					if isNilConst(bin.X) {
						o = bin.Y
					}
					if o == recv || sameExpr(o, recv) {
						if (bin.Op == token.NEQ && cc.Edge == 0) || (bin.Op == token.EQL && cc.Edge == 1) {
							guarded = true
						}
					}
				}
			}
			r.Check(guarded, "C08.R5", ssaFuncName(fn), "method call on "+src+" after a nil test", c.Pos(call.Pos()),
				"parse functions return nil for a missing or malformed child; this "+src+" is dereferenced without a nil test (nil pointer dereference on e.g. `(a,;,b)=>1`)")
		})
	}
	if n == 0 {
		r.Undecided("C08.R5: no method call on parsed list elements found in the parser")
	}
}

// ---- R4: optional children ----

func (c *Ctx) checkOptionalChildren(r *Report, pi *parserInfo) {
	// optional fields: for node allocations in the parser, child fields not stored on some path to a return of that node
	type fieldRef struct {
		t string
		f string
	}
	optional := map[fieldRef]string{}
	isChildType := func(t types.Type) bool {
		switch u := t.(type) {
		case *types.Named:
			return shortPkg(u.Obj().Pkg()) == "ast" && u.Obj().Name() == "Node"
		case *types.Pointer:
			n, ok := u.Elem().(*types.Named)
			return ok && shortPkg(n.Obj().Pkg()) == "ast"
		}
		return false
	}
	for _, fn := range pi.funcs {
		eachInstr(fn, func(in ssa.Instruction) {
			al, ok := in.(*ssa.Alloc)
			if !ok {
				return
			}
			n := namedStruct(al.Type())
			if n == nil || shortPkg(n.Obj().Pkg()) != "ast" {
				return
			}
			st := n.Underlying().(*types.Struct)
			for i := 0; i < st.NumFields(); i++ {
				if !isChildType(st.Field(i).Type()) {
					continue
				}
				fi := i
				// returns of this alloc reachable without a store to field i
				bad := mustPassBefore(al, func(x ssa.Instruction) bool {
					s, ok := x.(*ssa.Store)
					if !ok {
						return false
					}
					fa, ok := s.Addr.(*ssa.FieldAddr)
					return ok && fa.X == ssa.Value(al) && fa.Field == fi && !isNilConst(s.Val)
				}, func(x ssa.Instruction) bool {
					ret, ok := x.(*ssa.Return)
					if !ok || len(ret.Results) == 0 {
						return false
					}
					v := ret.Results[0]
					if mi, ok := v.(*ssa.MakeInterface); ok {
						v = mi.X
					}
					return v == ssa.Value(al)
				})
				if bad != nil {
					optional[fieldRef{n.Obj().Name(), st.Field(i).Name()}] = ssaFuncName(fn)
				}
			}
		})
	}
	var keys []fieldRef
	for k := range optional {
		keys = append(keys, k)
	}
	sort.Slice(keys, func(i, j int) bool { return keys[i].t+keys[i].f < keys[j].t+keys[j].f })
	var names []string
	for _, k := range keys {
		names = append(names, k.t+"."+k.f)
	}
	r.Note("C08.R4: optional children derived from the parser: %s", strings.Join(names, ", "))
	if len(keys) < 3 {
		r.Undecided("C08.R4: only %d optional child fields derived (expected ReturnValue, Alternative, Name, Right ...)", len(keys))
	}
	// printers: functions in package ast reachable from PrettyPrint methods
	for _, fn := range c.ModuleSSAFuncs() {
		if fn.Pkg == nil || shortPkg(fn.Pkg.Pkg) != "ast" {
			continue
		}
		if fn.Name() == "Modify" {
			continue
		}
		eachInstr(fn, func(in ssa.Instruction) {
			// dereference: invoke on loaded field / call with loaded pointer field as receiver / field access through it
			var recv ssa.Value
			switch x := in.(type) {
			case *ssa.Call:
				if x.Common().IsInvoke() {
					recv = x.Common().Value
				} else if sc := x.Common().StaticCallee(); sc != nil && sc.Signature.Recv() != nil && len(x.Common().Args) > 0 {
					recv = x.Common().Args[0]
				}
			case *ssa.FieldAddr:
				recv = x.X
			}
			if recv == nil {
				return
			}
			ld, ok := recv.(*ssa.UnOp)
			if !ok {
				return
			}
			fa, ok := ld.X.(*ssa.FieldAddr)
			if !ok {
				return
			}
			n := namedStruct(fa.X.Type())
			if n == nil || shortPkg(n.Obj().Pkg()) != "ast" {
				return
			}
			fr := fieldRef{n.Obj().Name(), n.Underlying().(*types.Struct).Field(fa.Field).Name()}
			where, isOpt := optional[fr]
			if !isOpt {
				return
			}
			guarded := false
			for _, cc := range controlling(in.Block()) {
				if bin, ok := cc.Cond.(*ssa.BinOp); ok && (isNilConst(bin.X) || isNilConst(bin.Y)) {
					o := bin.X
					if isNilConst(bin.X) {
						o = bin.Y
					}
					if sameExpr(o, recv) || sameValue(o, recv) {
						if (bin.Op == token.NEQ && cc.Edge == 0) || (bin.Op == token.EQL && cc.Edge == 1) {
							guarded = true
						}
					}
				}
			}
			// a callee only reached under the caller's nil test (printElse)
			if !guarded {
				guarded = c.calleeGuardedByCallers(fn, fr.t, fr.f)
			}
			r.Check(guarded, "C08.R4", ssaFuncName(fn), "optional child "+fr.t+"."+fr.f+" is nil-tested before use", c.Pos(in.Pos()),
				"the parser ("+where+") can return a "+fr.t+" whose "+fr.f+" is nil without reporting an error; the printer dereferences it")
		})
	}
}

// calleeGuardedByCallers: every caller of fn calls it under a nil test of the same field.
func (c *Ctx) calleeGuardedByCallers(fn *ssa.Function, tname, fname string) bool {
	node := c.CG().g.Nodes[fn]
	if node == nil || len(node.In) == 0 {
		return false
	}
	n := 0
	for _, e := range node.In {
		if e.Site == nil || e.Site.Common().StaticCallee() != fn {
			continue
		}
		if e.Caller.Func.Synthetic != "" && len(e.Caller.In) == 0 {
			continue
		}
		n++
		ok := false
		for _, cc := range controlling(e.Site.Block()) {
			bin, isBin := cc.Cond.(*ssa.BinOp)
			if !isBin || !(isNilConst(bin.X) || isNilConst(bin.Y)) {
				continue
			}
			o := bin.X
			if isNilConst(bin.X) {
				o = bin.Y
			}
			if ld, isLd := o.(*ssa.UnOp); isLd {
				if fa, isFa := ld.X.(*ssa.FieldAddr); isFa {
					if nn := namedStruct(fa.X.Type()); nn != nil && nn.Obj().Name() == tname && nn.Underlying().(*types.Struct).Field(fa.Field).Name() == fname {
						if (bin.Op == token.NEQ && cc.Edge == 0) || (bin.Op == token.EQL && cc.Edge == 1) {
							ok = true
						}
					}
				}
			}
		}
		if !ok {
			return false
		}
	}
	return n > 0
}

func init() {
	register("C08", &propDef{
		explain: "Totality rules for the front end decided on code shape: every `return nil` of the parser is justified on every path (error, continuation, or propagated from a callee that obeys the rule); every lexer loop advances the position on every cycle and exits on byte 0 (predicates constant-folded at 0); every parser loop consumes a token per cycle and, partially evaluated with current = next = end marker (EOF and EOL, registry lookups resolved from the registration table), cannot complete a cycle; error rendering clamps its counts and slices; children the parser may leave nil are nil-tested by the printers; possibly-nil list elements are tested before use inside the parser. These hold for all byte strings rather than for strings up to a length. Also: index/slice bounds into operands of compile-time length (arrays, string constants, once-initialised package-level slices) are bounded by type or by a dominating constant comparison.",
		assume:  []string{"termination of the parser's recursion (as opposed to its loops) follows from each recursive call consuming input, which is not checked here", "the printers' panic on an unknown precedence is covered under C02.R3"},
		run:     runC08,
	})
}

// checkFixedLengthOperands: see rule C08.R7.
func (c *Ctx) checkFixedLengthOperands(r *Report, rule string, pkgs map[string]bool) {
	generated := map[string]bool{}
	for _, p := range c.Mod {
		for _, f := range p.Syntax {
			generated[c.Fset.Position(f.Pos()).Filename] = ast.IsGenerated(f)
		}
	}
	// package-level slices/strings written exactly once, with a constant-length value
	globalLen := map[*ssa.Global]int64{}
	writes := map[*ssa.Global]int{}
	writers := c.ModuleSSAFuncs()
	for _, p := range c.Mod {
		if sp := c.SSA().Package(p.Types); sp != nil {
			if ini := sp.Func("init"); ini != nil && ini.Blocks != nil {
				writers = append(writers, ini) // the synthetic package initialiser holds the variable initialisers
			}
		}
	}
	for _, fn := range writers {
		eachInstr(fn, func(in ssa.Instruction) {
			st, ok := in.(*ssa.Store)
			if !ok {
				return
			}
			g, ok := st.Addr.(*ssa.Global)
			if !ok {
				return
			}
			writes[g]++
			if n, ok := constLenOf(st.Val); ok && fn.Name() == "init" {
				globalLen[g] = n
			} else {
				writes[g] += 2
			}
		})
	}
	// globals whose address is taken otherwise (passed around) are not tracked
	n := 0
	for _, fn := range c.ModuleSSAFuncs() {
		if fn.Pkg == nil || !pkgs[shortPkg(fn.Pkg.Pkg)] {
			continue
		}
		if generated[c.Fset.Position(fn.Pos()).Filename] {
			continue
		}
		fname := ssaFuncName(fn)
		counts := map[string]int{}
		eachInstr(fn, func(in ssa.Instruction) {
			var operand ssa.Value
			type bound struct {
				v      ssa.Value
				strict bool
				what   string
			}
			var bounds []bound
			switch x := in.(type) {
			case *ssa.IndexAddr:
				operand, bounds = x.X, []bound{{x.Index, true, "index"}}
			case *ssa.Index:
				operand, bounds = x.X, []bound{{x.Index, true, "index"}}
			case *ssa.Lookup:
				if _, isStr := x.X.Type().Underlying().(*types.Basic); isStr {
					operand, bounds = x.X, []bound{{x.Index, true, "index"}}
				}
			case *ssa.Slice:
				operand = x.X
				if x.Low != nil {
					bounds = append(bounds, bound{x.Low, false, "low bound"})
				}
				if x.High != nil {
					bounds = append(bounds, bound{x.High, false, "high bound"})
				}
			}
			if operand == nil {
				return
			}
			var length int64 = -1
			origin := ""
			t := operand.Type().Underlying()
			if p, ok := t.(*types.Pointer); ok {
				t = p.Elem().Underlying()
			}
			if a, ok := t.(*types.Array); ok {
				length, origin = a.Len(), fmt.Sprintf("array of %d", a.Len())
			} else if k, ok := constLenOf(operand); ok {
				length, origin = k, fmt.Sprintf("constant of length %d", k)
			} else if ld, ok := operand.(*ssa.UnOp); ok && ld.Op == token.MUL {
				if g, ok := ld.X.(*ssa.Global); ok && writes[g] == 1 {
					if k, ok := globalLen[g]; ok {
						length, origin = k, fmt.Sprintf("package-level %s of length %d", g.Name(), k)
					}
				}
			}
			if length < 0 {
				return
			}
			for _, bd := range bounds {
				if _, isConst := bd.v.(*ssa.Const); isConst {
					continue // the compiler rejects constant indices out of range of arrays/constants
				}
				n++
				kind := bd.what + " into " + strings.SplitN(origin, " of length", 2)[0]
				counts[kind]++
				desc := fmt.Sprintf("%s #%d is bounded by the fixed length", kind, counts[kind])
				limit := length
				ok, how := false, ""
				if bt, isBasic := stripConvert(bd.v).Type().Underlying().(*types.Basic); isBasic {
					var max int64 = -1
					switch bt.Kind() {
					case types.Uint8:
						max = 255
					case types.Uint16:
						max = 65535
					}
					if max >= 0 && ((bd.strict && max < limit) || (!bd.strict && max <= limit)) {
						ok, how = true, "by type: "+bt.Name()
					}
				}
				if !ok && constUpper(bd.v, in.Block(), limit, bd.strict) {
					ok, how = true, "by a dominating comparison with a constant"
				}
				if !ok {
					// x - k / x + k with a constant bound on x
					if bin, isBin := stripConvert(bd.v).(*ssa.BinOp); isBin {
						if k, isK := constInt(bin.Y); isK {
							switch bin.Op {
							case token.SUB:
								if k >= 0 && constUpper(bin.X, in.Block(), limit+k, bd.strict) {
									ok, how = true, "by a dominating comparison of the minuend with a constant"
								}
							case token.ADD:
								if constUpper(bin.X, in.Block(), limit-k, bd.strict) {
									ok, how = true, "by a dominating comparison of the addend with a constant"
								}
							}
						}
					}
				}
				if ok {
					r.OkWhy(rule, fname, desc, c.Pos(in.Pos()), how)
				} else {
					r.Fail(rule, fname, desc, c.Pos(in.Pos()), fmt.Sprintf("the %s (%s) is not bounded by the operand's fixed length %d (%s): for a large enough value the operation panics (index / slice bounds out of range)", bd.what, bd.v.String(), length, origin))
				}
			}
		})
	}
	if n == 0 {
		r.Undecided("%s: no index/slice into a fixed-length operand found (expected the trie's 256-entry child tables)", rule)
	}
	r.Floor(rule, 6)
}

// constLenOf: the value is a string constant, or a []byte/[]rune conversion / slice of one.
func constLenOf(v ssa.Value) (int64, bool) {
	switch x := v.(type) {
	case *ssa.Const:
		if x.Value != nil && x.Value.Kind() == constant.String {
			return int64(len(constant.StringVal(x.Value))), true
		}
	case *ssa.Convert:
		if k, ok := x.X.(*ssa.Const); ok && k.Value != nil && k.Value.Kind() == constant.String {
			if sl, ok := x.Type().Underlying().(*types.Slice); ok {
				if b, ok := sl.Elem().Underlying().(*types.Basic); ok && b.Kind() == types.Uint8 {
					return int64(len(constant.StringVal(k.Value))), true
				}
			}
		}
	case *ssa.Slice:
		if x.Low == nil && x.High == nil {
			if p, ok := x.X.Type().Underlying().(*types.Pointer); ok {
				if a, ok := p.Elem().Underlying().(*types.Array); ok {
					return a.Len(), true
				}
			}
		}
	}
	return 0, false
}
